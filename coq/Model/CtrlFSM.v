(* Model/CtrlFSM.v — the controller state machine of pkg/controller/fsm applied to
   the cluster state of pkg/controller/state.

   Transcribed, one Gallina definition per Go function and with the same names:
     state/normalize.go   Normalize, normalizeTaskProgress
     state/validate.go    Validate and every validateXxx helper (the scheduled-backup
                          and ops-MCP credential sub-validators are opaque flags, see SBlob/OBlob)
     state/hashslots.go   BuildInitialHashSlotTable
     fsm/mutation_helpers.go   upsertNode, upsertAssignment, upsertTask, upsertNodeHealthReport,
                          equivalentXxx, findXxx, sameUint64Set, replacePeer, truncateUTF8, ...
     fsm/mutation_guards.go    handleXxxRevisionMismatch, isNonBootstrapIdempotent,
                          equivalentLeaderTransferTaskIgnoringID, validateChanged, nextUpdatedAt
     fsm/mutation_handlers.go  every applyXxx handler, taskResultGuard, taskProgressGuard,
                          validateSlotReplicaMovePhaseAdvance, initialStateFromCommand
     fsm/mutations.go     applyMutation
     fsm/task_transition.go    taskTransitionsForCommand (ids and validity flags of the edges)
     fsm/fsm.go           ApplyBatch (frame), Load (restart), the Store interface as one cell
   Definitions only.  Go strings are [bytes]; uint32/uint64 increments wrap.
   Slices are lists: nil and empty are not distinguished (they never differ on states that pass
   Validate, and commands reach the machine through the JSON command codec).
   A time.Time is an [N]: 0 = the zero time, otherwise Unix nanoseconds.
   state.Checksum (JSON + CRC-32C) is a parameter [ck] of the frame.

   The frame ([apply_loop], [ApplyBatch], [run_steps]) is generic in the state type
   and in the mutation function so that Proof/CtrlFSM.v can prove the frame theorems
   from an explicit handler contract; [c_*] below instantiate it with the
   transcribed handlers. *)
From WK Require Import Base.Base.
From WK Require Import Gen.Consts_C18.
Open Scope N_scope.

(* ---- generic helpers ----------------------------------------------------------- *)

Fixpoint bytes_ltb (a b : bytes) : bool :=
  match a, b with
  | [], [] => false
  | [], _ :: _ => true
  | _ :: _, [] => false
  | x :: a', y :: b' => if x <? y then true else if y <? x then false else bytes_ltb a' b'
  end.

Definition lenN {A} (l : list A) : N := N.of_nat (length l).
Definition is_empty {A} (l : list A) : bool := match l with [] => true | _ => false end.
Definition Nlist_eqb : list N -> list N -> bool := list_eqb N.eqb.
Definition memN (x : N) (l : list N) : bool := existsb (N.eqb x) l.
Definition mem_bytes (x : bytes) (l : list bytes) : bool := existsb (bytes_eqb x) l.

Fixpoint nodupb {A} (eqb : A -> A -> bool) (l : list A) : bool :=
  match l with
  | [] => true
  | x :: r => negb (existsb (eqb x) r) && nodupb eqb r
  end.

(* sort.Slice(less) on the lists met here: stable insertion sort.  (Go's pdqsort is an
   insertion sort up to 12 elements; on longer lists the two can only differ in the order of
   elements with equal keys, which Validate rejects for every keyed list of the state.) *)
Section Sort.
  Context {A : Type} (ltb : A -> A -> bool).
  Fixpoint insert (x : A) (l : list A) : list A :=
    match l with
    | [] => [x]
    | y :: r => if ltb y x then y :: insert x r else x :: y :: r
    end.
  Fixpoint isort (l : list A) : list A :=
    match l with
    | [] => []
    | x :: r => insert x (isort r)
    end.
End Sort.

Definition sortN : list N -> list N := isort N.ltb.
Definition sort_bytes : list bytes -> list bytes := isort bytes_ltb.

Definition wrap32_succ (x : N) : N := wrap32 (x + 1).
Definition wrap64_succ (x : N) : N := wrap64 (x + 1).

(* ---- pkg/controller/state types -------------------------------------------------- *)

Record Node := Nd { n_id : N; n_name : bytes; n_addr : bytes; n_roles : list bytes;
                    n_join : bytes; n_status : bytes; n_weight : N }.
Record Voter := CV { cv_id : N; cv_addr : bytes; cv_role : bytes }.
Record Assign := SA { sa_slot : N; sa_peers : list N; sa_epoch : N; sa_leader : N }.
Record HRange := HR { hr_from : N; hr_to : N; hr_slot : N }.
Record HTable := HT { ht_version : N; ht_count : N; ht_ranges : list HRange }.
Record Progress := PP { pp_node : N; pp_attempt : N; pp_status : bytes; pp_err : bytes }.
Record Task := TK { t_id : bytes; t_slot : N; t_kind : bytes; t_step : bytes; t_source : N;
                    t_target : N; t_peers : list N; t_policy : bytes; t_progress : list Progress;
                    t_epoch : N; t_attempt : N; t_status : bytes; t_err : bytes; t_phase : N;
                    t_obs_index : N; t_obs_voters : list N; t_obs_learners : list N }.
Record Health := HRp { h_node : N; h_status : bytes; h_ready : bool; h_ctrl_rev : N; h_slot_rev : N;
                       h_seq : N; h_at : Z; h_applied : N; h_code : bytes }.
Record Config := Cfg { c_slots : N; c_hashslots : N; c_replicas : N; c_weight : N }.
(* ScheduledBackupState, opaque: [sb_id] names its (normalized) JSON value; [sb_valid] is
   validateScheduledBackup; the two flags are ActiveBackup != nil / ActiveRestore != nil. *)
Record SBlob := SB { sb_id : N; sb_valid : bool; sb_backup : bool; sb_restore : bool }.
(* OpsMCPState, opaque but for Enabled and OwnerNodeID: [ob_core] is validateOpsMCP without its
   owner-node lookup (credential count / ids / digests / fence / enabled requirements). *)
Record OBlob := OB { ob_id : N; ob_core : bool; ob_enabled : bool; ob_owner : N }.

Record CState := CS {
  s_schema : N; s_cluster : bytes; s_rev : N; s_applied : N; s_updated : N; s_config : Config;
  s_controllers : list Voter; s_nodes : list Node; s_slots : list Assign; s_health : list Health;
  s_hashslots : HTable; s_tasks : list Task; s_sb : option SBlob; s_ops : option OBlob;
  s_checksum : bytes }.

(* ClusterState{} *)
Definition empty_state : CState :=
  CS 0 [] 0 0 0 (Cfg 0 0 0 0) [] [] [] [] (HT 0 0 []) [] None None [].

(* field updates (Go: st.X = v) *)
Definition set_rev (s : CState) (v : N) : CState :=
  CS (s_schema s) (s_cluster s) v (s_applied s) (s_updated s) (s_config s) (s_controllers s) (s_nodes s)
     (s_slots s) (s_health s) (s_hashslots s) (s_tasks s) (s_sb s) (s_ops s) (s_checksum s).
Definition set_applied (s : CState) (v : N) : CState :=
  CS (s_schema s) (s_cluster s) (s_rev s) v (s_updated s) (s_config s) (s_controllers s) (s_nodes s)
     (s_slots s) (s_health s) (s_hashslots s) (s_tasks s) (s_sb s) (s_ops s) (s_checksum s).
Definition set_updated (s : CState) (v : N) : CState :=
  CS (s_schema s) (s_cluster s) (s_rev s) (s_applied s) v (s_config s) (s_controllers s) (s_nodes s)
     (s_slots s) (s_health s) (s_hashslots s) (s_tasks s) (s_sb s) (s_ops s) (s_checksum s).
Definition set_controllers (s : CState) (v : list Voter) : CState :=
  CS (s_schema s) (s_cluster s) (s_rev s) (s_applied s) (s_updated s) (s_config s) v (s_nodes s)
     (s_slots s) (s_health s) (s_hashslots s) (s_tasks s) (s_sb s) (s_ops s) (s_checksum s).
Definition set_nodes (s : CState) (v : list Node) : CState :=
  CS (s_schema s) (s_cluster s) (s_rev s) (s_applied s) (s_updated s) (s_config s) (s_controllers s) v
     (s_slots s) (s_health s) (s_hashslots s) (s_tasks s) (s_sb s) (s_ops s) (s_checksum s).
Definition set_slots (s : CState) (v : list Assign) : CState :=
  CS (s_schema s) (s_cluster s) (s_rev s) (s_applied s) (s_updated s) (s_config s) (s_controllers s) (s_nodes s)
     v (s_health s) (s_hashslots s) (s_tasks s) (s_sb s) (s_ops s) (s_checksum s).
Definition set_health (s : CState) (v : list Health) : CState :=
  CS (s_schema s) (s_cluster s) (s_rev s) (s_applied s) (s_updated s) (s_config s) (s_controllers s) (s_nodes s)
     (s_slots s) v (s_hashslots s) (s_tasks s) (s_sb s) (s_ops s) (s_checksum s).
Definition set_hashslots (s : CState) (v : HTable) : CState :=
  CS (s_schema s) (s_cluster s) (s_rev s) (s_applied s) (s_updated s) (s_config s) (s_controllers s) (s_nodes s)
     (s_slots s) (s_health s) v (s_tasks s) (s_sb s) (s_ops s) (s_checksum s).
Definition set_tasks (s : CState) (v : list Task) : CState :=
  CS (s_schema s) (s_cluster s) (s_rev s) (s_applied s) (s_updated s) (s_config s) (s_controllers s) (s_nodes s)
     (s_slots s) (s_health s) (s_hashslots s) v (s_sb s) (s_ops s) (s_checksum s).
Definition set_sb (s : CState) (v : option SBlob) : CState :=
  CS (s_schema s) (s_cluster s) (s_rev s) (s_applied s) (s_updated s) (s_config s) (s_controllers s) (s_nodes s)
     (s_slots s) (s_health s) (s_hashslots s) (s_tasks s) v (s_ops s) (s_checksum s).
Definition set_ops (s : CState) (v : option OBlob) : CState :=
  CS (s_schema s) (s_cluster s) (s_rev s) (s_applied s) (s_updated s) (s_config s) (s_controllers s) (s_nodes s)
     (s_slots s) (s_health s) (s_hashslots s) (s_tasks s) (s_sb s) v (s_checksum s).
Definition set_checksum (s : CState) (v : bytes) : CState :=
  CS (s_schema s) (s_cluster s) (s_rev s) (s_applied s) (s_updated s) (s_config s) (s_controllers s) (s_nodes s)
     (s_slots s) (s_health s) (s_hashslots s) (s_tasks s) (s_sb s) (s_ops s) v.

(* task field updates *)
Definition t_with_peers (t : Task) (peers : list N) (policy : bytes) (progress : list Progress)
           (voters learners : list N) : Task :=
  TK (t_id t) (t_slot t) (t_kind t) (t_step t) (t_source t) (t_target t) peers policy progress
     (t_epoch t) (t_attempt t) (t_status t) (t_err t) (t_phase t) (t_obs_index t) voters learners.
Definition t_set_id (t : Task) (v : bytes) : Task :=
  TK v (t_slot t) (t_kind t) (t_step t) (t_source t) (t_target t) (t_peers t) (t_policy t) (t_progress t)
     (t_epoch t) (t_attempt t) (t_status t) (t_err t) (t_phase t) (t_obs_index t) (t_obs_voters t) (t_obs_learners t).
Definition t_set_progress (t : Task) (v : list Progress) : Task :=
  TK (t_id t) (t_slot t) (t_kind t) (t_step t) (t_source t) (t_target t) (t_peers t) (t_policy t) v
     (t_epoch t) (t_attempt t) (t_status t) (t_err t) (t_phase t) (t_obs_index t) (t_obs_voters t) (t_obs_learners t).
Definition t_set_status (t : Task) (v : bytes) : Task :=
  TK (t_id t) (t_slot t) (t_kind t) (t_step t) (t_source t) (t_target t) (t_peers t) (t_policy t) (t_progress t)
     (t_epoch t) (t_attempt t) v (t_err t) (t_phase t) (t_obs_index t) (t_obs_voters t) (t_obs_learners t).

(* ---- structural equality (reflect.DeepEqual on these types) ------------------------ *)

Definition Node_eqb (a b : Node) : bool :=
  (n_id a =? n_id b) && bytes_eqb (n_name a) (n_name b) && bytes_eqb (n_addr a) (n_addr b)
  && list_eqb bytes_eqb (n_roles a) (n_roles b) && bytes_eqb (n_join a) (n_join b)
  && bytes_eqb (n_status a) (n_status b) && (n_weight a =? n_weight b).
Definition Voter_eqb (a b : Voter) : bool :=
  (cv_id a =? cv_id b) && bytes_eqb (cv_addr a) (cv_addr b) && bytes_eqb (cv_role a) (cv_role b).
Definition Assign_eqb (a b : Assign) : bool :=
  (sa_slot a =? sa_slot b) && Nlist_eqb (sa_peers a) (sa_peers b) && (sa_epoch a =? sa_epoch b)
  && (sa_leader a =? sa_leader b).
Definition HRange_eqb (a b : HRange) : bool :=
  (hr_from a =? hr_from b) && (hr_to a =? hr_to b) && (hr_slot a =? hr_slot b).
Definition HTable_eqb (a b : HTable) : bool :=
  (ht_version a =? ht_version b) && (ht_count a =? ht_count b) && list_eqb HRange_eqb (ht_ranges a) (ht_ranges b).
Definition Progress_eqb (a b : Progress) : bool :=
  (pp_node a =? pp_node b) && (pp_attempt a =? pp_attempt b) && bytes_eqb (pp_status a) (pp_status b)
  && bytes_eqb (pp_err a) (pp_err b).
Definition Task_eqb (a b : Task) : bool :=
  bytes_eqb (t_id a) (t_id b) && (t_slot a =? t_slot b) && bytes_eqb (t_kind a) (t_kind b)
  && bytes_eqb (t_step a) (t_step b) && (t_source a =? t_source b) && (t_target a =? t_target b)
  && Nlist_eqb (t_peers a) (t_peers b) && bytes_eqb (t_policy a) (t_policy b)
  && list_eqb Progress_eqb (t_progress a) (t_progress b) && (t_epoch a =? t_epoch b)
  && (t_attempt a =? t_attempt b) && bytes_eqb (t_status a) (t_status b) && bytes_eqb (t_err a) (t_err b)
  && (t_phase a =? t_phase b) && (t_obs_index a =? t_obs_index b)
  && Nlist_eqb (t_obs_voters a) (t_obs_voters b) && Nlist_eqb (t_obs_learners a) (t_obs_learners b).
Definition Health_eqb (a b : Health) : bool :=
  (h_node a =? h_node b) && bytes_eqb (h_status a) (h_status b) && Bool.eqb (h_ready a) (h_ready b)
  && (h_ctrl_rev a =? h_ctrl_rev b) && (h_slot_rev a =? h_slot_rev b) && (h_seq a =? h_seq b)
  && Z.eqb (h_at a) (h_at b) && (h_applied a =? h_applied b) && bytes_eqb (h_code a) (h_code b).
Definition Config_eqb (a b : Config) : bool :=
  (c_slots a =? c_slots b) && (c_hashslots a =? c_hashslots b) && (c_replicas a =? c_replicas b)
  && (c_weight a =? c_weight b).
Definition SBlob_eqb (a b : SBlob) : bool :=
  (sb_id a =? sb_id b) && Bool.eqb (sb_valid a) (sb_valid b) && Bool.eqb (sb_backup a) (sb_backup b)
  && Bool.eqb (sb_restore a) (sb_restore b).
Definition OBlob_eqb (a b : OBlob) : bool :=
  (ob_id a =? ob_id b) && Bool.eqb (ob_core a) (ob_core b) && Bool.eqb (ob_enabled a) (ob_enabled b)
  && (ob_owner a =? ob_owner b).
(* equality of whole states but for the checksum field *)
Definition CState_body_eqb (a b : CState) : bool :=
  (s_schema a =? s_schema b) && bytes_eqb (s_cluster a) (s_cluster b) && (s_rev a =? s_rev b)
  && (s_applied a =? s_applied b) && (s_updated a =? s_updated b) && Config_eqb (s_config a) (s_config b)
  && list_eqb Voter_eqb (s_controllers a) (s_controllers b) && list_eqb Node_eqb (s_nodes a) (s_nodes b)
  && list_eqb Assign_eqb (s_slots a) (s_slots b) && list_eqb Health_eqb (s_health a) (s_health b)
  && HTable_eqb (s_hashslots a) (s_hashslots b) && list_eqb Task_eqb (s_tasks a) (s_tasks b)
  && option_eqb SBlob_eqb (s_sb a) (s_sb b) && option_eqb OBlob_eqb (s_ops a) (s_ops b).
Definition CState_eqb (a b : CState) : bool :=
  CState_body_eqb a b && bytes_eqb (s_checksum a) (s_checksum b).

(* ---- state/normalize.go ------------------------------------------------------------ *)

Definition Progress_ltb (a b : Progress) : bool := pp_node a <? pp_node b.
Definition Voter_ltb (a b : Voter) : bool := cv_id a <? cv_id b.
Definition Node_ltb (a b : Node) : bool := n_id a <? n_id b.
Definition Assign_ltb (a b : Assign) : bool := sa_slot a <? sa_slot b.
Definition Health_ltb (a b : Health) : bool := h_node a <? h_node b.
Definition HRange_ltb (a b : HRange) : bool :=
  if hr_from a =? hr_from b then hr_to a <? hr_to b else hr_from a <? hr_from b.
Definition Task_ltb (a b : Task) : bool :=
  if t_slot a =? t_slot b then bytes_ltb (t_id a) (t_id b) else t_slot a <? t_slot b.

Definition pending_progress (peers : list N) : list Progress :=
  map (fun p => PP p 0 TaskParticipantStatusPending []) peers.

(* the per-task part of Normalize: the three peer sorts followed by normalizeTaskProgress *)
Definition normalizeTaskProgress (t : Task) : Task :=
  let policy :=
      if is_empty (t_policy t) then
        if bytes_eqb (t_kind t) TaskKindBootstrap then TaskCompletionPolicyAllTargetPeers
        else if bytes_eqb (t_kind t) TaskKindLeaderTransfer then TaskCompletionPolicySingleObserver
        else if bytes_eqb (t_kind t) TaskKindSlotReplicaMove then TaskCompletionPolicySingleObserver
        else t_policy t
      else t_policy t in
  let progress :=
      if bytes_eqb policy TaskCompletionPolicyAllTargetPeers && is_empty (t_progress t)
      then pending_progress (t_peers t) else t_progress t in
  t_with_peers t (t_peers t) policy (isort Progress_ltb progress) (t_obs_voters t) (t_obs_learners t).

Definition normalize_task (t : Task) : Task :=
  normalizeTaskProgress
    (t_with_peers t (sortN (t_peers t)) (t_policy t) (t_progress t) (sortN (t_obs_voters t)) (sortN (t_obs_learners t))).

Definition normalize_node (n : Node) : Node :=
  Nd (n_id n) (n_name n) (n_addr n) (sort_bytes (n_roles n)) (n_join n) (n_status n)
     (if n_weight n =? 0 then 1 else n_weight n).

Definition normalize_assign (a : Assign) : Assign :=
  SA (sa_slot a) (sortN (sa_peers a)) (sa_epoch a) (sa_leader a).

(* the blobs carried by states and commands are normalized values already *)
Definition Normalize (s : CState) : CState :=
  CS (s_schema s) (s_cluster s) (s_rev s) (s_applied s) (s_updated s) (s_config s)
     (isort Voter_ltb (s_controllers s))
     (isort Node_ltb (map normalize_node (s_nodes s)))
     (isort Assign_ltb (map normalize_assign (s_slots s)))
     (isort Health_ltb (s_health s))
     (HT (ht_version (s_hashslots s)) (ht_count (s_hashslots s)) (isort HRange_ltb (ht_ranges (s_hashslots s))))
     (isort Task_ltb (map normalize_task (s_tasks s)))
     (s_sb s) (s_ops s) (s_checksum s).

(* ---- state/validate.go -------------------------------------------------------------- *)

Definition find_node (nodes : list Node) (id : N) : option Node :=
  find (fun n => n_id n =? id) nodes.
Definition HasRole (n : Node) (role : bytes) : bool := mem_bytes role (n_roles n).

Definition validNodeStatus (s : bytes) : bool :=
  bytes_eqb s NodeStatusAlive || bytes_eqb s NodeStatusSuspect || bytes_eqb s NodeStatusDown.

Definition validate_node (n : Node) : bool :=
  negb (n_id n =? 0) && negb (is_empty (n_addr n)) && negb (is_empty (n_join n))
  && (bytes_eqb (n_join n) NodeJoinStateActive || bytes_eqb (n_join n) NodeJoinStateJoining
      || bytes_eqb (n_join n) NodeJoinStateLeaving || bytes_eqb (n_join n) NodeJoinStateRemoved)
  && negb (is_empty (n_status n)) && validNodeStatus (n_status n)
  && forallb (fun r => bytes_eqb r NodeRoleControllerVoter || bytes_eqb r NodeRoleData) (n_roles n)
  && nodupb bytes_eqb (n_roles n) && negb (is_empty (n_roles n)).
Definition validateNodes (nodes : list Node) : bool :=
  forallb validate_node nodes && nodupb N.eqb (map n_id nodes).

Definition validateControllers (cs : list Voter) (nodes : list Node) : bool :=
  negb (is_empty cs) && nodupb N.eqb (map cv_id cs)
  && forallb (fun c => negb (cv_id c =? 0) && negb (is_empty (cv_addr c)) && bytes_eqb (cv_role c) ControllerRoleVoter
                       && match find_node nodes (cv_id c) with
                          | Some n => HasRole n NodeRoleControllerVoter && bytes_eqb (n_join n) NodeJoinStateActive
                          | None => false
                          end) cs.

Definition validateNodeHealthReports (hs : list Health) (nodes : list Node) : bool :=
  nodupb N.eqb (map h_node hs)
  && forallb (fun h => negb (h_node h =? 0)
                       && match find_node nodes (h_node h) with Some _ => true | None => false end
                       && validNodeStatus (h_status h) && (0 <=? h_at h)%Z
                       && (lenN (h_code h) <=? MaxHealthErrorCodeBytes)) hs.

Definition slotDesiredPeerNodeAllowed (n : Node) : bool :=
  HasRole n NodeRoleData && (bytes_eqb (n_join n) NodeJoinStateActive || bytes_eqb (n_join n) NodeJoinStateLeaving).

Definition validateSlots (cfg : Config) (slots : list Assign) (nodes : list Node) : bool :=
  nodupb N.eqb (map sa_slot slots)
  && forallb (fun a => negb (sa_slot a =? 0) && (sa_slot a <=? c_slots cfg) && negb (sa_epoch a =? 0)
                       && (lenN (sa_peers a) =? c_replicas cfg)
                       && nodupb N.eqb (sa_peers a)
                       && forallb (fun p => negb (p =? 0)
                                            && match find_node nodes p with
                                               | Some n => slotDesiredPeerNodeAllowed n
                                               | None => false
                                               end) (sa_peers a)
                       && ((sa_leader a =? 0) || memN (sa_leader a) (sa_peers a))) slots.

(* the range loop of validateHashSlots: Some expectedFrom, or None on the first violation *)
Fixpoint hashslot_ranges_ok (cfg : Config) (expected : N) (rs : list HRange) : option N :=
  match rs with
  | [] => Some expected
  | r :: rest =>
    if negb (hr_slot r =? 0) && (hr_slot r <=? c_slots cfg) && (hr_from r <=? hr_to r)
       && (hr_from r =? expected) && (hr_to r <=? c_hashslots cfg - 1)
    then hashslot_ranges_ok cfg (hr_to r + 1) rest else None
  end.
Definition validateHashSlots (cfg : Config) (t : HTable) : bool :=
  (ht_version t =? CurrentHashSlotTableVersion) && (ht_count t =? c_hashslots cfg)
  && negb (is_empty (ht_ranges t))
  && match hashslot_ranges_ok cfg 0 (ht_ranges t) with
     | Some e => e =? c_hashslots cfg
     | None => false
     end.

(* state.replacePeer: replace the first source by target, then sort *)
Fixpoint replace_first (peers : list N) (source target : N) : list N :=
  match peers with
  | [] => []
  | p :: r => if p =? source then target :: r else p :: replace_first r source target
  end.
Definition state_replacePeer (peers : list N) (source target : N) : list N :=
  sortN (replace_first peers source target).

Definition hasDuplicateUint64 (l : list N) : bool := memN 0 l || negb (nodupb N.eqb l).

Definition validateParticipantProgress (t : Task) : bool :=
  if bytes_eqb (t_policy t) TaskCompletionPolicySingleObserver then is_empty (t_progress t)
  else bytes_eqb (t_policy t) TaskCompletionPolicyAllTargetPeers
       && (lenN (t_progress t) =? lenN (t_peers t))
       && nodupb N.eqb (map pp_node (t_progress t))
       && forallb (fun p => negb (pp_node p =? 0) && memN (pp_node p) (t_peers t)
                            && (bytes_eqb (pp_status p) TaskParticipantStatusPending
                                || bytes_eqb (pp_status p) TaskParticipantStatusDone
                                || bytes_eqb (pp_status p) TaskParticipantStatusFailed)) (t_progress t).

Definition find_assign (slots : list Assign) (slot : N) : option Assign :=
  find (fun a => sa_slot a =? slot) slots.

Definition validate_task (slots : list Assign) (nodes : list Node) (t : Task) : bool :=
  negb (is_empty (t_id t)) && negb (t_slot t =? 0)
  && (bytes_eqb (t_status t) TaskStatusPending || bytes_eqb (t_status t) TaskStatusRunning
      || bytes_eqb (t_status t) TaskStatusFailed)
  && (bytes_eqb (t_policy t) TaskCompletionPolicySingleObserver
      || bytes_eqb (t_policy t) TaskCompletionPolicyAllTargetPeers)
  && validateParticipantProgress t
  && if bytes_eqb (t_kind t) TaskKindBootstrap then
       bytes_eqb (t_step t) TaskStepCreateSlot
       && match find_assign slots (t_slot t) with
          | Some a => Nlist_eqb (t_peers t) (sa_peers a) && (t_epoch t =? sa_epoch a) && (t_target t =? sa_leader a)
          | None => false
          end
     else if bytes_eqb (t_kind t) TaskKindLeaderTransfer then
       bytes_eqb (t_step t) TaskStepTransferLeader
       && match find_assign slots (t_slot t) with
          | Some a => negb (t_source t =? 0) && negb (t_target t =? 0) && negb (t_source t =? t_target t)
                      && memN (t_source t) (sa_peers a) && memN (t_target t) (sa_peers a)
                      && Nlist_eqb (t_peers t) (sa_peers a) && (t_epoch t =? sa_epoch a)
                      && (t_target t =? sa_leader a)
                      && bytes_eqb (t_policy t) TaskCompletionPolicySingleObserver && is_empty (t_progress t)
          | None => false
          end
     else if bytes_eqb (t_kind t) TaskKindSlotReplicaMove then
       (bytes_eqb (t_step t) TaskStepOpenLearner || bytes_eqb (t_step t) TaskStepAddLearner
        || bytes_eqb (t_step t) TaskStepPromoteLearner || bytes_eqb (t_step t) TaskStepRemoveVoter
        || bytes_eqb (t_step t) TaskStepCommitAssignment)
       && match find_assign slots (t_slot t) with
          | Some a => negb (t_source t =? 0) && negb (t_target t =? 0) && negb (t_source t =? t_target t)
                      && (t_epoch t =? sa_epoch a) && memN (t_source t) (sa_peers a)
                      && negb (memN (t_target t) (sa_peers a))
                      && match find_node nodes (t_target t) with
                         | Some n => bytes_eqb (n_join n) NodeJoinStateActive && HasRole n NodeRoleData
                         | None => false
                         end
                      && Nlist_eqb (t_peers t) (state_replacePeer (sa_peers a) (t_source t) (t_target t))
                      && bytes_eqb (t_policy t) TaskCompletionPolicySingleObserver && is_empty (t_progress t)
                      && negb (hasDuplicateUint64 (t_obs_voters t)) && negb (hasDuplicateUint64 (t_obs_learners t))
          | None => false
          end
     else false.

Definition validateTasks (tasks : list Task) (slots : list Assign) (nodes : list Node) : bool :=
  nodupb bytes_eqb (map t_id tasks) && nodupb N.eqb (map t_slot tasks)
  && forallb (validate_task slots nodes) tasks.

Definition validateScheduledBackup (sb : option SBlob) : bool :=
  match sb with None => true | Some b => sb_valid b end.

Definition validateOpsMCP (o : option OBlob) (nodes : list Node) : bool :=
  match o with
  | None => true
  | Some b => ob_core b
              && ((ob_owner b =? 0)
                  || match find_node nodes (ob_owner b) with
                     | Some n => bytes_eqb (n_join n) NodeJoinStateActive
                     | None => false
                     end)
  end.

(* Validate after its own Clone+Normalize *)
Definition validate_normalized (s : CState) : bool :=
  (s_schema s =? CurrentSchemaVersion) && negb (is_empty (s_cluster s)) && negb (s_rev s =? 0)
  && negb (c_slots (s_config s) =? 0) && negb (c_hashslots (s_config s) =? 0) && negb (c_replicas (s_config s) =? 0)
  && (c_slots (s_config s) <=? c_hashslots (s_config s))
  && validateNodes (s_nodes s)
  && validateControllers (s_controllers s) (s_nodes s)
  && validateNodeHealthReports (s_health s) (s_nodes s)
  && validateSlots (s_config s) (s_slots s) (s_nodes s)
  && validateHashSlots (s_config s) (s_hashslots s)
  && validateTasks (s_tasks s) (s_slots s) (s_nodes s)
  && validateScheduledBackup (s_sb s)
  && match s_sb s with
     | Some b => (negb (sb_restore b) || (is_empty (s_tasks s) && (c_hashslots (s_config s) =? BackupHashSlotCount)))
                 && (negb (sb_backup b) || is_empty (s_tasks s))
     | None => true
     end
  && validateOpsMCP (s_ops s) (s_nodes s).

Definition Validate (s : CState) : bool := validate_normalized (Normalize s).

(* ---- state/hashslots.go -------------------------------------------------------------- *)

(* the loop of BuildInitialHashSlotTable, slot ids [slot .. slot+fuel) *)
Fixpoint build_ranges (fuel : nat) (slot next base remainder : N) : list HRange :=
  match fuel with
  | O => []
  | S f => let width := if slot <=? remainder then base + 1 else base in
           let to := next + width - 1 in
           HR (next mod 65536) (to mod 65536) slot :: build_ranges f (slot + 1) (to + 1) base remainder
  end.
Definition BuildInitialHashSlotTable (slotCount hashSlotCount : N) : option HTable :=
  if (slotCount =? 0) || (hashSlotCount =? 0) || (hashSlotCount <? slotCount) then None
  else Some (HT CurrentHashSlotTableVersion hashSlotCount
                (build_ranges (N.to_nat slotCount) 1 0 (hashSlotCount / slotCount) (hashSlotCount mod slotCount))).

(* ---- pkg/controller/command ------------------------------------------------------------- *)

Record InitCS := IC { ic_cluster : bytes; ic_config : Config; ic_controllers : list Voter; ic_nodes : list Node }.
Record Promo := PR { pr_target : N; pr_addr : bytes; pr_prev : option (list N); pr_index : N; pr_voters : list N }.
Record Phase := PH { ph_task : bytes; ph_slot : N; ph_epoch : N; ph_attempt : N; ph_expected : N;
                     ph_next : bytes; ph_index : N; ph_voters : list N; ph_learners : list N }.
Record Commit := CM { cm_task : bytes; cm_slot : N; cm_epoch : N; cm_attempt : N; cm_index : N; cm_voters : list N }.
Record TResult := TR { tr_task : bytes; tr_slot : N; tr_kind : bytes; tr_epoch : N; tr_attempt : N; tr_err : bytes }.
Record TProgress := TP { tp_task : bytes; tp_slot : N; tp_kind : bytes; tp_epoch : N; tp_attempt : N;
                         tp_node : N; tp_pattempt : N; tp_status : bytes; tp_err : bytes }.
Record Command := Cmd {
  k_kind : bytes; k_issued : N; k_expected : option N; k_init : option InitCS; k_node : option Node;
  k_controllers : list Voter; k_promo : option Promo; k_assign : option Assign; k_task : option Task;
  k_phase : option Phase; k_commit : option Commit; k_result : option TResult; k_progress : option TProgress;
  k_health : option Health; k_hashslots : option HTable; k_sb : option SBlob; k_ops : option OBlob }.

(* ---- fsm results --------------------------------------------------------------------------- *)

(* one task edge of ApplyResult.TaskTransitions: task id, BeforeValid, AfterValid *)
Record TSum := TS { ts_id : bytes; ts_before : bool; ts_after : bool }.
Definition TSum_eqb (a b : TSum) : bool :=
  bytes_eqb (ts_id a) (ts_id b) && Bool.eqb (ts_before a) (ts_before b) && Bool.eqb (ts_after a) (ts_after b).

(* ApplyResult.  r_class: 1 Changed, 2 Updated, 3 Noop, 4 Rejected, 0 none, 9 several flags.
   r_tid is the harness' name of the full TaskTransitions value (0 = none); the model leaves it 0. *)
Record Result := Rs { r_class : N; r_reason : bytes; r_rev : N; r_applied : N; r_trans : list TSum; r_tid : N }.

Definition cChanged : N := 1.
Definition cUpdated : N := 2.
Definition cNoop : N := 3.
Definition cRejected : N := 4.

Definition changed : Result := Rs cChanged [] 0 0 [] 0.
Definition updated : Result := Rs cUpdated [] 0 0 [] 0.
Definition noop (reason : bytes) : Result := Rs cNoop reason 0 0 [] 0.
Definition reject (reason : bytes) : Result := Rs cRejected reason 0 0 [] 0.
Definition no_outcome : Result := Rs 0 [] 0 0 [] 0.
Definition hasApplyOutcome (r : Result) : bool := negb (r_class r =? 0) || negb (is_empty (r_reason r)).
Definition with_rev_applied (r : Result) (rev applied : N) : Result :=
  Rs (r_class r) (r_reason r) rev applied (r_trans r) (r_tid r).
Definition with_trans (r : Result) (ts : list TSum) : Result :=
  Rs (r_class r) (r_reason r) (r_rev r) (r_applied r) ts (r_tid r).

(* ---- fsm/mutation_helpers.go ----------------------------------------------------------------- *)

Fixpoint upsert_by {A} (same : A -> bool) (x : A) (l : list A) : list A :=
  match l with
  | [] => [x]
  | y :: r => if same y then x :: r else y :: upsert_by same x r
  end.
Definition upsertNode (s : CState) (n : Node) : CState :=
  set_nodes s (upsert_by (fun y => n_id y =? n_id n) n (s_nodes s)).
Definition upsertAssignment (s : CState) (a : Assign) : CState :=
  set_slots s (upsert_by (fun y => sa_slot y =? sa_slot a) a (s_slots s)).
Definition upsertTask (s : CState) (t : Task) : CState :=
  set_tasks s (upsert_by (fun y => bytes_eqb (t_id y) (t_id t)) t (s_tasks s)).
Definition upsertNodeHealthReport (s : CState) (h : Health) : CState :=
  set_health s (upsert_by (fun y => h_node y =? h_node h) h (s_health s)).

Definition h_set_applied (h : Health) (v : N) : Health :=
  HRp (h_node h) (h_status h) (h_ready h) (h_ctrl_rev h) (h_slot_rev h) (h_seq h) (h_at h) v (h_code h).
Definition equivalentNodeHealthReports (a b : list Health) : bool :=
  list_eqb Health_eqb (map (fun h => h_set_applied h 0) a) (map (fun h => h_set_applied h 0) b).

Definition equivalentNode (a b : Node) : bool := Node_eqb (normalize_node a) (normalize_node b).
Definition equivalentAssignment (a b : Assign) : bool := Assign_eqb (normalize_assign a) (normalize_assign b).
Definition equivalentTask (a b : Task) : bool :=
  let srt t := t_with_peers t (sortN (t_peers t)) (t_policy t) (t_progress t) (sortN (t_obs_voters t)) (sortN (t_obs_learners t)) in
  Task_eqb (srt a) (srt b).

Definition findTaskBySlot (tasks : list Task) (slot : N) : option Task :=
  find (fun t => t_slot t =? slot) tasks.
Definition findTaskByID (tasks : list Task) (id : bytes) : option Task :=
  find (fun t => bytes_eqb (t_id t) id) tasks.
Definition findParticipant (l : list Progress) (node : N) : option Progress :=
  find (fun p => pp_node p =? node) l.
Definition sameUint64Set (a b : list N) : bool :=
  (lenN a =? lenN b) && Nlist_eqb (sortN a) (sortN b).
(* fsm.replacePeer: no sort *)
Definition fsm_replacePeer (peers : list N) (source target : N) : list N := replace_first peers source target.

(* replace the first element satisfying [same] by [f] of it *)
Fixpoint update_first {A} (same : A -> bool) (f : A -> A) (l : list A) : list A :=
  match l with
  | [] => []
  | y :: r => if same y then f y :: r else y :: update_first same f r
  end.
Fixpoint remove_first {A} (same : A -> bool) (l : list A) : list A :=
  match l with
  | [] => []
  | y :: r => if same y then r else y :: remove_first same r
  end.

(* utf8.ValidString *)
Definition cont (b : N) : bool := (128 <=? b) && (b <=? 191).
Fixpoint utf8_valid (fuel : nat) (l : bytes) : bool :=
  match fuel with
  | O => is_empty l
  | S f =>
    match l with
    | [] => true
    | b :: r =>
      if b <? 128 then utf8_valid f r
      else if b <? 194 then false
      else if b <? 224 then
        match r with c1 :: r1 => cont c1 && utf8_valid f r1 | _ => false end
      else if b <? 240 then
        match r with
        | c1 :: c2 :: r2 =>
          (if b =? 224 then (160 <=? c1) && (c1 <=? 191)
           else if b =? 237 then (128 <=? c1) && (c1 <=? 159) else cont c1)
          && cont c2 && utf8_valid f r2
        | _ => false
        end
      else if b <? 245 then
        match r with
        | c1 :: c2 :: c3 :: r3 =>
          (if b =? 240 then (144 <=? c1) && (c1 <=? 191)
           else if b =? 244 then (128 <=? c1) && (c1 <=? 143) else cont c1)
          && cont c2 && cont c3 && utf8_valid f r3
        | _ => false
        end
      else false
    end
  end.
Definition ValidString (l : bytes) : bool := utf8_valid (length l) l.

(* truncateUTF8: cut at maxBytes, then drop trailing bytes until the string is valid UTF-8 *)
Fixpoint trim_invalid (fuel : nat) (l : bytes) : bytes :=
  match fuel with
  | O => l
  | S f => if ValidString l then l else trim_invalid f (removelast l)
  end.
Definition truncateUTF8 (s : bytes) (maxBytes : N) : bytes :=
  if (maxBytes =? 0) || (lenN s <=? maxBytes) then s
  else let t := firstn (N.to_nat maxBytes) s in trim_invalid (length t) t.

(* ---- fsm/mutation_guards.go --------------------------------------------------------------------- *)

Definition nextUpdatedAt (previous issuedAt : N) : N := if issuedAt =? 0 then previous else issuedAt.
Definition commandIssuedAt (issuedAt : N) : N := issuedAt.

(* next.Revision++; next.UpdatedAt = ...; Validate or roll back *)
Definition validateChanged (next before : CState) (cmd : Command) : CState * Result :=
  let n := set_updated (set_rev next (wrap64_succ (s_rev next))) (nextUpdatedAt (s_updated before) (k_issued cmd)) in
  if Validate n then (n, changed) else (before, reject ReasonInvalidState).

Definition revision_mismatch (cur : CState) (cmd : Command) : bool :=
  match k_expected cmd with
  | Some e => negb (e =? s_rev cur)
  | None => false
  end.

Definition handleBootstrapRevisionMismatch (cur : CState) (cmd : Command) : option Result :=
  if negb (revision_mismatch cur cmd) then None
  else match k_assign cmd, k_task cmd with
       | Some a, Some t =>
         if negb (bytes_eqb (t_kind t) TaskKindBootstrap) then Some (reject ReasonExpectedRevisionMismatch)
         else match find_assign (s_slots cur) (sa_slot a) with
              | Some _ => Some (noop ReasonStaleBootstrapObsolete)
              | None => match findTaskBySlot (s_tasks cur) (sa_slot a) with
                        | Some _ => Some (noop ReasonStaleBootstrapObsolete)
                        | None => Some (reject ReasonStaleBootstrapMissingSlot)
                        end
              end
       | _, _ => Some (reject ReasonExpectedRevisionMismatch)
       end.

Definition equivalentLeaderTransferTaskIgnoringID (a b : Task) : bool :=
  bytes_eqb (t_kind a) TaskKindLeaderTransfer && bytes_eqb (t_kind b) TaskKindLeaderTransfer
  && bytes_eqb (t_status a) TaskStatusPending && bytes_eqb (t_status b) TaskStatusPending
  && equivalentTask (t_set_progress (t_set_id a []) []) (t_set_progress (t_set_id b []) []).

Definition handleLeaderTransferRevisionMismatch (cur : CState) (cmd : Command) : option Result :=
  if negb (revision_mismatch cur cmd) then None
  else match k_assign cmd, k_task cmd with
       | Some a, Some t =>
         if negb (bytes_eqb (t_kind t) TaskKindLeaderTransfer) then Some (reject ReasonExpectedRevisionMismatch)
         else match find_assign (s_slots cur) (sa_slot a) with
              | Some ex =>
                if negb (equivalentAssignment ex a) then Some (reject ReasonExpectedRevisionMismatch)
                else match findTaskBySlot (s_tasks cur) (t_slot t) with
                     | Some et => if equivalentLeaderTransferTaskIgnoringID et t then Some (noop ReasonNoChange)
                                  else Some (reject ReasonExpectedRevisionMismatch)
                     | None => Some (reject ReasonExpectedRevisionMismatch)
                     end
              | None => Some (reject ReasonExpectedRevisionMismatch)
              end
       | _, _ => Some (reject ReasonExpectedRevisionMismatch)
       end.

Definition handleFailTaskRevisionMismatch (cur : CState) (cmd : Command) : option Result :=
  if negb (revision_mismatch cur cmd) then None
  else match k_result cmd with
       | Some tr => if is_empty (tr_task tr) then Some (reject ReasonInvalidTaskResult)
                    else match findTaskByID (s_tasks cur) (tr_task tr) with
                         | None => Some (noop ReasonTaskMissing)
                         | Some _ => Some (reject ReasonExpectedRevisionMismatch)
                         end
       | None => Some (reject ReasonInvalidTaskResult)
       end.

Definition handleTaskProgressRevisionMismatch (cur : CState) (cmd : Command) : option Result :=
  if negb (revision_mismatch cur cmd) then None
  else match k_progress cmd with
       | Some tp => if is_empty (tp_task tp) then Some (reject ReasonInvalidTaskResult)
                    else match findTaskByID (s_tasks cur) (tp_task tp) with
                         | None => Some (noop ReasonTaskMissing)
                         | Some _ => Some (reject ReasonExpectedRevisionMismatch)
                         end
       | None => Some (reject ReasonInvalidTaskResult)
       end.

Definition isNonBootstrapIdempotent (cur : CState) (cmd : Command) : bool :=
  if bytes_eqb (k_kind cmd) KindUpsertNode then
    match k_node cmd with
    | Some n => match find_node (s_nodes cur) (n_id n) with
                | Some ex => equivalentNode ex n
                | None => false
                end
    | None => false
    end
  else if bytes_eqb (k_kind cmd) KindUpdateControllerVoters then
    (* reflect.DeepEqual(current.Controllers, candidate.Controllers): the candidate is normalized, hence
       never nil; current.Controllers is nil exactly in ClusterState{} (revision 0), where the test is false *)
    negb (s_rev cur =? 0)
    && list_eqb Voter_eqb (s_controllers cur) (s_controllers (Normalize (set_controllers cur (k_controllers cmd))))
  else if bytes_eqb (k_kind cmd) KindReplaceHashSlotTable then
    match k_hashslots cmd with Some t => HTable_eqb (s_hashslots cur) t | None => false end
  else if bytes_eqb (k_kind cmd) KindReplaceScheduledBackupState then
    match k_sb cmd with Some b => option_eqb SBlob_eqb (s_sb cur) (Some b) | None => false end
  else if bytes_eqb (k_kind cmd) KindReplaceOpsMCPState then
    match k_ops cmd with Some b => option_eqb OBlob_eqb (s_ops cur) (Some b) | None => false end
  else if bytes_eqb (k_kind cmd) KindCompleteTask then
    match k_result cmd with
    | Some tr => negb (is_empty (tr_task tr))
                 && match findTaskByID (s_tasks cur) (tr_task tr) with None => true | Some _ => false end
    | None => false
    end
  else false.

(* ---- fsm/mutation_handlers.go ------------------------------------------------------------------------ *)

Definition initialStateFromCommand (i : InitCS) (issued raftIndex : N) : option CState :=
  match BuildInitialHashSlotTable (c_slots (ic_config i)) (c_hashslots (ic_config i)) with
  | None => None
  | Some table =>
    let st := Normalize (CS CurrentSchemaVersion (ic_cluster i) 1 raftIndex (commandIssuedAt issued) (ic_config i)
                            (ic_controllers i) (ic_nodes i) [] [] table [] None None []) in
    if Validate st then Some st else None
  end.

Definition equivalentInit (cur initial : CState) : bool :=
  let c := Normalize cur in
  let i := Normalize initial in
  bytes_eqb (s_cluster c) (s_cluster i) && Config_eqb (s_config c) (s_config i)
  && list_eqb Voter_eqb (s_controllers c) (s_controllers i) && list_eqb Node_eqb (s_nodes c) (s_nodes i)
  && HTable_eqb (s_hashslots c) (s_hashslots i) && is_empty (s_slots c) && is_empty (s_tasks c).

Definition applyInit (next : CState) (raftIndex : N) (cmd : Command) : CState * Result :=
  match k_init cmd with
  | None => (next, reject ReasonInvalidCommand)
  | Some i =>
    match initialStateFromCommand i (k_issued cmd) raftIndex with
    | None => (next, reject ReasonInvalidState)
    | Some initial =>
      if s_rev next =? 0 then (initial, changed)
      else if equivalentInit next initial then (next, noop ReasonNoChange)
      else (next, reject ReasonInitConflict)
    end
  end.

Definition applyUpsertNode (next : CState) (cmd : Command) : CState * Result :=
  match k_node cmd with
  | Some node =>
    if s_rev next =? 0 then (next, reject ReasonInvalidCommand)
    else let n := Normalize (upsertNode next node) in
         if list_eqb Node_eqb (s_nodes next) (s_nodes n) then (n, noop ReasonNoChange)
         else validateChanged n next cmd
  | None => (next, reject ReasonInvalidCommand)
  end.

Definition applyUpdateControllerVoters (next : CState) (cmd : Command) : CState * Result :=
  if s_rev next =? 0 then (next, reject ReasonInvalidCommand)
  else let n := Normalize (set_controllers next (k_controllers cmd)) in
       if list_eqb Voter_eqb (s_controllers next) (s_controllers n) then (n, noop ReasonNoChange)
       else validateChanged n next cmd.

Definition appendNodeRoleIfMissing (roles : list bytes) (role : bytes) : list bytes :=
  if mem_bytes role roles then roles else roles ++ [role].
Definition n_set_roles (n : Node) (roles : list bytes) : Node :=
  Nd (n_id n) (n_name n) (n_addr n) roles (n_join n) (n_status n) (n_weight n).

Definition applyPromoteControllerVoter (next : CState) (cmd : Command) : CState * Result :=
  match k_promo cmd with
  | None => (next, reject ReasonInvalidCommand)
  | Some p =>
    if (s_rev next =? 0) || (pr_target p =? 0) || is_empty (pr_addr p) then (next, reject ReasonInvalidCommand)
    else
      let currentVoters := map cv_id (s_controllers next) in
      let controller := find (fun c => cv_id c =? pr_target p) (s_controllers next) in
      let expectedNextVoters := match controller with Some _ => currentVoters | None => currentVoters ++ [pr_target p] end in
      if (pr_index p =? 0) || negb (sameUint64Set (pr_voters p) expectedNextVoters)
      then (next, reject ReasonControllerVoterProofMissing)
      else if match pr_prev p with Some prev => negb (sameUint64Set prev currentVoters) | None => false end
      then (next, reject ReasonControllerVoterSetMismatch)
      else match find_node (s_nodes next) (pr_target p) with
           | None => (next, reject ReasonInvalidState)
           | Some node =>
             if negb (bytes_eqb (n_addr node) (pr_addr p)) || negb (bytes_eqb (n_join node) NodeJoinStateActive)
             then (next, reject ReasonInvalidState)
             else match controller with
                  | Some c =>
                    if negb (bytes_eqb (cv_addr c) (pr_addr p)) || negb (bytes_eqb (cv_role c) ControllerRoleVoter)
                    then (next, reject ReasonInvalidState)
                    else if negb (HasRole node NodeRoleControllerVoter) then (next, reject ReasonInvalidState)
                    else (next, noop ReasonNoChange)
                  | None =>
                    let m := set_nodes (set_controllers next (s_controllers next ++ [CV (pr_target p) (pr_addr p) ControllerRoleVoter]))
                                       (update_first (fun y => n_id y =? pr_target p)
                                                     (fun y => n_set_roles y (appendNodeRoleIfMissing (n_roles y) NodeRoleControllerVoter))
                                                     (s_nodes next)) in
                    let n := Normalize m in
                    if list_eqb Voter_eqb (s_controllers next) (s_controllers n) && list_eqb Node_eqb (s_nodes next) (s_nodes n)
                    then (n, noop ReasonNoChange)
                    else validateChanged n next cmd
                  end
           end
  end.

Definition applyReplaceHashSlotTable (next : CState) (cmd : Command) : CState * Result :=
  match k_hashslots cmd with
  | Some t =>
    if s_rev next =? 0 then (next, reject ReasonInvalidCommand)
    else let n := Normalize (set_hashslots next t) in
         if HTable_eqb (s_hashslots next) (s_hashslots n) then (n, noop ReasonNoChange)
         else validateChanged n next cmd
  | None => (next, reject ReasonInvalidCommand)
  end.

Definition applyReplaceScheduledBackupState (next : CState) (cmd : Command) : CState * Result :=
  match k_sb cmd with
  | Some b =>
    if s_rev next =? 0 then (next, reject ReasonInvalidCommand)
    else let n := Normalize (set_sb next (Some b)) in
         if option_eqb SBlob_eqb (s_sb next) (s_sb n) then (n, noop ReasonNoChange)
         else validateChanged n next cmd
  | None => (next, reject ReasonInvalidCommand)
  end.

Definition applyReplaceOpsMCPState (next : CState) (cmd : Command) : CState * Result :=
  match k_ops cmd with
  | Some b =>
    if s_rev next =? 0 then (next, reject ReasonInvalidCommand)
    else if match s_ops next with
            | Some cur => ob_enabled cur && negb (ob_owner b =? ob_owner cur)
            | None => false
            end
    then (next, reject ReasonOpsMCPOwnerChangeWhileEnabled)
    else let n := Normalize (set_ops next (Some b)) in
         if option_eqb OBlob_eqb (s_ops next) (s_ops n) then (n, noop ReasonNoChange)
         else validateChanged n next cmd
  | None => (next, reject ReasonInvalidCommand)
  end.

Definition applyUpsertSlotAssignmentAndTask (next : CState) (cmd : Command) : CState * Result :=
  match k_assign cmd, k_task cmd with
  | Some a, Some t =>
    if s_rev next =? 0 then (next, reject ReasonInvalidCommand)
    else if negb (t_slot t =? sa_slot a) then (next, reject ReasonTaskSlotMismatch)
    else let n := Normalize (upsertTask (upsertAssignment next a) t) in
         if list_eqb Assign_eqb (s_slots next) (s_slots n) && list_eqb Task_eqb (s_tasks next) (s_tasks n)
         then (n, noop ReasonNoChange)
         else validateChanged n next cmd
  | _, _ => (next, reject ReasonInvalidCommand)
  end.

Definition applyUpsertSlotReplicaMoveTask (next : CState) (cmd : Command) : CState * Result :=
  match k_task cmd with
  | Some t =>
    if (s_rev next =? 0) || negb (bytes_eqb (t_kind t) TaskKindSlotReplicaMove) then (next, reject ReasonInvalidCommand)
    else let n := Normalize (upsertTask next t) in
         if list_eqb Task_eqb (s_tasks next) (s_tasks n) then (n, noop ReasonNoChange)
         else validateChanged n next cmd
  | None => (next, reject ReasonInvalidCommand)
  end.

Definition sourcePeersForSlotReplicaMove (t : Task) : list N :=
  fsm_replacePeer (t_peers t) (t_target t) (t_source t).

(* [] = accepted, otherwise the reject reason *)
Definition validateSlotReplicaMovePhaseAdvance (t : Task) (p : Phase) : bytes :=
  if bytes_eqb (t_step t) TaskStepOpenLearner then
    if negb (bytes_eqb (ph_next p) TaskStepAddLearner) then ReasonTaskStepMismatch else []
  else if bytes_eqb (t_step t) TaskStepAddLearner then
    if negb (bytes_eqb (ph_next p) TaskStepPromoteLearner) && negb (bytes_eqb (ph_next p) TaskStepRemoveVoter)
    then ReasonTaskStepMismatch
    else if ph_index p =? 0 then ReasonTaskObservedConfigMissing
    else if bytes_eqb (ph_next p) TaskStepPromoteLearner then
      if negb (sameUint64Set (ph_voters p) (sourcePeersForSlotReplicaMove t)) then ReasonTaskObservedVotersMismatch
      else if negb (memN (t_target t) (ph_learners p)) then ReasonTaskObservedLearnersMismatch
      else []
    else if negb (memN (t_target t) (ph_voters p)) then ReasonTaskObservedVotersMismatch else []
  else if bytes_eqb (t_step t) TaskStepPromoteLearner then
    if negb (bytes_eqb (ph_next p) TaskStepRemoveVoter) then ReasonTaskStepMismatch
    else if ph_index p =? 0 then ReasonTaskObservedConfigMissing
    else if negb (memN (t_target t) (ph_voters p)) then ReasonTaskObservedVotersMismatch else []
  else if bytes_eqb (t_step t) TaskStepRemoveVoter then
    if negb (bytes_eqb (ph_next p) TaskStepRemoveVoter) && negb (bytes_eqb (ph_next p) TaskStepCommitAssignment)
    then ReasonTaskStepMismatch
    else if ph_index p =? 0 then ReasonTaskObservedConfigMissing
    else if bytes_eqb (ph_next p) TaskStepCommitAssignment then
      if negb (sameUint64Set (ph_voters p) (t_peers t)) then ReasonTaskObservedVotersMismatch else []
    else if negb (memN (t_source t) (ph_voters p)) || negb (memN (t_target t) (ph_voters p))
    then ReasonTaskObservedVotersMismatch else []
  else ReasonTaskStepMismatch.

Definition applyAdvanceSlotReplicaMovePhase (next : CState) (cmd : Command) : CState * Result :=
  match k_phase cmd with
  | None => (next, reject ReasonInvalidTaskResult)
  | Some p =>
    if (s_rev next =? 0) || is_empty (ph_task p) || (ph_slot p =? 0) || (ph_epoch p =? 0) || is_empty (ph_next p)
    then (next, reject ReasonInvalidTaskResult)
    else match findTaskByID (s_tasks next) (ph_task p) with
         | None => (next, noop ReasonTaskMissing)
         | Some task =>
           if negb (t_slot task =? ph_slot p) then (next, reject ReasonTaskSlotMismatch)
           else if negb (bytes_eqb (t_kind task) TaskKindSlotReplicaMove) then (next, noop ReasonTaskKindMismatch)
           else if negb (t_epoch task =? ph_epoch p) then (next, noop ReasonTaskEpochMismatch)
           else if negb (t_attempt task =? ph_attempt p) then (next, noop ReasonTaskAttemptMismatch)
           else if negb (t_phase task =? ph_expected p) then (next, reject ReasonTaskPhaseMismatch)
           else let reason := validateSlotReplicaMovePhaseAdvance task p in
                if negb (is_empty reason) then (next, reject reason)
                else
                  let upd t := TK (t_id t) (t_slot t) (t_kind t) (ph_next p) (t_source t) (t_target t) (t_peers t)
                                  (t_policy t) (t_progress t) (t_epoch t) (t_attempt t) (t_status t) (t_err t)
                                  (wrap32_succ (t_phase t)) (ph_index p) (ph_voters p) (ph_learners p) in
                  let n := Normalize (set_tasks next (update_first (fun t => bytes_eqb (t_id t) (ph_task p)) upd (s_tasks next))) in
                  validateChanged n next cmd
         end
  end.

Definition applyCommitSlotReplicaMove (next : CState) (cmd : Command) : CState * Result :=
  match k_commit cmd with
  | None => (next, reject ReasonInvalidTaskResult)
  | Some c =>
    if (s_rev next =? 0) || is_empty (cm_task c) || (cm_slot c =? 0) || (cm_epoch c =? 0)
    then (next, reject ReasonInvalidTaskResult)
    else match findTaskByID (s_tasks next) (cm_task c) with
         | None => (next, noop ReasonTaskMissing)
         | Some task =>
           if negb (t_slot task =? cm_slot c) then (next, reject ReasonTaskSlotMismatch)
           else if negb (bytes_eqb (t_kind task) TaskKindSlotReplicaMove) then (next, noop ReasonTaskKindMismatch)
           else if negb (t_epoch task =? cm_epoch c) then (next, noop ReasonTaskEpochMismatch)
           else if negb (t_attempt task =? cm_attempt c) then (next, noop ReasonTaskAttemptMismatch)
           else if negb (bytes_eqb (t_step task) TaskStepCommitAssignment) then (next, reject ReasonTaskStepMismatch)
           else if cm_index c =? 0 then (next, reject ReasonTaskObservedConfigMissing)
           else if negb (sameUint64Set (cm_voters c) (t_peers task)) then (next, reject ReasonTaskObservedVotersMismatch)
           else if t_obs_index task =? 0 then (next, reject ReasonTaskObservedConfigMissing)
           else if negb (sameUint64Set (t_obs_voters task) (t_peers task)) then (next, reject ReasonTaskObservedVotersMismatch)
           else match find_assign (s_slots next) (t_slot task) with
                | None => (next, reject ReasonInvalidState)
                | Some a =>
                  if negb (sa_epoch a =? t_epoch task) then (next, reject ReasonTaskEpochMismatch)
                  else if negb (memN (t_source task) (sa_peers a)) || memN (t_target task) (sa_peers a)
                  then (next, reject ReasonInvalidState)
                  else if negb (sameUint64Set (t_peers task) (fsm_replacePeer (sa_peers a) (t_source task) (t_target task)))
                  then (next, reject ReasonInvalidState)
                  else
                    let upd a := SA (sa_slot a) (t_peers task) (wrap64_succ (sa_epoch a))
                                    (if memN (sa_leader a) (t_peers task) then sa_leader a else t_target task) in
                    let m := set_tasks (set_slots next (update_first (fun y => sa_slot y =? t_slot task) upd (s_slots next)))
                                       (remove_first (fun t => bytes_eqb (t_id t) (cm_task c)) (s_tasks next)) in
                    validateChanged (Normalize m) next cmd
                end
         end
  end.

Definition taskResultGuard (task : Task) (tr : TResult) : Result :=
  if is_empty (tr_task tr) || (tr_slot tr =? 0) || is_empty (tr_kind tr) || (tr_epoch tr =? 0)
  then reject ReasonInvalidTaskResult
  else if negb (tr_slot tr =? t_slot task) then reject ReasonTaskSlotMismatch
  else if negb (bytes_eqb (tr_kind tr) (t_kind task)) then noop ReasonTaskKindMismatch
  else if negb (tr_epoch tr =? t_epoch task) then noop ReasonTaskEpochMismatch
  else if negb (tr_attempt tr =? t_attempt task) then noop ReasonTaskAttemptMismatch
  else no_outcome.

Definition taskProgressGuard (task : Task) (tp : TProgress) : Result :=
  if is_empty (tp_task tp) || (tp_slot tp =? 0) || is_empty (tp_kind tp) || (tp_epoch tp =? 0) || (tp_node tp =? 0)
  then reject ReasonInvalidTaskResult
  else if negb (tp_slot tp =? t_slot task) then reject ReasonTaskSlotMismatch
  else if negb (bytes_eqb (tp_kind tp) (t_kind task)) then noop ReasonTaskKindMismatch
  else if negb (tp_epoch tp =? t_epoch task) then noop ReasonTaskEpochMismatch
  else if negb (tp_attempt tp =? t_attempt task) then noop ReasonTaskAttemptMismatch
  else if bytes_eqb (tp_status tp) TaskParticipantStatusPending || bytes_eqb (tp_status tp) TaskParticipantStatusDone
          || bytes_eqb (tp_status tp) TaskParticipantStatusFailed then no_outcome
  else reject ReasonInvalidTaskResult.

Definition applyCompleteTask (next : CState) (cmd : Command) : CState * Result :=
  match k_result cmd with
  | None => (next, reject ReasonInvalidTaskResult)
  | Some tr =>
    if (s_rev next =? 0) || is_empty (tr_task tr) then (next, reject ReasonInvalidTaskResult)
    else match findTaskByID (s_tasks next) (tr_task tr) with
         | None => (next, noop ReasonTaskMissing)
         | Some task =>
           let guard := taskResultGuard task tr in
           if hasApplyOutcome guard then (next, guard)
           else validateChanged (Normalize (set_tasks next (remove_first (fun t => bytes_eqb (t_id t) (tr_task tr)) (s_tasks next))))
                                next cmd
         end
  end.

Definition applyFailTask (next : CState) (cmd : Command) : CState * Result :=
  match k_result cmd with
  | None => (next, reject ReasonInvalidTaskResult)
  | Some tr =>
    if (s_rev next =? 0) || is_empty (tr_task tr) then (next, reject ReasonInvalidTaskResult)
    else match findTaskByID (s_tasks next) (tr_task tr) with
         | None => (next, noop ReasonTaskMissing)
         | Some task =>
           let guard := taskResultGuard task tr in
           if hasApplyOutcome guard then (next, guard)
           else
             let upd t := TK (t_id t) (t_slot t) (t_kind t) (t_step t) (t_source t) (t_target t) (t_peers t) (t_policy t)
                             (if bytes_eqb (t_policy t) TaskCompletionPolicyAllTargetPeers
                              then pending_progress (t_peers t) else t_progress t)
                             (t_epoch t) (wrap32_succ (t_attempt t)) TaskStatusFailed
                             (truncateUTF8 (tr_err tr) MaxTaskLastErrorBytes)
                             (t_phase t) (t_obs_index t) (t_obs_voters t) (t_obs_learners t) in
             validateChanged (Normalize (set_tasks next (update_first (fun t => bytes_eqb (t_id t) (tr_task tr)) upd (s_tasks next))))
                             next cmd
         end
  end.

Definition applyReportTaskProgress (next : CState) (cmd : Command) : CState * Result :=
  match k_progress cmd with
  | None => (next, reject ReasonInvalidTaskResult)
  | Some tp =>
    if (s_rev next =? 0) || is_empty (tp_task tp) then (next, reject ReasonInvalidTaskResult)
    else match findTaskByID (s_tasks next) (tp_task tp) with
         | None => (next, noop ReasonTaskMissing)
         | Some task =>
           let guard := taskProgressGuard task tp in
           if hasApplyOutcome guard then (next, guard)
           else match findParticipant (t_progress task) (tp_node tp) with
                | None => (next, reject ReasonTaskParticipantUnexpected)
                | Some current =>
                  if tp_pattempt tp <? pp_attempt current then (next, noop ReasonTaskParticipantAttemptStale)
                  else
                    let failed := bytes_eqb (tp_status tp) TaskParticipantStatusFailed in
                    let updp (p : Progress) :=
                        PP (pp_node p) (if failed then wrap32_succ (tp_pattempt tp) else tp_pattempt tp) (tp_status tp)
                           (if failed then truncateUTF8 (tp_err tp) MaxTaskLastErrorBytes else []) in
                    let upd t := t_set_progress (if failed then t_set_status t TaskStatusFailed else t)
                                                (update_first (fun p => pp_node p =? tp_node tp) updp (t_progress t)) in
                    let n := Normalize (set_tasks next (update_first (fun t => bytes_eqb (t_id t) (tp_task tp)) upd (s_tasks next))) in
                    if list_eqb Task_eqb (s_tasks next) (s_tasks n) then (n, noop ReasonNoChange)
                    else validateChanged n next cmd
                end
         end
  end.

Definition applyReportNodeHealth (next : CState) (raftIndex : N) (cmd : Command) : CState * Result :=
  match k_health cmd with
  | Some h =>
    if s_rev next =? 0 then (next, reject ReasonInvalidCommand)
    else let n := Normalize (upsertNodeHealthReport next (h_set_applied h raftIndex)) in
         if negb (Validate n) then (next, reject ReasonInvalidState)
         else if equivalentNodeHealthReports (s_health next) (s_health n)
              then (set_health n (s_health next), noop ReasonNoChange)
              else (n, updated)
  | None => (next, reject ReasonInvalidCommand)
  end.

(* ---- fsm/task_transition.go ----------------------------------------------------------------------------- *)

(* taskMapByID keeps the last task of each non-empty id; edges are listed in id order *)
Definition task_ids (ts : list Task) : list bytes :=
  filter (fun i => negb (is_empty i)) (map t_id ts).
Fixpoint last_by_id (ts : list Task) (id : bytes) : option Task :=
  match ts with
  | [] => None
  | t :: r => match last_by_id r id with
              | Some x => Some x
              | None => if bytes_eqb (t_id t) id then Some t else None
              end
  end.
Fixpoint dedup_bytes (l : list bytes) : list bytes :=
  match l with
  | [] => []
  | x :: r => if mem_bytes x r then dedup_bytes r else x :: dedup_bytes r
  end.
Definition taskTransitionsForCommand (before after : list Task) : list TSum :=
  let ids := sort_bytes (dedup_bytes (task_ids before ++ task_ids after)) in
  flat_map (fun id =>
              match last_by_id before id, last_by_id after id with
              | Some b, Some a => if Task_eqb b a then [] else [TS id true true]
              | Some _, None => [TS id true false]
              | None, Some _ => [TS id false true]
              | None, None => []
              end) ids.

(* ---- fsm/mutations.go -------------------------------------------------------------------------------------- *)

Definition opt_res (o : option Result) (next : CState) (k : unit -> CState * Result) : CState * Result :=
  match o with Some r => (next, r) | None => k tt end.

Definition dispatch (next : CState) (raftIndex : N) (cmd : Command) : CState * Result :=
  let k := k_kind cmd in
  if bytes_eqb k KindUpsertNode then applyUpsertNode next cmd
  else if bytes_eqb k KindUpdateControllerVoters then applyUpdateControllerVoters next cmd
  else if bytes_eqb k KindPromoteControllerVoter then applyPromoteControllerVoter next cmd
  else if bytes_eqb k KindReplaceHashSlotTable then applyReplaceHashSlotTable next cmd
  else if bytes_eqb k KindReplaceScheduledBackupState then applyReplaceScheduledBackupState next cmd
  else if bytes_eqb k KindReplaceOpsMCPState then applyReplaceOpsMCPState next cmd
  else if bytes_eqb k KindUpsertSlotAssignmentAndTask then applyUpsertSlotAssignmentAndTask next cmd
  else if bytes_eqb k KindUpsertSlotReplicaMoveTask then applyUpsertSlotReplicaMoveTask next cmd
  else if bytes_eqb k KindAdvanceSlotReplicaMovePhase then applyAdvanceSlotReplicaMovePhase next cmd
  else if bytes_eqb k KindCommitSlotReplicaMove then applyCommitSlotReplicaMove next cmd
  else if bytes_eqb k KindCompleteTask then applyCompleteTask next cmd
  else if bytes_eqb k KindFailTask then applyFailTask next cmd
  else if bytes_eqb k KindReportTaskProgress then applyReportTaskProgress next cmd
  else if bytes_eqb k KindReportNodeHealth then applyReportNodeHealth next raftIndex cmd
  else (next, reject ReasonInvalidCommand).

Definition guarded (next : CState) (raftIndex : N) (cmd : Command) : CState * Result :=
  let '(n, r) := dispatch next raftIndex cmd in
  if r_class r =? cChanged then (n, with_trans r (taskTransitionsForCommand (s_tasks next) (s_tasks n)))
  else (n, r).

Definition applyMutation (next : CState) (raftIndex raftTerm : N) (cmd : Command) : CState * Result :=
  let k := k_kind cmd in
  let run := fun _ : unit => guarded next raftIndex cmd in
  if bytes_eqb k KindInitClusterState then applyInit next raftIndex cmd
  else if bytes_eqb k KindUpsertSlotAssignmentAndTask then
    match k_assign cmd, k_task cmd with
    | Some a, Some t =>
      if negb (t_slot t =? sa_slot a) then (next, reject ReasonTaskSlotMismatch)
      else if bytes_eqb (t_kind t) TaskKindBootstrap then opt_res (handleBootstrapRevisionMismatch next cmd) next run
      else if bytes_eqb (t_kind t) TaskKindLeaderTransfer then opt_res (handleLeaderTransferRevisionMismatch next cmd) next run
      else if revision_mismatch next cmd then (next, reject ReasonExpectedRevisionMismatch)
      else run tt
    | _, _ => (next, reject ReasonInvalidCommand)
    end
  else if bytes_eqb k KindUpsertSlotReplicaMoveTask then
    match k_task cmd with
    | Some t => if negb (bytes_eqb (t_kind t) TaskKindSlotReplicaMove) then (next, reject ReasonInvalidCommand)
                else if revision_mismatch next cmd then (next, reject ReasonExpectedRevisionMismatch)
                else run tt
    | None => (next, reject ReasonInvalidCommand)
    end
  else if bytes_eqb k KindFailTask then opt_res (handleFailTaskRevisionMismatch next cmd) next run
  else if bytes_eqb k KindReportTaskProgress then opt_res (handleTaskProgressRevisionMismatch next cmd) next run
  else if bytes_eqb k KindReportNodeHealth then
    if revision_mismatch next cmd then (next, reject ReasonExpectedRevisionMismatch) else run tt
  else if revision_mismatch next cmd then
    if isNonBootstrapIdempotent next cmd then (next, noop ReasonNoChange)
    else (next, reject ReasonExpectedRevisionMismatch)
  else run tt.

(* ---- fsm/fsm.go: the ApplyBatch frame, generic in state and mutation ------------------------------------------ *)

Record Entry := En { e_idx : N; e_term : N; e_cmd : Command }.

Section Frame.
  Context {St C : Type}.
  Variable revision applied : St -> N.
  Variable set_app : St -> N -> St.
  Variable set_ck : St -> bytes -> St.
  Variable mutate : St -> N -> N -> C -> St * Result.  (* applyMutation *)
  Variable ck : St -> bytes.                            (* state.Checksum *)
  Variable empty : St.                                  (* ClusterState{} *)

  Definition already_applied (next : St) : Result :=
    Rs cNoop ReasonAlreadyApplied (revision next) (applied next) [] 0.

  (* one iteration of the loop of ApplyBatch; [cur_rev] is current.Revision of the batch start *)
  Definition apply_entry (cur_rev : N) (next : St) (idx term : N) (cmd : C) : St * Result :=
    if negb (cur_rev =? 0) && (idx <=? applied next) then (next, already_applied next)
    else
      let '(n1, r) := mutate next idx term cmd in
      let n2 := if negb (revision n1 =? 0) && (applied n1 <? idx) then set_app n1 idx else n1 in
      let r2 := with_rev_applied r (revision n2) (applied n2) in
      let r3 := if (revision n2 =? 0) && (r_class r =? cRejected) then with_rev_applied r2 (r_rev r2) idx else r2 in
      (n2, r3).

  Fixpoint apply_loop (cur_rev : N) (next : St) (es : list (N * N * C)) : St * list Result :=
    match es with
    | [] => (next, [])
    | (idx, term, cmd) :: rest =>
      let '(n, r) := apply_entry cur_rev next idx term cmd in
      let '(n', rs) := apply_loop cur_rev n rest in
      (n', r :: rs)
    end.

  (* the machine: published state, the store's content, the degraded flag *)
  Record Machine := Mk { m_state : St; m_store : option St; m_degraded : bool }.

  (* what one ApplyBatch reports: results, error?, FinalState (on success), the value handed to Save *)
  Record BatchOut := BO { bo_results : list Result; bo_err : bool; bo_final : option St; bo_saved : option St }.

  (* store mode: 0 Save succeeds, 1 Save fails and keeps the old file, 2 Save replaces the file but reports failure *)
  Definition ApplyBatch (m : Machine) (mode : N) (es : list (N * N * C)) : Machine * BatchOut :=
    let current := m_state m in
    let '(next, results) := apply_loop (revision current) current es in
    if revision next =? 0 then (m, BO results false (Some next) None)
    else
      let next' := set_ck next (ck next) in
      if mode =? 0 then (Mk next' (Some next') false, BO results false (Some next') (Some next'))
      else if mode =? 1 then (Mk current (m_store m) true, BO results true None (Some next'))
      else (Mk current (Some next') true, BO results true None (Some next')).

  (* New + Load: the published state is what the store holds, ClusterState{} when it holds nothing *)
  Definition restart (m : Machine) : Machine :=
    Mk (match m_store m with Some s => s | None => empty end) (m_store m) false.

  Definition fresh : Machine := Mk empty None false.

  (* a committed log applied as the given sequence of batches, every Save succeeding:
     the machine at the end and all per-entry results in log order *)
  Fixpoint apply_parts (m : Machine) (parts : list (list (N * N * C))) : Machine * list Result :=
    match parts with
    | [] => (m, [])
    | p :: rest =>
      let '(m', out) := ApplyBatch m 0 p in
      let '(m'', rs) := apply_parts m' rest in
      (m'', bo_results out ++ rs)
    end.
End Frame.

Arguments Machine : clear implicits.
Arguments BatchOut : clear implicits.
Arguments Mk {St}.
Arguments m_state {St}.
Arguments m_store {St}.
Arguments m_degraded {St}.
Arguments BO {St}.
Arguments bo_results {St}.
Arguments bo_err {St}.
Arguments bo_final {St}.
Arguments bo_saved {St}.

(* ---- the concrete instance ---------------------------------------------------------------------------------------- *)

Definition entry_tuple (e : Entry) : N * N * Command := (e_idx e, e_term e, e_cmd e).

Definition c_ApplyBatch (ck : CState -> bytes) (m : Machine CState) (mode : N) (es : list Entry) : Machine CState * BatchOut CState :=
  ApplyBatch s_rev s_applied set_applied set_checksum applyMutation ck m mode (map entry_tuple es).
Definition c_restart (m : Machine CState) : Machine CState := restart empty_state m.
Definition c_fresh : Machine CState := fresh empty_state.
