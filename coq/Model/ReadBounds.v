(* Model/ReadBounds.v — C10: committed-read clamping, retention boundaries, trim gating.

   One Gallina definition per Go function (same names where Coq allows):

     pkg/channel/reactor/retention.go     minISRMatchOffset, retentionTrimDecision,
                                          handleApplyRetentionBoundary (+ trySubmitRetentionCheckpoint),
                                          handleStoreRetentionResult
     pkg/channel/reactor/lifecycle_runtime.go  handleStoreCheckpointResult (CheckpointHW raise only)
     pkg/channel/worker/task.go           runStoreRetention, runStoreCheckpoint
     pkg/db/message/compat.go             readRowsRaw, readRowsReverse, ListMessagesBySeq,
                                          AdoptRetentionBoundary, TrimMessagesThroughLimit,
                                          StoreCheckpointHWMonotonic
     pkg/db/message/retention.go          trimPrefixThroughLimit (adoptBoundary=false), validateRetentionState
     pkg/channel/store/channel_adapter.go Load, ReadCommitted, AppendLeader (non-exact), AdoptRetentionBoundary,
                                          TrimMessagesThrough, LoadRetentionState
     pkg/cluster/channels/service.go      readLocalCommitted, nextSeq
     internal/infra/cluster/message_reader.go  SyncMessages, readCommittedRequest, queryMaxSeq,
                                          channelMessagePageFromRead, syncedMessagesFromChannel, filterSyncedMessages

   uint64 values are N (the harness never drives a log to 2^64; the two places
   where the code itself guards the wrap — nextSeq and startSeq == 0 — are
   transcribed); Go int values (Limit, MaxBytes, MaxMessages, MinISR) are Z.
   Definitions only. *)
From WK Require Import Base.Base Gen.Consts_C10.
Open Scope N_scope.

(* ------------------------------------------------------------------ store *)

(* a stored message row: sequence, payload length, SyncOnce flag *)
Record row := mkRow { row_seq : N; row_size : N; row_sync : bool }.

Record store := mkStore {
  s_rows  : list row;   (* ascending by sequence in every reachable state *)
  s_leo   : N;          (* ChannelLog.leo (max of last row and RetainedMaxSeq) *)
  s_ckpt  : N;          (* durable checkpoint HW, 0 when none stored *)
  s_local : N;          (* RetentionState.LocalRetentionThroughSeq *)
  s_phys  : N;          (* RetentionState.PhysicalRetentionThroughSeq *)
  s_rmax  : N }.        (* RetentionState.RetainedMaxSeq *)

Definition empty_store : store := mkStore [] 0 0 0 0 0.

(* adapter.Load: HW := min(checkpoint.HW, LEO) *)
Definition load_hw (s : store) : N := N.min (s_ckpt s) (s_leo s).

(* error classes: 0 ok, 1 invalid argument / invalid config, 2 corrupt state (adapter: ErrLogConflict) *)

(* the byte / count budget shared by readRowsRaw's flush and readRowsReverse's loop:
   stop BEFORE a row when MaxBytes > 0, something was taken and it would exceed;
   stop AFTER a row when Limit > 0 and the count reached it. *)
Fixpoint take_budget (limit maxBytes : Z) (taken : Z) (total : Z) (l : list row) : list row :=
  match l with
  | [] => []
  | r :: rest =>
      let sz := Z.of_N (row_size r) in
      if (0 <? maxBytes)%Z && (0 <? taken)%Z && (maxBytes <? total + sz)%Z then []
      else r :: (if (0 <? limit)%Z && (limit <=? taken + 1)%Z then []
                 else take_budget limit maxBytes (taken + 1)%Z (total + sz)%Z rest)
  end.

(* rows with fromSeq <= seq (iterator start) up to the first one above maxSeq (when maxSeq > 0) *)
Definition in_range (fromSeq maxSeq : N) (r : row) : bool :=
  (fromSeq <=? row_seq r) && ((maxSeq =? 0) || (row_seq r <=? maxSeq)).

Fixpoint scan_range (fromSeq maxSeq : N) (l : list row) : list row :=
  match l with
  | [] => []
  | r :: rest =>
      if row_seq r <? fromSeq then scan_range fromSeq maxSeq rest
      else if negb (maxSeq =? 0) && (maxSeq <? row_seq r) then []
      else r :: scan_range fromSeq maxSeq rest
  end.

Definition readRows (s : store) (fromSeq maxSeq : N) (limit maxBytes : Z) : list row :=
  let from := if fromSeq =? 0 then 1 else fromSeq in
  take_budget limit maxBytes 0 0 (scan_range from maxSeq (s_rows s)).

Definition readRowsReverse (s : store) (fromSeq : N) (limit maxBytes : Z) : list row :=
  let from := if fromSeq =? 0 then s_leo s else fromSeq in
  let all := readRows s 1 from 0 0 in
  take_budget limit maxBytes 0 0 (rev all).

Definition ListMessagesBySeq (s : store) (fromSeq : N) (limit maxBytes : Z) (reverse : bool) : list row :=
  if reverse then readRowsReverse s fromSeq limit maxBytes
  else readRows s fromSeq 0 limit maxBytes.

(* ---- ReadCommittedRequest and adapter.ReadCommitted -------------------- *)

Record req := mkReq {
  q_from : N; q_max : N; q_min : N; q_limit : Z; q_bytes : Z; q_reverse : bool }.

(* the loop over the listed messages: (out (reversed), next, stopped) *)
Definition rc_step (q : req) (acc : list row * N * bool) (m : row) : list row * N * bool :=
  let '(out, next, stopped) := acc in
  if stopped then acc
  else if negb (q_min q =? 0) && (row_seq m <? q_min q) then
    (if q_reverse q then (out, q_min q - 1, true) else acc)
  else if negb (q_max q =? 0) && (q_max q <? row_seq m) then
    (if q_reverse q then acc else (out, next, true))
  else
    (m :: out,
     (if q_reverse q then (if row_seq m =? 0 then 0 else row_seq m - 1) else row_seq m + 1),
     false).

Definition ReadCommitted (s : store) (q : req) : list row * N :=
  let readFrom :=
    if negb (q_reverse q) && negb (q_min q =? 0) && (q_from q <? q_min q) then q_min q else q_from q in
  if q_reverse q && negb (q_min q =? 0) && (readFrom <? q_min q) then ([], readFrom)
  else if negb (q_reverse q) && negb (q_max q =? 0) && negb (q_min q =? 0) && (q_max q <? q_min q) then ([], readFrom)
  else
    let msgs := ListMessagesBySeq s readFrom (q_limit q) (q_bytes q) (q_reverse q) in
    let '(out, next, _) := fold_left (rc_step q) msgs ([], readFrom, false) in
    (rev out, next).

(* ---- channels.Service.readLocalCommitted ------------------------------- *)

Definition nextSeq (seq : N) : N := if seq =? MaxUint64 then seq else seq + 1.

Definition committed_of (s : store) (minISR : Z) : N :=
  if (minISR <=? 1)%Z then s_leo s else load_hw s.

Definition clamp_req (s : store) (q : req) (retention : N) (minISR : Z) : req :=
  let committed := committed_of s minISR in
  let minSeq := N.max (q_min q) (nextSeq (N.max retention (s_local s))) in
  let maxSeq := if (q_max q =? 0) || (committed <? q_max q) then committed else q_max q in
  let from := if q_reverse q && (committed <? q_from q) then committed else q_from q in
  mkReq from maxSeq minSeq (q_limit q) (q_bytes q) (q_reverse q).

Definition readLocalCommitted (s : store) (q : req) (retention : N) (minISR : Z) : list row * N :=
  let committed := committed_of s minISR in
  if negb (q_reverse q) && (committed <? q_from q) then ([], q_from q)
  else
    let c := clamp_req s q retention minISR in
    if committed =? 0 then
      (* nothing is committed: the empty page (fix d06215a91; before it MaxSeq = 0 meant "unbounded") *)
      ([], if negb (q_reverse c) && (q_from c <? q_min c) then q_min c else q_from c)
    else ReadCommitted s c.

(* ---- message_reader.go -------------------------------------------------- *)

Record query := mkQuery { y_start : N; y_end : N; y_min : N; y_limit : Z; y_mode : N }.

Definition query_reverse (y : query) : bool :=
  (y_mode y =? PullModeDown) || ((y_start y =? 0) && (y_end y =? 0)).

Definition queryMaxSeq (y : query) : N :=
  if (y_mode y =? PullModeUp) && negb (y_end y =? 0) then y_end y - 1
  else if (y_mode y =? PullModeDown) && negb (y_start y =? 0) then y_start y
  else MaxUint64.

Definition sync_limit (y : query) : Z := if (y_limit y <=? 0)%Z then 1%Z else y_limit y.

Definition readCommittedRequest (y : query) (limit : Z) : req :=
  let rv := query_reverse y in
  let from0 := y_start y in
  let from1 := if rv && (from0 =? 0) then MaxUint64 else from0 in
  let max1 := if rv && (from0 =? 0) then MaxUint64 else queryMaxSeq y in
  let from2 := if (from1 =? 0) && negb rv then 1 else from1 in
  mkReq from2 max1 (y_min y) (limit + 1)%Z MaxInt rv.

Definition filterSyncedMessages (y : query) (seqs : list N) : list N :=
  if (y_mode y =? PullModeDown) && negb (y_end y =? 0) then filter (fun x => negb (x <=? y_end y)) seqs
  else if (y_mode y =? PullModeUp) && negb (y_end y =? 0) then filter (fun x => negb (y_end y <=? x)) seqs
  else seqs.

Definition syncedMessagesFromChannel (msgs : list row) : list N :=
  map row_seq (filter (fun m => negb (row_sync m)) msgs).

Definition channelMessagePageFromRead (y : query) (limit : Z) (msgs : list row) : list N * bool :=
  let seqs := filterSyncedMessages y (syncedMessagesFromChannel msgs) in
  let hasMore := (limit <? Z.of_nat (length seqs))%Z in
  let seqs1 := if hasMore then firstn (Z.to_nat limit) seqs else seqs in
  ((if query_reverse y then rev seqs1 else seqs1), hasMore).

Definition SyncMessages (s : store) (y : query) (retention : N) (minISR : Z) : list N * bool :=
  let limit := sync_limit y in
  let '(msgs, _) := readLocalCommitted s (readCommittedRequest y limit) retention minISR in
  channelMessagePageFromRead y limit msgs.

(* ---- store mutations ---------------------------------------------------- *)

(* AppendLeader (non-exact): rows at LEO+1.. ; result BaseOffset = old LEO + 1, LastOffset = new LEO *)
Fixpoint new_rows (base : N) (sizes : list N) (flags : list bool) : list row :=
  match sizes with
  | [] => []
  | sz :: rest =>
      mkRow (base + 1) sz (match flags with f :: _ => f | [] => false end)
      :: new_rows (base + 1) rest (match flags with _ :: fr => fr | [] => [] end)
  end.

Definition AppendLeader (s : store) (sizes : list N) (flags : list bool) : store * N * N :=
  let n := N.of_nat (length sizes) in
  (mkStore (s_rows s ++ new_rows (s_leo s) sizes flags) (s_leo s + n) (s_ckpt s) (s_local s) (s_phys s) (s_rmax s),
   s_leo s + 1, s_leo s + n).

(* StoreCheckpointHWMonotonic *)
Definition StoreCheckpoint (s : store) (hw : N) : store :=
  if hw <=? s_ckpt s then s
  else mkStore (s_rows s) (s_leo s) hw (s_local s) (s_phys s) (s_rmax s).

(* adapter.AdoptRetentionBoundary: (error class, RetainedMaxSeq) *)
Definition AdoptRetentionBoundary (s : store) (through : N) : store * N * N :=
  if through =? 0 then (s, 1, 0)
  else
    let local := N.max (s_local s) through in
    let rmax := N.max (s_rmax s) (N.max (s_leo s) through) in
    let leo := if s_leo s <? rmax then rmax else s_leo s in
    (mkStore (s_rows s) leo (s_ckpt s) local (s_phys s) rmax, 0, rmax).

Definition validateRetentionState (local phys rmax : N) : bool :=
  negb ((local =? 0) && (0 <? rmax)) && negb (local <? phys) && negb ((0 <? local) && (rmax <? local)).

Record trim_result := mkTrim { t_deleted_through : N; t_deleted : N; t_more : bool }.
Definition no_trim : trim_result := mkTrim 0 0 false.

Fixpoint last_seq (l : list row) (d : N) : N :=
  match l with [] => d | r :: rest => last_seq rest (row_seq r) end.

Definition mem_seq (x : N) (l : list row) : bool := existsb (fun r => row_seq r =? x) l.

(* TrimMessagesThroughLimit -> trimPrefixThroughLimit(adoptBoundary = false) *)
Definition TrimMessagesThrough (s : store) (through : N) (maxMessages maxBytes : Z) : store * N * trim_result :=
  if through =? 0 then (s, 1, no_trim)
  else if s_local s <? through then (s, 2, no_trim)
  else if s_phys s =? MaxUint64 then (s, 2, no_trim)
  else
    let startSeq := s_phys s + 1 in
    let limit := if (0 <? maxMessages)%Z then (maxMessages + 1)%Z else 0%Z in
    let rows := readRows s startSeq through limit maxBytes in
    let over := (0 <? maxMessages)%Z && (maxMessages <? Z.of_nat (length rows))%Z in
    let deleteRows := if over then firstn (Z.to_nat maxMessages) rows else rows in
    let more1 := over in
    let more := more1 || ((0 <? maxBytes)%Z && negb (match deleteRows with [] => true | _ => false end)
                           && (last_seq deleteRows 0 <? through)) in
    let rmax := if s_rmax s <? s_leo s then s_leo s else s_rmax s in
    let deletedThrough := last_seq deleteRows 0 in
    let phys := if negb more && (s_phys s <? through) then through
                else if s_phys s <? deletedThrough then deletedThrough else s_phys s in
    if negb (validateRetentionState (s_local s) phys rmax) then (s, 1, no_trim)
    else
      (mkStore (filter (fun r => negb (mem_seq (row_seq r) deleteRows)) (s_rows s))
               (N.max (s_leo s) rmax) (s_ckpt s) (s_local s) phys rmax,
       0, mkTrim deletedThrough (N.of_nat (length deleteRows)) more).

(* ----------------------------------------------------------------- reactor *)

Record rstate := mkRState {
  r_role : N; r_node : N; r_isr : list N; r_prog : list (N * N);
  r_leo : N; r_hw : N; r_ckpt : N;
  r_retention : N; r_local : N; r_phys : N }.

(* initial runtime of the harness rig: leader, node 1, no ISR, everything 0 *)
Definition init_rstate : rstate := mkRState RoleLeader 1 [] [] 0 0 0 0 0 0.

Fixpoint lookup (n : N) (l : list (N * N)) : option N :=
  match l with
  | [] => None
  | (k, v) :: rest => if k =? n then Some v else lookup n rest
  end.

Definition isr_match (st : rstate) (node : N) : N :=
  if node =? r_node st then r_leo st
  else match lookup node (r_prog st) with Some m => m | None => r_retention st end.

Definition minISRMatchOffset (st : rstate) : N :=
  match r_isr st with
  | [] => 0
  | n :: rest => fold_left (fun m x => if isr_match st x <? m then isr_match st x else m) rest (isr_match st n)
  end.

(* blocked reasons: 0 "", 1 hw_lag, 2 checkpoint_lag, 3 leo_lag, 4 min_isr_lag *)
Definition retentionTrimDecision (st : rstate) (through : N) : bool * N :=
  if through =? 0 then (false, 3)
  else if through <=? r_phys st then (false, 0)
  else if r_hw st <? through then (false, 1)
  else if r_ckpt st <? through then (false, 2)
  else if r_leo st <? through then (false, 3)
  else if (r_role st =? RoleLeader) && (minISRMatchOffset st <? through) then (false, 4)
  else (true, 0).

Definition with_retention (st : rstate) (v : N) : rstate :=
  mkRState (r_role st) (r_node st) (r_isr st) (r_prog st) (r_leo st) (r_hw st) (r_ckpt st) v (r_local st) (r_phys st).

(* ------------------------------------------------------------------ system *)

Record sys := mkSys { y_store : store; y_r : rstate }.
Definition init_sys : sys := mkSys empty_store init_rstate.

Inductive op :=
| OAppend (sizes : list N) (flags : list bool)
| OHW (v : N)
| OCkpt (v : N)
| OMeta (role node : N) (isr : list N) (prog : list (N * N))
| OApply (through : N) (maxMessages maxBytes : Z)
| OAdopt (through : N)
| OTrim (through : N) (maxMessages maxBytes : Z)
| ORead (q : req) (retention : N) (minISR : Z)
| OSync (start endSeq minSeq : N) (limit : Z) (mode : N) (retention : N) (minISR : Z).

Inductive res :=
| RUnit
| RErr (e : N)
| RAppend (e base last : N)
| RApply (e through local phys deletedThrough deleted : N) (more : bool) (blocked : N)
         (ckptSubmitted storeTask trimAllowed : bool)
| RAdopt (e rmax : N)
| RTrim (e deletedThrough deleted : N) (more : bool)
| RRead (e : N) (msgs : list (N * bool)) (next : N)
| RSync (e : N) (seqs : list N) (hasMore : bool).

(* handleApplyRetentionBoundary + runStoreRetention + handleStoreRetentionResult
   (+ trySubmitRetentionCheckpoint / runStoreCheckpoint / handleStoreCheckpointResult) *)
Definition apply_retention (y : sys) (through : N) (maxMessages maxBytes : Z) : sys * res :=
  let s := y_store y in
  let st := y_r y in
  if through =? 0 then (y, RApply 1 0 0 0 0 0 false 0 false false false)
  else
    let st1 := if r_retention st <? through then with_retention st through else st in
    if (through <=? r_local st1) && (through <=? r_phys st1) then
      (mkSys s st1, RApply 0 through (r_local st1) (r_phys st1) 0 0 false 0 false false false)
    else
      let '(allowed, reason) := retentionTrimDecision st1 through in
      let ckptSubmitted := (reason =? 2) && (through <=? r_leo st1) in
      (* worker: adopt, optional trim, reload *)
      let '(s1, e1, rmax1) := AdoptRetentionBoundary s through in
      let '(s2, e2, tr) := if allowed then TrimMessagesThrough s1 through maxMessages maxBytes
                           else (s1, 0, no_trim) in
      (* retention-owned checkpoint (independent of the retention task) *)
      let s3 := if ckptSubmitted then StoreCheckpoint s2 through else s2 in
      let ck := if ckptSubmitted && (r_ckpt st1 <? through) then through else r_ckpt st1 in
      if negb (e2 =? 0) then
        (mkSys s3 (mkRState (r_role st1) (r_node st1) (r_isr st1) (r_prog st1) (r_leo st1) (r_hw st1) ck
                            (r_retention st1) (r_local st1) (r_phys st1)),
         RApply e2 0 0 0 0 0 false 0 ckptSubmitted true allowed)
      else
        let stored_rmax := N.max rmax1 (s_rmax s2) in
        let local := N.max (r_local st1) (s_local s2) in
        let phys := N.max (r_phys st1) (s_phys s2) in
        let leo := N.max (r_leo st1) stored_rmax in
        (mkSys s3 (mkRState (r_role st1) (r_node st1) (r_isr st1) (r_prog st1) leo (r_hw st1) ck
                            (r_retention st1) local phys),
         RApply 0 through local phys (t_deleted_through tr) (t_deleted tr) (t_more tr) reason
                ckptSubmitted true allowed).

Definition step (y : sys) (o : op) : sys * res :=
  let s := y_store y in
  let st := y_r y in
  match o with
  | OAppend sizes flags =>
      let '(s1, base, last) := AppendLeader s sizes flags in
      let leo := match sizes with [] => r_leo st | _ => last end in
      (mkSys s1 (mkRState (r_role st) (r_node st) (r_isr st) (r_prog st) leo (r_hw st) (r_ckpt st)
                          (r_retention st) (r_local st) (r_phys st)),
       RAppend 0 base last)
  | OHW v =>
      (mkSys s (mkRState (r_role st) (r_node st) (r_isr st) (r_prog st) (r_leo st) v (r_ckpt st)
                         (r_retention st) (r_local st) (r_phys st)), RUnit)
  | OCkpt v =>
      (mkSys (StoreCheckpoint s v)
             (mkRState (r_role st) (r_node st) (r_isr st) (r_prog st) (r_leo st) (r_hw st)
                       (if r_ckpt st <? v then v else r_ckpt st)
                       (r_retention st) (r_local st) (r_phys st)), RErr 0)
  | OMeta role node isr prog =>
      (mkSys s (mkRState role node isr prog (r_leo st) (r_hw st) (r_ckpt st)
                         (r_retention st) (r_local st) (r_phys st)), RUnit)
  | OApply through mm mb => apply_retention y through mm mb
  | OAdopt through =>
      let '(s1, e, rmax) := AdoptRetentionBoundary s through in
      (mkSys s1 st, RAdopt e rmax)
  | OTrim through mm mb =>
      let '(s1, e, tr) := TrimMessagesThrough s through mm mb in
      (mkSys s1 st, RTrim e (t_deleted_through tr) (t_deleted tr) (t_more tr))
  | ORead q retention minISR =>
      let '(msgs, next) := readLocalCommitted s q retention minISR in
      (y, RRead 0 (map (fun m => (row_seq m, row_sync m)) msgs) next)
  | OSync start endSeq minSeq limit mode retention minISR =>
      let '(seqs, more) := SyncMessages s (mkQuery start endSeq minSeq limit mode) retention minISR in
      (y, RSync 0 seqs more)
  end.

(* -------------------------------------------------- snapshots, cases, monitor *)

Record snap := mkSnap {
  n_rows : list N; n_leo : N; n_hw : N; n_local : N; n_phys : N; n_rmax : N; n_r : rstate }.

Definition snap_of (y : sys) : snap :=
  let s := y_store y in
  mkSnap (map row_seq (s_rows s)) (s_leo s) (load_hw s) (s_local s) (s_phys s) (s_rmax s) (y_r y).

(* case files print a snapshot's row list as ranges: [rgs [(2, 14); (20, 21)]] = [2; ...; 14; 20; 21] *)
Fixpoint rg (lo : N) (n : nat) : list N :=
  match n with O => [] | S k => lo :: rg (lo + 1) k end.
Fixpoint rgs (l : list (N * N)) : list N :=
  match l with
  | [] => []
  | (lo, hi) :: rest => rg lo (N.to_nat (hi + 1 - lo)) ++ rgs rest
  end.

Record step_obs := mkStep { o_op : op; o_res : res; o_snap : snap }.

Inductive c10_case :=
| C10Pure (st : rstate) (through : N) (allowed : bool) (reason : N) (minMatch : N)
| C10Hist (steps : list step_obs).

(* ---- equality tests (canonical observables) ---- *)

Definition nlist_eqb := list_eqb N.eqb.
Definition pair_eqb (a b : N * N) : bool := (fst a =? fst b) && (snd a =? snd b).
Definition msg_eqb (a b : N * bool) : bool := (fst a =? fst b) && Bool.eqb (snd a) (snd b).

Definition rstate_eqb (a b : rstate) : bool :=
  (r_role a =? r_role b) && (r_node a =? r_node b) && nlist_eqb (r_isr a) (r_isr b)
  && list_eqb pair_eqb (r_prog a) (r_prog b)
  && (r_leo a =? r_leo b) && (r_hw a =? r_hw b) && (r_ckpt a =? r_ckpt b)
  && (r_retention a =? r_retention b) && (r_local a =? r_local b) && (r_phys a =? r_phys b).

Definition snap_eqb (a b : snap) : bool :=
  nlist_eqb (n_rows a) (n_rows b) && (n_leo a =? n_leo b) && (n_hw a =? n_hw b)
  && (n_local a =? n_local b) && (n_phys a =? n_phys b) && (n_rmax a =? n_rmax b)
  && rstate_eqb (n_r a) (n_r b).

Definition res_eqb (a b : res) : bool :=
  match a, b with
  | RUnit, RUnit => true
  | RErr x, RErr y => x =? y
  | RAppend e1 b1 l1, RAppend e2 b2 l2 => (e1 =? e2) && (b1 =? b2) && (l1 =? l2)
  | RApply e1 t1 l1 p1 d1 n1 m1 b1 c1 s1 a1, RApply e2 t2 l2 p2 d2 n2 m2 b2 c2 s2 a2 =>
      (e1 =? e2) && (t1 =? t2) && (l1 =? l2) && (p1 =? p2) && (d1 =? d2) && (n1 =? n2)
      && Bool.eqb m1 m2 && (b1 =? b2) && Bool.eqb c1 c2 && Bool.eqb s1 s2 && Bool.eqb a1 a2
  | RAdopt e1 r1, RAdopt e2 r2 => (e1 =? e2) && (r1 =? r2)
  | RTrim e1 d1 n1 m1, RTrim e2 d2 n2 m2 => (e1 =? e2) && (d1 =? d2) && (n1 =? n2) && Bool.eqb m1 m2
  | RRead e1 m1 n1, RRead e2 m2 n2 => (e1 =? e2) && list_eqb msg_eqb m1 m2 && (n1 =? n2)
  | RSync e1 s1 h1, RSync e2 s2 h2 => (e1 =? e2) && nlist_eqb s1 s2 && Bool.eqb h1 h2
  | _, _ => false
  end.

(* ---- mismatch: replay the ops on the model ---- *)

Fixpoint replay_mismatch (y : sys) (steps : list step_obs) : bool :=
  match steps with
  | [] => false
  | t :: rest =>
      let '(y1, r) := step y (o_op t) in
      negb (res_eqb r (o_res t)) || negb (snap_eqb (snap_of y1) (o_snap t)) || replay_mismatch y1 rest
  end.

Definition C10_mismatch (c : c10_case) : bool :=
  match c with
  | C10Pure st through allowed reason minMatch =>
      let '(a, r) := retentionTrimDecision st through in
      negb (Bool.eqb a allowed) || negb (r =? reason) || negb (minISRMatchOffset st =? minMatch)
  | C10Hist steps => replay_mismatch init_sys steps
  end.

(* ---- the property as a monitor over implementation observations ---- *)

Definition memN (x : N) (l : list N) : bool := existsb (N.eqb x) l.
Definition subsetN (a b : list N) : bool := forallb (fun x => memN x b) a.

(* the retention boundary a read must respect: the caller's authoritative one or the store's adopted one *)
Definition boundary_of (pre : snap) (retention : N) : N := N.max retention (n_local pre).
Definition committed_snap (pre : snap) (minISR : Z) : N := if (minISR <=? 1)%Z then n_leo pre else n_hw pre.

Definition in_window (lo hi x : N) : bool := (lo <? x) && (x <=? hi).

(* trim gate on a deleted sequence d, in terms of the runtime state BEFORE the apply *)
Definition known_progress (st : rstate) (node : N) : option N :=
  if node =? r_node st then Some (r_leo st) else lookup node (r_prog st).

Definition gate_ok (st : rstate) (d : N) : bool :=
  (d <=? r_hw st) && (d <=? r_ckpt st) && (d <=? r_leo st)
  && (negb (r_role st =? RoleLeader)
      || forallb (fun n => match known_progress st n with Some m => d <=? m | None => true end) (r_isr st)).

Definition deleted_rows (pre post : snap) : list N := filter (fun x => negb (memN x (n_rows post))) (n_rows pre).

Definition monotone_ok (pre post : snap) : bool :=
  (n_local pre <=? n_local post) && (n_phys pre <=? n_phys post)
  && (r_retention (n_r pre) <=? r_retention (n_r post))
  && (r_local (n_r pre) <=? r_local (n_r post))
  && (r_phys (n_r pre) <=? r_phys (n_r post)).

(* sequences appended with SyncOnce, from the append's observed base offset (first new sequence) *)
Definition sync_seqs (base : N) (sizes : list N) (flags : list bool) : list N :=
  map row_seq (filter row_sync (new_rows (base - 1) sizes flags)).

(* per step: 0 ok, 1 violation *)
Definition step_code (pre : snap) (syncs : list N) (t : step_obs) : N :=
  let post := o_snap t in
  let del := deleted_rows pre post in
  if negb (monotone_ok pre post) then 1
  else
    match o_op t, o_res t with
    | ORead q retention minISR, RRead _ msgs _ =>
        let lo := boundary_of pre retention in
        let hi := committed_snap pre minISR in
        if negb (match del with [] => true | _ => false end) then 1
        else if forallb (fun m => in_window lo hi (fst m)) msgs then 0
        else 1
    | OSync _ _ _ _ _ retention minISR, RSync _ seqs _ =>
        let lo := boundary_of pre retention in
        let hi := committed_snap pre minISR in
        if negb (match del with [] => true | _ => false end) then 1
        else if forallb (fun x => in_window lo hi x && negb (memN x syncs)) seqs then 0 else 1
    | OApply _ _ _, RApply _ _ _ _ _ _ _ _ _ _ _ =>
        if forallb (gate_ok (n_r pre)) del then 0 else 1
    | OTrim _ _ _, RTrim _ _ _ _ =>
        if forallb (fun d => d <=? n_local pre) del then 0 else 1
    | _, _ => match del with [] => 0 | _ => 1 end
    end.

Definition syncs_after (syncs : list N) (t : step_obs) : list N :=
  match o_op t, o_res t with
  | OAppend sizes flags, RAppend _ base _ => sync_seqs base sizes flags ++ syncs
  | _, _ => syncs
  end.

Fixpoint monitor_steps (pre : snap) (syncs : list N) (steps : list step_obs) : N :=
  match steps with
  | [] => 0
  | t :: rest =>
      match step_code pre syncs t with
      | 0 => monitor_steps (o_snap t) (syncs_after syncs t) rest
      | _ => 1
      end
  end.

(* the pure decision case: allowed = true must imply every gate *)
Definition pure_gate_ok (st : rstate) (through : N) : bool :=
  negb (through =? 0) && (through <=? r_hw st) && (through <=? r_ckpt st) && (through <=? r_leo st)
  && (negb (r_role st =? RoleLeader)
      || forallb (fun n => through <=? isr_match st n) (r_isr st)).

Definition C10_monitor (c : c10_case) : N :=
  match c with
  | C10Pure st through allowed _ _ => if allowed then (if pure_gate_ok st through then 0 else 1) else 0
  | C10Hist steps => monitor_steps (snap_of init_sys) [] steps
  end.
