(* Model/ChanAppend.v — internal/runtime/channelappend: the pure cores of the
   channel append runtime and the per-channel append pipeline.

     append.go   newIdempotentAppendBatch, hasCoalescibleIdempotentItems,
                 logicalSendFingerprint, sameLogicalSend, expandCompletions,
                 appendResultCompletions, activeAppendItems, appendRequest,
                 appendEffect.run, appendBatchErrorCompletionsOrRecoveries(AndRetry),
                 reasonForAppendError
     prepare.go  idempotencyPayloadHash, lookupIdempotentSend
     state.go    canAdmit, enqueuePrepared, nextAppendBatch, canStartAppend,
                 finishAppend, recordAppendCompletion, popNextAppendCompletion
     writer.go   admitPreparedLocked (admission part), nextAppendLocked, runAppend,
                 applyAppendCompletion as the events of [pstep]
     internal/infra/cluster/idempotency.go  ChannelIdempotencyStore.LookupSend

   The Appender / idempotency ports are Section variables: an abstract state [St]
   threaded through [do_append] and [do_nlookup]; every behaviour of the
   environment (failures before and after commit, short result vectors, lookup
   errors, spurious misses) is a behaviour of those two functions.  The two hash
   functions are Section variables as well; the instances used on cases are the
   FNV-1a functions of the code ([idempotencyPayloadHash], [logicalSendFingerprint]). *)
From WK Require Import Base.Base Gen.Consts_C29.
Open Scope N_scope.

(* ---- error classes (harness/cmd/C29/errs.go) --------------------------------- *)
Definition E_NONE : N := 0.
Definition E_RESULT_MISSING : N := 1.
Definition E_APPEND_FAILED : N := 2.
Definition E_NOT_LEADER : N := 3.
Definition E_CHANNEL_NOT_FOUND : N := 4.
Definition E_STALE_ROUTE : N := 5.
Definition E_ROUTE_NOT_READY : N := 6.
Definition E_CANCELED : N := 7.
Definition E_DEADLINE : N := 8.
Definition E_CHANNEL_BUSY : N := 9.
Definition E_BACKPRESSURED : N := 10.
Definition E_LOOKUP : N := 12.

(* ---- commands and prepared sends ----------------------------------------------- *)

Record cmd := Cmd { c_uid : bytes; c_cno : bytes; c_pay : bytes }.

(* preparedSend: the future it belongs to ([ps_call]), its Index there, the
   canonical command, the message id carried by the command, whether that id is
   server allocated, the class of appendItemError (0 = nil) and a tag that
   identifies the submission (Command.TraceID in the harness). *)
Record psend := PSend {
  ps_call : N; ps_index : N; ps_cmd : cmd; ps_mid : N; ps_alloc : bool; ps_dead : N; ps_tag : N }.

Definition dflt_cmd : cmd := Cmd [] [] [].
Definition dflt_psend : psend := PSend 0 0 dflt_cmd 0 false 0 0.

Definition is_nil {A} (l : list A) : bool := match l with [] => true | _ => false end.

(* cmd.FromUID != "" && cmd.ClientMsgNo != "" *)
Definition keyed (c : cmd) : bool := negb (is_nil (c_uid c)) && negb (is_nil (c_cno c)).

Definition sameLogicalSend (a b : cmd) : bool :=
  bytes_eqb (c_uid a) (c_uid b) && bytes_eqb (c_cno a) (c_cno b) && bytes_eqb (c_pay a) (c_pay b).

(* ---- FNV-1a 64 (prepare.go idempotencyPayloadHash, append.go logicalSendFingerprint) *)

Definition fnv_step (h b : N) : N := wrap64 (N.lxor h b * c29_fnv_prime).
Definition fnv_bytes (h : N) (bs : bytes) : N := fold_left fnv_step bs h.
Definition fnv_sep (h : N) : N := wrap64 (h * c29_fnv_prime).   (* hash ^= 0; hash *= prime *)

Definition idempotencyPayloadHash (p : bytes) : N := fnv_bytes c29_fnv_offset p.

Definition logicalSendFingerprint (c : cmd) : N :=
  fnv_bytes (fnv_sep (fnv_bytes (fnv_sep (fnv_bytes c29_fnv_offset (c_uid c))) (c_cno c))) (c_pay c).

(* ---- hasCoalescibleIdempotentItems: open addressing over a fixed table ------------ *)

Definition tsize : nat := N.to_nat c29_stack_table_size.
Definition slot_mask (x : N) : N := N.land x (c29_stack_table_size - 1).

(* one slot: (fingerprints[slot], owners[slot]); owner 0 = empty, else index+1 *)
Definition tbl := list (N * N).
Definition tbl_init : tbl := repeat (0, 0) tsize.

Fixpoint set_nth {A} (n : nat) (x : A) (l : list A) : list A :=
  match l, n with
  | [], _ => []
  | _ :: r, O => x :: r
  | y :: r, S n' => y :: set_nth n' x r
  end.

Inductive probe_res := PFound | PInsert (slot : N) | PFuel.

Fixpoint probe (fuel : nat) (items : list psend) (t : tbl) (slot fpv : N) (c : cmd) : probe_res :=
  match fuel with
  | O => PFuel
  | S f =>
      let e := nth (N.to_nat slot) t (0, 0) in
      if snd e =? 0 then PInsert slot
      else if (fst e =? fpv) && sameLogicalSend (ps_cmd (nth (N.to_nat (snd e - 1)) items dflt_psend)) c
           then PFound
           else probe f items t (slot_mask (slot + 1)) fpv c
  end.

(* None = the probe loop did not terminate (impossible within the documented bound) *)
Fixpoint hasCoal_loop (fp : cmd -> N) (all : list psend) (t : tbl) (idx : N) (rest : list psend) : option bool :=
  match rest with
  | [] => Some false
  | it :: r =>
      let c := ps_cmd it in
      if keyed c then
        let f := fp c in
        match probe tsize all t (slot_mask f) f c with
        | PFound => Some true
        | PInsert s => hasCoal_loop fp all (set_nth (N.to_nat s) (f, idx + 1) t) (idx + 1) r
        | PFuel => None
        end
      else hasCoal_loop fp all t (idx + 1) r
  end.

Definition hasCoalescibleIdempotentItems (fp : cmd -> N) (items : list psend) : option bool :=
  hasCoal_loop fp items tbl_init 0 items.

(* ---- newIdempotentAppendBatch ----------------------------------------------------- *)

(* idempotencyKey{fromUID, clientMsgNo, payloadHash} *)
Definition ikey := (bytes * bytes * N)%type.
Definition ikey_eqb (a b : ikey) : bool :=
  bytes_eqb (fst (fst a)) (fst (fst b)) && bytes_eqb (snd (fst a)) (snd (fst b)) && (snd a =? snd b).

Fixpoint seen_get (k : ikey) (s : list (ikey * nat)) : option nat :=
  match s with
  | [] => None
  | (k', v) :: r => if ikey_eqb k k' then Some v else seen_get k r
  end.

(* idempotentAppendBatch; [ib_owners = None] is the nil ownerByItem fast path *)
Record ibatch := IB { ib_items : list psend; ib_original : list psend; ib_owners : option (list nat) }.

Definition nb_state := (ibatch * list (ikey * nat))%type.

Definition nb_push (b : ibatch) (it : psend) : ibatch :=
  match ib_owners b with
  | Some ow => IB (ib_items b ++ [it]) (ib_original b) (Some (ow ++ [length (ib_items b)]))
  | None => b
  end.

Definition nb_step (hashf : bytes -> N) (all : list psend) (index : nat) (it : psend) (st : nb_state) : nb_state :=
  let '(b, seen) := st in
  let c := ps_cmd it in
  if negb (keyed c) then (nb_push b it, seen)
  else
    let key := (c_uid c, c_cno c, hashf (c_pay c)) in
    match seen_get key seen with
    | Some owner =>
        if sameLogicalSend (ps_cmd (nth owner (ib_items b) dflt_psend)) c then
          match ib_owners b with
          | None => (IB (firstn index all) all (Some (seq 0 index ++ [owner])), seen)
          | Some ow => (IB (ib_items b) (ib_original b) (Some (ow ++ [owner])), seen)
          end
        else (nb_push b it, seen)
    | None =>
        match ib_owners b with
        | None => (b, (key, index) :: seen)
        | Some _ => (nb_push b it, (key, length (ib_items b)) :: seen)
        end
    end.

Fixpoint nb_loop (hashf : bytes -> N) (all : list psend) (index : nat) (rest : list psend) (st : nb_state) : nb_state :=
  match rest with
  | [] => st
  | it :: r => nb_loop hashf all (S index) r (nb_step hashf all index it st)
  end.

Definition nb_trivial (items : list psend) : ibatch := IB items [] None.

Definition newIdempotentAppendBatch (hashf : bytes -> N) (fp : cmd -> N) (items : list psend) : ibatch :=
  if (length items <? 2)%nat then nb_trivial items
  else if (N.of_nat (length items) <=? c29_stack_item_limit)
          && match hasCoalescibleIdempotentItems fp items with Some false => true | _ => false end
       then nb_trivial items
       else fst (nb_loop hashf items 0 items (nb_trivial items, [])).

(* ---- completions --------------------------------------------------------------------- *)

(* SendBatchItemResult: SendResult{MessageID, MessageSeq, Reason} + class of Err *)
Record sres := SRes { r_id : N; r_seq : N; r_reason : N; r_err : N }.

(* appendItemCompletion: item, result, appended (MessageID, MessageSeq), committed, class of traceErr *)
Record comp := Comp { cp_item : psend; cp_res : sres; cp_app : N * N; cp_committed : bool; cp_trace : N }.

Definition dflt_comp : comp := Comp dflt_psend (SRes 0 0 0 0) (0, 0) false 0.

Definition is_success (r : sres) : bool := (r_err r =? 0) && (r_reason r =? c29_reason_success).

(* appendItemErrorCompletion / appendBatchErrorCompletions *)
Definition errcomp (it : psend) (cls : N) : comp := Comp it (SRes 0 0 0 cls) (0, 0) false cls.
Definition appendBatchErrorCompletions (items : list psend) (cls : N) : list comp :=
  map (fun it => errcomp it cls) items.

Fixpoint expand_loop (unique : list comp) (ows : list nat) (orig : list psend) (emitted : list bool) : list comp :=
  match ows, orig with
  | o :: ows', it :: orig' =>
      let c := nth o unique dflt_comp in
      Comp it (cp_res c) (cp_app c) (if nth o emitted false then false else cp_committed c) (cp_trace c)
      :: expand_loop unique ows' orig' (set_nth o true emitted)
  | _, _ => []
  end.

Definition expandCompletions (b : ibatch) (unique : list comp) : list comp :=
  match ib_owners b with
  | None => unique
  | Some ows => expand_loop unique ows (ib_original b) (repeat false (length unique))
  end.

(* AppendBatchItemResult: MessageID, MessageSeq, class of Err *)
Record ares := ARes { a_id : N; a_seq : N; a_err : N }.

Definition reasonForAppendError (cls : N) : N :=
  if cls =? E_CHANNEL_NOT_FOUND then c29_reason_channel_not_exist
  else if (cls =? E_NOT_LEADER) || (cls =? E_STALE_ROUTE) || (cls =? E_ROUTE_NOT_READY) then c29_reason_node_not_match
  else c29_reason_system_error.

Fixpoint appendResultCompletions (items : list psend) (res : list ares) : list comp :=
  match items with
  | [] => []
  | it :: r =>
      match res with
      | [] => errcomp it E_RESULT_MISSING :: appendResultCompletions r []
      | a :: res' =>
          (if a_err a =? 0
           then Comp it (SRes (a_id a) (a_seq a) c29_reason_success 0) (a_id a, a_seq a) true 0
           else Comp it (SRes 0 0 (reasonForAppendError (a_err a)) 0) (a_id a, a_seq a) false (a_err a))
          :: appendResultCompletions r res'
      end
  end.

(* activeAppendItems.  [alive]: appendItemError(item) == nil.  The Go loop returns
   the input slice itself while nothing is filtered and copies the active prefix
   exactly once, at the first inactive item. *)
Definition alive (it : psend) : bool := ps_dead it =? 0.

Fixpoint active_loop (all : list psend) (i : nat) (rest : list psend)
         (active : list psend) (filtered : bool) : list psend * bool :=
  match rest with
  | [] => (active, filtered)
  | it :: r =>
      if alive it
      then active_loop all (S i) r (if filtered then active ++ [it] else active) filtered
      else active_loop all (S i) r (if filtered then active else firstn i all) true
  end.

Definition inactive_comps (items : list psend) : list comp :=
  map (fun it => errcomp it (ps_dead it)) (filter (fun it => negb (alive it)) items).

Definition activeAppendItems (items : list psend) : list psend * list comp :=
  let '(active, filtered) := active_loop items 0 items [] false in
  (if filtered then active else items, inactive_comps items).

(* what activeAppendItems computes (Proof/ChanAppend_expand.v) *)
Definition activeAppendItems_spec (items : list psend) : list psend * list comp :=
  (filter alive items, inactive_comps items).

(* ---- the ports ------------------------------------------------------------------------ *)

(* AppendBatchRequest: the messages (one per prepared send), Attempt, ServerAllocatedMessageIDs *)
Record areq := AReq { q_items : list psend; q_attempt : N; q_alloc : bool }.
Inductive areply := AOk (rs : list ares) | AErr (cls : N).
(* the cluster node's idempotency answer: message id, seq, stored payload hash *)
Inductive nreply := NHit (id seq ph : N) | NMiss | NErr (cls : N).
Inductive lreply := LHit (id seq : N) | LMiss | LErr (cls : N).

Definition appendRequest (active : list psend) (attempt : N) : areq :=
  AReq active (if attempt =? 0 then c29_initial_attempt else attempt)
       (negb (is_nil active) && forallb ps_alloc active).

(* appendCompletedEvent ([ev_tag] identifies an event in writer-state cases only) *)
Record event := Ev { ev_seq : N; ev_items : list comp; ev_tag : N }.
(* appendEffect *)
Record effect := Eff { ef_seq : N; ef_items : list psend }.

Inductive lslot := LDone (c : comp) | LMissed (it : psend).

Section Ports.
  Variable St : Type.
  Variable do_append : St -> areq -> areply * St.
  Variable do_nlookup : St -> bytes -> bytes -> nreply * St.
  Variable hashf : bytes -> N.
  Variable fp : cmd -> N.

  (* ChannelIdempotencyStore.LookupSend (channel id and type are never empty here) *)
  Definition LookupSend (s : St) (uid cno : bytes) (h : N) : lreply * St :=
    if is_nil uid || is_nil cno then (LMiss, s)
    else match do_nlookup s uid cno with
         | (NHit id sq ph, s') =>
             if negb (h =? 0) && negb (ph =? h) then (LMiss, s') else (LHit id sq, s')
         | (NMiss, s') => (LMiss, s')
         | (NErr cls, s') => (LErr cls, s')
         end.

  (* lookupIdempotentSend *)
  Definition lookupIdempotentSend (s : St) (c : cmd) : lreply * St :=
    if is_nil (c_cno c) then (LMiss, s)
    else LookupSend s (c_uid c) (c_cno c) (hashf (c_pay c)).

  Definition recovered_comp (it : psend) (id sq : N) : comp :=
    Comp it (SRes id sq c29_reason_success 0) (0, 0) false 0.

  (* appendBatchErrorCompletionsOrRecoveries *)
  Fixpoint recover_all (s : St) (items : list psend) (cls : N) : list comp * St :=
    match items with
    | [] => ([], s)
    | it :: r =>
        let '(rep, s1) := lookupIdempotentSend s (ps_cmd it) in
        let c := match rep with
                 | LErr e => errcomp it e
                 | LHit id sq => recovered_comp it id sq
                 | LMiss => errcomp it cls
                 end in
        let '(cs, s2) := recover_all s1 r cls in
        (c :: cs, s2)
    end.

  Definition appendBatchErrorCompletionsOrRecoveries (s : St) (items : list psend) (cls : N) : list comp * St :=
    if negb (cls =? E_APPEND_FAILED) then (appendBatchErrorCompletions items cls, s)
    else recover_all s items cls.

  (* first loop of appendBatchErrorCompletionsOrRecoveriesAndRetry *)
  Fixpoint lookup_all (s : St) (items : list psend) : list lslot * bool * St :=
    match items with
    | [] => ([], false, s)
    | it :: r =>
        let '(rep, s1) := lookupIdempotentSend s (ps_cmd it) in
        let '(slots, rec, s2) := lookup_all s1 r in
        match rep with
        | LErr e => (LDone (errcomp it e) :: slots, rec, s2)
        | LHit id sq => (LDone (recovered_comp it id sq) :: slots, true, s2)
        | LMiss => (LMissed it :: slots, rec, s2)
        end
    end.

  Definition misses (slots : list lslot) : list psend :=
    flat_map (fun sl => match sl with LMissed it => [it] | LDone _ => [] end) slots.

  (* out[missIndexes[offset]] = ... for every miss *)
  Definition fill_err (slots : list lslot) (cls : N) : list comp :=
    map (fun sl => match sl with LDone c => c | LMissed it => errcomp it cls end) slots.

  Fixpoint fill_retry (slots : list lslot) (rc : list comp) : list comp :=
    match slots with
    | [] => []
    | LDone c :: r => c :: fill_retry r rc
    | LMissed it :: r =>
        if alive it then
          match rc with
          | c :: rc' => c :: fill_retry r rc'
          | [] => dflt_comp :: fill_retry r []
          end
        else errcomp it (ps_dead it) :: fill_retry r rc
    end.

  (* appendBatchErrorCompletionsOrRecoveriesAndRetry (ports.idempotency != nil) *)
  Definition recoveriesAndRetry (s : St) (items : list psend) (cls : N) : list comp * St :=
    if negb (cls =? E_APPEND_FAILED) then (appendBatchErrorCompletions items cls, s)
    else
      let '(slots, rec, s1) := lookup_all s items in
      if negb rec then (fill_err slots cls, s1)
      else
        let retryItems := filter alive (misses slots) in
        if is_nil retryItems then (fill_retry slots [], s1)
        else
          match do_append s1 (appendRequest retryItems c29_recovery_attempt) with
          | (AErr cls2, s2) =>
              let '(rc, s3) := appendBatchErrorCompletionsOrRecoveries s2 retryItems cls2 in
              (fill_retry slots rc, s3)
          | (AOk rs, s2) => (fill_retry slots (appendResultCompletions retryItems rs), s2)
          end.

  (* appendEffect.run (ports.appender != nil, ports.idempotency != nil) *)
  Definition run (s : St) (e : effect) : event * St :=
    if is_nil (ef_items e) then (Ev (ef_seq e) [] 0, s)
    else
      let '(active, inactive) := activeAppendItems (ef_items e) in
      if is_nil active then (Ev (ef_seq e) inactive 0, s)
      else
        let b := newIdempotentAppendBatch hashf fp active in
        match do_append s (appendRequest (ib_items b) c29_initial_attempt) with
        | (AErr cls, s1) =>
            let '(unique, s2) := recoveriesAndRetry s1 (ib_items b) cls in
            (Ev (ef_seq e) (inactive ++ expandCompletions b unique) 0, s2)
        | (AOk rs, s1) =>
            (Ev (ef_seq e) (inactive ++ expandCompletions b (appendResultCompletions (ib_items b) rs)) 0, s1)
        end.
End Ports.

(* ---- the per-channel writer state (state.go) ---------------------------------------------- *)

Record wstate := WS {
  ws_hw : Z;                       (* pendingItemHighWatermark *)
  ws_limit : Z;                    (* appendInflightLimit *)
  ws_pending : list psend;         (* pendingItems *)
  ws_inflight : N;                 (* appendInflight *)
  ws_inflight_items : N;           (* appendInflightItems *)
  ws_next : N;                     (* nextAppendSeq *)
  ws_drain : N;                    (* nextAppendDrainSeq *)
  ws_ready : option event;         (* readyAppendCompletion / hasReadyAppendCompletion *)
  ws_completed : list (N * event)  (* completedAppends *)
}.

Definition newChannelState (hw limit : Z) : wstate := WS hw limit [] 0 0 0 0 None [].

Definition canAdmit (s : wstate) (count : Z) : bool :=
  if (count <=? 0)%Z then true
  else if (ws_hw s <=? 0)%Z then true
  else (Z.of_nat (length (ws_pending s)) + Z.of_N (ws_inflight_items s) + count <=? ws_hw s)%Z.

Definition enqueuePrepared (s : wstate) (items : list psend) : wstate :=
  WS (ws_hw s) (ws_limit s) (ws_pending s ++ items) (ws_inflight s) (ws_inflight_items s)
     (ws_next s) (ws_drain s) (ws_ready s) (ws_completed s).

Definition canStartAppend (s : wstate) : bool :=
  if is_nil (ws_pending s) then false
  else (Z.of_N (ws_inflight s) <? (if (ws_limit s <=? 0)%Z then 1 else ws_limit s))%Z.

Definition nextAppendBatch (s : wstate) : option (N * list psend) * wstate :=
  if is_nil (ws_pending s) then (None, s)
  else if negb (canStartAppend s) then (None, s)
  else (Some (ws_next s, ws_pending s),
        WS (ws_hw s) (ws_limit s) [] (ws_inflight s + 1)
           (ws_inflight_items s + N.of_nat (length (ws_pending s)))
           (ws_next s + 1) (ws_drain s) (ws_ready s) (ws_completed s)).

Definition finishAppend (s : wstate) (items : N) : wstate :=
  WS (ws_hw s) (ws_limit s) (ws_pending s) (N.pred (ws_inflight s)) (ws_inflight_items s - items)
     (ws_next s) (ws_drain s) (ws_ready s) (ws_completed s).

Fixpoint map_get {A} (k : N) (m : list (N * A)) : option A :=
  match m with
  | [] => None
  | (k', v) :: r => if k =? k' then Some v else map_get k r
  end.
Definition map_del {A} (k : N) (m : list (N * A)) : list (N * A) :=
  filter (fun p => negb (fst p =? k)) m.
Definition map_put {A} (k : N) (v : A) (m : list (N * A)) : list (N * A) := (k, v) :: map_del k m.

Definition recordAppendCompletion (s : wstate) (ev : event) : wstate :=
  if ev_seq ev <? ws_drain s then s
  else if (ev_seq ev =? ws_drain s) && negb (match ws_ready s with Some _ => true | None => false end)
  then WS (ws_hw s) (ws_limit s) (ws_pending s) (ws_inflight s) (ws_inflight_items s)
          (ws_next s) (ws_drain s) (Some ev) (ws_completed s)
  else WS (ws_hw s) (ws_limit s) (ws_pending s) (ws_inflight s) (ws_inflight_items s)
          (ws_next s) (ws_drain s) (ws_ready s) (map_put (ev_seq ev) ev (ws_completed s)).

Definition pop_map (s : wstate) : option event * wstate :=
  match map_get (ws_drain s) (ws_completed s) with
  | Some ev => (Some ev,
                WS (ws_hw s) (ws_limit s) (ws_pending s) (ws_inflight s) (ws_inflight_items s)
                   (ws_next s) (ws_drain s + 1) (ws_ready s) (map_del (ws_drain s) (ws_completed s)))
  | None => (None, s)
  end.

Definition popNextAppendCompletion (s : wstate) : option event * wstate :=
  match ws_ready s with
  | Some ev =>
      if ev_seq ev =? ws_drain s
      then (Some ev,
            WS (ws_hw s) (ws_limit s) (ws_pending s) (ws_inflight s) (ws_inflight_items s)
               (ws_next s) (ws_drain s + 1) None (ws_completed s))
      else pop_map s
  | None => pop_map s
  end.

Definition hasPendingWork (s : wstate) : bool :=
  negb (is_nil (ws_pending s)) || (0 <? ws_inflight s)
  || (match ws_ready s with Some _ => true | None => false end) || negb (is_nil (ws_completed s)).

(* the pop loop of applyAppendCompletion: every popped event finishes its append;
   returns the events in pop order.  [fuel] bounds the loop; [S (S (length completed))]
   is always enough (Proof/ChanAppend_writer.v). *)
Fixpoint drain (fuel : nat) (s : wstate) : list event * wstate :=
  match fuel with
  | O => ([], s)
  | S f =>
      match popNextAppendCompletion s with
      | (Some ev, s1) =>
          let '(evs, s2) := drain f (finishAppend s1 (N.of_nat (length (ev_items ev)))) in
          (ev :: evs, s2)
      | (None, s1) => ([], s1)
      end
  end.

Definition drain_fuel (s : wstate) : nat := S (S (length (ws_completed s))).

(* channelWriter.applyAppendCompletion on the state *)
Definition applyAppendCompletion (s : wstate) (ev : event) : list event * wstate :=
  let s1 := recordAppendCompletion s ev in
  drain (drain_fuel s1) s1.

(* ---- the append pipeline of one channel --------------------------------------------------
   Events: a batch is admitted (admitPreparedLocked), the writer issues the next
   append effect (nextAppendLocked), an issued effect runs against the ports on
   a pool goroutine (any issued effect may run next), a finished effect's
   completion is applied (applyAppendCompletion; completions arrive in any
   order).  [p_delivered] lists the completions handed to futures
   (dispatchAppendItemCompletion), oldest first. *)

Record pstate (St : Type) := PS {
  p_store : St;
  p_ws : wstate;
  p_running : list effect;     (* issued, not yet run *)
  p_done : list event;         (* run, completion not yet applied *)
  p_delivered : list comp;
  p_next_tag : N;
  p_next_call : N;
  p_submitted : list psend     (* every item ever submitted, oldest first *)
}.
Arguments PS {St}. Arguments p_store {St}. Arguments p_ws {St}. Arguments p_running {St}.
Arguments p_done {St}. Arguments p_delivered {St}. Arguments p_next_tag {St}.
Arguments p_next_call {St}. Arguments p_submitted {St}.

Inductive pev :=
| PSubmit (items : list (cmd * N * bool * N))   (* command, message id, server allocated, appendItemError class *)
| PAdvance
| PRun (k : nat)
| PApply (k : nat).

Fixpoint tag_items (call : N) (idx tag : N) (items : list (cmd * N * bool * N)) : list psend :=
  match items with
  | [] => []
  | (c, mid, al, dead) :: r => PSend call idx c mid al dead tag :: tag_items call (idx + 1) (tag + 1) r
  end.

Fixpoint remove_nth {A} (k : nat) (l : list A) : list A :=
  match l, k with
  | [], _ => []
  | _ :: r, O => r
  | x :: r, S k' => x :: remove_nth k' r
  end.

Section Pipeline.
  Variable St : Type.
  Variable do_append : St -> areq -> areply * St.
  Variable do_nlookup : St -> bytes -> bytes -> nreply * St.
  Variable hashf : bytes -> N.
  Variable fp : cmd -> N.

  Definition pstep (p : pstate St) (e : pev) : pstate St :=
    match e with
    | PSubmit raw =>
        let items := tag_items (p_next_call p) 0 (p_next_tag p) raw in
        let n := N.of_nat (length items) in
        if canAdmit (p_ws p) (Z.of_nat (length items))
        then PS (p_store p) (enqueuePrepared (p_ws p) items) (p_running p) (p_done p) (p_delivered p)
                (p_next_tag p + n) (p_next_call p + 1) (p_submitted p ++ items)
        else PS (p_store p) (p_ws p) (p_running p) (p_done p)
                (p_delivered p ++ appendBatchErrorCompletions items E_CHANNEL_BUSY)
                (p_next_tag p + n) (p_next_call p + 1) (p_submitted p ++ items)
    | PAdvance =>
        match nextAppendBatch (p_ws p) with
        | (Some (sq, items), ws') =>
            PS (p_store p) ws' (p_running p ++ [Eff sq items]) (p_done p) (p_delivered p)
               (p_next_tag p) (p_next_call p) (p_submitted p)
        | (None, _) => p
        end
    | PRun k =>
        match nth_error (p_running p) k with
        | Some ef =>
            let '(ev, s') := run St do_append do_nlookup hashf fp (p_store p) ef in
            PS s' (p_ws p) (remove_nth k (p_running p)) (p_done p ++ [ev]) (p_delivered p)
               (p_next_tag p) (p_next_call p) (p_submitted p)
        | None => p
        end
    | PApply k =>
        match nth_error (p_done p) k with
        | Some ev =>
            let '(evs, ws') := applyAppendCompletion (p_ws p) ev in
            PS (p_store p) ws' (p_running p) (remove_nth k (p_done p))
               (p_delivered p ++ flat_map ev_items evs)
               (p_next_tag p) (p_next_call p) (p_submitted p)
        | None => p
        end
    end.

  Definition pinit (s : St) (hw limit : Z) : pstate St :=
    PS s (newChannelState hw limit) [] [] [] 0 0 [].

  Definition prun (s : St) (hw limit : Z) (evs : list pev) : pstate St :=
    fold_left pstep evs (pinit s hw limit).

  (* nothing is in flight any more *)
  Definition quiescent (p : pstate St) : bool :=
    is_nil (ws_pending (p_ws p)) && is_nil (p_running p) && is_nil (p_done p)
    && (match ws_ready (p_ws p) with None => true | Some _ => false end)
    && is_nil (ws_completed (p_ws p)).
End Pipeline.

(* ---- writers of a shard: creation and reclaim (shard.go getOrCreate / reclaimIdleWritersLocked,
   writer.go enqueue / tryActivate / advance / deactivateLocked / idleExpired) -------------------
   A writer as the shard's sweep sees it: the scheduled flag, lastIdleUnixNano (0 while
   active), the inbox and the channel state.  Post-commit work is not modelled (no commit ports). *)

Record swriter := SW {
  sw_scheduled : bool;
  sw_idle_at : Z;
  sw_inbox : list (list psend);
  sw_state : wstate }.

(* channelWriter.hasRunnableWorkLocked (no post-commit ports, no queued commit retry) *)
Definition hasRunnableWorkLocked (w : swriter) : bool :=
  negb (is_nil (sw_inbox w)) || canStartAppend (sw_state w).

(* the test inside idleExpired: nothing admitted is unfinished *)
Definition writer_idle (w : swriter) : bool :=
  is_nil (sw_inbox w) && negb (hasPendingWork (sw_state w)).

(* channelWriter.idleExpired, with the idleness test as a parameter *)
Definition idleExpired_with (idlep : swriter -> bool) (w : swriter) (now retention : Z) : bool :=
  if (retention <=? 0)%Z || sw_scheduled w then false
  else if negb (idlep w) then false
  else if (sw_idle_at w =? 0)%Z then false
  else (sw_idle_at w + retention <=? now)%Z.

Definition idleExpired : swriter -> Z -> Z -> bool := idleExpired_with writer_idle.

(* one shard: the writers map (channel key -> writer), the writers the sweep removed
   from the map, the clock *)
Record shard := Shard {
  sh_writers : list (N * swriter);
  sh_orphans : list (N * swriter);
  sh_now : Z;
  sh_retention : Z;
  sh_hw : Z;
  sh_limit : Z }.

Inductive sev :=
| SSubmit (ch : N) (items : list psend)   (* SubmitLocal: getOrCreate, enqueue, tryActivate *)
| SAdvance (ch : N)                       (* the scheduled writer of ch runs advance to the end *)
| SFinish (ch : N) (n : N)                (* an in-flight append of the mapped writer completes *)
| SFinishOrphan (k : nat) (n : N)         (* ... or of a writer that is no longer in the map *)
| SAdvanceOrphan (k : nat)
| STick (d : Z).

Definition new_swriter (hw limit : Z) : swriter := SW false 0 [] (newChannelState hw limit).

Fixpoint wmap_get (ch : N) (m : list (N * swriter)) : option swriter :=
  match m with
  | [] => None
  | (k, w) :: r => if k =? ch then Some w else wmap_get ch r
  end.

Fixpoint wmap_set (ch : N) (w : swriter) (m : list (N * swriter)) : list (N * swriter) :=
  match m with
  | [] => [(ch, w)]
  | (k, v) :: r => if k =? ch then (k, w) :: r else (k, v) :: wmap_set ch w r
  end.

(* advance: admit the inbox, issue an append if one may start, then deactivateLocked *)
Definition sw_advance (now : Z) (w : swriter) : swriter :=
  let st1 := fold_left enqueuePrepared (sw_inbox w) (sw_state w) in
  let st2 := snd (nextAppendBatch st1) in
  let w2 := SW false (sw_idle_at w) [] st2 in
  if hasRunnableWorkLocked w2 then w2 else SW false now [] st2.

(* a completion: finishAppend, then rescheduleIfNeeded *)
Definition sw_finish (w : swriter) (n : N) : swriter :=
  if 0 <? ws_inflight (sw_state w) then
    let w1 := SW (sw_scheduled w) (sw_idle_at w) (sw_inbox w) (finishAppend (sw_state w) n) in
    if hasRunnableWorkLocked w1 then SW true (sw_idle_at w1) (sw_inbox w1) (sw_state w1) else w1
  else w.

Section ShardModel.
  Variable idlep : swriter -> bool.

  Definition sstep (s : shard) (e : sev) : shard :=
    match e with
    | SSubmit ch items =>
        match wmap_get ch (sh_writers s) with
        | Some w =>
            Shard (wmap_set ch (SW true 0 (sw_inbox w ++ [items]) (sw_state w)) (sh_writers s))
                  (sh_orphans s) (sh_now s) (sh_retention s) (sh_hw s) (sh_limit s)
        | None =>
            (* slow path of getOrCreate: sweep, then create *)
            let expired := fun p : N * swriter => idleExpired_with idlep (snd p) (sh_now s) (sh_retention s) in
            let kept := filter (fun p => negb (expired p)) (sh_writers s) in
            let gone := filter expired (sh_writers s) in
            let w := new_swriter (sh_hw s) (sh_limit s) in
            Shard (wmap_set ch (SW true 0 [items] (sw_state w)) kept) (sh_orphans s ++ gone)
                  (sh_now s) (sh_retention s) (sh_hw s) (sh_limit s)
        end
    | SAdvance ch =>
        match wmap_get ch (sh_writers s) with
        | Some w => if sw_scheduled w
                    then Shard (wmap_set ch (sw_advance (sh_now s) w) (sh_writers s)) (sh_orphans s)
                               (sh_now s) (sh_retention s) (sh_hw s) (sh_limit s)
                    else s
        | None => s
        end
    | SFinish ch n =>
        match wmap_get ch (sh_writers s) with
        | Some w => Shard (wmap_set ch (sw_finish w n) (sh_writers s)) (sh_orphans s)
                          (sh_now s) (sh_retention s) (sh_hw s) (sh_limit s)
        | None => s
        end
    | SFinishOrphan k n =>
        match nth_error (sh_orphans s) k with
        | Some (ch, w) => Shard (sh_writers s) (set_nth k (ch, sw_finish w n) (sh_orphans s))
                                (sh_now s) (sh_retention s) (sh_hw s) (sh_limit s)
        | None => s
        end
    | SAdvanceOrphan k =>
        match nth_error (sh_orphans s) k with
        | Some (ch, w) => if sw_scheduled w
                          then Shard (sh_writers s) (set_nth k (ch, sw_advance (sh_now s) w) (sh_orphans s))
                                     (sh_now s) (sh_retention s) (sh_hw s) (sh_limit s)
                          else s
        | None => s
        end
    | STick d => Shard (sh_writers s) (sh_orphans s) (sh_now s + Z.max d 0) (sh_retention s) (sh_hw s) (sh_limit s)
    end.

  Definition srun (retention hw limit : Z) (evs : list sev) : shard :=
    fold_left sstep evs (Shard [] [] 1 retention hw limit).
End ShardModel.

(* a writer that still owns admitted, unfinished sends *)
Definition has_work (w : swriter) : bool := negb (writer_idle w).
