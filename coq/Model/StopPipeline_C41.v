(* Model/StopPipeline_C41.v — the stop / drain protocol shared by the three stages
   of the send pipeline, as ONE transition system over the code's atomic steps:

     gateway     pkg/gateway/core sendExecutor.submit / drain / stop
                 (admissionMu{closed, admitted.Add}; drainOnce; admitted.Wait; close(drained))
                 — modelled in full detail in Model/GatewaySend.v (C28)
     append      internal/runtime/channelappend Group.SubmitLocal / Stop / finishStop
                 (mu.RLock{stopping?, tryAcquireAdmission}; mu.Lock{stopping := true};
                  stopOnce -> finishStop: drainWriters, stop pools, runtimeCancel,
                  stopped := true, close(stopDone))
     delivery    internal/runtime/delivery Runtime.EnqueueRecipientDeliveryPlan /
                 Quiesce / Stop (mu{state = open?, admissionSenders.Add}; state :=
                 closing, close(acceptDone); quiesceOnce / lifecycle goroutine;
                 workers exit -> done)

   A task is one admitted unit (SEND, SubmitLocal future, delivery plan).
     submit t   TGate: the admission critical section — rejected if stopping,
                otherwise the in-flight counter grows and the task is owned by
                the pipeline; TWork: the task reaches its terminal result (future
                completed / handler returned / plan terminal observation), the
                counter shrinks.  A task can observe cancellation (result
                RCancel) only after the runtime context was cancelled.
     stop d     SSet (stopping := true under the admission lock) -> SOnce (the
                single background drainer is started once) -> SWait (returns nil
                when the drainer is done, or the caller's error when its deadline
                expires).  [c_cod] (cancel on deadline) is Runtime.Stop's
                `if err != nil { runCancel() }`; Group.Stop, DrainSends and
                Runtime.Quiesce do not have it.
     drainer    when nothing is in flight: cancel the runtime, done := true. *)
From WK Require Import Base.Base Model.GatewaySend.
Open Scope N_scope.

Inductive res := ROk | RErr | RCancel.

Definition res_eqb (a b : res) : bool :=
  match a, b with ROk, ROk | RErr, RErr | RCancel, RCancel => true | _, _ => false end.

Record scfg := SCfg {
  sc_ntasks : nat;     (* tasks 0 .. ntasks-1 *)
  sc_cod : bool }.     (* the stop call cancels the runtime when its deadline expires *)

(* history *)
Record hsub := HSub { hb_task : nat; hb_t0 : N; hb_t1 : N; hb_acc : bool }.
Record hterm := HTerm { ht_task : nat; ht_t : N; ht_res : res }.
Record hstop := HStop { hp_t0 : N; hp_t1 : N; hp_ok : bool }.

Record shist := SHist { sh_subs : list hsub; sh_terms : list hterm; sh_stops : list hstop }.

Inductive tpc := TIdle | TGate (t0 : N) | TWork | TFin
  | TChecked (t0 : N).   (* only used by the variant [sstep_split] below *)
Inductive kpc := KIdle | KSet (t0 : N) | KOnce (t0 : N) | KWait (t0 : N).

Inductive sev :=
| SSubmit (t : nat)                (* a submit call for task t begins *)
| STask (t : nat) (r : res)        (* next atomic step of task t (r: its terminal result) *)
| SStopCall (d : nat)
| SStop (d : nat) (timeout : bool) (* next step of stop caller d *)
| SDrainer.

Record sstate := SSt {
  s_now : N;
  s_stopping : bool;
  s_cancelled : bool;      (* runtimeCancel / runCancel has been called *)
  s_dstarted : bool;       (* stopOnce / quiesceOnce / drainOnce done *)
  s_done : bool;           (* stopDone / done / drained closed *)
  s_inflight : N;          (* admissionUsed / admitted WaitGroup *)
  s_tpc : nat -> tpc;
  s_kpc : nat -> kpc;
  s_subs : list hsub;
  s_terms : list hterm;
  s_stops : list hstop }.

Definition sinit : sstate :=
  SSt 0 false false false false 0 (fun _ => TIdle) (fun _ => KIdle) [] [] [].

Definition sstep (c : scfg) (st0 : sstate) (e : sev) : sstate :=
  let st := SSt (s_now st0 + 1) (s_stopping st0) (s_cancelled st0) (s_dstarted st0) (s_done st0)
                (s_inflight st0) (s_tpc st0) (s_kpc st0) (s_subs st0) (s_terms st0) (s_stops st0) in
  let now := s_now st in
  match e with
  | SSubmit t =>
      match s_tpc st t with
      | TIdle =>
          if (t <? sc_ntasks c)%nat
          then SSt now (s_stopping st) (s_cancelled st) (s_dstarted st) (s_done st) (s_inflight st)
                   (upd (s_tpc st) t (TGate now)) (s_kpc st) (s_subs st) (s_terms st) (s_stops st)
          else st
      | _ => st
      end
  | STask t r =>
      match s_tpc st t with
      | TGate t0 =>
          if s_stopping st
          then SSt now (s_stopping st) (s_cancelled st) (s_dstarted st) (s_done st) (s_inflight st)
                   (upd (s_tpc st) t TFin) (s_kpc st)
                   (s_subs st ++ [HSub t t0 now false]) (s_terms st) (s_stops st)
          else SSt now (s_stopping st) (s_cancelled st) (s_dstarted st) (s_done st) (s_inflight st + 1)
                   (upd (s_tpc st) t TWork) (s_kpc st)
                   (s_subs st ++ [HSub t t0 now true]) (s_terms st) (s_stops st)
      | TWork =>
          if res_eqb r RCancel && negb (s_cancelled st) then st
          else SSt now (s_stopping st) (s_cancelled st) (s_dstarted st) (s_done st) (s_inflight st - 1)
                   (upd (s_tpc st) t TFin) (s_kpc st)
                   (s_subs st) (s_terms st ++ [HTerm t now r]) (s_stops st)
      | _ => st
      end
  | SStopCall d =>
      match s_kpc st d with
      | KIdle => SSt now (s_stopping st) (s_cancelled st) (s_dstarted st) (s_done st) (s_inflight st)
                     (s_tpc st) (upd (s_kpc st) d (KSet now)) (s_subs st) (s_terms st) (s_stops st)
      | _ => st
      end
  | SStop d timeout =>
      match s_kpc st d with
      | KIdle => st
      | KSet t0 => SSt now true (s_cancelled st) (s_dstarted st) (s_done st) (s_inflight st)
                       (s_tpc st) (upd (s_kpc st) d (KOnce t0)) (s_subs st) (s_terms st) (s_stops st)
      | KOnce t0 => SSt now (s_stopping st) (s_cancelled st) true (s_done st) (s_inflight st)
                        (s_tpc st) (upd (s_kpc st) d (KWait t0)) (s_subs st) (s_terms st) (s_stops st)
      | KWait t0 =>
          if s_done st
          then SSt now (s_stopping st) (s_cancelled st) (s_dstarted st) (s_done st) (s_inflight st)
                   (s_tpc st) (upd (s_kpc st) d KIdle) (s_subs st) (s_terms st)
                   (s_stops st ++ [HStop t0 now true])
          else if timeout
          then SSt now (s_stopping st) (s_cancelled st || sc_cod c) (s_dstarted st) (s_done st) (s_inflight st)
                   (s_tpc st) (upd (s_kpc st) d KIdle) (s_subs st) (s_terms st)
                   (s_stops st ++ [HStop t0 now false])
          else st
      end
  | SDrainer =>
      if s_dstarted st && negb (s_done st) && (s_inflight st =? 0)
      then SSt now (s_stopping st) true (s_dstarted st) true (s_inflight st)
               (s_tpc st) (s_kpc st) (s_subs st) (s_terms st) (s_stops st)
      else st
  end.

Definition srun (c : scfg) (evs : list sev) : sstate := fold_left (sstep c) evs sinit.

(* VARIANT (not the code that exists; seeded change C41-a): the lifecycle check and
   the admission are two critical sections — TGate reads [stopping] under the
   read lock and releases it (TChecked), the in-flight counter grows later with
   no lock held.  Everything else is [sstep]. *)
Definition sstep_split (c : scfg) (st0 : sstate) (e : sev) : sstate :=
  match e with
  | STask t r =>
      match s_tpc st0 t with
      | TGate t0 =>
          let now := s_now st0 + 1 in
          if s_stopping st0
          then SSt now (s_stopping st0) (s_cancelled st0) (s_dstarted st0) (s_done st0) (s_inflight st0)
                   (upd (s_tpc st0) t TFin) (s_kpc st0)
                   (s_subs st0 ++ [HSub t t0 now false]) (s_terms st0) (s_stops st0)
          else SSt now (s_stopping st0) (s_cancelled st0) (s_dstarted st0) (s_done st0) (s_inflight st0)
                   (upd (s_tpc st0) t (TChecked t0)) (s_kpc st0) (s_subs st0) (s_terms st0) (s_stops st0)
      | TChecked t0 =>
          let now := s_now st0 + 1 in
          SSt now (s_stopping st0) (s_cancelled st0) (s_dstarted st0) (s_done st0) (s_inflight st0 + 1)
              (upd (s_tpc st0) t TWork) (s_kpc st0)
              (s_subs st0 ++ [HSub t t0 now true]) (s_terms st0) (s_stops st0)
      | _ => sstep c st0 e
      end
  | _ => sstep c st0 e
  end.

Definition srun_split (c : scfg) (evs : list sev) : sstate := fold_left (sstep_split c) evs sinit.

Definition shist_of (st : sstate) : shist := SHist (s_subs st) (s_terms st) (s_stops st).

(* ---- the property as a monitor on a history ------------------------------------------------ *)

(* no send is admitted after a stop call has returned *)
Definition sok_fence (h : shist) : bool :=
  forallb (fun x => negb (hb_acc x) || forallb (fun s => negb (hp_t1 s <? hb_t0 x)) (sh_stops h)) (sh_subs h).

Fixpoint nodup_nat (l : list nat) : bool :=
  match l with [] => true | x :: r => negb (existsb (Nat.eqb x) r) && nodup_nat r end.

(* at most one terminal result per task, only for admitted tasks *)
Definition sok_terms (h : shist) : bool :=
  nodup_nat (map ht_task (sh_terms h))
  && forallb (fun e => existsb (fun x => Nat.eqb (hb_task x) (ht_task e) && hb_acc x) (sh_subs h)) (sh_terms h).

(* when a stop call returns nil every admitted task already has its terminal result *)
Definition sok_stopped (h : shist) : bool :=
  forallb (fun s => negb (hp_ok s) ||
             forallb (fun x => negb (hb_acc x) ||
                        existsb (fun e => Nat.eqb (ht_task e) (hb_task x) && (ht_t e <? hp_t1 s)) (sh_terms h))
                     (sh_subs h))
          (sh_stops h).

(* in a quiescent final state every admitted task has a terminal result *)
Definition sok_complete (h : shist) : bool :=
  forallb (fun x => negb (hb_acc x) || existsb (fun e => Nat.eqb (ht_task e) (hb_task x)) (sh_terms h)) (sh_subs h).

(* no admitted work is cancelled by the pipeline's own stop *)
Definition sok_nocancel (h : shist) : bool :=
  forallb (fun e => negb (res_eqb (ht_res e) RCancel)) (sh_terms h).

(* signature of the known deviation: every cancelled task saw its cancellation
   only after a stop call had returned with an expired deadline *)
Definition cancel_after_expired_stop (h : shist) : bool :=
  forallb (fun e => negb (res_eqb (ht_res e) RCancel)
                    || existsb (fun s => negb (hp_ok s) && (hp_t1 s <=? ht_t e)) (sh_stops h)) (sh_terms h).

(* comp: 0 gateway DrainSends, 1 channelappend Group.Stop, 2 delivery Runtime.Quiesce,
   3 delivery Runtime.Stop *)
Definition smonitor (comp : N) (final : bool) (h : shist) : N :=
  if sok_fence h && sok_terms h && sok_stopped h && (negb final || sok_complete h)
  then (if sok_nocancel h then 0
        else if (comp =? 3) && cancel_after_expired_stop h then 2 else 1)
  else 1.

(* ---- case-file interface ------------------------------------------------------------------------ *)

Record c41_case := C41Case { c41_comp : N; c41_final : bool; c41_hist : shist }.

Definition C41_mismatch (c : c41_case) : bool := false.
Definition C41_monitor (c : c41_case) : N := smonitor (c41_comp c) (c41_final c) (c41_hist c).
