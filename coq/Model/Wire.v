(* Model/Wire.v — node-transport frame header codec and frame reader/writer.
   Transcribes pkg/transport/wire/{frame,reader,writer}.go and
   core.FrameKind.Valid / core.Priority.Validate (pkg/transport/internal/core/types.go).
   Constants (magic, version, offsets, enum ranges, int max) come from the
   regenerated Gen/Consts_C26.v.  Definitions only. *)
From WK Require Import Base.Base Base.Bytes.
From WK Require Import Gen.Consts_C26.
Open Scope N_scope.

(* error classes (errors.Is against the package sentinels; io errors of ReadFull) *)
Inductive werr := EInvalidFrame | EInvalidPriority | ETooLarge | EEOF | EUnexpectedEOF | EOther.
Inductive wres (A : Type) := WOk (a : A) | WErr (e : werr).
Arguments WOk {A} a.
Arguments WErr {A} e.

(* wire.Header.  Kind/Priority are uint8, ServiceID uint16, RequestID uint64, BodyLen uint32 *)
Record header := Header { h_kind : N; h_prio : N; h_service : N; h_reqid : N; h_bodylen : N }.

(* wire.Frame: header + owned body *)
Record frame := Frame { f_hdr : header; f_body : bytes }.

(* encoded[off:off+len] *)
Definition slice (off len : nat) (bs : bytes) : bytes := firstn len (skipn off bs).

(* copy(arr[off:], v) for a v that fits: the PutUintNN(encoded[off:], x) / encoded[off] = x writes *)
Fixpoint set_at (off : nat) (v arr : bytes) : bytes :=
  match off with
  | O => v ++ skipn (length v) arr
  | S o => match arr with
           | [] => []
           | x :: r => x :: set_at o v r
           end
  end.

Definition off (o : N) : nat := N.to_nat o.
Definition header_size : nat := N.to_nat HeaderSize.

(* core.FrameKind.Valid, core.Priority.Valid *)
Definition kind_valid (k : N) : bool := (FrameKindData <=? k) && (k <=? FrameKindControl).
Definition prio_valid (p : N) : bool := (PriorityRaft <=? p) && (p <=? PriorityBulk).

(* wire.bodyExceedsMax(bodyLen uint32, maxBodyBytes int) *)
Definition body_exceeds_max (bl : N) (max : Z) : bool :=
  if (max <? 0)%Z then true else (max <? Z.of_N bl)%Z.

(* wire.bodyLenToInt *)
Definition body_len_to_int (bl : N) : wres N :=
  if IntMax <? bl then WErr ETooLarge else WOk bl.

(* wire.EncodeHeader *)
Definition encode_header (h : header) : bytes :=
  let e0 := repeat 0 header_size in
  let e1 := set_at (off headerMagicOffset) (put_u16 Magic) e0 in
  let e2 := set_at (off headerVersionOffset) (put_u8 Version) e1 in
  let e3 := set_at (off headerFlagsOffset) (put_u8 0) e2 in
  let e4 := set_at (off headerKindOffset) (put_u8 (h_kind h)) e3 in
  let e5 := set_at (off headerPriorityOffset) (put_u8 (h_prio h)) e4 in
  let e6 := set_at (off headerServiceIDOffset) (put_u16 (h_service h)) e5 in
  let e7 := set_at (off headerRequestIDOffset) (put_u64 (h_reqid h)) e6 in
  let e8 := set_at (off headerBodyLenOffset) (put_u32 (h_bodylen h)) e7 in
  set_at (off headerReservedOffset) (put_u32 0) e8.

(* wire.DecodeHeader, checks in code order *)
Definition decode_header (enc : bytes) (max : Z) : wres header :=
  if Nat.ltb (length enc) header_size then WErr EInvalidFrame
  else if negb (be_get (slice (off headerMagicOffset) 2 enc) =? Magic) then WErr EInvalidFrame
  else if negb (be_get (slice (off headerVersionOffset) 1 enc) =? Version) then WErr EInvalidFrame
  else if negb (be_get (slice (off headerFlagsOffset) 1 enc) =? 0) then WErr EInvalidFrame
  else if negb (be_get (slice (off headerReservedOffset) 4 enc) =? 0) then WErr EInvalidFrame
  else
    let h := Header (be_get (slice (off headerKindOffset) 1 enc))
                    (be_get (slice (off headerPriorityOffset) 1 enc))
                    (be_get (slice (off headerServiceIDOffset) 2 enc))
                    (be_get (slice (off headerRequestIDOffset) 8 enc))
                    (be_get (slice (off headerBodyLenOffset) 4 enc)) in
    if negb (kind_valid (h_kind h)) then WErr EInvalidFrame
    else if negb (prio_valid (h_prio h)) then WErr EInvalidPriority
    else if body_exceeds_max (h_bodylen h) max then WErr ETooLarge
    else WOk h.

(* wire.ReadFrame over a reader that delivers [stream] and then io.EOF.
   Result, number of bytes consumed from the reader, and the size handed to the
   body allocator (None = the allocator was not reached). *)
Record read_out := ReadOut { ro_res : wres (header * bytes); ro_consumed : N; ro_alloc : option N }.

Definition read_frame (stream : bytes) (max : Z) : read_out :=
  match stream with
  | [] => ReadOut (WErr EEOF) 0 None
  | _ =>
    if Nat.ltb (length stream) header_size
    then ReadOut (WErr EUnexpectedEOF) (N.of_nat (length stream)) None
    else
      match decode_header (firstn header_size stream) max with
      | WErr e => ReadOut (WErr e) HeaderSize None
      | WOk h =>
        match body_len_to_int (h_bodylen h) with
        | WErr e => ReadOut (WErr e) HeaderSize None
        | WOk n =>
          let rest := skipn header_size stream in
          if n =? 0 then ReadOut (WOk (h, [])) HeaderSize (Some 0)
          else if Nat.ltb (length rest) (N.to_nat n)
          then ReadOut (WErr (match rest with [] => EEOF | _ => EUnexpectedEOF end))
                       (N.of_nat (length stream)) (Some n)
          else ReadOut (WOk (h, firstn (N.to_nat n) rest)) (HeaderSize + n) (Some n)
        end
      end
  end.

(* wire.validateOutboundHeader *)
Definition validate_outbound_header (h : header) (max : Z) : option werr :=
  if negb (kind_valid (h_kind h)) then Some EInvalidFrame
  else if negb (prio_valid (h_prio h)) then Some EInvalidPriority
  else if body_exceeds_max (h_bodylen h) max then Some ETooLarge
  else None.

Definition with_bodylen (h : header) (n : N) : header :=
  Header (h_kind h) (h_prio h) (h_service h) (h_reqid h) n.

(* wire.AppendFrame: the bytes appended to the buffers *)
Definition append_frame (f : frame) (max : Z) : wres bytes :=
  let n := length (f_body f) in
  if (max <? Z.of_nat n)%Z then WErr ETooLarge
  else if u32max <? N.of_nat n then WErr ETooLarge
  else
    let h := with_bodylen (f_hdr f) (N.of_nat n) in
    match validate_outbound_header h max with
    | Some e => WErr e
    | None => WOk (encode_header h ++ f_body f)
    end.

(* wire.WriteFramesInto: all frames are appended first; the first error aborts
   before anything is written *)
Fixpoint write_frames (fs : list frame) (max : Z) : wres bytes :=
  match fs with
  | [] => WOk []
  | f :: r =>
    match append_frame f max with
    | WErr e => WErr e
    | WOk b => match write_frames r max with
               | WErr e => WErr e
               | WOk br => WOk (b ++ br)
               end
    end
  end.

(* reading [k] frames back from a byte stream (ReadFrame in a loop, stops at the first error) *)
Fixpoint read_frames (k : nat) (stream : bytes) (max : Z) : list (wres (header * bytes)) :=
  match k with
  | O => []
  | S k' =>
    let o := read_frame stream max in
    match ro_res o with
    | WErr e => [WErr e]
    | WOk hb => WOk hb :: read_frames k' (skipn (N.to_nat (ro_consumed o)) stream) max
    end
  end.

(* what WriteFrames(fs) puts on the wire, as ReadFrame results *)
Definition written_frames (fs : list frame) : list (wres (header * bytes)) :=
  map (fun f => WOk (with_bodylen (f_hdr f) (N.of_nat (length (f_body f))), f_body f)) fs.

(* a Read call is issued past the header iff a non-empty body buffer was obtained *)
Definition ro_beyond (o : read_out) : bool :=
  match ro_alloc o with Some n => negb (n =? 0) | None => false end.
(* the heap may grow by a body-sized amount only when the allocator was reached *)
Definition big_body : N := 1048576.
Definition ro_alloc_over (o : read_out) : bool :=
  match ro_alloc o with Some n => big_body <=? n | None => false end.

(* ---- decidable equalities for the case files ---------------------------- *)
Definition werr_eqb (a b : werr) : bool :=
  match a, b with
  | EInvalidFrame, EInvalidFrame | EInvalidPriority, EInvalidPriority | ETooLarge, ETooLarge
  | EEOF, EEOF | EUnexpectedEOF, EUnexpectedEOF | EOther, EOther => true
  | _, _ => false
  end.
Definition header_eqb (a b : header) : bool :=
  (h_kind a =? h_kind b) && (h_prio a =? h_prio b) && (h_service a =? h_service b)
  && (h_reqid a =? h_reqid b) && (h_bodylen a =? h_bodylen b).
Definition wres_eqb {A} (eqb : A -> A -> bool) (a b : wres A) : bool :=
  match a, b with
  | WOk x, WOk y => eqb x y
  | WErr x, WErr y => werr_eqb x y
  | _, _ => false
  end.
Definition hb_eqb (a b : header * bytes) : bool :=
  header_eqb (fst a) (fst b) && bytes_eqb (snd a) (snd b).
Definition is_err {A} (r : wres A) : bool := match r with WErr _ => true | WOk _ => false end.

(* ---- the property's specification predicates (used by the monitor) ------- *)

(* field domains of wire.Header *)
Definition header_in_domain (h : header) : bool :=
  (h_kind h <? 256) && (h_prio h <? 256) && (h_service h <? 65536)
  && (h_reqid h <? 18446744073709551616) && (h_bodylen h <? 4294967296).

(* a header the transport may put on the wire under limit [max] *)
Definition header_ok (h : header) (max : Z) : bool :=
  header_in_domain h && kind_valid (h_kind h) && prio_valid (h_prio h)
  && negb (body_exceeds_max (h_bodylen h) max).

(* "malformed header": bad magic, version, flags, reserved bits, kind, priority or
   oversize body, stated on the raw bytes at the positions the wire format fixes *)
Definition byte_at (i : N) (enc : bytes) : N := nth (N.to_nat i) enc 0.
Definition be_at (i : N) (w : nat) (enc : bytes) : N := be_get (slice (N.to_nat i) w enc).
Definition hdr_malformed (enc : bytes) (max : Z) : bool :=
  Nat.ltb (length enc) header_size
  || negb (be_at headerMagicOffset 2 enc =? Magic)
  || negb (byte_at headerVersionOffset enc =? Version)
  || negb (byte_at headerFlagsOffset enc =? 0)
  || negb (be_at headerReservedOffset 4 enc =? 0)
  || negb (kind_valid (byte_at headerKindOffset enc))
  || negb (prio_valid (byte_at headerPriorityOffset enc))
  || body_exceeds_max (be_at headerBodyLenOffset 4 enc) max.

Definition validation_error (e : werr) : bool :=
  match e with EInvalidFrame | EInvalidPriority | ETooLarge => true | _ => false end.
