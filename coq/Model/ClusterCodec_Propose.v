(* Model/ClusterCodec_Propose.v — the fixed-width envelopes:
   pkg/cluster/propose/codec.go   EncodePayload / DecodePayload,
                                  EncodeForwardRequest / DecodeForwardRequest (v1, v2, v3 frames)
   pkg/cluster/net/codec.go       PutHeader / CheckHeader.
   Transcribed slice by slice (data[a:b] = [sl a b data]); big-endian fields
   through Base/Bytes.v.  Definitions only. *)
From WK Require Import Base.Base Base.Bytes Gen.Consts_C27.
Open Scope N_scope.

(* data[a:b] for a <= b <= len(data) *)
Definition sl (a b : nat) (data : bytes) : bytes := firstn (b - a) (skipn a data).
(* data[i] *)
Definition at_ (i : nat) (data : bytes) : N := nth i data 0.

(* ---- propose.EncodePayload / DecodePayload ------------------------------------------- *)

Definition EncodePayload (hashSlot : N) (command : bytes) : bytes :=
  [payloadVersion] ++ put_u16 hashSlot ++ command.

(* returns (hashSlot, copy of payload[3:]) *)
Definition DecodePayload (payload : bytes) : option (N * bytes) :=
  if Nat.ltb (length payload) 3 || negb (at_ 0 payload =? payloadVersion) then None
  else Some (be_get (sl 1 3 payload), skipn 3 payload).

(* ---- propose.ForwardRequest ------------------------------------------------------------- *)

Record forward_request := ForwardRequest {
  fw_slot_id : N;       (* uint32 *)
  fw_hash_slot : N;     (* uint16 *)
  fw_class : N;         (* ProposalClass, uint8 *)
  fw_want_result : bool;
  fw_payload : bytes }.

(* propose.normalizeProposalClass *)
Definition normalizeProposalClass (c : N) : N :=
  if c =? ProposalClassBackground then ProposalClassBackground else ProposalClassForeground.

Definition u32max1 : N := 4294967296.

(* EncodeForwardRequest.  uint32(len(req.Payload)) wraps for payloads of 4 GiB and more. *)
Definition EncodeForwardRequest (req : forward_request) : option bytes :=
  if (fw_slot_id req =? 0) || (N.of_nat (length (fw_payload req)) =? 0) then None
  else Some ([forwardVersion] ++ [normalizeProposalClass (fw_class req)]
             ++ [if fw_want_result req then forwardFlagWantResult else 0]
             ++ put_u32 (fw_slot_id req) ++ put_u16 (fw_hash_slot req)
             ++ put_u32 (N.of_nat (length (fw_payload req)) mod u32max1)
             ++ fw_payload req).

(* data[2] & forwardFlagWantResult != 0 *)
Definition flag_set (b flag : N) : bool := negb (N.land b flag =? 0).

Definition DecodeForwardRequest (data : bytes) : option forward_request :=
  let n := length data in
  if Nat.ltb n 11 then None
  else
    let v := at_ 0 data in
    if v =? forwardVersionLegacy then
      if negb (be_get (sl 7 11 data) =? N.of_nat (n - 11)) then None
      else Some (ForwardRequest (be_get (sl 1 5 data)) (be_get (sl 5 7 data))
                                ProposalClassForeground false (skipn 11 data))
    else if v =? forwardVersionClass then
      if Nat.ltb n 12 then None
      else if negb (be_get (sl 8 12 data) =? N.of_nat (n - 12)) then None
      else Some (ForwardRequest (be_get (sl 2 6 data)) (be_get (sl 6 8 data))
                                (normalizeProposalClass (at_ 1 data)) false (skipn 12 data))
    else if v =? forwardVersion then
      if Nat.ltb n 13 then None
      else if negb (be_get (sl 9 13 data) =? N.of_nat (n - 13)) then None
      else Some (ForwardRequest (be_get (sl 3 7 data)) (be_get (sl 7 9 data))
                                (normalizeProposalClass (at_ 1 data))
                                (flag_set (at_ 2 data) forwardFlagWantResult) (skipn 13 data))
    else None.

Definition forward_eqb (a b : forward_request) : bool :=
  (fw_slot_id a =? fw_slot_id b) && (fw_hash_slot a =? fw_hash_slot b) && (fw_class a =? fw_class b)
  && Bool.eqb (fw_want_result a) (fw_want_result b) && bytes_eqb (fw_payload a) (fw_payload b).

(* the encoder's domain: field widths, a normalised class, a payload the u32 length can express *)
Definition forward_wf (r : forward_request) : bool :=
  negb (fw_slot_id r =? 0) && (fw_slot_id r <? u32max1) && (fw_hash_slot r <? 65536)
  && (normalizeProposalClass (fw_class r) =? fw_class r)
  && negb (N.of_nat (length (fw_payload r)) =? 0) && (N.of_nat (length (fw_payload r)) <? u32max1)
  && all_bytes (fw_payload r).

(* ---- clusternet.PutHeader / CheckHeader --------------------------------------------------- *)

Definition PutHeader (buf : bytes) (version kind : N) : bytes := buf ++ [version; kind].

(* returns data[2:] (a sub-slice, no copy) *)
Definition CheckHeader (data : bytes) (wantVersion wantKind : N) : option bytes :=
  if Nat.ltb (length data) 2 then None
  else if negb (at_ 0 data =? wantVersion) then None
  else if negb (at_ 1 data =? wantKind) then None
  else Some (skipn 2 data).
