(* Model/Membership_C16.v — C16 "per-user conversation cursors are monotonic":
   the public meta.Shard / meta.WriteBatch operations on UserChannelMembership and
   UserCMDChannelMembership rows over Model/Membership.v, complete directory
   passes with arbitrary page sizes, the case record printed by harness/cmd/C16,
   [C16_mismatch] and [C16_monitor].  Definitions only. *)
From WK Require Import Base.Base.
From WK Require Import Gen.Consts_C16 Model.Membership.
Open Scope N_scope.

Inductive db_err := ENone | EInvalidArgument | ENotFound | EAlreadyExists | EConflict | EOther.

Definition db_err_eqb (a b : db_err) : bool :=
  match a, b with
  | ENone, ENone | EInvalidArgument, EInvalidArgument | ENotFound, ENotFound
  | EAlreadyExists, EAlreadyExists | EConflict, EConflict | EOther, EOther => true
  | _, _ => false
  end.

(* ---- mutations -------------------------------------------------------------------
   One constructor per public method.  The Shard and the Batch/WriteBatch variant
   of a method share a constructor when their code is the same; where it differs
   there are two (MSetActivated / MActivate, MCmdAdvanceShard / MCmdAdvanceBatch,
   MCmdTombstoneShard / MCmdTombstoneBatch). *)
Inductive mut :=
| MUpsert (slot : N) (m : membership)                       (* UpsertUserChannelMembership *)
| MEnsure (slot : N) (m : membership)                       (* EnsureUserChannelMembership *)
| MAdvanceRead (k : mkey) (readSeq : N) (updatedAt : Z)     (* AdvanceUserChannelMembershipReadSeq *)
| MSetActivated (k : mkey) (activatedAt updatedAt : Z)      (* Shard.SetUserChannelMembershipActivatedAt *)
| MActivate (k : mkey) (activatedAt updatedAt : Z)          (* Batch.ActivateUserChannelMembership *)
| MHide (k : mkey) (deletedToSeq : N) (updatedAt : Z)       (* HideUserChannelMembership *)
| MDelete (k : mkey)                                        (* DeleteUserChannelMembership *)
| MCmdUpsert (slot : N) (c : cmd_membership)                (* UpsertUserCMDChannelMembership *)
| MCmdAdvanceShard (k : mkey) (ackSeq : N) (updatedAt : Z)  (* Shard.AdvanceUserCMDChannelMembershipAckSeq *)
| MCmdAdvanceBatch (slot : N) (c : cmd_membership)          (* Batch.AdvanceUserCMDChannelMembershipAckSeq *)
| MCmdTombstoneShard (k : mkey) (tombstoneAt : Z)           (* Shard.TombstoneUserCMDChannelMembership *)
| MCmdTombstoneBatch (slot : N) (c : cmd_membership).       (* Batch.TombstoneUserCMDChannelMembership *)

(* argument validation done before anything is read (ErrInvalidArgument) *)
Definition mut_valid (u : mut) : bool :=
  match u with
  | MUpsert slot m | MEnsure slot m => validateIdentity (membership_key slot m)
  | MAdvanceRead k _ upd | MHide k _ upd => negb (upd <? 0)%Z && validateIdentity k
  | MSetActivated k act upd => negb ((act <? 0)%Z || (upd <? 0)%Z) && validateIdentity k
  | MActivate k act upd => negb ((act <=? 0)%Z || (upd <? 0)%Z) && validateIdentity k
  | MDelete k => validateIdentity k
  | MCmdUpsert slot c => validateUserCMDChannelMembership slot c
  | MCmdAdvanceShard k _ _ | MCmdTombstoneShard k _ => validateIdentity k
  | MCmdAdvanceBatch slot c | MCmdTombstoneBatch slot c => validateIdentity (cmd_membership_key slot c)
  end.

(* mutateUserChannelMembership: NotFound on a missing row, no-op on a tombstone
   or when the closure changes nothing *)
Definition mutateUserChannelMembership (st : mstate) (k : mkey) (f : membership -> membership)
  : db_err * mstate :=
  match get_row st k with
  | None => (ENotFound, st)
  | Some existing =>
    if m_tombstone existing then (ENone, st)
    else let next := f existing in
         if membership_eqb next existing then (ENone, st)
         else (ENone, stageUserChannelMembership st k (Some existing) next)
  end.

Definition mutateUserCMDChannelMembership (st : mstate) (k : mkey) (f : cmd_membership -> cmd_membership)
  : db_err * mstate :=
  match get_cmd st k with
  | None => (ENotFound, st)
  | Some existing =>
    if c_tombstone existing then (ENone, st)
    else let next := f existing in
         if cmd_membership_eqb next existing then (ENone, st)
         else (ENone, put_cmd st k next)
  end.

Definition upsertWith (resolve : membership -> bool -> membership -> membership)
           (st : mstate) (slot : N) (m : membership) : db_err * mstate :=
  let k := membership_key slot m in
  match get_row st k with
  | Some existing =>
    let next := resolve existing true m in
    if membership_eqb existing next then (ENone, st)
    else (ENone, stageUserChannelMembership st k (Some existing) next)
  | None => (ENone, stageUserChannelMembership st k None (resolve m false m))
  end.

(* a valid mutation applied to the (working) state *)
Definition mut_apply (st : mstate) (u : mut) : db_err * mstate :=
  match u with
  | MUpsert slot m => upsertWith resolveUserChannelMembership st slot m
  | MEnsure slot m => upsertWith resolveEnsuredUserChannelMembership st slot m
  | MAdvanceRead k readSeq upd => mutateUserChannelMembership st k (fun row => advanceReadSeq row readSeq upd)
  | MSetActivated k act upd | MActivate k act upd =>
    mutateUserChannelMembership st k (fun row => activate row act upd)
  | MHide k d upd => mutateUserChannelMembership st k (fun row => hide row d upd)
  | MDelete k => (ENone, deleteUserChannelMembership st k)
  | MCmdUpsert slot c =>
    let k := cmd_membership_key slot c in
    match get_cmd st k with
    | Some existing =>
      let next := resolveUserCMDChannelMembership existing true c in
      if cmd_membership_eqb existing next then (ENone, st) else (ENone, put_cmd st k next)
    | None => (ENone, put_cmd st k (resolveUserCMDChannelMembership c false c))
    end
  | MCmdAdvanceShard k ack upd =>
    mutateUserCMDChannelMembership st k (fun row => cmdAdvanceAckShard row ack upd)
  | MCmdAdvanceBatch slot c =>
    mutateUserCMDChannelMembership st (cmd_membership_key slot c)
      (fun row => cmdAdvanceAckBatch row (c_ack_seq c) (c_updated_at c))
  | MCmdTombstoneShard k at_ =>
    mutateUserCMDChannelMembership st k (fun row => cmdTombstone row at_ at_)
  | MCmdTombstoneBatch slot c =>
    mutateUserCMDChannelMembership st (cmd_membership_key slot c)
      (fun row => cmdTombstone row (c_tombstone_at c) (c_updated_at c))
  end.

(* a direct Shard call *)
Definition direct_apply (st : mstate) (u : mut) : db_err * mstate :=
  if mut_valid u then mut_apply st u else (EInvalidArgument, st).

(* WriteBatch: invalid ops fail at staging and are not added; Commit applies the
   staged ops in order on the working view and writes nothing if one fails *)
Fixpoint batch_build (w : mstate) (ops : list mut) : db_err * mstate :=
  match ops with
  | [] => (ENone, w)
  | u :: r =>
    if negb (mut_valid u) then batch_build w r
    else let '(e, w1) := mut_apply w u in
         if db_err_eqb e ENone then batch_build w1 r else (e, w)
  end.

(* ---- operations of a history ------------------------------------------------------ *)

Inductive c16_op :=
| OpDirect (u : mut)
| OpBatch (ops : list mut)
(* one complete directory pass of (slot, uid): pages are read with the limits of
   [limits] (cyclically), following the returned cursor, until done or an error;
   after page i the i-th mutation of [between] (if any) is applied as a direct call *)
| OpScan (slot : N) (uid : bytes) (limits : list Z) (between : list mut).

Inductive page_obs := PageObs (rows : list membership) (next : page_cursor) (done : bool) (err : page_err).

Inductive c16_obs :=
| ObsErr (err : db_err)
| ObsBatch (stage : list db_err) (commit : db_err)
| ObsScan (pages : list page_obs) (between_errs : list db_err).

Definition nth_limit (limits : list Z) (i : nat) : Z :=
  match limits with
  | [] => 1%Z
  | _ => nth (Nat.modulo i (length limits)) limits 1%Z
  end.

(* the pass; [fuel] bounds the number of pages (the harness uses the same bound) *)
Fixpoint scan_pass (fuel : nat) (st : mstate) (slot : N) (uid : bytes) (limits : list Z)
         (between : list mut) (i : nat) (cursor : page_cursor)
  : list page_obs * list db_err * mstate :=
  match fuel with
  | O => ([], [], st)
  | S fuel' =>
    let '(rows, next, done, err) := listUserChannelMembershipPage st slot uid cursor (nth_limit limits i) in
    let p := PageObs rows next done err in
    match err with
    | PageInvalid => ([p], [], st)
    | PageOk =>
      if done then ([p], [], st)
      else
        match between with
        | [] =>
          let '(ps, es, st') := scan_pass fuel' st slot uid limits [] (S i) next in (p :: ps, es, st')
        | u :: between' =>
          let '(e, st1) := direct_apply st u in
          let '(ps, es, st') := scan_pass fuel' st1 slot uid limits between' (S i) next in
          (p :: ps, e :: es, st')
        end
    end
  end.

Definition scan_fuel : nat := 64.

Definition c16_step (st : mstate) (op : c16_op) : c16_obs * mstate :=
  match op with
  | OpDirect u => let '(e, st') := direct_apply st u in (ObsErr e, st')
  | OpBatch ops =>
    let stage := map (fun u => if mut_valid u then ENone else EInvalidArgument) ops in
    let '(e, w) := batch_build st ops in
    if db_err_eqb e ENone then (ObsBatch stage ENone, w) else (ObsBatch stage e, st)
  | OpScan slot uid limits between =>
    let '(ps, es, st') := scan_pass scan_fuel st slot uid limits between 0 page_cursor_zero in
    (ObsScan ps es, st')
  end.

Fixpoint c16_exec (st : mstate) (ops : list c16_op) : mstate :=
  match ops with
  | [] => st
  | op :: r => c16_exec (snd (c16_step st op)) r
  end.

(* Get of every key of the two alphabets *)
Definition snapshot (mkeys ckeys : list mkey) (st : mstate)
  : list (option membership) * list (option cmd_membership) :=
  (map (get_row st) mkeys, map (get_cmd st) ckeys).

Definition c16_trace_step : Type :=
  (c16_op * c16_obs * (list (option membership) * list (option cmd_membership)))%type.

Fixpoint c16_run (mkeys ckeys : list mkey) (st : mstate) (ops : list c16_op) : list c16_trace_step :=
  match ops with
  | [] => []
  | op :: r => let '(o, st') := c16_step st op in
               (op, o, snapshot mkeys ckeys st') :: c16_run mkeys ckeys st' r
  end.

(* ---- cases ---------------------------------------------------------------------------- *)

Inductive c16_case :=
(* the exported pure resolvers on one (existing, exists, incoming) triple *)
| C16Resolve (existing : membership) (exists_ : bool) (incoming : membership)
             (obs_upsert obs_ensure : membership)
| C16ResolveCmd (existing : cmd_membership) (exists_ : bool) (incoming : cmd_membership)
                (obs_next : cmd_membership)
(* an op history on a fresh DB *)
| C16History (mkeys ckeys : list mkey) (steps : list c16_trace_step).

(* ---- comparing observations -------------------------------------------------------------- *)

Definition page_err_eqb (a b : page_err) : bool :=
  match a, b with PageOk, PageOk | PageInvalid, PageInvalid => true | _, _ => false end.

Definition page_obs_eqb (a b : page_obs) : bool :=
  match a, b with
  | PageObs r n d e, PageObs r' n' d' e' =>
    list_eqb membership_eqb r r' && page_cursor_eqb n n' && Bool.eqb d d' && page_err_eqb e e'
  end.

Definition obs_eqb (a b : c16_obs) : bool :=
  match a, b with
  | ObsErr e, ObsErr e' => db_err_eqb e e'
  | ObsBatch s e, ObsBatch s' e' => list_eqb db_err_eqb s s' && db_err_eqb e e'
  | ObsScan p es, ObsScan p' es' => list_eqb page_obs_eqb p p' && list_eqb db_err_eqb es es'
  | _, _ => false
  end.

Definition snapshot_eqb (a b : list (option membership) * list (option cmd_membership)) : bool :=
  list_eqb (option_eqb membership_eqb) (fst a) (fst b)
  && list_eqb (option_eqb cmd_membership_eqb) (snd a) (snd b).

Fixpoint history_mismatch (mkeys ckeys : list mkey) (st : mstate) (steps : list c16_trace_step) : bool :=
  match steps with
  | [] => false
  | (op, o, snap) :: r =>
    let '(o', st') := c16_step st op in
    negb (obs_eqb o' o && snapshot_eqb (snapshot mkeys ckeys st') snap)
    || history_mismatch mkeys ckeys st' r
  end.

Definition C16_mismatch (c : c16_case) : bool :=
  match c with
  | C16Resolve existing exists_ incoming u e =>
    negb (membership_eqb (resolveUserChannelMembership existing exists_ incoming) u
          && membership_eqb (resolveEnsuredUserChannelMembership existing exists_ incoming) e)
  | C16ResolveCmd existing exists_ incoming n =>
    negb (cmd_membership_eqb (resolveUserCMDChannelMembership existing exists_ incoming) n)
  | C16History mkeys ckeys steps => history_mismatch mkeys ckeys mstate_empty steps
  end.

(* ---- the property on observations ------------------------------------------------------------

   Cursors: ReadSeq, DeletedToSeq (and SourceVersion, the fence that refuses
   older subscriber-derived writes) of a membership row and AckSeq of a CMD row
   never decrease from one observation of the row to the next, and the row does
   not vanish, except in a step that is a delete/recreate boundary for that row:
     - a DeleteUserChannelMembership of the row,
     - an Upsert carrying a live row with a SourceVersion newer than the stored
       one while the stored row is (or, inside a batch, may have become) a tombstone,
     - an Ensure carrying a SourceVersion newer than the stored one while the
       stored SourceVersion is (or may have become) non-zero,
     - for CMD rows: an Upsert of a live binding on a tombstoned (or, inside a
       batch, possibly tombstoned) row ("rebinding resets its boundaries").
   Inside a batch the intermediate rows are not observable; [may_tombstone] /
   [may_source] over-approximate them from the row before the step and the
   batch's earlier ops on the same key.
   Stale source: a direct Upsert with an older SourceVersion, or a direct Ensure
   with a SourceVersion not newer than the stored one, leaves the row unchanged.
   Refusals: a step reporting an error leaves every row unchanged.
   Directory pass: a pass whose interleaved mutations concern other uids returns
   no error, ends with done, and the concatenation of its pages is exactly the
   rows of (slot, uid) before the step, once each, ordered by
   (ActivatedAt desc, channel id in key order, channel type).  (The pass is
   only judged when every listed row has ActivatedAt >= 0: the page cursor
   validation of the code refuses negative activation times, see notes/C16.md.) *)

Definition membership_advances (a b : membership) : bool :=
  (m_read_seq a <=? m_read_seq b) && (m_deleted_to_seq a <=? m_deleted_to_seq b)
  && (m_source_version a <=? m_source_version b).

Definition cmd_advances (a b : cmd_membership) : bool := c_ack_seq a <=? c_ack_seq b.

(* the mutations a step applies, in order (a direct call = a batch of one;
   the direct calls interleaved in a pass) *)
Definition op_muts (op : c16_op) : list mut :=
  match op with
  | OpDirect u => [u]
  | OpBatch ops => ops
  | OpScan _ _ _ between => between
  end.

(* is the step a recreate boundary for membership key k whose row before the
   step is [a]?  state of the fold: may the row be a tombstone / carry a
   non-zero source version at this point *)
Fixpoint boundary_fold (k : mkey) (asv : N) (may_tombstone may_source : bool) (us : list mut) : bool :=
  match us with
  | [] => false
  | u :: r =>
    match u with
    | MDelete k' => if mkey_eqb k' k then true else boundary_fold k asv may_tombstone may_source r
    | MUpsert slot m =>
      if mkey_eqb (membership_key slot m) k then
        if negb (m_tombstone m) && (asv <? m_source_version m) && may_tombstone then true
        else boundary_fold k asv (may_tombstone || m_tombstone m)
               (may_source || negb (m_source_version m =? 0)) r
      else boundary_fold k asv may_tombstone may_source r
    | MEnsure slot m =>
      if mkey_eqb (membership_key slot m) k then
        if (asv <? m_source_version m) && may_source then true
        else boundary_fold k asv may_tombstone (may_source || negb (m_source_version m =? 0)) r
      else boundary_fold k asv may_tombstone may_source r
    | _ => boundary_fold k asv may_tombstone may_source r
    end
  end.

Definition membership_boundary (k : mkey) (a : membership) (us : list mut) : bool :=
  boundary_fold k (m_source_version a) (m_tombstone a) (negb (m_source_version a =? 0)) us.

Fixpoint cmd_boundary_fold (k : mkey) (may_tombstone : bool) (us : list mut) : bool :=
  match us with
  | [] => false
  | u :: r =>
    match u with
    | MCmdUpsert slot c =>
      if mkey_eqb (cmd_membership_key slot c) k && negb (c_tombstone c) && may_tombstone then true
      else cmd_boundary_fold k may_tombstone r
    | MCmdTombstoneShard k' _ =>
      cmd_boundary_fold k (may_tombstone || mkey_eqb k' k) r
    | MCmdTombstoneBatch slot c =>
      cmd_boundary_fold k (may_tombstone || mkey_eqb (cmd_membership_key slot c) k) r
    | _ => cmd_boundary_fold k may_tombstone r
    end
  end.

Definition cmd_boundary (k : mkey) (a : cmd_membership) (us : list mut) : bool :=
  cmd_boundary_fold k (c_tombstone a) us.

Definition row_step_ok (k : mkey) (us : list mut) (a b : option membership) : bool :=
  match a with
  | None => true
  | Some a' =>
    if membership_boundary k a' us then true
    else match b with Some b' => membership_advances a' b' | None => false end
  end.

Definition cmd_step_ok (k : mkey) (us : list mut) (a b : option cmd_membership) : bool :=
  match a with
  | None => true
  | Some a' =>
    if cmd_boundary k a' us then true
    else match b with Some b' => cmd_advances a' b' | None => false end
  end.

Fixpoint rows_step_ok (us : list mut) (keys : list mkey) (prev snap : list (option membership)) : bool :=
  match keys, prev, snap with
  | [], [], [] => true
  | k :: keys', a :: prev', b :: snap' => row_step_ok k us a b && rows_step_ok us keys' prev' snap'
  | _, _, _ => false
  end.

Fixpoint cmds_step_ok (us : list mut) (keys : list mkey) (prev snap : list (option cmd_membership)) : bool :=
  match keys, prev, snap with
  | [], [], [] => true
  | k :: keys', a :: prev', b :: snap' => cmd_step_ok k us a b && cmds_step_ok us keys' prev' snap'
  | _, _, _ => false
  end.

Fixpoint snapshot_get {V} (keys : list mkey) (snap : list (option V)) (k : mkey) : option V :=
  match keys, snap with
  | k' :: keys', a :: snap' => if mkey_eqb k' k then a else snapshot_get keys' snap' k
  | _, _ => None
  end.

(* stale source versions are refused (direct calls) *)
Definition stale_source_ok (mkeys : list mkey) (prev snap : list (option membership)) (op : c16_op) : bool :=
  match op with
  | OpDirect (MUpsert slot m) =>
    let k := membership_key slot m in
    match snapshot_get mkeys prev k with
    | Some a => if m_source_version m <? m_source_version a
                then option_eqb membership_eqb (snapshot_get mkeys snap k) (Some a) else true
    | None => true
    end
  | OpDirect (MEnsure slot m) =>
    let k := membership_key slot m in
    match snapshot_get mkeys prev k with
    | Some a => if m_source_version m <=? m_source_version a
                then option_eqb membership_eqb (snapshot_get mkeys snap k) (Some a) else true
    | None => true
    end
  | _ => true
  end.

Definition obs_failed (o : c16_obs) : bool :=
  match o with
  | ObsErr e => negb (db_err_eqb e ENone)
  | ObsBatch _ e => negb (db_err_eqb e ENone)
  | ObsScan _ _ => false
  end.

(* expected listing of (slot, uid): the present rows of the alphabet, by key order *)
Fixpoint present_rows (slot : N) (uid : bytes) (keys : list mkey) (snap : list (option membership))
  : list membership :=
  match keys, snap with
  | k :: keys', Some m :: snap' =>
    if (k_slot k =? slot) && bytes_eqb (k_uid k) uid then m :: present_rows slot uid keys' snap'
    else present_rows slot uid keys' snap'
  | _ :: keys', None :: snap' => present_rows slot uid keys' snap'
  | _, _ => []
  end.

Fixpoint row_insert (slot : N) (m : membership) (l : list membership) : list membership :=
  match l with
  | [] => [m]
  | x :: r => if entry_ltb (activation_entry slot x) (activation_entry slot m)
              then x :: row_insert slot m r else m :: l
  end.
Definition expected_listing (slot : N) (uid : bytes) (keys : list mkey) (snap : list (option membership))
  : list membership :=
  fold_right (row_insert slot) [] (present_rows slot uid keys snap).

Definition mut_uid (u : mut) : bytes :=
  match u with
  | MUpsert _ m | MEnsure _ m => m_uid m
  | MAdvanceRead k _ _ | MSetActivated k _ _ | MActivate k _ _ | MHide k _ _ | MDelete k
  | MCmdAdvanceShard k _ _ | MCmdTombstoneShard k _ => k_uid k
  | MCmdUpsert _ c | MCmdAdvanceBatch _ c | MCmdTombstoneBatch _ c => c_uid c
  end.

Fixpoint pages_rows (ps : list page_obs) : list membership :=
  match ps with
  | [] => []
  | PageObs rows _ _ _ :: r => rows ++ pages_rows r
  end.

Fixpoint pages_well_formed (ps : list page_obs) : bool :=
  match ps with
  | [] => false
  | [PageObs _ _ done err] => done && page_err_eqb err PageOk
  | PageObs _ _ done err :: r => negb done && page_err_eqb err PageOk && pages_well_formed r
  end.

Definition scan_ok (mkeys : list mkey) (prev : list (option membership)) (op : c16_op) (o : c16_obs) : bool :=
  match op, o with
  | OpScan slot uid limits between, ObsScan ps _ =>
    if validateKeyString uid && forallb (fun l => (0 <? l)%Z) limits
       && forallb (fun u => negb (bytes_eqb (mut_uid u) uid)) between
       && Nat.ltb (length (present_rows slot uid mkeys prev)) scan_fuel
       && forallb (fun m => (0 <=? m_activated_at m)%Z) (present_rows slot uid mkeys prev)
    then pages_well_formed ps
         && list_eqb membership_eqb (pages_rows ps) (expected_listing slot uid mkeys prev)
    else true
  | OpScan _ _ _ _, _ => false
  | _, _ => true
  end.

Definition step_ok (mkeys ckeys : list mkey)
           (prev : list (option membership) * list (option cmd_membership)) (st : c16_trace_step) : bool :=
  let '(op, o, snap) := st in
  rows_step_ok (op_muts op) mkeys (fst prev) (fst snap)
  && cmds_step_ok (op_muts op) ckeys (snd prev) (snd snap)
  && stale_source_ok mkeys (fst prev) (fst snap) op
  && (negb (obs_failed o) || snapshot_eqb prev snap)
  && scan_ok mkeys (fst prev) op o.

Fixpoint history_ok (mkeys ckeys : list mkey)
         (prev : list (option membership) * list (option cmd_membership))
         (steps : list c16_trace_step) : bool :=
  match steps with
  | [] => true
  | st :: r => step_ok mkeys ckeys prev st && history_ok mkeys ckeys (snd st) r
  end.

(* pure resolvers: with an existing row, the result advances it unless the
   incoming row is a boundary for it; an older source version returns the row *)
Definition resolve_ok (existing : membership) (exists_ : bool) (incoming u e : membership) : bool :=
  if negb exists_ then true else
  let k := membership_key 0 existing in
  (membership_boundary k existing [MUpsert 0 incoming] || membership_advances existing u)
  && (membership_boundary k existing [MEnsure 0 incoming] || membership_advances existing e)
  && (negb (m_source_version incoming <? m_source_version existing) || membership_eqb u existing)
  && (negb (m_source_version incoming <=? m_source_version existing) || membership_eqb e existing).

Definition resolve_cmd_ok (existing : cmd_membership) (exists_ : bool) (incoming n : cmd_membership) : bool :=
  if negb exists_ then true
  else (c_tombstone existing && negb (c_tombstone incoming)) || cmd_advances existing n.

Definition C16_monitor (c : c16_case) : N :=
  match c with
  | C16Resolve existing exists_ incoming u e =>
    if bytes_eqb (m_uid existing) (m_uid incoming) && bytes_eqb (m_channel_id existing) (m_channel_id incoming)
       && (m_channel_type existing =? m_channel_type incoming)%Z
    then (if resolve_ok existing exists_ incoming u e then 0 else 1)
    else 0   (* the code only resolves rows of one key *)
  | C16ResolveCmd existing exists_ incoming n =>
    if resolve_cmd_ok existing exists_ incoming n then 0 else 1
  | C16History mkeys ckeys steps =>
    if history_ok mkeys ckeys (map (fun _ => None) mkeys, map (fun _ => None) ckeys) steps then 0 else 1
  end.
