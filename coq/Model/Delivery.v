(* Model/Delivery.v — internal/runtime/delivery: orderedPlanQueue (plan_queue.go),
   shardIndex, and the plan processor of runtime.go (processPlan, pushWithRetry,
   routeOwnerPush, pushOwnerRemote, pushOwnerLocal, appendOfflineUIDs,
   suppressSenderRoute, validatePlan).  Executable definitions only.

   External behaviour enters as oracles: the answers of the presence port, the
   classification returned by the session-writer port for each write (with a
   flag "the context was cancelled while this write ran"), the result returned
   by the remote owner-push port, and whether the ACK tracker granted a
   reservation (LReject = no token).  *)
From WK Require Import Base.Base Gen.Consts_C31.
Open Scope N_scope.

(* ---------------------------------------------------------------- data ---- *)

Record route := Route {
  r_uid : bytes; r_owner : N; r_boot : N; r_oseq : N; r_sess : N;
  r_dev : bytes; r_flag : N; r_level : N }.

Definition route_eqb (a b : route) : bool :=
  bytes_eqb (r_uid a) (r_uid b) && (r_owner a =? r_owner b) && (r_boot a =? r_boot b)
  && (r_oseq a =? r_oseq b) && (r_sess a =? r_sess b) && bytes_eqb (r_dev a) (r_dev b)
  && (r_flag a =? r_flag b) && (r_level a =? r_level b).

Record event := Event {
  e_msgid : N; e_seq : N; e_chid : bytes; e_chtype : N;
  e_from : bytes; e_snode : N; e_ssess : N }.

Record target := Target { t_leader : N; t_recips : list bytes }.

Record plan := Plan { p_mode : N; p_event : event; p_targets : list target }.

Definition zero_event : event := Event 0 0 [] 0 [] 0 0.
Definition zero_plan : plan := Plan 0 zero_event [].

(* one entry of the presence port's answer; a missing entry = shorter list *)
Inductive answer := AErr | AOk (rs : list route).

Definition is_nil {A} (l : list A) : bool := match l with [] => true | _ => false end.

Fixpoint upd {A} (i : nat) (x : A) (l : list A) {struct l} : list A :=
  match l, i with
  | [], _ => []
  | _ :: r, O => x :: r
  | y :: r, S i' => y :: upd i' x r
  end.

(* ---------------------------------------------------------- shardIndex ---- *)

Definition fnv_step (h b : N) : N := wrap64 (N.lxor h b * 1099511628211).

Definition chan_hash (chtype : N) (chid : bytes) : N :=
  fold_left fnv_step chid (fnv_step 14695981039346656037 chtype).

Definition shardIndex (shards : N) (chtype : N) (chid : bytes) : N :=
  chan_hash chtype chid mod shards.

Definition plan_shard (shards : nat) (p : plan) : nat :=
  N.to_nat (shardIndex (N.of_nat shards) (e_chtype (p_event p)) (e_chid (p_event p))).

(* ---------------------------------------------------- orderedPlanQueue ---- *)
(* nodes = (pq_plans, pq_next); noPlanQueueNode (-1) = None *)

Record pq := PQ {
  pq_cap : nat;
  pq_plans : list plan;
  pq_next : list (option nat);
  pq_heads : list (option nat);
  pq_tails : list (option nat);
  pq_free : option nat;
  pq_depth : nat }.

Definition init_next (cap : nat) : list (option nat) :=
  map (fun i => if (S i =? cap)%nat then None else Some (S i)) (seq 0 cap).

Definition newq_nat (cap shards : nat) : pq :=
  PQ cap (repeat zero_plan cap) (init_next cap) (repeat None shards) (repeat None shards) (Some O) O.

Definition newOrderedPlanQueue (cap shards : Z) : option pq :=
  if (cap <=? 0)%Z || (shards <=? 0)%Z then None
  else Some (newq_nat (Z.to_nat cap) (Z.to_nat shards)).

(* EnqFull: the call is parked on the capacity semaphore (it returns only when
   a slot is released, admission closes or the caller's context ends) *)
Inductive enq_res := EnqOk | EnqClosed | EnqFull.

Definition pq_enqueue (q : pq) (closed : bool) (p : plan) : pq * enq_res :=
  if closed then (q, EnqClosed)
  else if (pq_cap q <=? pq_depth q)%nat then (q, EnqFull)
  else match pq_free q with
       | None => (q, EnqClosed)
       | Some i =>
           let s := plan_shard (length (pq_heads q)) p in
           let plans' := upd i p (pq_plans q) in
           let free' := nth i (pq_next q) None in
           let next1 := upd i None (pq_next q) in
           match nth s (pq_tails q) None with
           | None =>
               (PQ (pq_cap q) plans' next1 (upd s (Some i) (pq_heads q))
                   (upd s (Some i) (pq_tails q)) free' (S (pq_depth q)), EnqOk)
           | Some t =>
               (PQ (pq_cap q) plans' (upd t (Some i) next1) (pq_heads q)
                   (upd s (Some i) (pq_tails q)) free' (S (pq_depth q)), EnqOk)
           end
       end.

Definition pq_pop (q : pq) (s : nat) : pq * option plan :=
  match nth s (pq_heads q) None with
  | None => (q, None)
  | Some i =>
      let p := nth i (pq_plans q) zero_plan in
      let h' := nth i (pq_next q) None in
      let tails' := match h' with None => upd s None (pq_tails q) | Some _ => pq_tails q end in
      (PQ (pq_cap q) (upd i zero_plan (pq_plans q)) (upd i (pq_free q) (pq_next q))
          (upd s h' (pq_heads q)) tails' (Some i) (pred (pq_depth q)), Some p)
  end.

(* the specification the array structure refines: one FIFO list per shard *)
Definition aq := list (list plan).

Definition aq_total (a : aq) : nat := length (concat a).

Definition aq_enqueue (cap : nat) (a : aq) (closed : bool) (p : plan) : aq * enq_res :=
  if closed then (a, EnqClosed)
  else if (cap <=? aq_total a)%nat then (a, EnqFull)
  else let s := plan_shard (length a) p in
       (upd s (nth s a [] ++ [p]) a, EnqOk).

Definition aq_pop (a : aq) (s : nat) : aq * option plan :=
  match nth s a [] with
  | [] => (a, None)
  | p :: r => (upd s r a, Some p)
  end.

(* ------------------------------------------------------------- config ---- *)

Record cfg := Cfg {
  c_local : N;              (* LocalNodeID *)
  c_batch_raw : Z;          (* OwnerPushBatchSize as given *)
  c_retry_raw : Z;          (* RetryMaxAttempts as given *)
  c_oc_raw : Z;             (* OwnerConcurrency as given *)
  c_maxrecip_raw : Z;       (* MaxPlanRecipients as given *)
  c_offline_obs : bool;     (* OfflineRecipientsObserver != nil *)
  c_has_writer : bool;      (* SessionWriter != nil *)
  c_has_remote : bool;      (* RemoteOwnerPusher != nil *)
  c_has_presence : bool }.  (* Presence != nil *)

(* boundedRuntimePositive *)
Definition bounded_pos (v : Z) (d : N) : nat :=
  if (v <=? 0)%Z then N.to_nat d else Z.to_nat v.

Definition c_batch (c : cfg) : nat := bounded_pos (c_batch_raw c) c31_default_push_batch.
Definition c_retry (c : cfg) : nat := bounded_pos (c_retry_raw c) c31_default_retry_attempts.
Definition c_oc (c : cfg) : nat := bounded_pos (c_oc_raw c) c31_default_owner_workers.
Definition c_maxrecip (c : cfg) : nat := bounded_pos (c_maxrecip_raw c) c31_default_plan_recipients.

(* ------------------------------------------------------- validatePlan ---- *)

Definition recipient_count (p : plan) : nat :=
  fold_left (fun n t => (n + length (t_recips t))%nat) (p_targets p) O.

(* 0 accepted, 2 ErrInvalidPlan, 3 ErrPlanTooLarge *)
Definition validatePlan (c : cfg) (p : plan) : N :=
  if negb ((p_mode p =? c31_mode_durable) || (p_mode p =? c31_mode_transient))
     || (e_msgid (p_event p) =? 0) || is_nil (p_targets p) then 2
  else if (c_maxrecip c <? recipient_count p)%nat then 3
  else if existsb (fun t => (t_leader t =? 0) || is_nil (t_recips t) || existsb is_nil (t_recips t))
                  (p_targets p) then 2
  else 0.

(* ------------------------------------------- pure pieces of processPlan ---- *)

Definition suppressSenderRoute (ev : event) (r : route) : bool :=
  negb (is_nil (e_from ev)) && negb (e_snode ev =? 0) && negb (e_ssess ev =? 0)
  && bytes_eqb (r_uid r) (e_from ev) && (r_owner r =? e_snode ev) && (r_sess r =? e_ssess ev).

Definition keep_route (ev : event) (r : route) : bool :=
  negb (r_owner r =? 0) && negb (suppressSenderRoute ev r).

Definition mem_bytes (u : bytes) (l : list bytes) : bool := existsb (bytes_eqb u) l.

Definition has_route_for (u : bytes) (rs : list route) : bool :=
  existsb (fun r => bytes_eqb (r_uid r) u) rs.

(* appendOfflineUIDs; the [seen] map always holds exactly the uids of [out] *)
Fixpoint appendOfflineUIDs (out : list bytes) (recips : list bytes) (rs : list route) : list bytes :=
  match recips with
  | [] => out
  | u :: rest =>
      if has_route_for u rs then appendOfflineUIDs out rest rs
      else if mem_bytes u out then appendOfflineUIDs out rest rs
      else appendOfflineUIDs (out ++ [u]) rest rs
  end.

(* grouped + ownerOrder: association list in first-seen owner order *)
Definition groups := list (N * list route).

Fixpoint group_add (g : groups) (r : route) : groups :=
  match g with
  | [] => [(r_owner r, [r])]
  | (o, rs) :: g' =>
      if o =? r_owner r then (o, rs ++ [r]) :: g' else (o, rs) :: group_add g' r
  end.

Record resolved := Res {
  rs_err : N;                 (* 0, or class of the first presence-phase failure: 2 missing, 3 error *)
  rs_offline : list bytes;
  rs_groups : groups }.

Definition set_err (a : resolved) (e : N) : resolved :=
  Res (if rs_err a =? 0 then e else rs_err a) (rs_offline a) (rs_groups a).

Fixpoint resolve_targets (track : bool) (ev : event) (ts : list target) (ans : list answer)
         (a : resolved) : resolved :=
  match ts with
  | [] => a
  | t :: ts' =>
      match ans with
      | [] => resolve_targets track ev ts' [] (set_err a 2)
      | AErr :: ans' => resolve_targets track ev ts' ans' (set_err a 3)
      | AOk rs :: ans' =>
          let off := if track then appendOfflineUIDs (rs_offline a) (t_recips t) rs else rs_offline a in
          let g := fold_left group_add (filter (keep_route ev) rs) (rs_groups a) in
          resolve_targets track ev ts' ans' (Res (rs_err a) off g)
      end
  end.

(* routes[start:end] windows of ownerPushBatchSize *)
Fixpoint chunks_fuel (fuel b : nat) (l : list route) : list (list route) :=
  match fuel with
  | O => []
  | S f => match l with
           | [] => []
           | _ => firstn b l :: chunks_fuel f b (skipn b l)
           end
  end.
Definition chunks (b : nat) (l : list route) : list (list route) := chunks_fuel (length l) b l.

(* ------------------------------------------------------------ oracles ---- *)

(* one valid route of a local push: LReject = the tracker gave no reservation
   (initial BindBatch token invalid, or the duplicate's refresh not Bound);
   LWrite d c = WriteSession returned disposition code d (9 = it panicked) and
   c = the context was cancelled when it returned *)
Inductive lout := LReject | LWrite (d : N) (cancel : bool).

(* one attempt *)
Inductive oout :=
| OLocal (l : list lout)
| ORemote (acc retry drop : list route) (err : N).    (* err: 0 nil, 1 error, 2 the port panicked *)

Definition write_panic_code : N := 9.

(* 1 Accepted, 2 Retryable, 3 Dropped (the switch's default branch) *)
Definition disp_class (d : N) : N :=
  if d =? c31_write_accepted then 1
  else if (d =? c31_write_retryable) || (d =? write_panic_code) then 2
  else 3.

(* ------------------------------------------------------ pushOwnerLocal ---- *)

Definition route_valid (msgid owner : N) (r : route) : bool :=
  negb (is_nil (r_uid r)) && negb (r_sess r =? 0) && (r_owner r =? owner) && negb (msgid =? 0).

Record lres := LRes {
  l_acc : list route; l_retry : list route; l_drop : list route;
  l_writes : list (route * N * bool);
  l_cx : bool }.

Definition lres0 (cx : bool) : lres := LRes [] [] [] [] cx.

Fixpoint local_loop (has_writer : bool) (msgid owner : N) (rs : list route) (orc : list lout)
         (a : lres) : lres :=
  match rs with
  | [] => a
  | r :: rs' =>
      if l_cx a then
        local_loop has_writer msgid owner rs' orc
                   (LRes (l_acc a) (l_retry a ++ [r]) (l_drop a) (l_writes a) true)
      else if negb (route_valid msgid owner r) then
        local_loop has_writer msgid owner rs' orc
                   (LRes (l_acc a) (l_retry a) (l_drop a ++ [r]) (l_writes a) false)
      else
        let o := match orc with o :: _ => o | [] => LWrite c31_write_accepted false end in
        let orc' := match orc with _ :: t => t | [] => [] end in
        match o with
        | LReject =>
            local_loop has_writer msgid owner rs' orc'
                       (LRes (l_acc a) (l_retry a) (l_drop a ++ [r]) (l_writes a) false)
        | LWrite d c =>
            if has_writer then
              let w := l_writes a ++ [(r, d, c)] in
              if disp_class d =? 1 then
                local_loop has_writer msgid owner rs' orc' (LRes (l_acc a ++ [r]) (l_retry a) (l_drop a) w c)
              else if disp_class d =? 2 then
                local_loop has_writer msgid owner rs' orc' (LRes (l_acc a) (l_retry a ++ [r]) (l_drop a) w c)
              else
                local_loop has_writer msgid owner rs' orc' (LRes (l_acc a) (l_retry a) (l_drop a ++ [r]) w c)
            else
              (* SessionWriter == nil: Retryable, ErrSessionWriterUnavailable, no port call *)
              local_loop has_writer msgid owner rs' orc'
                         (LRes (l_acc a) (l_retry a ++ [r]) (l_drop a) (l_writes a) false)
        end
  end.

(* error 1 = ErrOwnerPushNotLocal *)
Definition pushOwnerLocal (c : cfg) (ev : event) (owner : N) (rs : list route)
           (orc : list lout) (cx : bool) : N * lres :=
  if (c_local c =? 0) || (owner =? 0) || negb (owner =? c_local c) then (1, lres0 cx)
  else (0, local_loop (c_has_writer c) (e_msgid ev) owner rs orc (lres0 cx)).

(* --------------------------------------------------------- one attempt ---- *)
(* what one routeOwnerPush call did, as seen at the ports *)
Record attempt := Att {
  a_owner : N;
  a_local : bool;
  a_routes : list route;                 (* push.Routes *)
  a_writes : list (route * N * bool);    (* WriteSession calls, in order *)
  a_acc : list route; a_retry : list route; a_drop : list route;   (* OwnerPushResult *)
  a_err : N;                             (* 0 nil, 1 error, 2 recovered panic *)
  a_obs : list N }.                      (* ObserveOwnerPush: [label; routes; accepted; retryable; dropped] *)

Definition nlen {A} (l : list A) : N := N.of_nat (length l).

(* observeOwnerPushResult; labels: 0 ok, 1 error, 2 retryable, 3 dropped *)
Definition obs_of (routes acc retry drop : list route) (err : N) : list N :=
  let retryable := if err =? 0 then nlen retry else nlen routes in
  let label := if negb (err =? 0) then 1
               else if 0 <? retryable then 2
               else if 0 <? nlen drop then 3 else 0 in
  [label; nlen routes; nlen acc; retryable; nlen drop].

Definition oracle_local (o : oout) : list lout :=
  match o with OLocal l => l | ORemote _ _ _ _ => [] end.

(* pushOwnerLocal seen from the ports (result, writes, ObserveOwnerPush) *)
Definition local_attempt (c : cfg) (ev : event) (owner : N) (rs : list route) (orc : list lout)
           (cx : bool) : attempt * bool :=
  let '(err, lr) := pushOwnerLocal c ev owner rs orc cx in
  (Att owner true rs (l_writes lr) (l_acc lr) (l_retry lr) (l_drop lr) err
       (obs_of rs (l_acc lr) (l_retry lr) (l_drop lr) err), l_cx lr).

(* routeOwnerPush *)
Definition do_attempt (c : cfg) (ev : event) (owner : N) (rs : list route) (o : oout) (cx : bool)
  : attempt * bool :=
  if owner =? c_local c then local_attempt c ev owner rs (oracle_local o) cx
  else if negb (c_has_remote c) then
    (Att owner false rs [] [] rs [] 0 (obs_of rs [] rs [] 0), cx)
  else
    match o with
    | ORemote acc retry drop err =>
        if err =? 2 then (Att owner false rs [] [] rs [] 2 (obs_of rs [] rs [] 2), cx)
        else (Att owner false rs [] acc retry drop err (obs_of rs acc retry drop err), cx)
    | OLocal _ => (Att owner false rs [] rs [] [] 0 (obs_of rs rs [] [] 0), cx)
    end.

(* -------------------------------------------------------- pushWithRetry ---- *)
(* status: 0 nil, 4 ErrOwnerPushRetryExhausted, 5 context error *)

Definition orc_hd (l : list oout) : oout := match l with o :: _ => o | [] => OLocal [] end.
Definition orc_tl (l : list oout) : list oout := match l with _ :: t => t | [] => [] end.

Fixpoint pushWithRetry (c : cfg) (ev : event) (owner : N) (n : nat) (rs : list route)
         (orc : list oout) (cx : bool) : list attempt * N * list oout * bool :=
  match n with
  | O => ([], 0, orc, cx)
  | S n' =>
      if cx then ([], 5, orc, cx)
      else
        let '(a, cx1) := do_attempt c ev owner rs (orc_hd orc) cx in
        let orc' := orc_tl orc in
        if (a_err a =? 0) && is_nil (a_retry a) then ([a], 0, orc', cx1)
        else
          let rs' := if a_err a =? 0 then a_retry a else rs in
          match n' with
          | O => ([a], 4, orc', cx1)
          | S _ =>
              if cx1 then ([a], 5, orc', cx1)
              else
                let '(l, st, orc2, cx2) := pushWithRetry c ev owner n' rs' orc' cx1 in
                (a :: l, st, orc2, cx2)
          end
  end.

(* runOwner: batches in order; stops when a batch failed and the context is done *)
Fixpoint run_batches (c : cfg) (ev : event) (owner : N) (bs : list (list route))
         (orc : list oout) (cx : bool) : list attempt * N * bool :=
  match bs with
  | [] => ([], 0, cx)
  | b :: bs' =>
      let '(l, st, orc', cx') := pushWithRetry c ev owner (c_retry c) b orc cx in
      if negb (st =? 0) && cx' then (l, st, cx')
      else
        let '(l2, st2, cx2) := run_batches c ev owner bs' orc' cx' in
        (l ++ l2, (if st =? 0 then st2 else st), cx2)
  end.

(* the owners in ownerOrder (sequential execution = OwnerConcurrency 1) *)
Fixpoint run_owners (c : cfg) (ev : event) (g : groups) (orc : N -> list oout) (cx : bool)
  : list attempt * N * bool :=
  match g with
  | [] => ([], 0, cx)
  | (o, rs) :: g' =>
      let '(l, st, cx') := run_batches c ev o (chunks (c_batch c) rs) (orc o) cx in
      let '(l2, st2, cx2) := run_owners c ev g' orc cx' in
      (l ++ l2, (if st =? 0 then st2 else st), cx2)
  end.

(* ---------------------------------------------------------- processPlan ---- *)
(* class of the returned error: 0 nil, 1 ErrPresenceResolverUnavailable,
   2 ErrPresenceResultMissing, 3 presence error of a target, 4 retry exhausted,
   5 context error, 7 the plan panicked (presence port) *)
Record pres := PRes {
  po_presence : N;                  (* calls of EndpointsByTargets *)
  po_offline : list (list bytes);   (* ObserveOfflineRecipients calls *)
  po_atts : list attempt;           (* owner push attempts in execution order *)
  po_class : N }.

Definition track_offline (c : cfg) (p : plan) : bool :=
  (p_mode p =? c31_mode_durable) && c_offline_obs c.

Definition resolve_plan (c : cfg) (p : plan) (ans : list answer) : resolved :=
  resolve_targets (track_offline c p) (p_event p) (p_targets p) ans (Res 0 [] []).

Definition processPlan (c : cfg) (p : plan) (ans : list answer) (ans_panic : bool)
           (orc : N -> list oout) (cx0 : bool) : pres * bool :=
  if cx0 then (PRes 0 [] [] 5, true)
  else if negb (c_has_presence c) then (PRes 0 [] [] 1, false)
  else if ans_panic then (PRes 1 [] [] 7, false)
  else
    let rs := resolve_plan c p ans in
    let off := if track_offline c p && negb (is_nil (rs_offline rs)) then [rs_offline rs] else [] in
    let '(atts, st, cx) := run_owners c (p_event p) (rs_groups rs) orc false in
    (PRes 1 off atts (if rs_err rs =? 0 then st else rs_err rs), cx).
