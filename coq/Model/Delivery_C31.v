(* Model/Delivery_C31.v — case record, correspondence check (C31_mismatch) and
   property monitor (C31_monitor) for C31.  Five kinds of cases, see
   harness/cmd/C31/main.go. *)
From WK Require Import Base.Base Gen.Consts_C31 Model.Delivery.
Open Scope N_scope.

(* ------------------------------------------------------------- helpers ---- *)

Definition routes_eqb : list route -> list route -> bool := list_eqb route_eqb.
Definition mem_route (r : route) (l : list route) : bool := existsb (route_eqb r) l.
Definition count_r (r : route) (l : list route) : nat := length (filter (route_eqb r) l).

(* equal as multisets *)
Definition same_routes (a b : list route) : bool :=
  forallb (fun r => (count_r r a =? count_r r b)%nat) (a ++ b).

(* a is a sub-multiset of b *)
Definition sub_routes (a b : list route) : bool :=
  forallb (fun r => (count_r r a <=? count_r r b)%nat) a.

Fixpoint prefix_routes (a b : list route) : bool :=
  match a, b with
  | [], _ => true
  | x :: a', y :: b' => route_eqb x y && prefix_routes a' b'
  | _ :: _, [] => false
  end.

Fixpoint nodup_bytes (l : list bytes) : bool :=
  match l with
  | [] => true
  | x :: r => negb (mem_bytes x r) && nodup_bytes r
  end.

Definition nlist_eqb : list N -> list N -> bool := list_eqb N.eqb.

Definition write_eqb (a b : route * N * bool) : bool :=
  route_eqb (fst (fst a)) (fst (fst b)) && (snd (fst a) =? snd (fst b)) && Bool.eqb (snd a) (snd b).

Definition w_route (w : route * N * bool) : route := fst (fst w).
Definition w_disp (w : route * N * bool) : N := snd (fst w).
Definition w_cancel (w : route * N * bool) : bool := snd w.

(* =================================================================== queue *)

Inductive qop := QEnq (closed : bool) (p : plan) | QPop (s : Z).
Record qsnap := QSnap {
  qs_msgs : list N; qs_next : list Z; qs_heads : list Z; qs_tails : list Z;
  qs_free : Z; qs_slots : N; qs_depth : N }.
(* enqueue result: 0 nil, 1 ErrRuntimeClosed, 2 parked on the capacity semaphore
   (observed through an already-ended context) *)
Inductive qobs := QOEnq (res : N) (shard : N) | QOPop (got : option N).
Record qstep := QStep { q_op : qop; q_obs : qobs; q_snap : qsnap }.

Definition oz (o : option nat) : Z := match o with None => (-1)%Z | Some i => Z.of_nat i end.
Definition zlist_eqb : list Z -> list Z -> bool := list_eqb Z.eqb.

Definition snap_of (q : pq) : qsnap :=
  QSnap (map (fun p => e_msgid (p_event p)) (pq_plans q)) (map oz (pq_next q))
        (map oz (pq_heads q)) (map oz (pq_tails q)) (oz (pq_free q))
        (N.of_nat (pq_cap q - pq_depth q)) (N.of_nat (pq_depth q)).

Definition snap_eqb (a b : qsnap) : bool :=
  nlist_eqb (qs_msgs a) (qs_msgs b) && zlist_eqb (qs_next a) (qs_next b)
  && zlist_eqb (qs_heads a) (qs_heads b) && zlist_eqb (qs_tails a) (qs_tails b)
  && (qs_free a =? qs_free b)%Z && (qs_slots a =? qs_slots b) && (qs_depth a =? qs_depth b).

Definition enq_code (r : enq_res) : N := match r with EnqOk => 0 | EnqClosed => 1 | EnqFull => 2 end.

(* dequeue with stopReady closed = pop, with the range guard of dequeue *)
Definition pq_dequeue (q : pq) (s : Z) : pq * option plan :=
  if (s <? 0)%Z || (Z.of_nat (length (pq_heads q)) <=? s)%Z then (q, None)
  else pq_pop q (Z.to_nat s).

(* what the model answers to one call: the observation and the next state *)
Definition q_model_step (q : option pq) (o : qop) : option pq * qobs :=
  match q with
  | None => (None, match o with QEnq _ _ => QOEnq 1 0 | QPop _ => QOPop None end)
  | Some q =>
      match o with
      | QEnq closed p =>
          let '(q', r) := pq_enqueue q closed p in
          (Some q', QOEnq (enq_code r)
                          (match r with EnqOk => N.of_nat (plan_shard (length (pq_heads q)) p) | _ => 0 end))
      | QPop s =>
          let '(q', g) := pq_dequeue q s in
          (Some q', QOPop (option_map (fun p => e_msgid (p_event p)) g))
      end
  end.

Definition qobs_eqb (a b : qobs) : bool :=
  match a, b with
  | QOEnq r s, QOEnq r' s' => (r =? r') && (s =? s')
  | QOPop g, QOPop g' => option_eqb N.eqb g g'
  | _, _ => false
  end.

Fixpoint q_replay (q : option pq) (steps : list qstep) : bool :=
  match steps with
  | [] => true
  | st :: r =>
      let '(q', ob) := q_model_step q (q_op st) in
      qobs_eqb ob (q_obs st)
      && match q' with Some q1 => snap_eqb (snap_of q1) (q_snap st) | None => true end
      && q_replay q' r
  end.

(* the property on the observations alone: per shard the plans come out in the
   order they went in; an enqueue is refused only when admission is closed and
   parks only when [cap] plans are queued.  [a] = message ids queued per shard. *)
Definition ql_total (a : list (list N)) : nat := length (concat a).
Definition is_none {A} (o : option A) : bool := match o with None => true | Some _ => false end.

Fixpoint q_monitor (isnil : bool) (cap : nat) (a : list (list N)) (steps : list qstep) : bool :=
  match steps with
  | [] => true
  | st :: r =>
      match q_op st, q_obs st with
      | QEnq closed p, QOEnq res sh =>
          let s := N.to_nat sh in
          if res =? 0 then
            negb isnil && negb closed && (s <? length a)%nat && (ql_total a <? cap)%nat
            && q_monitor isnil cap (upd s (nth s a [] ++ [e_msgid (p_event p)]) a) r
          else if res =? 1 then (closed || isnil) && q_monitor isnil cap a r
          else if res =? 2 then negb closed && negb isnil && (cap <=? ql_total a)%nat && q_monitor isnil cap a r
          else false
      | QPop s, QOPop got =>
          if (s <? 0)%Z || (Z.of_nat (length a) <=? s)%Z then is_none got && q_monitor isnil cap a r
          else
            let i := Z.to_nat s in
            match nth i a [] with
            | [] => is_none got && q_monitor isnil cap a r
            | m :: l => option_eqb N.eqb got (Some m) && q_monitor isnil cap (upd i l a) r
            end
      | _, _ => false
      end
  end.

Definition queue_mismatch (cap shards : Z) (steps : list qstep) : bool :=
  negb (q_replay (newOrderedPlanQueue cap shards) steps).

Definition queue_monitor (cap shards : Z) (steps : list qstep) : bool :=
  let isnil := (cap <=? 0)%Z || (shards <=? 0)%Z in
  q_monitor isnil (Z.to_nat cap) (repeat [] (Z.to_nat shards)) steps.

(* the observations the model itself produces for a history of calls *)
Definition dummy_snap : qsnap := QSnap [] [] [] [] (-1)%Z 0 0.

Fixpoint q_model_steps (q : option pq) (ops : list qop) : list qstep :=
  match ops with
  | [] => []
  | o :: r =>
      let '(q', ob) := q_model_step q o in
      QStep o ob (match q' with Some q1 => snap_of q1 | None => dummy_snap end)
      :: q_model_steps q' r
  end.

(* =================================================================== shard *)

Definition shard_row := (N * N * bytes * N)%type.

Definition shard_row_mismatch (r : shard_row) : bool :=
  let '(sh, ty, id, idx) := r in negb (shardIndex sh ty id =? idx).

(* one channel -> one shard, inside the shard range *)
Definition shard_pair_ok (a b : shard_row) : bool :=
  let '(sh, ty, id, idx) := a in
  let '(sh', ty', id', idx') := b in
  if (sh =? sh') && (ty =? ty') && bytes_eqb id id' then idx =? idx' else true.

Fixpoint shard_rows_ok (l : list shard_row) : bool :=
  match l with
  | [] => true
  | a :: r => (let '(sh, _, _, idx) := a in idx <? sh) && forallb (shard_pair_ok a) r && shard_rows_ok r
  end.

(* ==================================================================== push *)
(* Runtime.PushOwner; ps_obs = the push (owner, routes) together with what came
   back: result, error (0 nil, 1 ErrOwnerPushNotLocal, 3 ErrRuntimeClosed), the
   WriteSession calls, the ObserveOwnerPush record *)
Record pushstep := PushStep {
  ps_closed : bool; ps_ev : event; ps_cx0 : bool; ps_orc : list lout; ps_obs : attempt }.

Definition push_model (c : cfg) (st : pushstep) : attempt :=
  let o := ps_obs st in
  if ps_closed st then Att (a_owner o) true (a_routes o) [] [] [] [] 3 []
  else fst (local_attempt c (ps_ev st) (a_owner o) (a_routes o) (ps_orc st) (ps_cx0 st)).

Definition push_eqb (m o : attempt) : bool :=
  (a_owner m =? a_owner o) && routes_eqb (a_routes m) (a_routes o)
  && list_eqb write_eqb (a_writes m) (a_writes o)
  && routes_eqb (a_acc m) (a_acc o) && routes_eqb (a_retry m) (a_retry o) && routes_eqb (a_drop m) (a_drop o)
  && (a_err m =? a_err o) && nlist_eqb (a_obs m) (a_obs o).

(* Accepted, Retryable, Dropped partition the pushed routes; only pushed routes
   are written; the accepted routes are exactly the writes the session accepted *)
Definition push_monitor (o : attempt) : bool :=
  if a_err o =? 0 then
    same_routes (a_acc o ++ a_retry o ++ a_drop o) (a_routes o)
    && sub_routes (map w_route (a_writes o)) (a_routes o)
    && routes_eqb (a_acc o) (map w_route (filter (fun w => disp_class (w_disp w) =? 1) (a_writes o)))
  else is_nil (a_acc o) && is_nil (a_retry o) && is_nil (a_drop o) && is_nil (a_writes o).

(* ==================================================================== plan *)

Record planstep := PlanStep {
  pl_plan : plan; pl_ans : list answer; pl_panic : bool; pl_cx0 : bool; pl_obs : pres }.

(* the oracle of the model = the outcomes the ports produced *)
Definition att_out (a : attempt) : oout :=
  if a_local a then OLocal (map (fun w => LWrite (w_disp w) (w_cancel w)) (a_writes a))
  else ORemote (a_acc a) (a_retry a) (a_drop a) (a_err a).

Definition by_owner (o : N) (l : list attempt) : list attempt :=
  filter (fun a => a_owner a =? o) l.

Definition orc_of (atts : list attempt) (o : N) : list oout := map att_out (by_owner o atts).

Definition att_eqb (c : cfg) (m o : attempt) : bool :=
  (a_owner m =? a_owner o) && Bool.eqb (a_local m) (a_local o) && nlist_eqb (a_obs m) (a_obs o)
  && (if a_local m then list_eqb write_eqb (a_writes m) (a_writes o)
      else if c_has_remote c then
        routes_eqb (a_routes m) (a_routes o) && (a_err m =? a_err o)
        && ((a_err m =? 2)
            || (routes_eqb (a_acc m) (a_acc o) && routes_eqb (a_retry m) (a_retry o)
                && routes_eqb (a_drop m) (a_drop o)))
      else true).

Definition atts_eqb (c : cfg) (sequential : bool) (m o : list attempt) : bool :=
  if sequential then list_eqb (att_eqb c) m o
  else forallb (fun ow => list_eqb (att_eqb c) (by_owner ow m) (by_owner ow o))
               (map a_owner (m ++ o)).

Definition offs_eqb : list (list bytes) -> list (list bytes) -> bool := list_eqb (list_eqb bytes_eqb).

Definition plan_model (c : cfg) (p : plan) (ans : list answer) (panic cx0 : bool) (obs : pres) : pres :=
  fst (processPlan c p ans panic (orc_of (po_atts obs)) cx0).

Definition plan_mismatch (c : cfg) (st : planstep) : bool :=
  let m := plan_model c (pl_plan st) (pl_ans st) (pl_panic st) (pl_cx0 st) (pl_obs st) in
  let o := pl_obs st in
  negb ((po_presence m =? po_presence o) && offs_eqb (po_offline m) (po_offline o)
        && (po_class m =? po_class o) && atts_eqb c true (po_atts m) (po_atts o)).

(* ---- the property on one plan's port calls ---- *)

(* targets whose presence result arrived without error, with their routes *)
Fixpoint resolved_pairs (ts : list target) (ans : list answer) : list (target * list route) :=
  match ts, ans with
  | t :: ts', AOk rs :: ans' => (t, rs) :: resolved_pairs ts' ans'
  | _ :: ts', AErr :: ans' => resolved_pairs ts' ans'
  | _, _ => []
  end.

Definition effective_pairs (c : cfg) (p : plan) (ans : list answer) (panic cx0 : bool)
  : list (target * list route) :=
  if cx0 || negb (c_has_presence c) || panic then [] else resolved_pairs (p_targets p) ans.

Definition expected_routes (ev : event) (pairs : list (target * list route)) : list route :=
  filter (keep_route ev) (concat (map snd pairs)).

Definition offline_spec (pairs : list (target * list route)) (u : bytes) : bool :=
  existsb (fun tr => mem_bytes u (t_recips (fst tr)) && negb (has_route_for u (snd tr))) pairs.

Definition all_recips (pairs : list (target * list route)) : list bytes :=
  concat (map (fun tr => t_recips (fst tr)) pairs).

(* at most one offline report per plan; it lists, without repetition, exactly
   the recipients of a resolved target that have no route in that target's answer *)
Definition offline_ok (track : bool) (pairs : list (target * list route)) (offs : list (list bytes)) : bool :=
  match offs with
  | [] => negb track || negb (existsb (offline_spec pairs) (all_recips pairs))
  | [l] => track && negb (is_nil l) && nodup_bytes l && forallb (offline_spec pairs) l
           && forallb (fun u => negb (offline_spec pairs u) || mem_bytes u l) (all_recips pairs)
  | _ => false
  end.

(* the routes an attempt acted on, as far as the ports show them *)
Definition att_routes (a : attempt) : list route :=
  if a_local a then map w_route (a_writes a) else a_routes a.

(* the routes the next attempt has to push *)
Definition att_retryset (a : attempt) : list route :=
  if a_local a then map w_route (filter (fun w => disp_class (w_disp w) =? 2) (a_writes a))
  else if a_err a =? 0 then a_retry a else a_routes a.

(* the owner push was reported with routes left to retry (ObserveOwnerPush.Retryable > 0;
   on an error every pushed route counts as retryable) *)
Definition att_more (a : attempt) : bool := 0 <? nth 3 (a_obs a) 0.

Definition att_cancel (a : attempt) : bool := existsb w_cancel (a_writes a).

Definition retry_rel (p a : attempt) : bool :=
  if a_local a then
    if att_cancel a then prefix_routes (att_routes a) (att_retryset p)
    else routes_eqb (att_routes a) (att_retryset p)
  else routes_eqb (a_routes a) (att_retryset p).

(* one owner's attempts in order: a retry pushes exactly the previous retry
   set; returns the attempts that open a batch *)
Fixpoint walk (maxa k : nat) (prev : option attempt) (l : list attempt) : bool * list attempt :=
  match l with
  | [] => (true, [])
  | a :: l' =>
      match prev with
      | Some p =>
          if att_more p && (k <? maxa)%nat then
            let '(ok, f) := walk maxa (S k) (Some a) l' in (retry_rel p a && ok, f)
          else let '(ok, f) := walk maxa 1 (Some a) l' in (ok, a :: f)
      | None => let '(ok, f) := walk maxa 1 (Some a) l' in (ok, a :: f)
      end
  end.

Definition obs_routes (a : attempt) : N := nth 1 (a_obs a) 0.

Definition owner_ok (c : cfg) (ev : event) (expected : list route) (atts : list attempt)
           (cancelled : bool) (o : N) : bool :=
  let '(ok, firsts) := walk (c_retry c) 0 None (by_owner o atts) in
  let exp_o := filter (fun r => r_owner r =? o) expected in
  ok
  && (cancelled
      || ((fold_left N.add (map obs_routes firsts) 0 =? nlen exp_o)
          && (if o =? c_local c then
                negb (c_has_writer c)
                || same_routes (concat (map att_routes firsts)) (filter (route_valid (e_msgid ev) o) exp_o)
              else negb (c_has_remote c)
                   || same_routes (concat (map att_routes firsts)) exp_o))).

(* a push or write only ever goes to a route of this plan's presence answer, owned by that owner *)
Definition exact_ok (expected : list route) (atts : list attempt) : bool :=
  forallb (fun a => forallb (fun r => mem_route r expected && (r_owner r =? a_owner a)) (att_routes a)) atts.

Fixpoint nodup_N (l : list N) : list N :=
  match l with
  | [] => []
  | x :: r => if existsb (N.eqb x) r then nodup_N r else x :: nodup_N r
  end.

Definition plan_monitor (c : cfg) (p : plan) (ans : list answer) (panic cx0 : bool) (obs : pres) : bool :=
  let pairs := effective_pairs c p ans panic cx0 in
  let expected := expected_routes (p_event p) pairs in
  let atts := po_atts obs in
  let cancelled := existsb att_cancel atts in
  (po_presence obs <=? 1)
  && offline_ok (track_offline c p) pairs (po_offline obs)
  && exact_ok expected atts
  && forallb (owner_ok c (p_event p) expected atts cancelled)
             (nodup_N (map a_owner atts ++ map r_owner expected)).

(* ====================================================================== rt *)
(* one plan of a concurrent run: Enqueue call/return tickets and result
   (0 nil, 1 closed, 2 invalid, 3 too large, 4 context), the shard the runtime's
   queue assigns, first/last ticket of its port calls, return ticket of the
   Stop/Quiesce that ended its generation, terminal observations, port calls *)
Record rtplan := RtPlan {
  rt_plan : plan; rt_ans : list answer; rt_panic : bool; rt_enqcx : bool;
  rt_enq : N * N * N; rt_shard : N; rt_first : N; rt_last : N; rt_stop : N;
  rt_terminal : list N; rt_obs : pres }.

Definition enq_start (r : rtplan) : N := fst (fst (rt_enq r)).
Definition enq_end (r : rtplan) : N := snd (fst (rt_enq r)).
Definition enq_result (r : rtplan) : N := snd (rt_enq r).
Definition rt_accepted (r : rtplan) : bool := enq_result r =? 0.
Definition rt_has_events (r : rtplan) : bool := negb (rt_first r =? 0).

(* the ticket data of one plan the ordering clause looks at *)
Record ptimes := PT {
  pt_acc : bool; pt_has : bool; pt_ct : N; pt_ch : bytes;
  pt_es : N; pt_ee : N; pt_first : N; pt_last : N }.

Definition rt_times (r : rtplan) : ptimes :=
  PT (rt_accepted r) (rt_has_events r) (e_chtype (p_event (rt_plan r))) (e_chid (p_event (rt_plan r)))
     (enq_start r) (enq_end r) (rt_first r) (rt_last r).

(* plans of one channel enqueued one after the other are processed one after
   the other: every port call of the first precedes every port call of the second *)
Definition times_pair_ok (a b : ptimes) : bool :=
  if pt_acc a && pt_acc b && pt_has a && pt_has b
     && (pt_ct a =? pt_ct b) && bytes_eqb (pt_ch a) (pt_ch b) && (pt_ee a <? pt_es b)
  then pt_last a <? pt_first b else true.

(* mechanism (not part of the monitor): two plans of one shard never overlap *)
Definition shard_pair_disjoint (a b : rtplan) : bool :=
  if rt_accepted a && rt_accepted b && rt_has_events a && rt_has_events b && (rt_shard a =? rt_shard b)
  then (rt_last a <? rt_first b) || (rt_last b <? rt_first a) else true.

Fixpoint all_pairs {A} (f : A -> A -> bool) (l : list A) : bool :=
  match l with
  | [] => true
  | a :: r => forallb (fun b => f a b && f b a) r && all_pairs f r
  end.

Definition no_events (o : pres) : bool :=
  (po_presence o =? 0) && is_nil (po_offline o) && is_nil (po_atts o).

Definition rt_plan_monitor (c : cfg) (r : rtplan) : bool :=
  if rt_accepted r then
    (negb (rt_has_events r) || ((enq_start r <? rt_first r) && (rt_last r <? rt_stop r)))
    && (negb (c_has_presence c) || (po_presence (rt_obs r) =? 1))
    && (negb (c_has_presence c) || (length (rt_terminal r) =? 1)%nat)
    && plan_monitor c (rt_plan r) (rt_ans r) (rt_panic r) false (rt_obs r)
  else no_events (rt_obs r) && is_nil (rt_terminal r).

Definition rt_monitor (c : cfg) (plans : list rtplan) : bool :=
  forallb (rt_plan_monitor c) plans && all_pairs times_pair_ok (map rt_times plans).

(* terminal label of an error class: 1,2,3 -> "error" *)
Definition label_of_class (cl : N) : N := if (1 <=? cl) && (cl <=? 3) then 1 else cl.

Definition rt_plan_mismatch (c : cfg) (workers : Z) (r : rtplan) : bool :=
  let v := validatePlan c (rt_plan r) in
  let res := enq_result r in
  let w := bounded_pos workers c31_default_workers in
  negb (
    (if negb (v =? 0) then res =? v
     else if rt_enqcx r then res =? 4 else (res =? 0) || (res =? 1))
    && (rt_shard r =? N.of_nat (plan_shard w (rt_plan r)))
    && (if rt_accepted r then
          let m := plan_model c (rt_plan r) (rt_ans r) (rt_panic r) false (rt_obs r) in
          let o := rt_obs r in
          (po_presence m =? po_presence o) && offs_eqb (po_offline m) (po_offline o)
          && atts_eqb c ((c_oc c <=? 1)%nat) (po_atts m) (po_atts o)
          && (negb (c_has_presence c) || nlist_eqb (rt_terminal r) [label_of_class (po_class m)])
        else true)).

Definition rt_mismatch (c : cfg) (workers : Z) (unattributed : N) (plans : list rtplan) : bool :=
  negb (unattributed =? 0) || existsb (rt_plan_mismatch c workers) plans
  || negb (all_pairs shard_pair_disjoint plans).

(* =================================================================== cases *)

Inductive c31_case :=
| CQueue (cap shards : Z) (steps : list qstep)
| CShard (rows : list shard_row)
| CPush (c : cfg) (steps : list pushstep)
| CPlan (c : cfg) (steps : list planstep)
| CRt (c : cfg) (workers : Z) (unattributed : N) (plans : list rtplan).

Definition C31_mismatch (x : c31_case) : bool :=
  match x with
  | CQueue cap shards steps => queue_mismatch cap shards steps
  | CShard rows => existsb shard_row_mismatch rows
  | CPush c steps => existsb (fun st => negb (push_eqb (push_model c st) (ps_obs st))) steps
  | CPlan c steps => existsb (plan_mismatch c) steps
  | CRt c workers un plans => rt_mismatch c workers un plans
  end.

Definition C31_ok (x : c31_case) : bool :=
  match x with
  | CQueue cap shards steps => queue_monitor cap shards steps
  | CShard rows => shard_rows_ok rows
  | CPush c steps => forallb (fun st => push_monitor (ps_obs st)) steps
  | CPlan c steps =>
      forallb (fun st => plan_monitor c (pl_plan st) (pl_ans st) (pl_panic st) (pl_cx0 st) (pl_obs st)) steps
  | CRt c workers un plans => rt_monitor c plans
  end.

Definition C31_monitor (x : c31_case) : N := if C31_ok x then 0 else 1.

(* diagnostics for development: which steps disagree / fail *)
Definition C31_why (x : c31_case) : list nat * list nat :=
  match x with
  | CPush c steps =>
      (idx_filter (fun st => negb (push_eqb (push_model c st) (ps_obs st))) steps,
       idx_filter (fun st => negb (push_monitor (ps_obs st))) steps)
  | CPlan c steps =>
      (idx_filter (plan_mismatch c) steps,
       idx_filter (fun st => negb (plan_monitor c (pl_plan st) (pl_ans st) (pl_panic st) (pl_cx0 st) (pl_obs st))) steps)
  | CRt c workers un plans =>
      (idx_filter (rt_plan_mismatch c workers) plans, idx_filter (fun r => negb (rt_plan_monitor c r)) plans)
  | _ => ([], [])
  end.
