(* Model/RaftDriver.v — C12: the multiraft DRIVER around go.etcd.io/raft
   (pkg/slot/multiraft: ready.go, slot.go, apply_pipeline.go, compaction.go,
   future.go).  Executable definitions only.

   The Raft library itself is NOT modelled: the content of every Ready
   (entries, hard state, snapshot, committed entries, messages) is an input of
   the step function; what the library guarantees about those contents enters
   the theorems as hypotheses (Proof/RaftDriver*.v, SMS of DESIGN §7 C12).

   Go function                         Gallina
   ---------------------------------   ------------------------------------
   storageAdapter.persistReadyDurable  persistReadyDurable   (OSave)
   slot.trackReadyEntries              trackReadyEntries
   readyRequiresSynchronousApply       readyRequiresSynchronousApply
   slot.applyCommittedEntries          applyCommittedEntries (the SM calls)
   slot.markApplied                    markApplied
   slot.processReady                   processReady          (list of micro-ops)
   slot.processReadySynchronously      processReadySynchronously
   slot.processReadyAsyncNormal        processReadyAsyncNormal
   slot.runApplyTask                   runApplyTask
   slot.resolveProposal                resolveProposal
   slot.failLeadershipDependentLocked  failLeadershipDependent
   newSlot (applied index, Restore)    newSlot
   slot.compactLogAt                   compactLogAt
   Runtime.Close / process kill        crash

   A step of the model is a list of micro-operations executed in the code's
   order; a crash may cut the list after any prefix ([exec_cut]). *)
From WK Require Import Base.Base.
From WK Require Import Gen.Consts_C12.
Open Scope N_scope.

(* ---- entries, hard state, messages -------------------------------------------- *)

Inductive ekind := KNormal | KEmpty | KConf.
(* KNormal: EntryNormal with a payload (a proposal); KEmpty: EntryNormal without
   data (the leader's no-op); KConf: EntryConfChange / EntryConfChangeV2 *)

Record entry := Entry { e_idx : N; e_term : N; e_kind : ekind; e_cmd : N }.

Definition kind_of_N (k : N) : ekind :=
  match k with 0 => KNormal | 1 => KEmpty | _ => KConf end.
Definition mkE (i t k c : N) : entry := Entry i t (kind_of_N k) c.

Definition ekind_eqb (a b : ekind) : bool :=
  match a, b with
  | KNormal, KNormal | KEmpty, KEmpty | KConf, KConf => true
  | _, _ => false
  end.
Definition entry_eqb (a b : entry) : bool :=
  (e_idx a =? e_idx b) && (e_term a =? e_term b) && ekind_eqb (e_kind a) (e_kind b) && (e_cmd a =? e_cmd b).

Definition is_normal (e : entry) : bool := match e_kind e with KNormal => true | _ => false end.
Definition is_conf (e : entry) : bool := match e_kind e with KConf => true | _ => false end.

Record hardstate := mkHS { hs_term : N; hs_vote : N; hs_commit : N }.

Record msg := mkM { m_type : N; m_to : N; m_term : N; m_logterm : N; m_index : N; m_commit : N;
                    m_reject : bool; m_nents : N; m_snap : N; m_cmds : list N }.

(* ---- the trace alphabet: what the harness observes, what the model emits -------- *)

Inductive event :=
| EvBoot (first : bool) (hsterm hsvote hscommit st_applied snap_idx sm_idx : N)
    (* the node opens its storage: InitialState, Snapshot index, the state machine's own index *)
| EvBooted (applied : N)                       (* Status().AppliedIndex right after OpenSlot *)
| EvSave (hs : option hardstate) (ents : list entry) (snap : option (N * N))   (* Storage.Save returned nil *)
| EvMark (i : N)                               (* Storage.MarkApplied returned nil *)
| EvSend (ms : list msg)                       (* Transport.Send *)
| EvRestore (i : N)                            (* StateMachine.Restore *)
| EvApply (batch : bool) (ents : list entry)   (* StateMachine.Apply (false) / ApplyBatch (true) *)
| EvDown (hard : bool).

Inductive fut_res := FutOk (idx term : N) (data : option N) | FutErr | FutPending.

(* ---- the durable log as the driver writes it ------------------------------------- *)

(* Storage.Save(entries): everything from the first new index on is replaced *)
Definition log_put (log ents : list entry) : list entry :=
  match ents with
  | [] => log
  | e :: _ => filter (fun x => e_idx x <? e_idx e) log ++ ents
  end.

Definition log_range (log : list entry) (lo hi : N) : list entry :=
  filter (fun x => (lo <? e_idx x) && (e_idx x <=? hi)) log.

Fixpoint log_get (log : list entry) (i : N) : option entry :=
  match log with
  | [] => None
  | e :: r => if e_idx e =? i then Some e else log_get r i
  end.

Definition log_last (log : list entry) : N := last (map e_idx log) 0.

(* ---- slot.applyCommittedEntries: which state-machine calls are made ---------------- *)

Definition flushBatch (acc : list entry) : list (list entry) :=
  match acc with [] => [] | _ => [acc] end.

(* contiguous normal entries are collected; an empty entry is skipped WITHOUT
   flushing; a conf change flushes; the rest is flushed at the end *)
Fixpoint applyCommittedEntries_from (ents acc : list entry) : list (list entry) :=
  match ents with
  | [] => flushBatch acc
  | e :: r =>
      match e_kind e with
      | KNormal => applyCommittedEntries_from r (acc ++ [e])
      | KEmpty => applyCommittedEntries_from r acc
      | KConf => flushBatch acc ++ applyCommittedEntries_from r []
      end
  end.
Definition applyCommittedEntries (ents : list entry) : list (list entry) :=
  applyCommittedEntries_from ents [].

(* *lastApplied after the loop *)
Definition lastApplied (ents : list entry) (before : N) : N := last (map e_idx ents) before.

Definition readyRequiresSynchronousApply (snap : bool) (committed : list entry) : bool :=
  snap || existsb is_conf committed.

(* slot.markApplied *)
Inductive mark_res := MarkStore | MarkSkip | MarkErr.
Definition markApplied (durable_sm : bool) (sm_index index : N) : mark_res :=
  if durable_sm then
    if index <? sm_index then MarkErr
    else if sm_index =? index then MarkSkip else MarkStore
  else MarkStore.

(* newSlot: the applied index the slot (and the library) start from *)
Definition newSlot_applied (durable_sm : bool) (snap_idx st_applied sm_index : N) : N :=
  if negb (snap_idx =? 0) then snap_idx
  else if durable_sm then N.max st_applied sm_index else st_applied.

(* ---- the model state ------------------------------------------------------------------- *)

Record task := mkTask { t_ents : list entry; t_before : N }.

Record node := mkSt {
  durable_sm : bool;            (* the state machine implements DurableAppliedStateMachine *)
  (* durable *)
  d_log : list entry;           (* Storage: stable entries *)
  d_hs : hardstate;
  d_snap : N;                   (* Storage: snapshot index, 0 = none *)
  d_snapc : list entry;         (* ... the state-machine content it carries *)
  d_applied : N;                (* Storage.MarkApplied *)
  sm_idx : N;                   (* state machine: index of the last applied command / restored snapshot *)
  sm_hist : list entry;         (* state machine: the commands it holds, in application order *)
  (* volatile *)
  v_up : bool;
  v_failed : bool;              (* slot.fatalErr *)
  v_applying : N;               (* the library's cursor: raftLog.applying *)
  v_applied : N;                (* slot.durableAppliedIndex *)
  v_queue : list task;          (* apply pipeline, oldest first *)
  v_submitted : list N;         (* slot.submittedProposals (a future is named by its command) *)
  v_pending : list (N * (N * N)); (* slot.pendingProposals: index -> (term, command) *)
  v_leader : bool;              (* status.Role = leader *)
  g_pos : N;                    (* ghost: committed entries up to here have gone through the state machine *)
  (* output *)
  n_tr : list event;
  n_futs : list (N * fut_res)
}.

Definition init_node (durable : bool) : node :=
  mkSt durable [] (mkHS 0 0 0) 0 [] 0 0 [] false false 0 0 [] [] [] false 0 [] [].

Definition emit (ev : event) (s : node) : node :=
  mkSt (durable_sm s) (d_log s) (d_hs s) (d_snap s) (d_snapc s) (d_applied s) (sm_idx s) (sm_hist s)
       (v_up s) (v_failed s) (v_applying s) (v_applied s) (v_queue s) (v_submitted s) (v_pending s) (v_leader s) (g_pos s)
       (n_tr s ++ [ev]) (n_futs s).

Definition set_durable_log (log : list entry) (hs : hardstate) (snap : N) (snapc : list entry) (s : node) : node :=
  mkSt (durable_sm s) log hs snap snapc (d_applied s) (sm_idx s) (sm_hist s)
       (v_up s) (v_failed s) (v_applying s) (v_applied s) (v_queue s) (v_submitted s) (v_pending s) (v_leader s) (g_pos s)
       (n_tr s) (n_futs s).

Definition set_d_applied (i : N) (s : node) : node :=
  mkSt (durable_sm s) (d_log s) (d_hs s) (d_snap s) (d_snapc s) i (sm_idx s) (sm_hist s)
       (v_up s) (v_failed s) (v_applying s) (v_applied s) (v_queue s) (v_submitted s) (v_pending s) (v_leader s) (g_pos s)
       (n_tr s) (n_futs s).

Definition set_sm (i : N) (h : list entry) (pos : N) (s : node) : node :=
  mkSt (durable_sm s) (d_log s) (d_hs s) (d_snap s) (d_snapc s) (d_applied s) i h
       (v_up s) (v_failed s) (v_applying s) (v_applied s) (v_queue s) (v_submitted s) (v_pending s) (v_leader s) pos
       (n_tr s) (n_futs s).

Definition set_pos (pos : N) (s : node) : node := set_sm (sm_idx s) (sm_hist s) pos s.

Definition set_volatile (up failed : bool) (applying applied : N) (q : list task) (s : node) : node :=
  mkSt (durable_sm s) (d_log s) (d_hs s) (d_snap s) (d_snapc s) (d_applied s) (sm_idx s) (sm_hist s)
       up failed applying applied q (v_submitted s) (v_pending s) (v_leader s) (g_pos s)
       (n_tr s) (n_futs s).

Definition set_futures (sub : list N) (pend : list (N * (N * N))) (leader : bool) (out : list (N * fut_res)) (s : node) : node :=
  mkSt (durable_sm s) (d_log s) (d_hs s) (d_snap s) (d_snapc s) (d_applied s) (sm_idx s) (sm_hist s)
       (v_up s) (v_failed s) (v_applying s) (v_applied s) (v_queue s) sub pend leader (g_pos s)
       (n_tr s) out.

(* ---- futures ------------------------------------------------------------------------------ *)

Fixpoint pend_get (p : list (N * (N * N))) (i : N) : option (N * N) :=
  match p with
  | [] => None
  | (j, v) :: r => if j =? i then Some v else pend_get r i
  end.
Definition pend_del (p : list (N * (N * N))) (i : N) : list (N * (N * N)) :=
  filter (fun x => negb (fst x =? i)) p.
Definition pend_set (p : list (N * (N * N))) (i : N) (v : N * N) : list (N * (N * N)) :=
  (i, v) :: pend_del p i.

(* slot.trackReadyEntries: every entry with a payload takes the OLDEST submitted
   future, whoever proposed that entry *)
Fixpoint trackReadyEntries (ents : list entry) (sub : list N) (pend : list (N * (N * N)))
  : list N * list (N * (N * N)) :=
  match ents with
  | [] => (sub, pend)
  | e :: r =>
      match e_kind e, sub with
      | KNormal, f :: sub' => trackReadyEntries r sub' (pend_set pend (e_idx e) (e_term e, f))
      | _, _ => trackReadyEntries r sub pend
      end
  end.

(* slot.resolveProposal for one applied entry: Result{Index, Term, Data} where
   Data is what the state machine returned for THAT entry (here: its command) *)
Definition resolveProposal (e : entry) (s : node) : node :=
  match pend_get (v_pending s) (e_idx e) with
  | Some (t, f) =>
      if t =? e_term e
      then set_futures (v_submitted s) (pend_del (v_pending s) (e_idx e)) (v_leader s)
                       (n_futs s ++ [(f, FutOk (e_idx e) (e_term e) (Some (e_cmd e)))]) s
      else s
  | None => s
  end.

Definition completeResolutions (ents : list entry) (s : node) : node :=
  fold_left (fun st e => resolveProposal e st) ents s.

(* slot.failLeadershipDependentLocked / failPendingLocked *)
Definition failLeadershipDependent (s : node) : node :=
  set_futures [] [] (v_leader s)
              (n_futs s ++ map (fun f => (f, FutErr)) (v_submitted s)
                        ++ map (fun p => (snd (snd p), FutErr)) (v_pending s)) s.

(* applyBasicStatusLocked: leader -> not leader fails what depends on leadership *)
Definition refreshStatus (leader : bool) (s : node) : node :=
  let s1 := if v_leader s && negb leader then failLeadershipDependent s else s in
  set_futures (v_submitted s1) (v_pending s1) leader (n_futs s1) s1.

(* ---- micro-operations ---------------------------------------------------------------------- *)

Inductive mop :=
| OSave (hs : option hardstate) (ents : list entry) (snap : option (N * N * list entry))
| OTrack (ents : list entry)
| OSend (ms : list msg)
| ORestore (i : N) (c : list entry)
| OCall (ents : list entry)
| OMarkApplied (index : N)           (* markApplied + persistConfigAppliedIndex + setDurableAppliedIndex *)
| OResolve (ents : list entry)
| OEnqueue (t : task)
| ODequeue
| OAccept (upto : N)                 (* rawNode.Ready/Advance: the library's cursor *)
| ORefresh (leader : bool)
| OCompactMark (i : N)
| OCompactSave (i : N).

Definition snap_meta (sn : option (N * N * list entry)) : option (N * N) :=
  match sn with Some (i, t, _) => Some (i, t) | None => None end.

Definition exec (o : mop) (s : node) : node :=
  if v_failed s || negb (v_up s) then s else
  match o with
  | OSave hs ents snap =>
      (* persistReadyDurable: nothing to save, no call *)
      match hs, ents, snap with
      | None, [], None => s
      | _, _, _ =>
          let log' := log_put (d_log s) ents in
          let hs' := match hs with Some h => h | None => d_hs s end in
          let '(sn, snc) := match snap with Some (i, _, c) => (i, c) | None => (d_snap s, d_snapc s) end in
          emit (EvSave hs ents (snap_meta snap)) (set_durable_log log' hs' sn snc s)
      end
  | OTrack ents =>
      let '(sub, pend) := trackReadyEntries ents (v_submitted s) (v_pending s) in
      set_futures sub pend (v_leader s) (n_futs s) s
  | OSend ms => match ms with [] => s | _ => emit (EvSend ms) s end
  | ORestore i c => emit (EvRestore i) (set_sm i c i s)
  | OCall ents =>
      emit (EvApply (1 <? N.of_nat (length ents)) ents)
           (set_sm (lastApplied ents (sm_idx s)) (sm_hist s ++ ents) (N.max (g_pos s) (lastApplied ents (sm_idx s))) s)
  | OMarkApplied index =>
      if index <=? v_applied s then s else
      match markApplied (durable_sm s) (sm_idx s) index with
      | MarkErr => set_volatile (v_up s) true (v_applying s) (v_applied s) (v_queue s) s
      | MarkSkip => set_pos (N.max (g_pos s) index)
                      (set_volatile (v_up s) (v_failed s) (v_applying s) index (v_queue s) s)
      | MarkStore => set_pos (N.max (g_pos s) index)
                      (set_volatile (v_up s) (v_failed s) (v_applying s) index (v_queue s)
                         (emit (EvMark index) (set_d_applied index s)))
      end
  | OResolve ents => completeResolutions ents s
  | OEnqueue t => set_volatile (v_up s) (v_failed s) (v_applying s) (v_applied s) (v_queue s ++ [t]) s
  | ODequeue => set_volatile (v_up s) (v_failed s) (v_applying s) (v_applied s) (tl (v_queue s)) s
  | OAccept upto => set_volatile (v_up s) (v_failed s) (N.max (v_applying s) upto) (v_applied s) (v_queue s) s
  | ORefresh leader => refreshStatus leader s
  | OCompactMark i => if durable_sm s then emit (EvMark i) (set_d_applied i s) else s
  | OCompactSave i =>
      emit (EvSave None [] (Some (i, 0))) (set_durable_log (d_log s) (d_hs s) i (sm_hist s) s)
  end.

Definition exec_all (ops : list mop) (s : node) : node := fold_left (fun st o => exec o st) ops s.

(* ---- the apply phase: runApplyTask / the tail of processReadySynchronously ---------------------- *)

Definition apply_ops (ents : list entry) (before : N) : list mop :=
  map OCall (applyCommittedEntries ents)
  ++ [OMarkApplied (lastApplied ents before); OResolve (filter is_normal ents)].

Definition runApplyTask (t : task) : list mop :=
  apply_ops (t_ents t) (t_before t) ++ [ODequeue].

(* waitApplyIdle: the worker blocks until the pipeline has run every queued task *)
Definition drain (q : list task) : list mop := flat_map runApplyTask q.

(* ---- a Ready handed over by the library ----------------------------------------------------------- *)

Record ready := mkReady {
  rd_hs : option hardstate;
  rd_ents : list entry;
  rd_snap : option (N * N * list entry);   (* index, term, state-machine content *)
  rd_committed : list entry;
  rd_msgs : list msg;
  rd_leader : bool                         (* the role refreshStatus sees after Advance *)
}.

Definition persistReadyDurable (rd : ready) : list mop :=
  [OSave (rd_hs rd) (rd_ents rd) (rd_snap rd)].

(* the tail of processReadySynchronously, once the pipeline is idle *)
Definition syncTail (rd : ready) : list mop :=
  match rd_snap rd with
  | Some (i, _, c) => [ORestore i c; OMarkApplied i]
  | None => []
  end
  ++ map OCall (applyCommittedEntries (rd_committed rd))
  ++ [OMarkApplied (lastApplied (rd_committed rd) 0);
      OAccept (lastApplied (rd_committed rd) (match rd_snap rd with Some (i, _, _) => i | None => 0 end));
      ORefresh (rd_leader rd);
      OResolve (filter is_normal (rd_committed rd))].

Definition processReadySynchronously (s : node) (rd : ready) : list mop :=
  drain (v_queue s) ++ syncTail rd.

Definition processReadyAsyncNormal (s : node) (rd : ready) (busy : bool) : list mop :=
  match rd_committed rd with
  | [] => [OAccept 0; ORefresh (rd_leader rd)]
  | _ => if busy then processReadySynchronously s rd
         else [OEnqueue (mkTask (rd_committed rd) (v_applied s));
               OAccept (lastApplied (rd_committed rd) 0); ORefresh (rd_leader rd)]
  end.

(* slot.processReady, in the code's order *)
Definition processReady (s : node) (rd : ready) (busy : bool) : list mop :=
  let sync := readyRequiresSynchronousApply (match rd_snap rd with Some _ => true | None => false end) (rd_committed rd) in
  persistReadyDurable rd
  ++ (if sync then drain (v_queue s) else [])      (* waitApplyIdle *)
  ++ [OTrack (rd_ents rd); OSend (rd_msgs rd)]
  ++ (if sync then syncTail rd                     (* processReadySynchronously finds the pipeline idle *)
      else processReadyAsyncNormal s rd busy).

(* slot.durableAppliedIndex once the queued tasks have run *)
Definition applied_after (q : list task) (applied : N) : N :=
  fold_left (fun a t => lastApplied (t_ents t) a) q applied.

(* slot.compactLogAt at the slot's applied index.
   wait = true : controlCompactLog and the refresh after a configuration change (the worker waits for
                 the pipeline, waitApplyIdle / the synchronous path);
   wait = false: the size trigger at the end of runApplyTask (later tasks may be queued).
   (compactLogManually skips the snapshot when the stored one already covers the applied index;
   the model may take it again: same index, same content.) *)
Definition compactLogAt (s : node) (wait : bool) : list mop :=
  (if wait then drain (v_queue s) else []) ++
  (let a := if wait then applied_after (v_queue s) (v_applied s) else v_applied s in
   if a =? 0 then [] else [OCompactMark a; OCompactSave a]).

(* Runtime.Close or a killed process: everything volatile is gone; futures that
   the slot still tracks fail (Close) or are never answered (kill): both are
   "not successful" *)
Definition crash (hard : bool) (s : node) : node :=
  if negb (v_up s) then s else
  let s1 := failLeadershipDependent s in
  emit (EvDown hard)
       (set_futures [] [] false (n_futs s1)
          (set_volatile false false 0 0 [] s1)).

(* newSlot over the durable state *)
Definition newSlot (first : bool) (s : node) : node :=
  if v_up s then s else
  let start := newSlot_applied (durable_sm s) (d_snap s) (d_applied s) (sm_idx s) in
  let s0 := emit (EvBoot first (hs_term (d_hs s)) (hs_vote (d_hs s)) (hs_commit (d_hs s)) (d_applied s) (d_snap s) (sm_idx s)) s in
  let s1 := set_pos start (set_volatile true false start start [] s0) in
  let s2 := if negb (d_snap s =? 0) then exec (ORestore (d_snap s) (d_snapc s)) s1 else s1 in
  emit (EvBooted start) s2.

(* ---- steps and schedules --------------------------------------------------------------------------- *)

Inductive step :=
| SReady (rd : ready) (busy : bool) (cut : option nat)
| SApplyTask (cut : option nat)
| SPropose (cmd : N) (accepted : bool)     (* processControls: rawNode.Propose returned nil / an error *)
| SCompact (wait : bool) (cut : option nat)
| SCrash (hard : bool)
| SRestart.

Definition exec_cut (ops : list mop) (cut : option nat) (s : node) : node :=
  match cut with
  | None => exec_all ops s
  | Some k => crash true (exec_all (firstn k ops) s)
  end.

Definition step_node (st : step) (s : node) : node :=
  match st with
  | SReady rd busy cut => if v_up s then exec_cut (processReady s rd busy) cut s else s
  | SApplyTask cut =>
      match v_queue s with
      | t :: _ => if v_up s then exec_cut (runApplyTask t) cut s else s
      | [] => s
      end
  | SPropose cmd accepted =>
      if v_up s && negb (v_failed s) then
        if accepted then set_futures (v_submitted s ++ [cmd]) (v_pending s) (v_leader s) (n_futs s) s
        else set_futures (v_submitted s) (v_pending s) (v_leader s) (n_futs s ++ [(cmd, FutErr)]) s
      else s
  | SCompact wait cut => if v_up s then exec_cut (compactLogAt s wait) cut s else s
  | SCrash hard => crash hard s
  | SRestart => newSlot false s
  end.

Definition run (durable : bool) (sched : list step) : node :=
  fold_left (fun s st => step_node st s) sched (newSlot true (init_node durable)).

(* ---- a cluster: several replicas, each stepping on its own ------------------------------------------------ *)

Fixpoint upd {A} (l : list A) (i : nat) (x : A) : list A :=
  match l, i with
  | [], _ => []
  | _ :: r, O => x :: r
  | y :: r, S k => y :: upd r k x
  end.

Definition cstep_apply (ns : list node) (cs : nat * step) : list node :=
  match nth_error ns (fst cs) with
  | Some n => upd ns (fst cs) (step_node (snd cs) n)
  | None => ns
  end.

Definition cluster_init (durable : bool) (k : nat) : list node := repeat (newSlot true (init_node durable)) k.

Definition crun (durable : bool) (k : nat) (sched : list (nat * step)) : list node :=
  fold_left cstep_apply sched (cluster_init durable k).

(* ==================================================================================================
   The case protocol
   ================================================================================================== *)

Record node_obs := mkNode { o_events : list event; o_smidx : N; o_hist : list (N * N) }.
(* o_hist: the state machine's final content, (index at which the command was applied, command) *)
Record fut_obs := mkFut { f_cmd : N; f_node : N; f_res : fut_res }.
Record c12_case := mkC12 { c_durable : bool; c_nodes : list node_obs; c_futs : list fut_obs }.

(* ---- correspondence: the driver model accepts the node's event list ------------------------------------- *)

Inductive item := IRestore (i : N) | ICall (batch : bool) (ents : list entry) | IMark (i : N).

Definition item_eqb (a b : item) : bool :=
  match a, b with
  | IRestore i, IRestore j => i =? j
  | ICall x e, ICall y f => Bool.eqb x y && list_eqb entry_eqb e f
  | IMark i, IMark j => i =? j
  | _, _ => false
  end.

Record acc := mkAcc {
  a_log : list entry; a_commit : N; a_snap : N; a_stapplied : N;
  a_sm : N;            (* state-machine index once every expected item has happened *)
  a_applying : N;      (* the library's cursor *)
  a_fresh : bool;      (* (a_applying, a_commit] may still arrive in a Ready that saves nothing *)
  a_expq : list item;  (* expected, not yet observed *)
  a_up : bool;
  a_bad : bool         (* the model cannot follow (missing entries, markApplied error) *)
}.

Definition calls_items (calls : list (list entry)) : list item :=
  map (fun c => ICall (1 <? N.of_nat (length c)) c) calls.

(* the expected state-machine traffic of one Ready whose committed entries are (lo, hi] *)
Definition gen_range (durable : bool) (a : acc) (hi : N) : acc :=
  let lo := a_applying a in
  if hi <=? lo then a else
  let ents := log_range (a_log a) lo hi in
  let complete := N.of_nat (length ents) =? hi - lo in
  let calls := applyCommittedEntries ents in
  let sm' := match rev calls with c :: _ => lastApplied c (a_sm a) | [] => a_sm a end in
  let mk := match markApplied durable sm' hi with
            | MarkStore => [IMark hi] | MarkSkip => [] | MarkErr => []
            end in
  let bad := negb complete || match markApplied durable sm' hi with MarkErr => true | _ => false end in
  mkAcc (a_log a) (a_commit a) (a_snap a) (a_stapplied a) sm' hi false
        (a_expq a ++ calls_items calls ++ mk) (a_up a) (a_bad a || bad).

Definition gen_snapshot (durable : bool) (a : acc) (s : N) : acc :=
  let mk := match markApplied durable s s with MarkStore => [IMark s] | _ => [] end in
  mkAcc (a_log a) (a_commit a) (a_snap a) (a_stapplied a) s s (s <? a_commit a)
        (a_expq a ++ [IRestore s] ++ mk) (a_up a) (a_bad a).

Definition acc_set_durable (log : list entry) (commit snap : N) (a : acc) : acc :=
  mkAcc log commit snap (a_stapplied a) (a_sm a) (a_applying a) (a_fresh a) (a_expq a) (a_up a) (a_bad a).

Definition pop_item (it : item) (a : acc) : option acc :=
  match a_expq a with
  | x :: r => if item_eqb x it
              then Some (mkAcc (a_log a) (a_commit a) (a_snap a) (a_stapplied a) (a_sm a) (a_applying a) (a_fresh a) r (a_up a) (a_bad a))
              else None
  | [] => None
  end.

(* an observed state-machine call with nothing expected: the Ready that saved
   nothing (first Ready after boot / after a snapshot) *)
Definition observe_item (durable : bool) (it : item) (a : acc) : option acc :=
  match a_expq a with
  | [] => if a_fresh a && (a_applying a <? a_commit a)
          then pop_item it (gen_range durable a (a_commit a))
          else None
  | _ => pop_item it a
  end.

Fixpoint accept (durable : bool) (evs : list event) (a : acc) : bool :=
  if a_bad a then false else
  match evs with
  | [] => true
  | ev :: rest =>
      match ev with
      | EvBoot first hst hsv hsc sta sni smi =>
          let start := newSlot_applied durable sni sta smi in
          let consistent := first || ((a_snap a =? sni) && (a_stapplied a =? sta) && (a_commit a <=? hsc)) in
          let a1 := mkAcc (a_log a) hsc sni sta (if negb (sni =? 0) then sni else smi) start true
                          (if negb (sni =? 0) then [IRestore sni] else []) true (negb consistent) in
          accept durable rest a1
      | EvBooted v => (v =? a_applying a) && accept durable rest a
      | EvDown _ =>
          accept durable rest (mkAcc (a_log a) (a_commit a) (a_snap a) (a_stapplied a) (a_sm a) (a_applying a) false [] false (a_bad a))
      | EvSend _ => accept durable rest a
      | EvSave hs ents snap =>
          match hs, ents, snap with
          | None, [], Some (s, _) =>      (* compactLogAt *)
              accept durable rest (acc_set_durable (a_log a) (N.max (a_commit a) 0) s a)
          | _, _, _ =>
              let log' := log_put (a_log a) ents in
              let commit' := match hs with Some h => hs_commit h | None => a_commit a end in
              match snap with
              | Some (s, _) =>
                  let old := a_commit a in
                  let a1 := acc_set_durable log' commit' s a in
                  if a_fresh a && (a_applying a <? old)
                  then (* the entries committed before the boot were handed over by an earlier Ready that
                          saved nothing (their task may still be in the pipeline), or never: the
                          snapshot supersedes them *)
                       let a0 := gen_range durable (acc_set_durable log' old (a_snap a) a) old in
                       accept durable rest (gen_snapshot durable (acc_set_durable (a_log a0) commit' s a0) s)
                       || accept durable rest (gen_snapshot durable a1 s)
                  else accept durable rest (gen_snapshot durable a1 s)
              | None =>
                  let old := a_commit a in
                  let a1 := acc_set_durable log' commit' (a_snap a) a in
                  if a_fresh a && (a_applying a <? old) && (old <? commit')
                  then accept durable rest (gen_range durable a1 commit')
                       || accept durable rest (gen_range durable (gen_range durable a1 old) commit')
                  else accept durable rest (gen_range durable a1 commit')
              end
          end
      | EvMark i =>
          match observe_item durable (IMark i) a with
          | Some a1 => accept durable rest (mkAcc (a_log a1) (a_commit a1) (a_snap a1) i (a_sm a1) (a_applying a1) (a_fresh a1) (a_expq a1) (a_up a1) (a_bad a1))
          | None =>
              (* compactLogAt, pipeline idle: the state machine's owner mirrors the applied index
                 into Storage before it saves the snapshot (a kill may fall between the two) *)
              let idle := match a_expq a with [] => true | _ => false end in
              let a' := mkAcc (a_log a) (a_commit a) (a_snap a) i (a_sm a) (a_applying a) (a_fresh a) (a_expq a) (a_up a) (a_bad a) in
              match rest with
              | EvSave None [] (Some (s, _)) :: _ =>
                  durable && idle && (s =? i) && (i =? a_applying a) && accept durable rest a'
              | EvDown _ :: _ => durable && idle && (i =? a_applying a) && accept durable rest a'
              | _ => false
              end
          end
      | EvRestore i =>
          match observe_item durable (IRestore i) a with
          | Some a1 => accept durable rest a1
          | None => false
          end
      | EvApply b ents =>
          match observe_item durable (ICall b ents) a with
          | Some a1 => accept durable rest a1
          | None => false
          end
      end
  end.

Definition acc0 : acc := mkAcc [] 0 0 0 0 0 false [] false false.

Definition node_mismatch (durable : bool) (n : node_obs) : bool :=
  negb (accept durable (o_events n) acc0).

Definition C12_mismatch (c : c12_case) : bool :=
  existsb (node_mismatch (c_durable c)) (c_nodes c).

(* ---- the property monitor (on the implementation's observations alone) ------------------------------------ *)

Definition applied_of_event (ev : event) : list entry :=
  match ev with EvApply _ ents => ents | _ => [] end.
Definition applied_of_node (n : node_obs) : list entry := flat_map applied_of_event (o_events n).
(* G: every (index, term, command) some replica handed to its state machine *)
Definition applied_all (c : c12_case) : list entry := flat_map applied_of_node (c_nodes c).

Fixpoint find_idx (G : list entry) (i : N) : option entry :=
  match G with
  | [] => None
  | g :: r => if e_idx g =? i then Some g else find_idx r i
  end.

(* M1: the same entry at the same index on every replica, in every incarnation *)
Definition same_entry (G : list entry) (e : entry) : bool :=
  match find_idx G (e_idx e) with
  | Some g => (e_term g =? e_term e) && (e_cmd g =? e_cmd e)
  | None => false
  end.
Definition check_same (G : list entry) : bool := forallb (same_entry G) G.

(* M2: per replica, against the state machine's own position: strictly
   increasing, nothing at or below the position (no re-apply), nothing that any
   replica applied in between is left out (no skip); Restore moves the position *)
Fixpoint increasing_from (cur : N) (ents : list entry) : bool :=
  match ents with
  | [] => true
  | e :: r => (cur <? e_idx e) && increasing_from (e_idx e) r
  end.
Definition has_idx (ents : list entry) (i : N) : bool := existsb (fun e => e_idx e =? i) ents.
Definition no_gap (G : list entry) (cur : N) (ents : list entry) : bool :=
  let hi := lastApplied ents cur in
  forallb (fun g => if (cur <? e_idx g) && (e_idx g <=? hi) then has_idx ents (e_idx g) else true) G.

Fixpoint check_order (G : list entry) (cur : N) (evs : list event) : bool :=
  match evs with
  | [] => true
  | EvRestore i :: r => check_order G i r
  | EvApply _ ents :: r =>
      negb (match ents with [] => true | _ => false end)
      && increasing_from cur ents && no_gap G cur ents
      && check_order G (lastApplied ents cur) r
  | _ :: r => check_order G cur r
  end.

(* M5: at the end the state machine holds exactly the commands G has up to its
   index, each once, in index order.  o_hist = (index, command) of what it holds. *)
Definition hist_has (h : list (N * N)) (i : N) : bool := existsb (fun p => fst p =? i) h.
Fixpoint increasing_N (cur : N) (l : list N) : bool :=
  match l with
  | [] => true
  | x :: r => (cur <? x) && increasing_N x r
  end.
Definition check_final (G : list entry) (n : node_obs) : bool :=
  increasing_N 0 (map fst (o_hist n))
  && forallb (fun p => (fst p <=? o_smidx n)
                       && match find_idx G (fst p) with Some g => e_cmd g =? snd p | None => false end) (o_hist n)
  && forallb (fun g => if e_idx g <=? o_smidx n then hist_has (o_hist n) (e_idx g) else true) G.

(* M3: a future that reported success for (index, term) belongs to the entry applied there *)
Definition fut_ok (G : list entry) (f : fut_obs) : bool :=
  match f_res f with
  | FutOk i t d =>
      match find_idx G i with
      | Some g => (e_term g =? t) && (e_cmd g =? f_cmd f)
                  && match d with Some x => x =? f_cmd f | None => false end
      | None => false
      end
  | _ => true
  end.

(* M4: persist before send / apply.  The durable state is what Save has returned so far. *)
Record dur := mkDur { u_log : list entry; u_hs : hardstate; u_snap : N }.

Definition dur_last (d : dur) : N := N.max (log_last (u_log d)) (u_snap d).

Definition msg_ok (d : dur) (m : msg) : bool :=
  let t := m_type m in
  if (t =? c12_MsgPreVote) || (t =? c12_MsgPreVoteResp) then true else
  (m_term m <=? hs_term (u_hs d))
  && (if (t =? c12_MsgAppResp) && negb (m_reject m) then m_index m <=? dur_last d else true)
  && (if (t =? c12_MsgVoteResp) && negb (m_reject m) && (m_term m =? hs_term (u_hs d))
      then hs_vote (u_hs d) =? m_to m else true)
  && (if t =? c12_MsgApp then (m_index m + m_nents m <=? dur_last d) && (m_commit m <=? hs_commit (u_hs d)) else true)
  && (if t =? c12_MsgHeartbeat then m_commit m <=? hs_commit (u_hs d) else true)
  && (if t =? c12_MsgSnap then m_snap m <=? u_snap d else true).

Definition applied_ok (d : dur) (e : entry) : bool :=
  (e_idx e <=? hs_commit (u_hs d))
  && match log_get (u_log d) (e_idx e) with
     | Some x => (e_term x =? e_term e) && (e_cmd x =? e_cmd e) && is_normal x
     | None => false
     end.

Definition dur_save (d : dur) (hs : option hardstate) (ents : list entry) (snap : option (N * N)) : dur :=
  mkDur (log_put (u_log d) ents)
        (match hs with Some h => h | None => u_hs d end)
        (match snap with Some (s, _) => s | None => u_snap d end).

Fixpoint check_persist (d : dur) (evs : list event) : bool :=
  match evs with
  | [] => true
  | EvSave hs ents snap :: r => check_persist (dur_save d hs ents snap) r
  | EvBoot _ t v c _ sn _ :: r =>
      (* the storage is reopened: what it reports is the durable hard state *)
      check_persist (mkDur (u_log d) (mkHS t v c) sn) r
  | EvSend ms :: r => forallb (msg_ok d) ms && check_persist d r
  | EvApply _ ents :: r => forallb (applied_ok d) ents && check_persist d r
  | _ :: r => check_persist d r
  end.

Definition dur0 : dur := mkDur [] (mkHS 0 0 0) 0.

(* the structural signature of the known defect C12-K1 "a proposal forwarded by a node that is no longer
   leader stays in submittedProposals and shifts the binding of futures to entries": BEFORE the proposing
   node persisted the entry whose (index, term) the future reports, that node had sent one of ITS OWN
   proposals away in a MsgProp *)
Definition sends_own_prop (own : list N) (ms : list msg) : bool :=
  existsb (fun m => (m_type m =? c12_MsgProp) && existsb (fun c => existsb (N.eqb c) own) (m_cmds m)) ms.

Fixpoint forwarded_before (own : list N) (i t : N) (seen : bool) (evs : list event) : bool :=
  match evs with
  | [] => false
  | EvSend ms :: r => forwarded_before own i t (seen || sends_own_prop own ms) r
  | EvSave _ ents _ :: r =>
      if existsb (fun e => (e_idx e =? i) && (e_term e =? t)) ents then seen
      else forwarded_before own i t seen r
  | _ :: r => forwarded_before own i t seen r
  end.

Definition fut_forwarded (c : c12_case) (f : fut_obs) : bool :=
  match f_res f, nth_error (c_nodes c) (N.to_nat (f_node f) - 1) with
  | FutOk i t _, Some n =>
      let own := map f_cmd (filter (fun g => f_node g =? f_node f) (c_futs c)) in
      forwarded_before own i t false (o_events n)
  | _, _ => false
  end.

Definition check_C12_nodes (c : c12_case) : bool :=
  let G := applied_all c in
  check_same G
  && forallb (fun n => check_order G 0 (o_events n)) (c_nodes c)
  && forallb (fun n => check_persist dur0 (o_events n)) (c_nodes c)
  && forallb (check_final G) (c_nodes c).

Definition C12_monitor (c : c12_case) : N :=
  let G := applied_all c in
  if negb (check_C12_nodes c) then 1
  else
    let bad := filter (fun f => negb (fut_ok G f)) (c_futs c) in
    match bad with
    | [] => 0
    | _ => if forallb (fut_forwarded c) bad then 2 else 1
    end.

(* ---- the case a cluster of the model produces (for c12_model_satisfies_monitor) ------------------------------ *)

Definition obs_of (n : node) : node_obs :=
  mkNode (n_tr n) (sm_idx n) (map (fun e => (e_idx e, e_cmd e)) (sm_hist n)).

Fixpoint futs_from (i : nat) (ns : list node) : list fut_obs :=
  match ns with
  | [] => []
  | n :: r => map (fun p => mkFut (fst p) (N.of_nat (S i)) (snd p)) (n_futs n) ++ futs_from (S i) r
  end.

Definition case_of (ns : list node) : c12_case := mkC12 true (map obs_of ns) (futs_from 0 ns).
