(* Model/C05Case.v — case-file interface of C05: the case type printed by
   harness/cmd/C05, the correspondence check [C05_mismatch] (the Identity model
   with H := the executable SHA-256, against what the Go code returned) and the
   property monitor [C05_monitor] (implementation observations only).
   Definitions only. *)
From WK Require Import Base.Base Base.Bytes.
From WK Require Import Gen.Consts_C05 Model.Identity Model.Identity_sha256.
Open Scope N_scope.

(* one (identity, record) pair handed to VerifyEntry / digestProposalEntry:
   what VerifyEntry said, the digest the code computed, the pre-image bytes the
   harness rebuilt from the same fields (printed for the first probe of a case
   only, to keep case files small) and whether Go's sha256 of those bytes equals
   that digest (every probe) *)
Record c05_probe := Probe {
  p_entry : entry; p_record : record;
  p_verify : bool; p_digest : bytes; p_pre : option bytes; p_pre_ok : bool }.

Record c05_case := C05Case {
  c_manifest : manifest; c_records : list record;
  (* SealProposalManifest(manifest, records) *)
  c_seal : option (manifest * list entry);
  (* pkg/channel's SealProposalManifest / DeriveProposalEntries wrappers and
     quorumlog.DeriveProposalEntries on the sealed manifest returned the same *)
  c_same : bool;
  (* sealed.StructurallyValid(), sealed.ValidFor(base, len(records)) (false when not sealed) *)
  c_struct_valid : bool; c_valid_for : bool;
  (* VerifyEntry(entries[i], records[i]) *)
  c_self : list bool;
  c_probes : list c05_probe }.

(* ---- correspondence ---------------------------------------------------------- *)

Definition seal_eqb (a b : option (manifest * list entry)) : bool :=
  match a, b with
  | None, None => true
  | Some (m, es), Some (m', es') => manifest_eqb m m' && list_eqb entry_eqb es es'
  | _, _ => false
  end.

Fixpoint self_verify (H : bytes -> bytes) (es : list entry) (rs : list record) : list bool :=
  match es, rs with
  | e :: es', r :: rs' => verify_entry H e r :: self_verify H es' rs'
  | _, _ => []
  end.

Definition probe_mismatch (p : c05_probe) : bool :=
  let pre := preimage (p_entry p) (p_record p) in
  let d := sha256 pre in
  negb (match p_pre p with Some b => bytes_eqb pre b | None => true end
        && p_pre_ok p && bytes_eqb d (p_digest p)
        (* verify_entry only applies H to this pre-image; reuse its digest *)
        && Bool.eqb (verify_entry (fun _ => d) (p_entry p) (p_record p)) (p_verify p)).

Definition C05_mismatch (c : c05_case) : bool :=
  let s := seal_proposal_manifest sha256 (c_manifest c) (c_records c) in
  negb (seal_eqb s (c_seal c) && c_same c
        && match s with
           | Some (m, es) =>
               Bool.eqb (structurally_valid m) (c_struct_valid c)
               && Bool.eqb (valid_for m (m_base (c_manifest c)) (Z.of_nat (length (c_records c))))
                           (c_valid_for c)
               && list_eqb Bool.eqb (self_verify sha256 es (c_records c)) (c_self c)
           | None => negb (c_struct_valid c) && negb (c_valid_for c)
                     && match c_self c with [] => true | _ => false end
           end)
  || existsb probe_mismatch (c_probes c).

(* ---- the property on implementation observations alone -------------------------- *)

(* (identity, record, digest the code computed for them) *)
Definition triple := (entry * record * bytes)%type.

Definition sealed_triples (c : c05_case) : list triple :=
  match c_seal c with
  | Some (_, es) => map (fun er => (fst er, snd er, e_digest (fst er))) (combine es (c_records c))
  | None => []
  end.
Definition probe_triples (c : c05_case) : list triple :=
  map (fun p => (p_entry p, p_record p, p_digest p)) (c_probes c).

(* equal digests only for equal semantic content *)
Definition binds (a b : triple) : bool :=
  match a, b with
  | (e, r, d), (e', r', d') => negb (bytes_eqb d d') || content_eqb e r e' r'
  end.
Fixpoint all_pairs {A} (f : A -> A -> bool) (l : list A) : bool :=
  match l with
  | [] => true
  | x :: r => forallb (f x) r && all_pairs f r
  end.

(* the sealed entries form the chain the manifest describes: contiguous indexes
   after the base, the manifest's authority and command on every entry, each
   entry's predecessor is the previous entry, the manifest's digest is the tail's *)
Fixpoint chain_ok (m : manifest) (index prev_term prev_index : N) (prev_digest : bytes)
         (es : list entry) : bool :=
  match es with
  | [] => true
  | e :: rest =>
      (e_version e =? ProposalManifestVersion) && (e_epoch e =? m_epoch m) && (e_term e =? m_term m)
      && (e_fence e =? m_fence m) && bytes_eqb (e_cmd e) (m_cmd m)
      && (e_index e =? index) && (e_prev_term e =? prev_term) && (e_prev_index e =? prev_index)
      && bytes_eqb (e_prev_digest e) prev_digest
      && chain_ok m (index + 1) (e_term e) (e_index e) (e_digest e) rest
  end.

Definition last_digest (es : list entry) : bytes :=
  match rev es with e :: _ => e_digest e | [] => [] end.

Definition seal_ok (c : c05_case) : bool :=
  match c_seal c with
  | None => true
  | Some (m', es) =>
      let m := c_manifest c in
      Nat.eqb (length es) (length (c_records c))
      && manifest_eqb (manifest_with_digest m' (m_digest m)) m
      && bytes_eqb (m_digest m') (last_digest es)
      && chain_ok m (m_base m + 1) (m_prev_term m) (m_prev_index m) (m_prev_digest m) es
      (* every sealed entry verifies against the record it was sealed from *)
      && Nat.eqb (length (c_self c)) (length es) && forallb (fun b => b) (c_self c)
  end.

(* VerifyEntry accepts exactly when the guards hold and the identity's digest is
   the digest of (identity, record) *)
Definition probe_ok (p : c05_probe) : bool :=
  Bool.eqb (p_verify p)
           (verify_guards (p_entry p) (p_record p) && bytes_eqb (p_digest p) (e_digest (p_entry p))).

Definition C05_monitor (c : c05_case) : N :=
  if seal_ok c && forallb probe_ok (c_probes c)
     && all_pairs binds (sealed_triples c ++ probe_triples c)
  then 0 else 1.

(* ---- the case the MODEL produces for an input (used by the theorem that links
   the monitor to the model: C05_monitor (model_case ...) = 0 unless H misbehaves) *)
Section ModelCase.
  Variable H : bytes -> bytes.

  Definition model_probe (er : entry * record) : c05_probe :=
    Probe (fst er) (snd er) (verify_entry H (fst er) (snd er))
          (digest_proposal_entry H (fst er) (snd er)) (Some (preimage (fst er) (snd er))) true.

  Definition model_case (m : manifest) (rs : list record) (prs : list (entry * record)) : c05_case :=
    let s := seal_proposal_manifest H m rs in
    C05Case m rs s true
      (match s with Some (m', _) => structurally_valid m' | None => false end)
      (match s with Some (m', _) => valid_for m' (m_base m) (Z.of_nat (length rs)) | None => false end)
      (match s with Some (_, es) => self_verify H es rs | None => [] end)
      (map model_probe prs).
End ModelCase.

Definition manifest_in_domain (m : manifest) : bool :=
  u64 (m_epoch m) && u64 (m_term m) && u64 (m_fence m) && u64 (m_base m) && u64 (m_last m)
  && u64 (m_prev_term m) && u64 (m_prev_index m) && len32 (m_cmd m) && len32 (m_prev_digest m).
