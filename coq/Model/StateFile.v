(* Model/StateFile.v — the controller state file (pkg/controller/statefile/store.go) and the
   state codec (pkg/controller/state/codec.go).

   Part 1: a small file-system model with crash semantics.
     names      0 = the main path (Store.path); k > 0 = temp names in the same directory
     inode      data and whether all of it has been fsynced
     directory  visible entries, durable entries (as of the last directory fsync) and the
                directory operations pending since then
     crash      the disk holds the durable directory plus ANY PREFIX of the pending directory
                operations (rename is atomic: it is one operation); an inode whose data was not
                fsynced holds arbitrary bytes ([junk])
   [save_ops] is the exact step sequence of Store.Save after a successful state.Encode:
     CreateTemp, Write, Sync, (Close), afterTempWrite hook, Rename, directory Sync.
   [Load] reads only name 0.
   Trusted, not modelled: POSIX itself (rename(2) atomicity, what fsync guarantees).

   Part 2: state.Encode / state.Decode over the transcribed cluster state of Model/CtrlFSM.v
   with the JSON layer and CRC-32C abstract: [parse], [render], [ck] are parameters.

   Definitions only. *)
From WK Require Import Base.Base.
From WK Require Import Gen.Consts_C18 Model.CtrlFSM.
Open Scope N_scope.

(* ---- file system ---------------------------------------------------------------------- *)

Record inode := IN { i_data : bytes; i_synced : bool }.

Inductive dirop :=
| DLink (name ino : N)        (* create an entry *)
| DRename (a b : N)           (* rename a to b, replacing b *)
| DUnlink (name : N).

Definition dir := list (N * N).  (* name -> inode number; first match wins *)

Fixpoint dir_get (d : dir) (name : N) : option N :=
  match d with
  | [] => None
  | (n, i) :: r => if n =? name then Some i else dir_get r name
  end.
Fixpoint dir_del (d : dir) (name : N) : dir :=
  match d with
  | [] => []
  | (n, i) :: r => if n =? name then dir_del r name else (n, i) :: dir_del r name
  end.
Definition dir_set (d : dir) (name ino : N) : dir := (name, ino) :: dir_del d name.

Definition dir_apply (d : dir) (o : dirop) : dir :=
  match o with
  | DLink n i => dir_set d n i
  | DRename a b => match dir_get d a with
                   | Some i => dir_set (dir_del d a) b i
                   | None => d
                   end
  | DUnlink n => dir_del d n
  end.

Record fs := FS {
  f_dir : dir;                    (* what a reader sees *)
  f_ddir : dir;                   (* directory as of the last directory fsync *)
  f_pending : list dirop;         (* directory operations since then, oldest first *)
  f_inodes : list (N * inode);    (* inode table; first match wins *)
  f_next : N }.                   (* next free inode number *)

Fixpoint ino_get (t : list (N * inode)) (i : N) : option inode :=
  match t with
  | [] => None
  | (k, x) :: r => if k =? i then Some x else ino_get r i
  end.
Definition ino_set (t : list (N * inode)) (i : N) (x : inode) : list (N * inode) := (i, x) :: t.

Inductive op :=
| Create (name : N)               (* os.CreateTemp: a new empty file under a fresh name *)
| Write (name : N) (d : bytes)    (* tmp.Write *)
| Fsync (name : N)                (* tmp.Sync *)
| Hook                            (* afterTempWrite *)
| Rename (a b : N)                (* os.Rename *)
| FsyncDir                        (* syncDir *)
| Remove (name : N).              (* os.Remove of the temp file on an error path *)

Definition step (s : fs) (o : op) : fs :=
  match o with
  | Create n =>
    FS (dir_set (f_dir s) n (f_next s)) (f_ddir s) (f_pending s ++ [DLink n (f_next s)])
       (ino_set (f_inodes s) (f_next s) (IN [] true)) (f_next s + 1)
  | Write n d =>
    match dir_get (f_dir s) n with
    | Some i => match ino_get (f_inodes s) i with
                | Some x => FS (f_dir s) (f_ddir s) (f_pending s)
                               (ino_set (f_inodes s) i (IN (i_data x ++ d) (is_empty d && i_synced x))) (f_next s)
                | None => s
                end
    | None => s
    end
  | Fsync n =>
    match dir_get (f_dir s) n with
    | Some i => match ino_get (f_inodes s) i with
                | Some x => FS (f_dir s) (f_ddir s) (f_pending s) (ino_set (f_inodes s) i (IN (i_data x) true)) (f_next s)
                | None => s
                end
    | None => s
    end
  | Hook => s
  | Rename a b => FS (dir_apply (f_dir s) (DRename a b)) (f_ddir s) (f_pending s ++ [DRename a b]) (f_inodes s) (f_next s)
  | FsyncDir => FS (f_dir s) (f_dir s) [] (f_inodes s) (f_next s)
  | Remove n => FS (dir_del (f_dir s) n) (f_ddir s) (f_pending s ++ [DUnlink n]) (f_inodes s) (f_next s)
  end.

Definition run (s : fs) (ops : list op) : fs := fold_left step ops s.

(* what a reader gets for a name *)
Definition read (s : fs) (name : N) : option bytes :=
  match dir_get (f_dir s) name with
  | Some i => match ino_get (f_inodes s) i with Some x => Some (i_data x) | None => None end
  | None => None
  end.

(* the state found after a crash and reboot: [j] pending directory operations reached the disk,
   unsynced inodes hold [junk i] *)
Definition crash (s : fs) (j : nat) (junk : N -> bytes) : fs :=
  let d := fold_left dir_apply (firstn j (f_pending s)) (f_ddir s) in
  FS d d []
     (map (fun p => (fst p, if i_synced (snd p) then snd p else IN (junk (fst p)) true)) (f_inodes s))
     (f_next s).

(* Store.Save after state.Encode returned [data]; [t] is the fresh temp name *)
Definition save_ops (t : N) (data : bytes) : list op :=
  [Create t; Write t data; Fsync t; Hook; Rename t 0; FsyncDir].

(* the error path when the hook fails: the deferred os.Remove of the temp file *)
Definition save_ops_hook_fails (t : N) (data : bytes) : list op :=
  [Create t; Write t data; Fsync t; Hook; Remove t].

(* Store.Load reads the main path only *)
Definition load_bytes (s : fs) : option bytes := read s 0.

(* the main path is settled: same inode visibly and durably, nothing pending touches it, data synced *)
Definition settled (s : fs) : bool :=
  is_empty (f_pending s)
  && match dir_get (f_dir s) 0, dir_get (f_ddir s) 0 with
     | None, None => true
     | Some i, Some k => (i =? k) && match ino_get (f_inodes s) i with Some x => i_synced x | None => false end
     | _, _ => false
     end.

(* a history of Save attempts, each cut by a crash: attempt number n saves [a_data] under the temp
   name [a_t], crashes after [a_k] steps with [a_j] pending directory operations on disk
   (a_k >= 6: the Save completed before the crash) *)
Record attempt := AT { a_t : N; a_data : bytes; a_k : nat; a_j : nat }.

Fixpoint history (s : fs) (junk : nat -> N -> bytes) (n : nat) (l : list attempt) : fs :=
  match l with
  | [] => s
  | a :: r => history (crash (run s (firstn (a_k a) (save_ops (a_t a) (a_data a)))) (a_j a) (junk n)) junk (S n) r
  end.

(* every directory entry, visible or durable, points below the next free inode number *)
Definition bounded (s : fs) : Prop :=
  forall n i, dir_get (f_dir s) n = Some i \/ dir_get (f_ddir s) n = Some i -> i < f_next s.

(* ---- the codec, JSON and CRC abstract ------------------------------------------------------ *)

Section Codec.
  Variable parse : bytes -> option CState.      (* json.Decoder with DisallowUnknownFields + no trailing token *)
  Variable render : CState -> bytes.            (* json.Marshal *)
  Variable ck : CState -> bytes.                (* state.Checksum *)

  (* state.Encode *)
  Definition Encode (st : CState) : option bytes :=
    let n := Normalize st in
    if Validate n then Some (render (set_checksum n (ck n))) else None.

  (* state.Decode; None = any error *)
  Definition Decode (data : bytes) : option CState :=
    match parse data with
    | None => None
    | Some st =>
      if negb (s_schema st =? CurrentSchemaVersion) then None
      else if is_empty (s_checksum st) then None
      else if negb (bytes_eqb (s_checksum st) (ck st)) then None
      else let n := set_checksum (Normalize st) (ck st) in
           if Validate n then Some n else None
    end.

  (* Store.Load on a file system *)
  Definition Load (s : fs) : option CState :=
    match load_bytes s with
    | Some data => Decode data
    | None => None
    end.
End Codec.
