(* Model/Delivery_sys.v — histories of queue calls, and the runtime as a
   transition system: producers enqueue into the channel-sharded queue, one
   worker per shard dequeues and makes the plan's port calls one at a time,
   interleaved arbitrarily with everything else (Runtime.runWorker / runPlan).
   Executable definitions only. *)
From WK Require Import Base.Base Gen.Consts_C31 Model.Delivery Model.Delivery_C31.
Open Scope N_scope.

(* ------------------------------------------------- histories of queue calls ---- *)

Inductive qcall := CEnq (closed : bool) (p : plan) | CPop (s : nat).
Inductive qret := REnq (r : enq_res) | RPop (g : option plan).

Definition pq_step (q : pq) (cl : qcall) : pq * qret :=
  match cl with
  | CEnq closed p => let '(q', r) := pq_enqueue q closed p in (q', REnq r)
  | CPop s => let '(q', g) := pq_pop q s in (q', RPop g)
  end.

Definition aq_step (cap : nat) (a : aq) (cl : qcall) : aq * qret :=
  match cl with
  | CEnq closed p => let '(a', r) := aq_enqueue cap a closed p in (a', REnq r)
  | CPop s => let '(a', g) := aq_pop a s in (a', RPop g)
  end.

Fixpoint pq_run (q : pq) (cs : list qcall) : pq * list qret :=
  match cs with
  | [] => (q, [])
  | cl :: r => let '(q', x) := pq_step q cl in let '(q2, xs) := pq_run q' r in (q2, x :: xs)
  end.

Fixpoint aq_run (cap : nat) (a : aq) (cs : list qcall) : aq * list qret :=
  match cs with
  | [] => (a, [])
  | cl :: r => let '(a', x) := aq_step cap a cl in let '(a2, xs) := aq_run cap a' r in (a2, x :: xs)
  end.

(* plans accepted into / popped from shard s over a history, in order *)
Fixpoint enq_of (shards s : nat) (cs : list qcall) (rets : list qret) : list plan :=
  match cs, rets with
  | CEnq _ p :: cs', REnq EnqOk :: rets' =>
      if (plan_shard shards p =? s)%nat then p :: enq_of shards s cs' rets' else enq_of shards s cs' rets'
  | _ :: cs', _ :: rets' => enq_of shards s cs' rets'
  | _, _ => []
  end.

Fixpoint pop_of (s : nat) (cs : list qcall) (rets : list qret) : list plan :=
  match cs, rets with
  | CPop s' :: cs', RPop (Some p) :: rets' =>
      if (s' =? s)%nat then p :: pop_of s cs' rets' else pop_of s cs' rets'
  | _ :: cs', _ :: rets' => pop_of s cs' rets'
  | _, _ => []
  end.

(* --------------------------------------------------------- the runtime ---- *)

Section Sys.
Variable X : Type.   (* port calls *)

Record wstate := W { w_stamp : N; w_plan : plan; w_todo : list X }.

Record sys := Sys {
  s_q : pq;
  s_gh : list (list N);                  (* ghost: acceptance stamps of the queued plans, per shard *)
  s_closed : bool;                       (* admission closed (Stop / Quiesce) *)
  s_work : list (option wstate);         (* one worker per shard *)
  s_now : N;                             (* one tick per event *)
  s_acc : list (N * nat * plan);         (* accepted plans: stamp, shard, plan; newest first *)
  s_log : list (N * nat * plan * X * N) }.  (* port calls: plan stamp, shard, plan, call, time; newest first *)

Inductive sev :=
| SEnq (p : plan)                 (* EnqueueRecipientDeliveryPlan *)
| SClose                          (* admission closes *)
| SPop (s : nat) (calls : list X) (* worker s dequeues; calls = the port calls processing that plan makes *)
| SCall (s : nat).                (* worker s makes its next port call (or retires a finished plan) *)

Definition sys_step (st : sys) (e : sev) : sys :=
  let now := s_now st + 1 in
  match e with
  | SEnq p =>
      let '(q', r) := pq_enqueue (s_q st) (s_closed st) p in
      match r with
      | EnqOk =>
          let s := plan_shard (length (pq_heads (s_q st))) p in
          Sys q' (upd s (nth s (s_gh st) [] ++ [now]) (s_gh st)) (s_closed st) (s_work st) now
              ((now, s, p) :: s_acc st) (s_log st)
      | _ => Sys (s_q st) (s_gh st) (s_closed st) (s_work st) now (s_acc st) (s_log st)
      end
  | SClose => Sys (s_q st) (s_gh st) true (s_work st) now (s_acc st) (s_log st)
  | SPop s calls =>
      match nth s (s_work st) None with
      | Some _ => Sys (s_q st) (s_gh st) (s_closed st) (s_work st) now (s_acc st) (s_log st)
      | None =>
          let '(q', g) := pq_pop (s_q st) s in
          match g with
          | None => Sys (s_q st) (s_gh st) (s_closed st) (s_work st) now (s_acc st) (s_log st)
          | Some p =>
              let stamp := hd 0 (nth s (s_gh st) []) in
              Sys q' (upd s (tl (nth s (s_gh st) [])) (s_gh st)) (s_closed st)
                  (upd s (Some (W stamp p calls)) (s_work st)) now (s_acc st) (s_log st)
          end
      end
  | SCall s =>
      match nth s (s_work st) None with
      | None => Sys (s_q st) (s_gh st) (s_closed st) (s_work st) now (s_acc st) (s_log st)
      | Some w =>
          match w_todo w with
          | [] => Sys (s_q st) (s_gh st) (s_closed st) (upd s None (s_work st)) now (s_acc st) (s_log st)
          | x :: r =>
              Sys (s_q st) (s_gh st) (s_closed st)
                  (upd s (Some (W (w_stamp w) (w_plan w) r)) (s_work st)) now (s_acc st)
                  ((w_stamp w, s, w_plan w, x, now) :: s_log st)
          end
      end
  end.

Definition sys_init (cap shards : nat) : sys :=
  Sys (newq_nat cap shards) (repeat [] shards) false (repeat None shards) 0 [] [].

Definition sys_run (cap shards : nat) (evs : list sev) : sys :=
  fold_left sys_step evs (sys_init cap shards).

(* log entry accessors *)
Definition le_stamp (e : N * nat * plan * X * N) : N := fst (fst (fst (fst e))).
Definition le_shard (e : N * nat * plan * X * N) : nat := snd (fst (fst (fst e))).
Definition le_plan (e : N * nat * plan * X * N) : plan := snd (fst (fst e)).
Definition le_time (e : N * nat * plan * X * N) : N := snd e.

(* the ticket data the monitor's ordering clause looks at, for one accepted plan *)
Definition times_of (a : N) (log : list (N * nat * plan * X * N)) : list N :=
  map le_time (filter (fun e => le_stamp e =? a) log).

Definition maxN (l : list N) : N := fold_left N.max l 0.
Definition minN (l : list N) : N := match l with [] => 0 | x :: r => fold_left N.min r x end.

Definition sys_times (st : sys) : list ptimes :=
  map (fun asp : N * nat * plan =>
         let a := fst (fst asp) in
         let p := snd asp in
         let ts := times_of a (s_log st) in
         PT true (negb (is_nil ts)) (e_chtype (p_event p)) (e_chid (p_event p)) a a (minN ts) (maxN ts))
      (s_acc st).

End Sys.
