(* Model/HashSlot.v — pkg/hashslot: the hash-slot table (hashslottable.go), its
   codec, and the add / remove / rebalance planners (rebalancer.go); plus
   pkg/controller/state BuildInitialHashSlotTable.  One definition per Go
   function, same names in snake case.  Executable definitions only.

   Representation choices (documented in notes/C20.md):
   - a slot id / hash slot / count is an [N];
   - [migrations map[uint16]HashSlotMigration] is a list sorted strictly by hash
     slot (the order ActiveMigrations returns and Encode writes);
   - Go maps [map[SlotID]int] / [map[SlotID][]uint16] are association lists with
     the Go zero value as default; the per-slot owned lists are kept REVERSED so
     that popOwnedHashSlot (pop last) is a pop of the head;
   - [len(assignment)] always equals [hashSlotCount] in Go (New / Decode / Clone
     are the only constructors); loops "for hs < HashSlotCount: Lookup(hs)" are
     therefore written over [t_assign]. *)
From WK Require Import Base.Base Base.Bytes Gen.Consts_C20.
Open Scope N_scope.

Record migration := Mig { m_hs : N; m_src : N; m_tgt : N; m_phase : N }.
Record table := Tbl { t_version : N; t_count : N; t_assign : list N; t_migs : list migration }.
Record move := Move { mv_hs : N; mv_from : N; mv_to : N }.

(* ---- small list utilities ------------------------------------------------ *)

Fixpoint set_nth {A} (n : nat) (v : A) (l : list A) : list A :=
  match l, n with
  | [], _ => []
  | _ :: r, O => v :: r
  | x :: r, S n' => x :: set_nth n' v r
  end.

Definition mem (x : N) (l : list N) : bool := existsb (N.eqb x) l.

Fixpoint ins (x : N) (l : list N) : list N :=
  match l with
  | [] => [x]
  | y :: r => if x <=? y then x :: l else y :: ins x r
  end.
(* sortSlotIDs *)
Definition sort_ids (l : list N) : list N := fold_right ins [] l.

(* first occurrences of the non-zero values, in order of appearance (the [seen] map loops) *)
Fixpoint dedupe_nz (seen l : list N) : list N :=
  match l with
  | [] => []
  | x :: r => if (x =? 0) || mem x seen then dedupe_nz seen r else x :: dedupe_nz (x :: seen) r
  end.
Definition distinct_nz (l : list N) : list N := dedupe_nz [] l.

(* association lists = Go maps with zero-value default *)
Fixpoint aget {V} (d : V) (m : list (N * V)) (k : N) : V :=
  match m with
  | [] => d
  | (k', v) :: r => if k' =? k then v else aget d r k
  end.
Fixpoint aset {V} (m : list (N * V)) (k : N) (v : V) : list (N * V) :=
  match m with
  | [] => [(k, v)]
  | (k', v') :: r => if k' =? k then (k, v) :: r else (k', v') :: aset r k v
  end.

(* ---- migrations: list sorted strictly by hash slot ------------------------ *)

Fixpoint mig_find (hs : N) (ms : list migration) : option migration :=
  match ms with
  | [] => None
  | m :: r => if m_hs m =? hs then Some m else mig_find hs r
  end.
Fixpoint mig_put (m : migration) (ms : list migration) : list migration :=
  match ms with
  | [] => [m]
  | x :: r => if m_hs m <? m_hs x then m :: ms
              else if m_hs m =? m_hs x then m :: r
              else x :: mig_put m r
  end.
Fixpoint mig_del (hs : N) (ms : list migration) : list migration :=
  match ms with
  | [] => []
  | x :: r => if m_hs x =? hs then mig_del hs r else x :: mig_del hs r
  end.

(* ---- hashslottable.go ------------------------------------------------------ *)

Definition bump (v : N) : N := wrap64 (v + 1).           (* t.version++ on uint64 *)
Definition alen (t : table) : N := N.of_nat (length (t_assign t)).
Definition at_hs (t : table) (hs : N) : N := nth (N.to_nat hs) (t_assign t) 0.

(* the slot loop of NewHashSlotTable: slot i+1 gets base (+1 while i < remainder) entries *)
Fixpoint new_fill (fuel : nat) (i base rem : N) : list N :=
  match fuel with
  | O => []
  | S f => repeat (i + 1) (N.to_nat (base + (if i <? rem then 1 else 0))) ++ new_fill f (i + 1) base rem
  end.

(* NewHashSlotTable(hashSlotCount uint16, physicalSlotCount int).  Slots beyond
   min(physical, count) receive no entry (base = 0 and i >= remainder), so the
   slot loop is run min(physical, count) times; [firstn count (.. ++ zeros)] is
   the zero-initialised array with the [next < hashSlotCount] guard. *)
Definition new_hash_slot_table (count : N) (phys : Z) : table :=
  let zeros := repeat 0 (N.to_nat count) in
  if (count =? 0) || (phys <=? 0)%Z then Tbl 1 count zeros []
  else
    let p := Z.to_N phys in
    let filled := new_fill (N.to_nat (N.min p count)) 0 (count / p) (count mod p) in
    Tbl 1 count (firstn (N.to_nat count) (filled ++ zeros)) [].

Definition lookup (t : table) (hs : N) : N :=
  if alen t <=? hs then 0 else at_hs t hs.

Definition reassign (t : table) (hs slot : N) : table :=
  if alen t <=? hs then t
  else if at_hs t hs =? slot then t
  else Tbl (bump (t_version t)) (t_count t) (set_nth (N.to_nat hs) slot (t_assign t)) (t_migs t).

Definition start_migration (t : table) (hs src tgt : N) : table :=
  if alen t <=? hs then t
  else if (src =? 0) || (tgt =? 0) || (src =? tgt) || negb (at_hs t hs =? src) then t
  else match mig_find hs (t_migs t) with
       | Some _ => t
       | None => Tbl (bump (t_version t)) (t_count t) (t_assign t)
                     (mig_put (Mig hs src tgt PhaseSnapshot) (t_migs t))
       end.

Definition advance_migration (t : table) (hs phase : N) : table :=
  match mig_find hs (t_migs t) with
  | None => t
  | Some m => if m_phase m =? phase then t
              else Tbl (bump (t_version t)) (t_count t) (t_assign t)
                       (mig_put (Mig (m_hs m) (m_src m) (m_tgt m) phase) (t_migs t))
  end.

Definition finalize_migration (t : table) (hs : N) : table :=
  match mig_find hs (t_migs t) with
  | None => t
  | Some m => Tbl (bump (t_version t)) (t_count t)
                  (if hs <? alen t then set_nth (N.to_nat hs) (m_tgt m) (t_assign t) else t_assign t)
                  (mig_del hs (t_migs t))
  end.

Definition abort_migration (t : table) (hs : N) : table :=
  match mig_find hs (t_migs t) with
  | None => t
  | Some _ => Tbl (bump (t_version t)) (t_count t) (t_assign t) (mig_del hs (t_migs t))
  end.

Definition get_migration (t : table) (hs : N) : option migration := mig_find hs (t_migs t).
Definition active_migrations (t : table) : list migration := t_migs t.

Fixpoint indices_of (i : N) (l : list N) (slot : N) : list N :=
  match l with
  | [] => []
  | x :: r => if x =? slot then i :: indices_of (i + 1) r slot else indices_of (i + 1) r slot
  end.
Definition hash_slots_of (t : table) (slot : N) : list N := indices_of 0 (t_assign t) slot.

Definition assigned_slot_ids (t : table) : list N := sort_ids (distinct_nz (t_assign t)).

(* Encode: u16 wire version, u16 count, u64 table version, u64 per hash slot,
   u16 number of migrations, 20 bytes per migration (u16 hs, phase, pad, u64 src, u64 tgt).
   [put_u16] keeps the low 16 bits, as uint16(len(migrations)) does. *)
Definition enc_mig (m : migration) : bytes :=
  put_u16 (m_hs m) ++ put_u8 (m_phase m) ++ [0] ++ put_u64 (m_src m) ++ put_u64 (m_tgt m).
Definition encode (t : table) : bytes :=
  put_u16 enc_version ++ put_u16 (t_count t) ++ put_u64 (t_version t)
  ++ flat_map put_u64 (t_assign t)
  ++ put_u16 (N.of_nat (length (t_migs t))) ++ flat_map enc_mig (t_migs t).

Fixpoint get_assign (n : nat) (bs : bytes) : option (list N * bytes) :=
  match n with
  | O => Some ([], bs)
  | S n' => match get_be 8 bs with
            | None => None
            | Some (v, r) => match get_assign n' r with
                             | None => None
                             | Some (l, r') => Some (v :: l, r')
                             end
            end
  end.

(* the migration-record loop of DecodeHashSlotTable: a later record for the same
   hash slot overwrites the earlier one (map store) *)
Fixpoint get_migs (n : nat) (bs : bytes) (acc : list migration) : list migration :=
  match n with
  | O => acc
  | S n' =>
    match get_be 2 bs with
    | Some (hs, ph :: _ :: r1) =>
      match get_be 8 r1 with
      | Some (src, r2) =>
        match get_be 8 r2 with
        | Some (tgt, r3) => get_migs n' r3 (mig_put (Mig hs src tgt ph) acc)
        | None => acc
        end
      | None => acc
      end
    | _ => acc
    end
  end.

(* DecodeHashSlotTable; every error is ErrInvalidTable = None *)
Definition decode_hash_slot_table (data : bytes) : option table :=
  match get_be 2 data with
  | None => None
  | Some (ver, r1) =>
    match get_be 2 r1 with
    | None => None
    | Some (count, r2) =>
      match get_be 8 r2 with
      | None => None
      | Some (version, r3) =>
        if negb ((ver =? 1) || (ver =? enc_version)) then None
        else match get_assign (N.to_nat count) r3 with
             | None => None
             | Some (assign, r4) =>
               if ver =? 1 then
                 match r4 with [] => Some (Tbl version count assign []) | _ => None end
               else
                 match r4 with
                 | [] => Some (Tbl version count assign [])
                 | _ => match get_be 2 r4 with
                        | None => None
                        | Some (mc, r5) =>
                          if N.of_nat (length r5) =? mc * 20
                          then Some (Tbl version count assign (get_migs (N.to_nat mc) r5 []))
                          else None
                        end
                 end
             end
      end
    end
  end.

(* ---- rebalancer.go ---------------------------------------------------------- *)

(* tableActiveSlotIDs *)
Definition active_slot_ids (t : table) : list N := sort_ids (distinct_nz (t_assign t)).

(* slotCounts *)
Definition slot_counts (t : table) (slots : list N) : list (N * N) :=
  fold_left (fun m s => aset m s (N.of_nat (length (hash_slots_of t s)))) slots [].

(* slotHashSlots; the lists are stored reversed (see header) *)
Definition slot_hash_slots (t : table) (slots : list N) : list (N * list N) :=
  fold_left (fun m s => aset m s (rev (hash_slots_of t s))) slots [].

Fixpoint ideal_fill (i base rem : N) (sorted : list N) (m : list (N * N)) : list (N * N) :=
  match sorted with
  | [] => m
  | s :: r => ideal_fill (i + 1) base rem r (aset m s (base + (if i <? rem then 1 else 0)))
  end.
(* idealSlotCounts *)
Definition ideal_slot_counts (total : N) (slots : list N) : list (N * N) :=
  match slots with
  | [] => []
  | _ => let sorted := sort_ids slots in
         let n := N.of_nat (length sorted) in
         ideal_fill 0 (total / n) (total mod n) sorted []
  end.

(* selectLargestSurplusSlot: state (chosen, bestSurplus, bestCount) *)
Definition sel_surplus_step (current target : list (N * N)) (st : N * N * N) (slot : N) : N * N * N :=
  let '(chosen, best, bestc) := st in
  let c := aget 0 current slot in
  let t := aget 0 target slot in
  if c <=? t then st
  else let s := c - t in
       if (chosen =? 0) || (best <? s) || ((s =? best) && (bestc <? c))
          || ((s =? best) && (c =? bestc) && (slot <? chosen))
       then (slot, s, c) else st.
Definition select_largest_surplus_slot (current target : list (N * N)) (cands : list N) : N :=
  fst (fst (fold_left (sel_surplus_step current target) cands (0, 0, 0))).

(* selectSmallestDeficitSlot (it selects the LARGEST deficit; ties: lower count, lower id) *)
Definition sel_deficit_step (current target : list (N * N)) (st : N * N * N) (slot : N) : N * N * N :=
  let '(chosen, best, bestc) := st in
  let c := aget 0 current slot in
  let t := aget 0 target slot in
  if t <=? c then st
  else let d := t - c in
       if (chosen =? 0) || (best <? d) || ((d =? best) && (c <? bestc))
          || ((d =? best) && (c =? bestc) && (slot <? chosen))
       then (slot, d, c) else st.
Definition select_smallest_deficit_slot (current target : list (N * N)) (cands : list N) : N :=
  fst (fst (fold_left (sel_deficit_step current target) cands (0, 0, 0))).

(* popOwnedHashSlot on the reversed list *)
Definition pop_owned_hash_slot (owned : list (N * list N)) (slot : N) : option (N * list (N * list N)) :=
  match aget [] owned slot with
  | [] => None
  | hs :: r => Some (hs, aset owned slot r)
  end.

(* current[donor]--; current[receiver]++ *)
Definition transfer (current : list (N * N)) (donor receiver : N) : list (N * N) :=
  let c1 := aset current donor (aget 0 current donor - 1) in
  aset c1 receiver (aget 0 c1 receiver + 1).

(* The loop shared by the three planners: [choose] is the loop head (guard and
   donor / receiver selection; None = break).  Returns the plan and the final
   [current] map.  [fuel] bounds the iterations; every iteration pops one owned
   hash slot, so [S (length assignment)] is never exhausted (Proof/HashSlot_plan.v). *)
Fixpoint transfer_loop (fuel : nat) (choose : list (N * N) -> option (N * N))
         (current : list (N * N)) (owned : list (N * list N)) : list move * list (N * N) :=
  match fuel with
  | O => ([], current)
  | S f =>
    match choose current with
    | None => ([], current)
    | Some (donor, receiver) =>
      match pop_owned_hash_slot owned donor with
      | None => ([], current)
      | Some (hs, owned') =>
        let '(p, c) := transfer_loop f choose (transfer current donor receiver) owned' in
        (Move hs donor receiver :: p, c)
      end
    end
  end.

Definition plan_fuel (t : table) : nat := S (length (t_assign t)).

Definition add_choose (target : list (N * N)) (existing : list N) (new : N) (current : list (N * N)) : option (N * N) :=
  if aget 0 current new <? aget 0 target new then
    let donor := select_largest_surplus_slot current target existing in
    if donor =? 0 then None else Some (donor, new)
  else None.

Definition compute_add_slot_plan_full (t : table) (new : N) : list move * list (N * N) :=
  if new =? 0 then ([], [])
  else
    let existing := active_slot_ids t in
    if mem new existing then ([], [])
    else
      let slots := sort_ids (existing ++ [new]) in
      let current := slot_counts t slots in
      let target := ideal_slot_counts (t_count t) slots in
      let owned := slot_hash_slots t existing in
      transfer_loop (plan_fuel t) (add_choose target existing new) current owned.
(* ComputeAddSlotPlan *)
Definition compute_add_slot_plan (t : table) (new : N) : list move := fst (compute_add_slot_plan_full t new).

Definition remove_choose (target : list (N * N)) (remaining : list N) (rm : N) (current : list (N * N)) : option (N * N) :=
  if 0 <? aget 0 current rm then
    let receiver := select_smallest_deficit_slot current target remaining in
    if receiver =? 0 then None else Some (rm, receiver)
  else None.

(* tableActiveSlotIDsExcluding *)
Definition active_slot_ids_excluding (t : table) (exclude : N) : list N :=
  filter (fun s => negb (s =? exclude)) (active_slot_ids t).

Definition compute_remove_slot_plan_full (t : table) (rm : N) : list move * list (N * N) :=
  if rm =? 0 then ([], [])
  else match hash_slots_of t rm with
       | [] => ([], [])
       | _ =>
         let remaining := active_slot_ids_excluding t rm in
         match remaining with
         | [] => ([], [])
         | _ =>
           let current := slot_counts t (remaining ++ [rm]) in
           let target := ideal_slot_counts (t_count t) remaining in
           let owned := slot_hash_slots t [rm] in
           transfer_loop (plan_fuel t) (remove_choose target remaining rm) current owned
         end
       end.
(* ComputeRemoveSlotPlan *)
Definition compute_remove_slot_plan (t : table) (rm : N) : list move := fst (compute_remove_slot_plan_full t rm).

Definition rebalance_choose (target : list (N * N)) (slots : list N) (current : list (N * N)) : option (N * N) :=
  let donor := select_largest_surplus_slot current target slots in
  let receiver := select_smallest_deficit_slot current target slots in
  if (donor =? 0) || (receiver =? 0) then None else Some (donor, receiver).

Definition compute_rebalance_plan_full (t : table) : list move * list (N * N) :=
  let slots := active_slot_ids t in
  match slots with
  | [] | [_] => ([], [])
  | _ =>
    let current := slot_counts t slots in
    let target := ideal_slot_counts (t_count t) slots in
    let owned := slot_hash_slots t slots in
    transfer_loop (plan_fuel t) (rebalance_choose target slots) current owned
  end.
(* ComputeRebalancePlan *)
Definition compute_rebalance_plan (t : table) : list move := fst (compute_rebalance_plan_full t).

(* applying a plan: Reassign(HashSlot, To) per move (what the harness does with [apply]) *)
Definition apply_plan (t : table) (p : list move) : table :=
  fold_left (fun t m => reassign t (mv_hs m) (mv_to m)) p t.

(* ---- pkg/controller/state BuildInitialHashSlotTable ------------------------- *)

Record range := Rng { r_from : N; r_to : N; r_slot : N }.

Fixpoint build_ranges (fuel : nat) (slot next base rem : N) : list range :=
  match fuel with
  | O => []
  | S f => let width := base + (if slot <=? rem then 1 else 0) in
           let to := next + width - 1 in
           Rng next to slot :: build_ranges f (slot + 1) (to + 1) base rem
  end.
Definition build_initial_hash_slot_table (slots count : N) : option (N * list range) :=
  if (slots =? 0) || (count =? 0) || (count <? slots) then None
  else Some (count, build_ranges (N.to_nat slots) 1 0 (count / slots) (count mod slots)).

(* ==== case-file interface ====================================================== *)

Inductive op :=
| OReassign (hs slot : N)
| OStart (hs src tgt : N)
| OAdvance (hs phase : N)
| OFinalize (hs : N)
| OAbort (hs : N)
| OLookup (hs : N)
| OOwners (slot : N)
| OAssigned
| OGetMig (hs : N)
| OEncDec
| ODecode (data : bytes)
| OAdd (slot : N) (apply : bool)
| ORemove (slot : N) (apply : bool)
| ORebalance (apply : bool)
| OIdeal (total : N) (slots : list N)
| OSelect (largest : bool) (cur tgt : list (N * N)) (cands : list N)
| OBuildInit (slots count : N)
| OClone.                      (* t = t.Clone(): later operations run on the copy *)

(* Observed tables are printed compactly: the assignment run-length encoded, and
   a table relative to the previously observed one as "same" / "these hash slots
   changed" / complete. *)
Definition unrle (runs : list (N * N)) : list N :=
  flat_map (fun r => repeat (fst r) (N.to_nat (snd r))) runs.
Definition TblR (version count : N) (runs : list (N * N)) (migs : list migration) : table :=
  Tbl version count (unrle runs) migs.
Inductive snap :=
| SSame
| SDelta (version : N) (changes : list (N * N)) (migs : list migration)
| SFull (t : table).
Definition unsnap (prev : table) (s : snap) : table :=
  match s with
  | SSame => prev
  | SDelta v ch migs =>
      Tbl v (t_count prev) (fold_left (fun a c => set_nth (N.to_nat (fst c)) (snd c) a) ch (t_assign prev)) migs
  | SFull t => t
  end.

Inductive res :=
| RNone
| RSlot (s : N)
| RList (l : list N)
| RList2 (a b : list N)
| RMig (m : option migration)
| REnc (data : bytes) (dec : option snap)    (* the decoded table, relative to the table that was encoded *)
| RDecode (ok : bool)
| RPlan (p : list move)
| RMap (m : list (N * N))
| RRanges (r : option (N * list range)).

(* one observed step: operation, its result, and the table afterwards *)
Record step := Step { s_op : op; s_res : res; s_snap : snap }.
Record c20_case := C20Case { c_count : N; c_phys : Z; c_init : table; c_steps : list step }.

(* ---- equality tests ----------------------------------------------------------- *)

Definition mig_eqb (a b : migration) : bool :=
  (m_hs a =? m_hs b) && (m_src a =? m_src b) && (m_tgt a =? m_tgt b) && (m_phase a =? m_phase b).
Definition move_eqb (a b : move) : bool :=
  (mv_hs a =? mv_hs b) && (mv_from a =? mv_from b) && (mv_to a =? mv_to b).
Definition range_eqb (a b : range) : bool :=
  (r_from a =? r_from b) && (r_to a =? r_to b) && (r_slot a =? r_slot b).
Definition pair_eqb (a b : N * N) : bool := (fst a =? fst b) && (snd a =? snd b).
Definition nlist_eqb : list N -> list N -> bool := list_eqb N.eqb.
Definition table_eqb (a b : table) : bool :=
  (t_version a =? t_version b) && (t_count a =? t_count b)
  && nlist_eqb (t_assign a) (t_assign b) && list_eqb mig_eqb (t_migs a) (t_migs b).

Definition res_eqb (prev : table) (a b : res) : bool :=
  match a, b with
  | RNone, RNone => true
  | RSlot x, RSlot y => x =? y
  | RList x, RList y => nlist_eqb x y
  | RList2 x1 x2, RList2 y1 y2 => nlist_eqb x1 y1 && nlist_eqb x2 y2
  | RMig x, RMig y => option_eqb mig_eqb x y
  | REnc d x, REnc e y => bytes_eqb d e && option_eqb table_eqb (option_map (unsnap prev) x) (option_map (unsnap prev) y)
  | RDecode x, RDecode y => Bool.eqb x y
  | RPlan x, RPlan y => list_eqb move_eqb x y
  | RMap x, RMap y => list_eqb pair_eqb x y
  | RRanges None, RRanges None => true
  | RRanges (Some (c, x)), RRanges (Some (d, y)) => (c =? d) && list_eqb range_eqb x y
  | _, _ => false
  end.

(* ---- the model run on one operation --------------------------------------------- *)

Definition plan_step (t : table) (p : list move) (apply : bool) : res * table :=
  (RPlan p, if apply then apply_plan t p else t).

Definition model_step (t : table) (o : op) : res * table :=
  match o with
  | OReassign hs slot => (RNone, reassign t hs slot)
  | OStart hs src tgt => (RNone, start_migration t hs src tgt)
  | OAdvance hs ph => (RNone, advance_migration t hs ph)
  | OFinalize hs => (RNone, finalize_migration t hs)
  | OAbort hs => (RNone, abort_migration t hs)
  | OLookup hs => (RSlot (lookup t hs), t)
  | OOwners slot => (RList (hash_slots_of t slot), t)
  | OAssigned => (RList2 (assigned_slot_ids t) (active_slot_ids t), t)
  | OGetMig hs => (RMig (get_migration t hs), t)
  | OEncDec => let d := decode_hash_slot_table (encode t) in
               (REnc (encode t) (option_map SFull d), match d with Some t' => t' | None => t end)
  | ODecode data => match decode_hash_slot_table data with
                    | Some t' => (RDecode true, t')
                    | None => (RDecode false, t)
                    end
  | OAdd slot apply => plan_step t (compute_add_slot_plan t slot) apply
  | ORemove slot apply => plan_step t (compute_remove_slot_plan t slot) apply
  | ORebalance apply => plan_step t (compute_rebalance_plan t) apply
  | OIdeal total slots => (RMap (ideal_slot_counts total slots), t)
  | OSelect largest cur tgt cands =>
      (RSlot (if largest then select_largest_surplus_slot cur tgt cands
              else select_smallest_deficit_slot cur tgt cands), t)
  | OBuildInit slots count => (RRanges (build_initial_hash_slot_table slots count), t)
  | OClone => (RNone, t)
  end.

Definition after (prev : table) (st : step) : table := unsnap prev (s_snap st).

(* model vs implementation: the model is run on the operations alone, from
   NewHashSlotTable(count, phys); every result and every table must coincide *)
Fixpoint mismatch_steps (t : table) (steps : list step) : bool :=
  match steps with
  | [] => false
  | st :: r =>
    let '(mres, t') := model_step t (s_op st) in
    let obs := after t st in      (* the implementation's table after the step, given that they agreed before *)
    if res_eqb t mres (s_res st) && table_eqb t' obs then mismatch_steps t' r else true
  end.

Definition C20_mismatch (c : c20_case) : bool :=
  let t0 := new_hash_slot_table (c_count c) (c_phys c) in
  if table_eqb t0 (c_init c) then mismatch_steps t0 (c_steps c) else true.

(* ==== the property monitor (implementation observations only) ================== *)

Definition snap_wf (s : table) : bool := N.of_nat (length (t_assign s)) =? t_count s.
Definition all_nz (l : list N) : bool := forallb (fun x => negb (x =? 0)) l.
(* every hash slot is mapped to a physical slot, and so is every pending migration target *)
Definition good (s : table) : bool :=
  all_nz (t_assign s) && forallb (fun m => negb (m_tgt m =? 0)) (t_migs s).

Definition cnt (l : list N) (s : N) : N := N.of_nat (length (filter (N.eqb s) l)).
Definition rank (s : N) (l : list N) : N := N.of_nat (length (filter (fun y => y <? s) l)).
(* ideal share of slot [s] among the participating slots [parts] (duplicate free):
   total / k, plus one for the [total mod k] lowest slot ids *)
Definition spec_ideal (total : N) (parts : list N) (s : N) : N :=
  let k := N.of_nat (length parts) in
  if k =? 0 then 0 else total / k + (if rank s parts <? total mod k then 1 else 0).
Definition within_one (a b : N) : bool := (a <=? b + 1) && (b <=? a + 1).
Definition balanced (total : N) (assign parts : list N) : bool :=
  forallb (fun s => within_one (cnt assign s) (spec_ideal total parts s)) parts.
(* no participating slot above its ideal share + 1 *)
Definition not_over (total : N) (assign parts : list N) : bool :=
  forallb (fun s => cnt assign s <=? spec_ideal total parts s + 1) parts.

Fixpoint nodupb (l : list N) : bool :=
  match l with
  | [] => true
  | x :: r => negb (mem x r) && nodupb r
  end.

(* each hash slot moves at most once, only away from its current owner *)
Definition moves_ok (s : table) (p : list move) : bool :=
  nodupb (map mv_hs p)
  && forallb (fun m => (mv_hs m <? t_count s)
                       && (nth (N.to_nat (mv_hs m)) (t_assign s) 0 =? mv_from m)
                       && negb (mv_to m =? mv_from m)) p.

Definition apply_moves (p : list move) (a : list N) : list N :=
  fold_left (fun a m => set_nth (N.to_nat (mv_hs m)) (mv_to m) a) p a.

Inductive plan_kind := PAdd (n : N) | PRemove (x : N) | PRebalance.

(* 0 = holds; 1 = violation;
   2 = known finding C20-K1: an add / remove plan whose INPUT table already had a
       participating slot more than one away from its pre-plan ideal share leaves a
       participant more than one from its new ideal share;
   3 = finding C20-K2 (new): a remove plan on an input table in which every slot is
       within one of its ideal share empties the removed slot, over-fills no remaining
       slot, but leaves a remaining slot more than one BELOW its new ideal share.
   The balance clause is evaluated on tables that map every hash slot to a physical
   slot (no 0 entries), the tables of the property's quantifier. *)
Definition plan_code (s : table) (k : plan_kind) (p : list move) : N :=
  if negb (moves_ok s p) then 1
  else if negb (all_nz (t_assign s)) then 0
  else
    let act := distinct_nz (t_assign s) in
    let post := apply_moves p (t_assign s) in
    let total := t_count s in
    match k with
    | PRebalance => if balanced total post act then 0 else 1
    | PAdd n =>
      if (n =? 0) || mem n act then 0
      else if balanced total post (n :: act) then 0
      else if balanced total (t_assign s) act then 1 else 2
    | PRemove x =>
      let rem := filter (fun y => negb (y =? x)) act in
      if negb (mem x act) then 0
      else match rem with
           | [] => 0
           | _ =>
             if balanced total post rem && (cnt post x <=? 1) then 0
             else if negb (balanced total (t_assign s) act) then 2
             else if not_over total post rem && (cnt post x =? 0) then 3
             else 1
           end
    end.

Definition content_eqb (a b : table) : bool :=
  (t_count a =? t_count b) && nlist_eqb (t_assign a) (t_assign b) && list_eqb mig_eqb (t_migs a) (t_migs b).
(* the version strictly increases on every effective change.  Versions in the upper
   half of the uint64 range (reachable only by decoding a crafted payload, never
   by 2^63 mutations) are exempt: there version++ may wrap. *)
Definition ver_small : N := 9223372036854775808. (* 2^63 *)
Definition version_ok (s s' : table) : bool :=
  if content_eqb s s' then true else (ver_small <=? t_version s) || (t_version s <? t_version s').

(* clauses common to every operation that works on the table in place *)
Definition basic (s s' : table) (keeps_good : bool) : bool :=
  (t_count s' =? t_count s) && version_ok s s' && (negb (good s && keeps_good) || good s').

Definition plan_obs_code (s s' : table) (k : plan_kind) (apply : bool) (p : list move) : N :=
  if negb (basic s s' true) then 1
  else if negb (nlist_eqb (t_assign s') (if apply then apply_moves p (t_assign s) else t_assign s)) then
         1
  else plan_code s k p.

Definition lookup_obs (s : table) (hs : N) : N :=
  if hs <? t_count s then nth (N.to_nat hs) (t_assign s) 0 else 0.

Definition step_code (s : table) (st : step) : N :=
  let s' := after s st in
  if negb (snap_wf s') then 1
  else
    match s_op st, s_res st with
    | ODecode _, RDecode _ => 0
    | OEncDec, REnc _ (Some d) => if table_eqb (unsnap s d) s && table_eqb s' s then 0 else 1
    | OReassign _ slot, RNone => if basic s s' (negb (slot =? 0)) then 0 else 1
    | OStart _ _ _, RNone | OAdvance _ _, RNone | OFinalize _, RNone | OAbort _, RNone =>
        if basic s s' true then 0 else 1
    | OLookup hs, RSlot v => if table_eqb s' s && (v =? lookup_obs s hs) then 0 else 1
    | OOwners slot, RList l => if table_eqb s' s && nlist_eqb l (indices_of 0 (t_assign s) slot) then 0 else 1
    | OAssigned, RList2 _ _ | OGetMig _, RMig _ | OIdeal _ _, RMap _
    | OSelect _ _ _ _, RSlot _ | OBuildInit _ _, RRanges _ | OClone, RNone =>
        if table_eqb s' s then 0 else 1
    | OAdd n apply, RPlan p => plan_obs_code s s' (PAdd n) apply p
    | ORemove x apply, RPlan p => plan_obs_code s s' (PRemove x) apply p
    | ORebalance apply, RPlan p => plan_obs_code s s' PRebalance apply p
    | _, _ => 1
    end.

(* a violation (1) dominates; otherwise the highest finding code seen *)
Definition join_code (a b : N) : N :=
  if (a =? 1) || (b =? 1) then 1 else N.max a b.

Fixpoint monitor_steps (s : table) (steps : list step) : N :=
  match steps with
  | [] => 0
  | st :: r => join_code (step_code s st) (monitor_steps (after s st) r)
  end.

Definition init_ok (c : c20_case) : bool :=
  let s := c_init c in
  snap_wf s && (t_count s =? c_count c)
  && (negb ((1 <=? c_count c) && (1 <=? c_phys c)%Z) || good s).

Definition C20_monitor (c : c20_case) : N :=
  if init_ok c then monitor_steps (c_init c) (c_steps c) else 1.
