(* Model/C26Case.v — case-file interface of C26: the case type printed by
   harness/cmd/C26, the correspondence check [C26_mismatch] (model vs
   implementation) and the property monitor [C26_monitor] (implementation
   observations only).  Definitions only. *)
From WK Require Import Base.Base Base.Bytes.
From WK Require Import Gen.Consts_C26 Model.Wire Model.Pending.
Open Scope N_scope.

(* one call of a stress run *)
Record scall := SCall {
  sc_nonce : bytes;        (* 8 bytes, unique per call *)
  sc_mode : N;             (* 0 echo, 1 handler error, 2 slow echo *)
  sc_words : N;            (* the reply asked for: "R" ‖ nonce ‖ nonce × words *)
  sc_head : bytes;         (* at the END of the case: first <= 9 bytes of the retained payload / the remote message *)
  sc_err : N;              (* error class Call returned; 0 = nil *)
  sc_len : N;              (* at the end: length of the retained payload *)
  sc_stamps : list bytes   (* at the end: the distinct 8-byte words after the head *)
}.

Inductive c26_case :=
(* DecodeHeader(enc, max) = res; reenc = EncodeHeader(decoded header) when res is Ok *)
| C26Dec (enc : bytes) (max : Z) (res : wres header) (reenc : option bytes)
(* enc = EncodeHeader(h); dec = DecodeHeader(enc, max) *)
| C26Enc (h : header) (max : Z) (enc : bytes) (dec : wres header)
(* ReadFrame over a (chunking) reader of [stream]: result, bytes consumed,
   whether any Read call was issued after a rejected header, whether the heap
   grew by a body-sized amount, EncodeHeader of the returned header *)
| C26Read (stream : bytes) (max : Z) (res : wres (header * bytes)) (consumed : N)
          (beyond : bool) (alloc_over : bool) (reenc : option bytes)
(* WriteFrames(frames, max) = res; readback = ReadFrame repeated over the written bytes *)
| C26Write (frames : list frame) (max : Z) (res : wres bytes)
           (readback : list (wres (header * bytes)))
(* rpc.NewPendingTable(nshards) driven sequentially: channel k has capacity caps[k]
   (0 = a nil / unbuffered channel); per op what the table returned; the number
   of shards allocated and shardFor(id) for a few ids *)
| C26Pend (nshards : Z) (caps : list N) (ops : list (pop * pobs))
          (shards : N) (shard_probe : list (N * N))
(* conn.Conn over a synchronous pipe with a scripted peer: per op what was
   observed; then the results of the calls still uncollected at the end *)
| C26Conn (script : list (cop * cobs)) (final : list (N * outcome))
(* transport.Client / transport.Server over loopback, concurrent calls with
   timeouts, handler errors and connection resets.  Every response is RETAINED by
   its caller and read only after all bursts and some further large traffic. *)
| C26Stress (calls : list scall).

Definition obytes_eqb : option bytes -> option bytes -> bool := option_eqb bytes_eqb.

Definition reenc_of (r : wres header) : option bytes :=
  match r with WOk h => Some (encode_header h) | WErr _ => None end.
Definition reenc_of_hb (r : wres (header * bytes)) : option bytes :=
  match r with WOk (h, _) => Some (encode_header h) | WErr _ => None end.

Definition opt_eqb {A} (eqb : A -> A -> bool) (a b : option A) : bool := option_eqb eqb a b.
Definition pobs_eqb (a b : pobs) : bool :=
  match a, b with
  | OUnit, OUnit | OPanic, OPanic => true
  | OBool x, OBool y => Bool.eqb x y
  | ONum x, ONum y => x =? y
  | ORecv x, ORecv y => opt_eqb outcome_eqb x y
  | _, _ => false
  end.

(* ---- stress runs: what a call may legitimately return -------------------------------
   the handler replies "R" ‖ nonce ‖ nonce × words (modes 0 and 2) or fails with
   "E" ‖ nonce (mode 1); a retained reply must still be exactly that at the end;
   any LOCAL error (timeout, cancellation, stop, connection loss, busy) is allowed *)
Definition E_local_min : N := 30.
Definition reply_of (nonce : bytes) : bytes := 82 :: nonce.
Definition errmsg_of (nonce : bytes) : bytes := 69 :: nonce.
Definition stress_allowed (c : scall) : bool :=
  let nonce := sc_nonce c in
  if sc_err c =? 0 then
    (* its own reply, whole, and still its own when the case ends *)
    negb (sc_mode c =? 1) && bytes_eqb (sc_head c) (reply_of nonce)
    && (sc_len c =? 9 + 8 * sc_words c)
    && forallb (bytes_eqb nonce) (sc_stamps c)
    && Nat.eqb (length (sc_stamps c)) (if sc_words c =? 0 then 0 else 1)
  else if sc_err c =? E_remote then (sc_mode c =? 1) && bytes_eqb (sc_head c) (errmsg_of nonce)
  else E_local_min <=? sc_err c.

(* ---- correspondence: the model run on the case's input vs what the code returned *)
Definition C26_mismatch (c : c26_case) : bool :=
  match c with
  | C26Dec enc max res reenc =>
      negb (wres_eqb header_eqb (decode_header enc max) res
            && obytes_eqb (reenc_of (decode_header enc max)) reenc)
  | C26Enc h max enc dec =>
      negb (bytes_eqb (encode_header h) enc
            && wres_eqb header_eqb (decode_header (encode_header h) max) dec)
  | C26Read stream max res consumed beyond alloc_over reenc =>
      let o := read_frame stream max in
      negb (wres_eqb hb_eqb (ro_res o) res && (ro_consumed o =? consumed)
            && obytes_eqb (reenc_of_hb (ro_res o)) reenc
            && Bool.eqb (ro_beyond o) beyond
            (* the heap grows by a body-sized amount only if the model reaches the
               allocator with a body-sized (validated) length; pooled buffers may not grow it *)
            && (negb alloc_over || ro_alloc_over o))
  | C26Write frames max res readback =>
      let w := write_frames frames max in
      negb (wres_eqb bytes_eqb w res
            && list_eqb (wres_eqb hb_eqb)
                 (match w with
                  | WOk b => read_frames (length frames) b max
                  | WErr _ => []
                  end) readback)
  | C26Pend nshards caps ops shards shard_probe =>
      negb (list_eqb pobs_eqb (prun caps pinit (map fst ops)) (map snd ops)
            && (shard_count nshards =? shards)
            && forallb (fun p => shard_for nshards (fst p) =? snd p) shard_probe)
  | C26Conn script final =>
      let (s, ok) := crun cinit script in negb (ok && cfinal_ok s final)
  | C26Stress calls => negb (forallb stress_allowed calls)
  end.

(* ---- the property on implementation observations alone ------------------- *)

Definition frame_ok (max : Z) (f : frame) : bool :=
  header_ok (with_bodylen (f_hdr f) (N.of_nat (length (f_body f)))) max.

Definition mon_dec (enc : bytes) (max : Z) (res : wres header) (reenc : option bytes) : bool :=
  if hdr_malformed enc max then is_err res
  else match res with
       | WOk _ => obytes_eqb reenc (Some (firstn header_size enc))
       | WErr _ => false
       end.

Definition mon_enc (h : header) (max : Z) (enc : bytes) (dec : wres header) : bool :=
  Nat.eqb (length enc) header_size &&
  (if header_ok h max then wres_eqb header_eqb dec (WOk h) else is_err dec).

Definition mon_read (stream : bytes) (max : Z) (res : wres (header * bytes)) (consumed : N)
           (beyond alloc_over : bool) (reenc : option bytes) : bool :=
  match res with
  | WErr e =>
      (* a rejected header: nothing read past it, no body-sized allocation *)
      (if validation_error e then (consumed <=? HeaderSize) && negb beyond && negb alloc_over
       else true)
      (* and a malformed header is never accepted nor read past *)
      && (if Nat.leb header_size (length stream) && hdr_malformed (firstn header_size stream) max
          then validation_error e && (consumed =? HeaderSize) else true)
  | WOk (h, body) =>
      negb (hdr_malformed (firstn header_size stream) max)
      && obytes_eqb reenc (Some (firstn header_size stream))
      && bytes_eqb body (slice header_size (N.to_nat (h_bodylen h)) stream)
      && (N.of_nat (length body) =? h_bodylen h)
      && negb (body_exceeds_max (h_bodylen h) max)
      && (consumed =? HeaderSize + h_bodylen h)
  end.

Definition mon_write (frames : list frame) (max : Z) (res : wres bytes)
           (readback : list (wres (header * bytes))) : bool :=
  if forallb (frame_ok max) frames
  then match res with
       | WOk _ => list_eqb (wres_eqb hb_eqb) readback (written_frames frames)
       | WErr _ => false
       end
  else is_err res.

(* -- (b) the pending table: a response reaches only the channel registered for
   its id.  A checker over the implementation's observations: [owner] is what the
   Store/Delete calls and the observed Complete results say is registered,
   [mail] the messages addressed to each channel and not yet received. *)
Record pm_state := PM { pm_owner : list (N * N); pm_mail : list (N * outcome);
                        pm_closed : bool; pm_close_err : N }.

Fixpoint take_mail (c : N) (l : list (N * outcome)) : option outcome * list (N * outcome) :=
  match l with
  | [] => (None, [])
  | x :: r => if fst x =? c then (Some (snd x), r)
              else let (m, r') := take_mail c r in (m, x :: r')
  end.

(* deliver unless the channel buffer is full (the documented drop) *)
Definition post (caps : list N) (c : N) (o : outcome) (mail : list (N * outcome)) : list (N * outcome) :=
  if count_chan c mail <? cap_of caps c then mail ++ [(c, o)] else mail.

Definition pm_step (caps : list N) (s : pm_state) (oo : pop * pobs) : pm_state * bool :=
  match oo with
  | (PStore id c, ob) =>
      if cap_of caps c =? 0 then (s, match ob with OPanic => true | _ => false end)
      else if pm_closed s
      then (PM (pm_owner s) (post caps c ([], pm_close_err s) (pm_mail s)) true (pm_close_err s),
            match ob with OUnit => true | _ => false end)
      else (PM ((id, c) :: remove_id id (pm_owner s)) (pm_mail s) false (pm_close_err s),
            match ob with OUnit => true | _ => false end)
  | (PDelete id, ob) =>
      (PM (remove_id id (pm_owner s)) (pm_mail s) (pm_closed s) (pm_close_err s),
       match ob with OUnit => true | _ => false end)
  | (PComplete id p e, ob) =>
      match lookup id (pm_owner s), ob with
      | Some c, OBool true =>
          (PM (remove_id id (pm_owner s)) (post caps c (p, e) (pm_mail s)) (pm_closed s) (pm_close_err s), true)
      | None, OBool false => (s, true)
      | _, _ => (s, false)
      end
  | (PFailAll e, ob) =>
      (PM [] (fold_left (fun m ic => post caps (snd ic) ([], e) m) (pm_owner s) (pm_mail s)) true
          (if pm_closed s then pm_close_err s else e),
       match ob with OUnit => true | _ => false end)
  | (PLen, ob) => (s, match ob with ONum n => n =? N.of_nat (length (pm_owner s)) | _ => false end)
  | (PRecv c, ob) =>
      let (m, rest) := take_mail c (pm_mail s) in
      (PM (pm_owner s) rest (pm_closed s) (pm_close_err s),
       match ob with ORecv x => opt_eqb outcome_eqb x m | _ => false end)
  end.

Fixpoint pm_run (caps : list N) (s : pm_state) (l : list (pop * pobs)) : bool :=
  match l with
  | [] => true
  | oo :: r => let (s', ok) := pm_step caps s oo in ok && pm_run caps s' r
  end.

Definition mon_pend (caps : list N) (ops : list (pop * pobs)) : bool :=
  pm_run caps (PM [] [] false 0) ops.

(* -- (b) conn level: a call that returns a peer-originated result (a payload or a
   remote error) returns what the peer wrote for the request id that carried this
   call's request; request ids on the wire are pairwise distinct. *)
Fixpoint reads_of (script : list (cop * cobs)) : list (N * N) :=   (* call k -> request id read by the peer *)
  match script with
  | [] => []
  | (CStart k _, CoRead r _) :: rest => (k, r) :: reads_of rest
  | _ :: rest => reads_of rest
  end.
Fixpoint writes_of (script : list (cop * cobs)) : list (N * outcome) :=   (* request id -> result it encodes *)
  match script with
  | [] => []
  | (CRespond r st p, CoWrite true) :: rest => (r, response_msg r (Some (st, p))) :: writes_of rest
  | (CRespondEmpty r, CoWrite true) :: rest => (r, response_msg r None) :: writes_of rest
  | _ :: rest => writes_of rest
  end.
Fixpoint results_of (script : list (cop * cobs)) : list (N * outcome) :=
  match script with
  | [] => []
  | (CStart k _, CoOutcome p e) :: rest | (CStartCanceled k _, CoOutcome p e) :: rest
  | (CCancel k, CoOutcome p e) :: rest | (CAwait k, CoOutcome p e) :: rest => (k, (p, e)) :: results_of rest
  | _ :: rest => results_of rest
  end.
Fixpoint request_echo_ok (script : list (cop * cobs)) : bool :=     (* the request frame carries the caller's payload *)
  match script with
  | [] => true
  | (CStart _ p, CoRead _ q) :: rest => bytes_eqb p q && request_echo_ok rest
  | _ :: rest => request_echo_ok rest
  end.
Fixpoint nodup_N (l : list N) : bool :=
  match l with [] => true | x :: r => negb (existsb (N.eqb x) r) && nodup_N r end.

Definition peer_originated (o : outcome) : bool :=
  (snd o =? 0) || (snd o =? E_remote) || (snd o =? E_remote_notfound).

Definition own_response (reads : list (N * N)) (writes : list (N * outcome)) (ko : N * outcome) : bool :=
  if peer_originated (snd ko)
  then existsb (fun kr => (fst kr =? fst ko)
                          && existsb (fun w => (fst w =? snd kr) && outcome_eqb (snd w) (snd ko)) writes) reads
  else true.

Definition mon_conn (script : list (cop * cobs)) (final : list (N * outcome)) : bool :=
  let reads := reads_of script in
  let writes := writes_of script in
  nodup_N (map snd reads) && request_echo_ok script
  && forallb (own_response reads writes) (results_of script ++ final).

Definition C26_monitor (c : c26_case) : N :=
  match c with
  | C26Dec enc max res reenc => if mon_dec enc max res reenc then 0 else 1
  | C26Enc h max enc dec => if mon_enc h max enc dec then 0 else 1
  | C26Read stream max res consumed beyond alloc_over reenc =>
      if mon_read stream max res consumed beyond alloc_over reenc then 0 else 1
  | C26Write frames max res readback => if mon_write frames max res readback then 0 else 1
  | C26Pend _ caps ops _ _ => if mon_pend caps ops then 0 else 1
  | C26Conn script final => if mon_conn script final then 0 else 1
  | C26Stress calls => if forallb stress_allowed calls then 0 else 1
  end.
