(* Model/C26Case.v — case-file interface of C26: the case type printed by
   harness/cmd/C26, the correspondence check [C26_mismatch] (model vs
   implementation) and the property monitor [C26_monitor] (implementation
   observations only).  Definitions only. *)
From WK Require Import Base.Base Base.Bytes.
From WK Require Import Gen.Consts_C26 Model.Wire.
Open Scope N_scope.

Inductive c26_case :=
(* DecodeHeader(enc, max) = res; reenc = EncodeHeader(decoded header) when res is Ok *)
| C26Dec (enc : bytes) (max : Z) (res : wres header) (reenc : option bytes)
(* enc = EncodeHeader(h); dec = DecodeHeader(enc, max) *)
| C26Enc (h : header) (max : Z) (enc : bytes) (dec : wres header)
(* ReadFrame over a (chunking) reader of [stream]: result, bytes consumed,
   whether any Read call was issued after a rejected header, whether the heap
   grew by a body-sized amount, EncodeHeader of the returned header *)
| C26Read (stream : bytes) (max : Z) (res : wres (header * bytes)) (consumed : N)
          (beyond : bool) (alloc_over : bool) (reenc : option bytes)
(* WriteFrames(frames, max) = res; readback = ReadFrame repeated over the written bytes *)
| C26Write (frames : list frame) (max : Z) (res : wres bytes)
           (readback : list (wres (header * bytes))).

Definition obytes_eqb : option bytes -> option bytes -> bool := option_eqb bytes_eqb.

Definition reenc_of (r : wres header) : option bytes :=
  match r with WOk h => Some (encode_header h) | WErr _ => None end.
Definition reenc_of_hb (r : wres (header * bytes)) : option bytes :=
  match r with WOk (h, _) => Some (encode_header h) | WErr _ => None end.

(* ---- correspondence: the model run on the case's input vs what the code returned *)
Definition C26_mismatch (c : c26_case) : bool :=
  match c with
  | C26Dec enc max res reenc =>
      negb (wres_eqb header_eqb (decode_header enc max) res
            && obytes_eqb (reenc_of (decode_header enc max)) reenc)
  | C26Enc h max enc dec =>
      negb (bytes_eqb (encode_header h) enc
            && wres_eqb header_eqb (decode_header (encode_header h) max) dec)
  | C26Read stream max res consumed beyond alloc_over reenc =>
      let o := read_frame stream max in
      negb (wres_eqb hb_eqb (ro_res o) res && (ro_consumed o =? consumed)
            && obytes_eqb (reenc_of_hb (ro_res o)) reenc
            && Bool.eqb (ro_beyond o) beyond
            (* the heap grows by a body-sized amount only if the model reaches the
               allocator with a body-sized (validated) length; pooled buffers may not grow it *)
            && (negb alloc_over || ro_alloc_over o))
  | C26Write frames max res readback =>
      let w := write_frames frames max in
      negb (wres_eqb bytes_eqb w res
            && list_eqb (wres_eqb hb_eqb)
                 (match w with
                  | WOk b => read_frames (length frames) b max
                  | WErr _ => []
                  end) readback)
  end.

(* ---- the property on implementation observations alone ------------------- *)

Definition frame_ok (max : Z) (f : frame) : bool :=
  header_ok (with_bodylen (f_hdr f) (N.of_nat (length (f_body f)))) max.

Definition mon_dec (enc : bytes) (max : Z) (res : wres header) (reenc : option bytes) : bool :=
  if hdr_malformed enc max then is_err res
  else match res with
       | WOk _ => obytes_eqb reenc (Some (firstn header_size enc))
       | WErr _ => false
       end.

Definition mon_enc (h : header) (max : Z) (enc : bytes) (dec : wres header) : bool :=
  Nat.eqb (length enc) header_size &&
  (if header_ok h max then wres_eqb header_eqb dec (WOk h) else is_err dec).

Definition mon_read (stream : bytes) (max : Z) (res : wres (header * bytes)) (consumed : N)
           (beyond alloc_over : bool) (reenc : option bytes) : bool :=
  match res with
  | WErr e =>
      (* a rejected header: nothing read past it, no body-sized allocation *)
      (if validation_error e then (consumed <=? HeaderSize) && negb beyond && negb alloc_over
       else true)
      (* and a malformed header is never accepted nor read past *)
      && (if Nat.leb header_size (length stream) && hdr_malformed (firstn header_size stream) max
          then validation_error e && (consumed =? HeaderSize) else true)
  | WOk (h, body) =>
      negb (hdr_malformed (firstn header_size stream) max)
      && obytes_eqb reenc (Some (firstn header_size stream))
      && bytes_eqb body (slice header_size (N.to_nat (h_bodylen h)) stream)
      && (N.of_nat (length body) =? h_bodylen h)
      && negb (body_exceeds_max (h_bodylen h) max)
      && (consumed =? HeaderSize + h_bodylen h)
  end.

Definition mon_write (frames : list frame) (max : Z) (res : wres bytes)
           (readback : list (wres (header * bytes))) : bool :=
  if forallb (frame_ok max) frames
  then match res with
       | WOk _ => list_eqb (wres_eqb hb_eqb) readback (written_frames frames)
       | WErr _ => false
       end
  else is_err res.

Definition C26_monitor (c : c26_case) : N :=
  match c with
  | C26Dec enc max res reenc => if mon_dec enc max res reenc then 0 else 1
  | C26Enc h max enc dec => if mon_enc h max enc dec then 0 else 1
  | C26Read stream max res consumed beyond alloc_over reenc =>
      if mon_read stream max res consumed beyond alloc_over reenc then 0 else 1
  | C26Write frames max res readback => if mon_write frames max res readback then 0 else 1
  end.
