(* Model/CtrlFSM_C18.v — case record, scenario runner, mismatch and monitor of C18.

   A case holds a command log (strictly increasing Raft indices), the observations of the
   reference run (the log applied one entry per ApplyBatch on a fresh machine) and of
   every scenario (the same log on another fresh machine with its own batch partition,
   injected store failures and restarts that replay from an earlier log position).

   [monitor_gen] is the property, generic in the type of observed states so that the
   same function is (a) evaluated on the implementation's observations ([C18_monitor],
   states are references into the case's table) and (b) the conclusion of the theorems
   about the model ([Proof/CtrlFSM_frame.v], states are model states).  It says:
     reference run (one entry at a time):
       - every result is exactly one of Changed / Updated / Noop / Rejected;
       - Noop and Rejected leave the state untouched (but for the applied index);
       - Changed raises the revision by exactly one; Updated keeps revision and logical state;
       - before init nothing is persisted and nothing but a successful init changes the state;
       - every published / persisted state passes Validate and carries its checksum,
         published = persisted = FinalState, applied index = max(previous, entry index);
     every scenario:
       - after every step the published and the persisted state are the reference states
         of the log prefix they contain (any batch partition, any failed Save, any restart);
       - every entry's result is the reference result, except re-applied entries after init,
         which are already_applied no-ops that change nothing. *)
From WK Require Import Base.Base.
From WK Require Import Gen.Consts_C18 Model.CtrlFSM.
Open Scope N_scope.

Definition TSums_eqb : list TSum -> list TSum -> bool := list_eqb TSum_eqb.
Definition Result_eqb (a b : Result) : bool :=
  (r_class a =? r_class b) && bytes_eqb (r_reason a) (r_reason b) && (r_rev a =? r_rev b)
  && (r_applied a =? r_applied b) && TSums_eqb (r_trans a) (r_trans b) && (r_tid a =? r_tid b).

(* ---- observations, generic in the observed-state type ------------------------------- *)

Section Obs.
  Context {Ob : Type}.

  (* one step of a run.  st_kind 0: ApplyBatch of the next st_n entries with store mode st_mode;
     st_kind 1: restart, the replay cursor becomes st_n. *)
  Record Step := ST {
    st_kind : N; st_n : N; st_mode : N;
    st_results : list Result;      (* BatchApplyResult.Results *)
    st_err : bool;                 (* ApplyBatch / Load returned an error *)
    st_final : option Ob;           (* BatchApplyResult.FinalState when no error *)
    st_saved : option Ob;           (* the value handed to Store.Save, if Save was called *)
    st_pub : Ob;                    (* StateMachine.Snapshot after the step *)
    st_store : option Ob;           (* what the store holds after the step *)
    st_degraded : bool }.

  Variable o_rev o_applied : Ob -> N.
  Variable o_valid o_ckok : Ob -> bool.
  (* equal; equal but for applied index and checksum; equal but for those and the health reports *)
  Variable o_eq o_body_eq o_logical_eq : Ob -> Ob -> bool.

  Definition oo_eq (a : option Ob) (b : Ob) : bool :=
    match a with Some x => o_eq x b | None => false end.
  Definition oo_none (a : option Ob) : bool := match a with None => true | Some _ => false end.

  (* ---- the reference run: the handler contract observed entry by entry ---- *)

  Definition check_ref_step (pre : Ob) (idx : N) (s : Step) : bool :=
    (st_kind s =? 0) && (st_n s =? 1) && (st_mode s =? 0) && negb (st_err s) && negb (st_degraded s)
    && match st_results s with
       | [r] =>
         let post := st_pub s in
         (r_rev r =? o_rev post) && oo_eq (st_final s) post
         && (if o_rev post =? 0
             then o_eq post pre && oo_none (st_store s) && oo_none (st_saved s)
                  && (r_applied r =? (if r_class r =? cRejected then idx else o_applied post))
             else o_valid post && o_ckok post && (r_applied r =? o_applied post)
                  && (o_applied post =? N.max (o_applied pre) idx)
                  && oo_eq (st_store s) post && oo_eq (st_saved s) post)
         && (if (r_class r =? cNoop) || (r_class r =? cRejected) then o_body_eq post pre
             else if r_class r =? cChanged then o_rev post =? o_rev pre + 1
             else if r_class r =? cUpdated then (o_rev post =? o_rev pre) && o_logical_eq post pre
             else false)
       | _ => false
       end.

  Fixpoint check_ref (pre : Ob) (idxs : list N) (ref : list Step) : bool :=
    match idxs, ref with
    | [], [] => true
    | idx :: idxs', s :: ref' => check_ref_step pre idx s && check_ref (st_pub s) idxs' ref'
    | _, _ => false
    end.

  (* ---- scenarios against the reference ---- *)

  Variable init : Ob.             (* a fresh machine's state *)
  Variable states : list Ob.      (* S_0 .. S_n of the reference run *)
  Variable results : list Result. (* r_0 .. r_{n-1} of the reference run *)

  Definition Sk (k : N) : Ob := nth (N.to_nat k) states init.
  Definition Rk (k : N) : Result := nth (N.to_nat k) results no_outcome.

  Definition expected_store (k : N) (a : option Ob) : bool :=
    if o_rev (Sk k) =? 0 then oo_none a else oo_eq a (Sk k).

  (* the result entry k must have when applied to a machine whose state is S_h *)
  Definition expected_result (h k : N) : Result :=
    if (k <? h) && negb (o_rev (Sk h) =? 0)
    then Rs cNoop ReasonAlreadyApplied (o_rev (Sk h)) (o_applied (Sk h)) [] 0
    else Rk k.

  Fixpoint expected_results (h c : N) (n : nat) : list Result :=
    match n with
    | O => []
    | S n' => expected_result h c :: expected_results h (c + 1) n'
    end.

  Record Track := TRK { tr_c : N; tr_h : N; tr_hs : N }.

  (* one step: the new tracking state, or None when the observation contradicts the reference *)
  Definition check_step (len : N) (t : Track) (s : Step) : option Track :=
    let c := tr_c t in let h := tr_h t in let hs := tr_hs t in
    if st_kind s =? 0 then
      let n := st_n s in
      let h' := N.max h (c + n) in
      let T := Sk h' in
      let failing := negb (st_mode s =? 0) && negb (o_rev T =? 0) in
      if negb (c + n <=? len) then None
      else if negb (list_eqb Result_eqb (st_results s) (expected_results h c (N.to_nat n))) then None
      else if negb failing then
        if negb (st_err s) && negb (st_degraded s) && o_eq (st_pub s) T && oo_eq (st_final s) T
           && (if o_rev T =? 0 then oo_none (st_saved s) else oo_eq (st_saved s) T)
           && expected_store h' (st_store s)
        then Some (TRK (c + n) h' h') else None
      else
        let hs' := if st_mode s =? 1 then hs else h' in
        if st_err s && st_degraded s && o_eq (st_pub s) (Sk h) && oo_none (st_final s)
           && oo_eq (st_saved s) T && expected_store hs' (st_store s)
        then Some (TRK c h hs') else None
    else
      let c' := st_n s in
      if (c' <=? hs) && negb (st_err s) && negb (st_degraded s) && o_eq (st_pub s) (Sk hs)
         && expected_store hs (st_store s) && is_empty (st_results s)
      then Some (TRK c' hs hs) else None.

  Fixpoint check_steps (len : N) (t : Track) (ss : list Step) : bool :=
    match ss with
    | [] => true
    | s :: r => match check_step len t s with
                | Some t' => check_steps len t' r
                | None => false
                end
    end.

  Definition check_scen (len : N) (ss : list Step) : bool := check_steps len (TRK 0 0 0) ss.
End Obs.

Arguments Step : clear implicits.
Arguments ST {Ob}.

(* ---- a run of the frame along a scenario ------------------------------------------------ *)

(* what a scenario asks for: ApplyBatch of the next n entries with a store mode, or a restart
   whose replay starts at log position c' *)
Inductive cmdstep := CBatch (n mode : N) | CRestart (c' : N).

Definition take_entries {E} (log : list E) (c n : N) : list E :=
  firstn (N.to_nat n) (skipn (N.to_nat c) log).

Section Run.
  Context {St C : Type}.
  Variable revision applied : St -> N.
  Variable set_app : St -> N -> St.
  Variable set_ck : St -> bytes -> St.
  Variable mutate : St -> N -> N -> C -> St * Result.
  Variable ck : St -> bytes.
  Variable empty : St.
  Variable log : list (N * N * C).

  Definition batch_step (m : Machine St) (cursor n mode : N) : Machine St * Step St :=
    let '(m', out) := ApplyBatch revision applied set_app set_ck mutate ck m mode (take_entries log cursor n) in
    (m', ST 0 n mode (bo_results out) (bo_err out) (bo_final out) (bo_saved out)
            (m_state m') (m_store m') (m_degraded m')).

  Definition restart_step (m : Machine St) (c' : N) : Machine St * Step St :=
    let m' := restart empty m in
    (m', ST 1 c' 0 [] false None None (m_state m') (m_store m') (m_degraded m')).

  (* the observations of the machine along the scenario; a failed batch does not move the cursor *)
  Fixpoint run_cmds (m : Machine St) (cursor : N) (cmds : list cmdstep) : list (Step St) :=
    match cmds with
    | [] => []
    | CBatch n mode :: r =>
      let '(m', o) := batch_step m cursor n mode in
      o :: run_cmds m' (if st_err o then cursor else cursor + n) r
    | CRestart c' :: r =>
      let '(m', o) := restart_step m c' in
      o :: run_cmds m' c' r
    end.
End Run.

(* the scenario a list of observed steps followed *)
Definition cmds_of_steps {Ob} (ss : list (Step Ob)) : list cmdstep :=
  map (fun s => if st_kind s =? 0 then CBatch (st_n s) (st_mode s) else CRestart (st_n s)) ss.

(* the property on one case's observations *)
Definition monitor_gen {O} (o_rev o_applied : O -> N) (o_valid o_ckok : O -> bool)
           (o_eq o_body_eq o_logical_eq : O -> O -> bool)
           (init : O) (idxs : list N) (ref : list (Step O)) (scens : list (list (Step O))) : bool :=
  let states := init :: map st_pub ref in
  let results := map (fun s => hd no_outcome (st_results s)) ref in
  check_ref o_rev o_applied o_valid o_ckok o_eq o_body_eq o_logical_eq init idxs ref
  && forallb (check_scen o_rev o_applied o_eq init states results (lenN idxs)) scens.

(* ---- the case ------------------------------------------------------------------------- *)

(* case-file shorthand for long strings: n times byte b, then rest *)
Definition rp (n b : N) (rest : bytes) : bytes := repeat b (N.to_nat n) ++ rest.

(* an observed state: index of its body (applied index and checksum blanked) in the case's
   table, applied index, checksum string, and what the implementation says about it:
   Validate() == nil and Checksum(st) == st.Checksum *)
Record sref := SR { sr_body : N; sr_applied : N; sr_ck : bytes; sr_valid : bool; sr_ckok : bool }.

(* a step as printed by the harness: observed states and results are indexes into the case's
   tables ([c_srefs], [c_results]); for optional states 0 = none, i+1 = entry i *)
Record RawStep := SO {
  rs_kind : N; rs_n : N; rs_mode : N; rs_results : list N; rs_err : bool;
  rs_final : N; rs_saved : N; rs_pub : N; rs_store : N; rs_degraded : bool }.

Record c18_case := C18Case {
  c_bodies : list CState;
  c_srefs : list sref;
  c_results : list Result;
  c_init_id : N;
  c_log : list Entry;
  c_ref_raw : list RawStep;
  c_scens_raw : list (list RawStep) }.

Definition bad_sref : sref := SR 0 0 [] false false.
Definition sref_at (c : c18_case) (i : N) : sref := nth (N.to_nat i) (c_srefs c) bad_sref.
Definition osref_at (c : c18_case) (k : N) : option sref := if k =? 0 then None else Some (sref_at c (k - 1)).
Definition result_at (c : c18_case) (i : N) : Result := nth (N.to_nat i) (c_results c) (Rs 9 [] 0 0 [] 0).
Definition decode_step (c : c18_case) (r : RawStep) : Step sref :=
  ST (rs_kind r) (rs_n r) (rs_mode r) (map (result_at c) (rs_results r)) (rs_err r)
     (osref_at c (rs_final r)) (osref_at c (rs_saved r)) (sref_at c (rs_pub r)) (osref_at c (rs_store r)) (rs_degraded r).
Definition c_init (c : c18_case) : sref := sref_at c (c_init_id c).
Definition c_ref (c : c18_case) : list (Step sref) := map (decode_step c) (c_ref_raw c).
Definition c_scens (c : c18_case) : list (list (Step sref)) := map (map (decode_step c)) (c_scens_raw c).

Definition body_of (c : c18_case) (r : sref) : CState := nth (N.to_nat (sr_body r)) (c_bodies c) empty_state.
Definition resolve (c : c18_case) (r : sref) : CState :=
  set_checksum (set_applied (body_of c r) (sr_applied r)) (sr_ck r).

Definition sref_eq (c : c18_case) (a b : sref) : bool :=
  CState_body_eqb (body_of c a) (body_of c b) && (sr_applied a =? sr_applied b) && bytes_eqb (sr_ck a) (sr_ck b).
Definition sref_body_eq (c : c18_case) (a b : sref) : bool := CState_body_eqb (body_of c a) (body_of c b).
Definition sref_logical_eq (c : c18_case) (a b : sref) : bool :=
  CState_body_eqb (set_health (body_of c a) []) (set_health (body_of c b) []).

(* 0 = the property holds on the implementation's observations, 1 = violated *)
Definition C18_monitor (c : c18_case) : N :=
  if monitor_gen (fun r => s_rev (body_of c r)) sr_applied sr_valid sr_ckok
                 (sref_eq c) (sref_body_eq c) (sref_logical_eq c)
                 (c_init c) (map e_idx (c_log c)) (c_ref c) (c_scens c)
  then 0 else 1.

(* ---- the model run on the same steps ---------------------------------------------------- *)

(* state.Checksum is not modelled: the model leaves the checksum of saved states empty and
   states are compared but for that field *)
Definition ck0 (_ : CState) : bytes := [].

Definition ostate_matches (c : c18_case) (m : option CState) (o : option sref) : bool :=
  match m, o with
  | None, None => true
  | Some s, Some r => CState_body_eqb s (resolve c r)
  | _, _ => false
  end.

Definition results_match (a b : list Result) : bool :=
  list_eqb (fun x y => (r_class x =? r_class y) && bytes_eqb (r_reason x) (r_reason y) && (r_rev x =? r_rev y)
                       && (r_applied x =? r_applied y) && TSums_eqb (r_trans x) (r_trans y)) a b.

Definition step_matches (c : c18_case) (m : Step CState) (o : Step sref) : bool :=
  (st_kind m =? st_kind o) && (st_n m =? st_n o) && (st_mode m =? st_mode o)
  && results_match (st_results m) (st_results o)
  && Bool.eqb (st_err m) (st_err o)
  && ostate_matches c (st_final m) (st_final o)
  && ostate_matches c (st_saved m) (st_saved o)
  && CState_body_eqb (st_pub m) (resolve c (st_pub o))
  && ostate_matches c (st_store m) (st_store o)
  && Bool.eqb (st_degraded m) (st_degraded o).

(* the model's observations along the scenario the implementation followed *)
Definition model_steps (c : c18_case) (ss : list (Step sref)) : list (Step CState) :=
  run_cmds s_rev s_applied set_applied set_checksum applyMutation ck0 empty_state
           (map entry_tuple (c_log c)) c_fresh 0 (cmds_of_steps ss).

Fixpoint all2 {A B} (f : A -> B -> bool) (a : list A) (b : list B) : bool :=
  match a, b with
  | [], [] => true
  | x :: a', y :: b' => f x y && all2 f a' b'
  | _, _ => false
  end.

Definition model_agrees (c : c18_case) (ss : list (Step sref)) : bool :=
  all2 (step_matches c) (model_steps c ss) ss.

Definition C18_mismatch (c : c18_case) : bool :=
  negb (CState_body_eqb empty_state (resolve c (c_init c))
        && model_agrees c (c_ref c)
        && forallb (model_agrees c) (c_scens c)).
