(* Model/GatewaySend.v — pkg/gateway/core sendExecutor (async_send.go) with the
   parts of server.go / session.go / workqueue.ShardedMailbox it drives, as a
   TRANSITION SYSTEM over the code's own lock-protected / atomic steps.

   threads                      atomic steps (one [ev] each)
   -------                      ---------------------------
   submitter of session s       dispatchSendFrameAsync -> sendExecutor.submit:
     (onData holds inboundMu:     SGate         admissionMu{ closed? ; admitted.Add(1) }
      one submitter per session)  SReserve      queueMu{ queued >= capacity ? ; queued++ }
                                  SReserveShard CAS loop on shardQueued[shard]
                                  SEnqueue      ShardedMailbox.SubmitHash: shard.mu{ closed? full? ; queue <- ; scheduled }
                                  SUndoShard / SUndoQueue / SUndoAdm   the roll-back calls
                                  SReject       state.close(AsyncDispatchQueueFull)
   drain worker of shard k      ShardedMailbox.drainScheduledShard + handleMailboxBatch:
                                  WPending -> WNext (nextItem) -> WCollect (collectBatch)
                                  -> WConsumeShard -> WConsume -> dispatchMailboxBatch (the
                                  pure splitter [split]) -> per sub-batch WDisp (the
                                  SendBatchHandler writes one SENDACK per item, in item order,
                                  or returns an error: WErr = handleHandlerError closing the
                                  batch's sessions) -> WComplete (one completeAdmission per
                                  item) -> WNext ... -> WFinish (finishShardDrain)
   DrainSends / stop caller d   DSet (admissionMu{closed := true}) -> DOnce (drainOnce)
                                  -> DWait (select drained / ctx.Done)
   drain waiter                 admitted.Wait(); close(drained)
   mailbox closer               <-drained; mailbox.Close; resetDepths
   session close, outbound push session.Close / session.WriteFrame under writeMu

   Every event ticks one logical clock; the observable HISTORY (the record
   [hist]) is what the harness records on the real server with one global
   atomic ticket, and [C28_monitor] is evaluated on it.

   Not modelled: the Workers bound on concurrently draining shards (removes
   behaviours only), ants pool overload retries, the reply token, metrics. *)
From WK Require Import Base.Base.
Open Scope N_scope.

(* ---- the pure splitter: dispatchMailboxBatch --------------------------------- *)

(* items are payload byte counts; the result lists the sub-batches handed to
   dispatchBatchSafely, in call order.  [go cur cb rest]: cur = items[start:i]
   (in order), cb = byteCount. *)
Section Split.
  Context {A : Type} (size : A -> N) (maxrec : nat) (maxbytes : N).

  Fixpoint split_go (cur : list A) (cb : N) (items : list A) : list (list A) :=
    match items with
    | [] => match cur with [] => [] | _ => [cur] end
    | x :: r =>
        let tb := size x in
        (* if i > start && maxBytes > 0 && byteCount+taskBytes > maxBytes: flush *)
        let flush := match cur with [] => false | _ => (0 <? maxbytes) && (maxbytes <? cb + tb) end in
        let pre := if flush then [cur] else [] in
        let cur1 := if flush then [] else cur in
        let cb1 := if flush then 0 else cb in
        let cur2 := cur1 ++ [x] in
        let cb2 := cb1 + tb in
        (* if i-start+1 >= maxRecords: flush including x *)
        if (maxrec <=? length cur2)%nat
        then pre ++ [cur2] ++ split_go [] 0 r
        else pre ++ split_go cur2 cb2 r
    end.
End Split.

(* limits.maxRecords <= 0 is replaced by 1 *)
Definition eff_maxrec (m : nat) : nat := match m with O => 1%nat | _ => m end.

Definition split {A} (size : A -> N) (maxrec : nat) (maxbytes : N) (items : list A) : list (list A) :=
  split_go size (eff_maxrec maxrec) maxbytes [] 0 items.

Definition sumN (l : list N) : N := fold_right N.add 0 l.

(* ---- configuration ----------------------------------------------------------- *)

Record cfg := Cfg {
  c_nsess : nat;         (* sessions 0 .. nsess-1 exist (session id = index) *)
  c_shards : nat;        (* e.shards *)
  c_cap : N;             (* e.capacity *)
  c_shardcap : N;        (* e.shardCapacity = mailbox QueueSizePerShard *)
  c_maxrec : nat;        (* limits.maxRecords = mailbox BatchMaxItems *)
  c_maxbytes : N;        (* limits.maxBytes *)
  c_closeonerr : bool;   (* DefaultSession.CloseOnHandlerError *)
  c_batch : bool }.      (* the handler implements SendBatchHandler *)

(* asyncSendLogicalShardCount / asyncSendShardCapacity (positive inputs:
   NormalizeRuntimeOptions has replaced non-positive values) *)
Definition logical_shard_count (per_worker workers cap : N) : N :=
  if workers =? 1 then 1
  else if workers <=? cap / per_worker then workers * per_worker else cap.
Definition shard_capacity (cap shards : N) : N :=
  let c := (cap + shards - 1) / shards in if c =? 0 then 1 else c.

Definition shard_of (c : cfg) (s : nat) : nat := Nat.modulo s (c_shards c).

(* the units handed to the handler for one mailbox batch: dispatchMailboxBatch's
   sub-batches when the handler is a SendBatchHandler; otherwise dispatchBatch
   falls back to one dispatchFrame (+ its own handleHandlerError) per task,
   i.e. singleton units *)
Definition units {A} (c : cfg) (size : A -> N) (items : list A) : list (list A) :=
  if c_batch c then split size (c_maxrec c) (c_maxbytes c) items
  else map (fun x => [x]) items.

(* ---- tasks, histories --------------------------------------------------------- *)

Record task := T { t_s : nat; t_q : N; t_b : N }.   (* session, ClientSeq, payload bytes *)

(* one SEND frame handed to dispatchSendFrameAsync: [t0,t1] contains the call *)
Record hsend := HSend { hs_s : nat; hs_q : N; hs_b : N; hs_t0 : N; hs_t1 : N; hs_acc : bool }.
(* one item the handler is finished with (acked, write failed, or given up by
   an error/panic return); hd_t is not earlier than that moment *)
Record hdisp := HDisp { hd_s : nat; hd_q : N; hd_t : N }.
Record hdrain := HDrain { hr_t0 : N; hr_t1 : N; hr_ok : bool }.
(* a WriteFrame call by writer w > 0 (not a SENDACK) *)
Record hissue := HIssue { hi_s : nat; hi_w : N; hi_tag : N; hi_t0 : N; hi_t1 : N; hi_ok : bool }.
(* one frame written to the transport of session hw_s, stamped under the
   session's write lock; hw_w = 0: SENDACK with ClientSeq = hw_tag *)
Record hwire := HWire { hw_s : nat; hw_w : N; hw_tag : N; hw_t : N }.

Record hist := Hist {
  h_sends : list hsend;    (* per session in issue order *)
  h_disps : list hdisp;
  h_drains : list hdrain;
  h_issues : list hissue;
  h_wire : list hwire;     (* per session in transport order *)
  h_closed : nat -> bool }.   (* session closed at the end of the history *)

(* ---- program counters ----------------------------------------------------------- *)

Inductive spc :=
| SIdle
| SGate (q b t0 : N)
| SReserve (q b t0 : N)
| SReserveShard (q b t0 : N)
| SEnqueue (q b t0 : N)
| SUndoShard (q b t0 : N)
| SUndoQueue (q b t0 : N)
| SUndoAdm (q b t0 : N)
| SReject (q b t0 : N).

Inductive wpc :=
| WIdle
| WPending
| WNext
| WCollect (items : list task)
| WConsumeShard (items : list task)
| WConsume (items : list task)
| WDisp (n : N) (cur curall : list task) (rest : list (list task))
| WErr (n : N) (toclose : list nat) (cur : list task) (rest : list (list task))
| WComplete (r : N)
| WFinish.

Inductive dpc :=
| DIdle
| DSet (t0 : N) (stop : bool)
| DOnce (t0 : N) (stop : bool)
| DWait (t0 : N) (stop : bool).

Inductive choice := CGo | CStop | CFail | CPanic.

Inductive ev :=
| ESend (s : nat) (b : N)            (* a SEND frame of b payload bytes reaches dispatchSendFrameAsync *)
| ESub (s : nat)                     (* next atomic step of session s's submitter *)
| EWork (k : nat) (c : choice)       (* next atomic step of shard k's drain worker / handler *)
| EDrainCall (d : nat) (stop : bool) (* DrainSends (stop = false) or sendExecutor.stop *)
| EDrain (d : nat) (timeout : bool)  (* next step of caller d; timeout = its context is done *)
| EWaiter
| ECloser
| EClose (s : nat)                   (* session s closes (peer, idle, server) *)
| EPush (s : nat) (w tag : N).       (* writer w > 0 calls session.WriteFrame *)

Record state := St {
  now : N;
  closed : bool;             (* e.closed *)
  admitted : N;              (* e.admitted (WaitGroup counter) *)
  queued : N;                (* e.queued *)
  shq : nat -> N;            (* e.shardQueued *)
  mbox : nat -> list task;   (* shard.queue *)
  mclosed : bool;            (* mailbox closed *)
  dstarted : bool;           (* drainOnce done *)
  drained : bool;            (* close(e.drained) *)
  cstarted : bool;           (* closeOnce done *)
  spcs : nat -> spc;
  wpcs : nat -> wpc;
  dpcs : nat -> dpc;
  nextq : nat -> N;          (* next ClientSeq of session s *)
  sclosed : nat -> bool;     (* session.closing *)
  sends : list hsend;
  disps : list hdisp;
  drains : list hdrain;
  issues : list hissue;
  wire : list hwire }.

Definition upd {A} (f : nat -> A) (k : nat) (v : A) : nat -> A :=
  fun i => if Nat.eqb i k then v else f i.

Definition len {A} (l : list A) : N := N.of_nat (length l).

Definition init : state :=
  St 0 false 0 0 (fun _ => 0) (fun _ => []) false false false false
     (fun _ => SIdle) (fun _ => WIdle) (fun _ => DIdle) (fun _ => 0) (fun _ => false)
     [] [] [] [] [].

(* setters *)
Definition set_now v st := St v (closed st) (admitted st) (queued st) (shq st) (mbox st) (mclosed st) (dstarted st) (drained st) (cstarted st) (spcs st) (wpcs st) (dpcs st) (nextq st) (sclosed st) (sends st) (disps st) (drains st) (issues st) (wire st).
Definition set_closed v st := St (now st) v (admitted st) (queued st) (shq st) (mbox st) (mclosed st) (dstarted st) (drained st) (cstarted st) (spcs st) (wpcs st) (dpcs st) (nextq st) (sclosed st) (sends st) (disps st) (drains st) (issues st) (wire st).
Definition set_admitted v st := St (now st) (closed st) v (queued st) (shq st) (mbox st) (mclosed st) (dstarted st) (drained st) (cstarted st) (spcs st) (wpcs st) (dpcs st) (nextq st) (sclosed st) (sends st) (disps st) (drains st) (issues st) (wire st).
Definition set_queued v st := St (now st) (closed st) (admitted st) v (shq st) (mbox st) (mclosed st) (dstarted st) (drained st) (cstarted st) (spcs st) (wpcs st) (dpcs st) (nextq st) (sclosed st) (sends st) (disps st) (drains st) (issues st) (wire st).
Definition set_shq v st := St (now st) (closed st) (admitted st) (queued st) v (mbox st) (mclosed st) (dstarted st) (drained st) (cstarted st) (spcs st) (wpcs st) (dpcs st) (nextq st) (sclosed st) (sends st) (disps st) (drains st) (issues st) (wire st).
Definition set_mbox v st := St (now st) (closed st) (admitted st) (queued st) (shq st) v (mclosed st) (dstarted st) (drained st) (cstarted st) (spcs st) (wpcs st) (dpcs st) (nextq st) (sclosed st) (sends st) (disps st) (drains st) (issues st) (wire st).
Definition set_mclosed v st := St (now st) (closed st) (admitted st) (queued st) (shq st) (mbox st) v (dstarted st) (drained st) (cstarted st) (spcs st) (wpcs st) (dpcs st) (nextq st) (sclosed st) (sends st) (disps st) (drains st) (issues st) (wire st).
Definition set_dstarted v st := St (now st) (closed st) (admitted st) (queued st) (shq st) (mbox st) (mclosed st) v (drained st) (cstarted st) (spcs st) (wpcs st) (dpcs st) (nextq st) (sclosed st) (sends st) (disps st) (drains st) (issues st) (wire st).
Definition set_drained v st := St (now st) (closed st) (admitted st) (queued st) (shq st) (mbox st) (mclosed st) (dstarted st) v (cstarted st) (spcs st) (wpcs st) (dpcs st) (nextq st) (sclosed st) (sends st) (disps st) (drains st) (issues st) (wire st).
Definition set_cstarted v st := St (now st) (closed st) (admitted st) (queued st) (shq st) (mbox st) (mclosed st) (dstarted st) (drained st) v (spcs st) (wpcs st) (dpcs st) (nextq st) (sclosed st) (sends st) (disps st) (drains st) (issues st) (wire st).
Definition set_spcs v st := St (now st) (closed st) (admitted st) (queued st) (shq st) (mbox st) (mclosed st) (dstarted st) (drained st) (cstarted st) v (wpcs st) (dpcs st) (nextq st) (sclosed st) (sends st) (disps st) (drains st) (issues st) (wire st).
Definition set_wpcs v st := St (now st) (closed st) (admitted st) (queued st) (shq st) (mbox st) (mclosed st) (dstarted st) (drained st) (cstarted st) (spcs st) v (dpcs st) (nextq st) (sclosed st) (sends st) (disps st) (drains st) (issues st) (wire st).
Definition set_dpcs v st := St (now st) (closed st) (admitted st) (queued st) (shq st) (mbox st) (mclosed st) (dstarted st) (drained st) (cstarted st) (spcs st) (wpcs st) v (nextq st) (sclosed st) (sends st) (disps st) (drains st) (issues st) (wire st).
Definition set_nextq v st := St (now st) (closed st) (admitted st) (queued st) (shq st) (mbox st) (mclosed st) (dstarted st) (drained st) (cstarted st) (spcs st) (wpcs st) (dpcs st) v (sclosed st) (sends st) (disps st) (drains st) (issues st) (wire st).
Definition set_sclosed v st := St (now st) (closed st) (admitted st) (queued st) (shq st) (mbox st) (mclosed st) (dstarted st) (drained st) (cstarted st) (spcs st) (wpcs st) (dpcs st) (nextq st) v (sends st) (disps st) (drains st) (issues st) (wire st).
Definition set_sends v st := St (now st) (closed st) (admitted st) (queued st) (shq st) (mbox st) (mclosed st) (dstarted st) (drained st) (cstarted st) (spcs st) (wpcs st) (dpcs st) (nextq st) (sclosed st) v (disps st) (drains st) (issues st) (wire st).
Definition set_disps v st := St (now st) (closed st) (admitted st) (queued st) (shq st) (mbox st) (mclosed st) (dstarted st) (drained st) (cstarted st) (spcs st) (wpcs st) (dpcs st) (nextq st) (sclosed st) (sends st) v (drains st) (issues st) (wire st).
Definition set_drains v st := St (now st) (closed st) (admitted st) (queued st) (shq st) (mbox st) (mclosed st) (dstarted st) (drained st) (cstarted st) (spcs st) (wpcs st) (dpcs st) (nextq st) (sclosed st) (sends st) (disps st) v (issues st) (wire st).
Definition set_issues v st := St (now st) (closed st) (admitted st) (queued st) (shq st) (mbox st) (mclosed st) (dstarted st) (drained st) (cstarted st) (spcs st) (wpcs st) (dpcs st) (nextq st) (sclosed st) (sends st) (disps st) (drains st) v (wire st).
Definition set_wire v st := St (now st) (closed st) (admitted st) (queued st) (shq st) (mbox st) (mclosed st) (dstarted st) (drained st) (cstarted st) (spcs st) (wpcs st) (dpcs st) (nextq st) (sclosed st) (sends st) (disps st) (drains st) (issues st) v.

Definition set_spc s p st := set_spcs (upd (spcs st) s p) st.
Definition set_wpc k p st := set_wpcs (upd (wpcs st) k p) st.
Definition set_dpc d p st := set_dpcs (upd (dpcs st) d p) st.

(* ---- submitter ------------------------------------------------------------------ *)

Definition is_widle (p : wpc) : bool := match p with WIdle => true | _ => false end.

Definition sub_step (c : cfg) (s : nat) (st : state) : state :=
  let k := shard_of c s in
  match spcs st s with
  | SIdle => st
  | SGate q b t0 =>
      (* e.admissionMu.Lock(); if e.closed.Load() { return false }; e.admitted.Add(1) *)
      if closed st then set_spc s (SReject q b t0) st
      else set_spc s (SReserve q b t0) (set_admitted (admitted st + 1) st)
  | SReserve q b t0 =>
      (* reserve(): queued >= capacity -> false; else queued++ *)
      if c_cap c <=? queued st then set_spc s (SUndoAdm q b t0) st
      else set_spc s (SReserveShard q b t0) (set_queued (queued st + 1) st)
  | SReserveShard q b t0 =>
      if c_shardcap c <=? shq st k then set_spc s (SUndoQueue q b t0) st
      else set_spc s (SEnqueue q b t0) (set_shq (upd (shq st) k (shq st k + 1)) st)
  | SEnqueue q b t0 =>
      (* SubmitHash: shard.mu{ closed -> ErrClosed ; len >= cap -> ErrFull ; queue <- item ; schedule } *)
      if mclosed st || (c_shardcap c <=? len (mbox st k)) then set_spc s (SUndoShard q b t0) st
      else
        let st1 := set_mbox (upd (mbox st) k (mbox st k ++ [T s q b])) st in
        let st2 := set_wpc k (if is_widle (wpcs st k) then WPending else wpcs st k) st1 in
        set_spc s SIdle (set_sends (sends st ++ [HSend s q b t0 (now st) true]) st2)
  | SUndoShard q b t0 =>
      set_spc s (SUndoQueue q b t0) (set_shq (upd (shq st) k (shq st k - 1)) st)
  | SUndoQueue q b t0 =>
      set_spc s (SUndoAdm q b t0) (set_queued (queued st - 1) st)
  | SUndoAdm q b t0 =>
      set_spc s (SReject q b t0) (set_admitted (admitted st - 1) st)
  | SReject q b t0 =>
      (* state.close(CloseReasonAsyncDispatchQueueFull, ...) *)
      set_spc s SIdle (set_sends (sends st ++ [HSend s q b t0 (now st) false])
                         (set_sclosed (upd (sclosed st) s true) st))
  end.

(* ---- drain worker and handler ------------------------------------------------------ *)

Fixpoint dedup (l : list nat) : list nat :=
  match l with
  | [] => []
  | x :: r => x :: filter (fun y => negb (Nat.eqb y x)) (dedup r)
  end.

(* after the current sub-batch: next sub-batch or the completeAdmission loop *)
Definition advance (k : nat) (n : N) (rest : list (list task)) (st : state) : state :=
  match rest with
  | [] => set_wpc k (WComplete n) st
  | b :: rest' => set_wpc k (WDisp n b b rest') st
  end.

Definition drop_items (items : list task) (st : state) : state :=
  set_disps (disps st ++ map (fun x => HDisp (t_s x) (t_q x) (now st)) items) st.

Definition work_step (c : cfg) (k : nat) (ch : choice) (st : state) : state :=
  match wpcs st k with
  | WIdle => st
  | WPending => set_wpc k WNext st
  | WNext =>
      match mbox st k with
      | [] => set_wpc k WFinish st
      | x :: r => set_wpc k (WCollect [x]) (set_mbox (upd (mbox st) k r) st)
      end
  | WCollect items =>
      if (eff_maxrec (c_maxrec c) <=? length items)%nat then set_wpc k (WConsumeShard items) st
      else match ch, mbox st k with
           | CStop, _ => set_wpc k (WConsumeShard items) st
           | _, x :: r => set_wpc k (WCollect (items ++ [x])) (set_mbox (upd (mbox st) k r) st)
           | _, [] => st
           end
  | WConsumeShard items =>
      set_wpc k (WConsume items) (set_shq (upd (shq st) k (shq st k - len items)) st)
  | WConsume items =>
      let st1 := set_queued (queued st - len items) st in
      advance k (len items) (units c t_b items) st1
  | WDisp n cur curall rest =>
      match ch with
      | CFail =>
          set_wpc k (WErr n (if c_closeonerr c then dedup (map t_s curall) else []) cur rest) st
      | CPanic => advance k n rest (drop_items cur st)
      | _ =>
          match cur with
          | [] => advance k n rest st
          | x :: cur' =>
              let st1 := if sclosed st (t_s x) then st
                         else set_wire (wire st ++ [HWire (t_s x) 0 (t_q x) (now st)]) st in
              set_wpc k (WDisp n cur' curall rest) (drop_items [x] st1)
          end
      end
  | WErr n toclose cur rest =>
      match toclose with
      | s :: tc => set_wpc k (WErr n tc cur rest) (set_sclosed (upd (sclosed st) s true) st)
      | [] => advance k n rest (drop_items cur st)
      end
  | WComplete r =>
      if r =? 0 then set_wpc k WNext st
      else set_wpc k (WComplete (r - 1)) (set_admitted (admitted st - 1) st)
  | WFinish =>
      match mbox st k with
      | [] => set_wpc k WIdle st
      | _ => if mclosed st then set_wpc k WIdle st else set_wpc k WPending st
      end
  end.

(* ---- drain / stop ---------------------------------------------------------------------- *)

Definition drain_return (d : nat) (t0 : N) (stop ok : bool) (st : state) : state :=
  let st1 := set_drains (drains st ++ [HDrain t0 (now st) ok]) st in
  let st2 := set_cstarted (stop || cstarted st1) st1 in
  set_dpc d DIdle st2.

Definition drain_step (d : nat) (timeout : bool) (st : state) : state :=
  match dpcs st d with
  | DIdle => st
  | DSet t0 stop => set_dpc d (DOnce t0 stop) (set_closed true st)
  | DOnce t0 stop => set_dpc d (DWait t0 stop) (set_dstarted true st)
  | DWait t0 stop =>
      if drained st then drain_return d t0 stop true st
      else if timeout then drain_return d t0 stop false st
      else st
  end.

Definition step (c : cfg) (st0 : state) (e : ev) : state :=
  let st := set_now (now st0 + 1) st0 in
  match e with
  | ESend s b =>
      match spcs st s with
      | SIdle =>
          if (s <? c_nsess c)%nat && negb (sclosed st s)
          then set_spc s (SGate (nextq st s) b (now st)) (set_nextq (upd (nextq st) s (nextq st s + 1)) st)
          else st
      | _ => st
      end
  | ESub s => if (s <? c_nsess c)%nat then sub_step c s st else st
  | EWork k ch => if (k <? c_shards c)%nat then work_step c k ch st else st
  | EDrainCall d stop =>
      match dpcs st d with DIdle => set_dpc d (DSet (now st) stop) st | _ => st end
  | EDrain d timeout => drain_step d timeout st
  | EWaiter =>
      if dstarted st && negb (drained st) && (admitted st =? 0) then set_drained true st else st
  | ECloser =>
      if cstarted st && drained st && negb (mclosed st)
      then set_shq (fun _ => 0) (set_queued 0 (set_mclosed true st)) else st
  | EClose s => if (s <? c_nsess c)%nat then set_sclosed (upd (sclosed st) s true) st else st
  | EPush s w tag =>
      if (s <? c_nsess c)%nat && negb (w =? 0) then
        if sclosed st s then set_issues (issues st ++ [HIssue s w tag (now st) (now st) false]) st
        else set_issues (issues st ++ [HIssue s w tag (now st) (now st) true])
               (set_wire (wire st ++ [HWire s w tag (now st)]) st)
      else st
  end.

Definition run (c : cfg) (evs : list ev) : state := fold_left (step c) evs init.

Definition hist_of (st : state) : hist :=
  Hist (sends st) (disps st) (drains st) (issues st) (wire st) (sclosed st).

(* ---- the property as a monitor on a history -------------------------------------------- *)

Definition accq (h : list hsend) (s : nat) : list N :=
  map hs_q (filter (fun x => Nat.eqb (hs_s x) s && hs_acc x) h).
Definition finq (h : list hdisp) (s : nat) : list N :=
  map hd_q (filter (fun x => Nat.eqb (hd_s x) s) h).
Definition ackq (h : list hwire) (s : nat) : list N :=
  map hw_tag (filter (fun x => Nat.eqb (hw_s x) s && (hw_w x =? 0)) h).

Fixpoint prefixb (a b : list N) : bool :=
  match a, b with
  | [], _ => true
  | x :: a', y :: b' => (x =? y) && prefixb a' b'
  | _ :: _, [] => false
  end.

Fixpoint incrb (l : list N) : bool :=
  match l with
  | x :: ((y :: _) as r) => (x <? y) && incrb r
  | _ => true
  end.

Fixpoint nodup_pairs (l : list (nat * N)) : bool :=
  match l with
  | [] => true
  | (s, q) :: r => negb (existsb (fun y => Nat.eqb (fst y) s && (snd y =? q)) r) && nodup_pairs r
  end.

Fixpoint subseqb (a b : list N) : bool :=
  match a, b with
  | [], _ => true
  | _ :: _, [] => false
  | x :: a', y :: b' => if x =? y then subseqb a' b' else subseqb a b'
  end.

(* clause 1+2: per session the SENDACKs on the wire are, in order, the accepted
   SENDs — all of them unless the session closed.  [strict] is
   CloseOnHandlerError (true by default and never changed by the server
   composition): without it a handler error (a failed SENDACK write to a closed
   peer aborts the whole sub-batch) leaves SENDs of other, still open sessions
   without SENDACK (c28_closeonerr_needed), and only the order clause is kept. *)
Definition ok_acks (strict : bool) (h : hist) (s : nat) : bool :=
  let a := ackq (h_wire h) s in
  let c := accq (h_sends h) s in
  if strict then prefixb a c else subseqb a c.
(* ... all of them, once the pipeline is quiescent, unless the session closed *)
Definition ok_acks_final (strict : bool) (h : hist) (s : nat) : bool :=
  negb strict || h_closed h s
  || (length (ackq (h_wire h) s) =? length (accq (h_sends h) s))%nat.

(* clause 3: outbound frames reach the transport in issue order: wire stamps
   (taken under the session write lock) increase along the transport order,
   every successful WriteFrame call put exactly one frame on the wire during
   the call, failed calls none, and nothing else is on the wire *)
Definition wire_of (h : hist) (s : nat) : list hwire := filter (fun x => Nat.eqb (hw_s x) s) (h_wire h).
Definition issue_matches (i : hissue) (x : hwire) : bool :=
  Nat.eqb (hw_s x) (hi_s i) && (hw_w x =? hi_w i) && (hw_tag x =? hi_tag i)
  && (hi_t0 i <=? hw_t x) && (hw_t x <=? hi_t1 i).
Definition ok_issue (h : hist) (i : hissue) : bool :=
  let n := length (filter (issue_matches i) (h_wire h)) in
  if hi_ok i then (n =? 1)%nat else (n =? 0)%nat.
Definition ok_wire_entry (h : hist) (x : hwire) : bool :=
  (hw_w x =? 0) || existsb (fun i => hi_ok i && issue_matches i x) (h_issues h).
Definition ok_fifo (h : hist) (s : nat) : bool :=
  incrb (map hw_t (wire_of h s)).

(* clause 4a: no SEND whose call began after a DrainSends call had returned is accepted *)
Definition ok_fence (h : hist) : bool :=
  forallb (fun x => negb (hs_acc x) || forallb (fun d => negb (hr_t1 d <? hs_t0 x)) (h_drains h)) (h_sends h).
(* clause 4b: when DrainSends returns nil every accepted SEND has been handled *)
Definition handled_before (h : hist) (s : nat) (q t : N) : bool :=
  existsb (fun e => Nat.eqb (hd_s e) s && (hd_q e =? q) && (hd_t e <? t)) (h_disps h).
Definition ok_drained (h : hist) : bool :=
  forallb (fun d => negb (hr_ok d) ||
             forallb (fun x => negb (hs_acc x) || handled_before h (hs_s x) (hs_q x) (hr_t1 d)) (h_sends h))
          (h_drains h).
(* clause 4c: only accepted SENDs are dispatched, each at most once *)
Definition ok_dispatch (h : hist) : bool :=
  forallb (fun e => existsb (fun x => Nat.eqb (hs_s x) (hd_s e) && (hs_q x =? hd_q e) && hs_acc x) (h_sends h)) (h_disps h)
  && nodup_pairs (map (fun e => (hd_s e, hd_q e)) (h_disps h)).

Definition safety_ok (strict : bool) (n : nat) (h : hist) : bool :=
  forallb (fun s => ok_acks strict h s && ok_fifo h s) (seq 0 n)
  && forallb (ok_issue h) (h_issues h) && forallb (ok_wire_entry h) (h_wire h)
  && ok_fence h && ok_drained h && ok_dispatch h.

(* in a quiescent final state every accepted SEND has been handled *)
Definition complete_ok (h : hist) : bool :=
  forallb (fun x => negb (hs_acc x) ||
             existsb (fun e => Nat.eqb (hd_s e) (hs_s x) && (hd_q e =? hs_q x)) (h_disps h)) (h_sends h).

Definition final_ok (strict : bool) (n : nat) (h : hist) : bool :=
  complete_ok h && forallb (ok_acks_final strict h) (seq 0 n).

(* [final]: the history ends in a quiescent state (the harness has waited for
   the pipeline to finish); [fdrain]: the DrainSends call issued in that state
   without a deadline returned nil (true when the server had been stopped) *)
Definition monitor (strict : bool) (n : nat) (final fdrain : bool) (h : hist) : N :=
  if safety_ok strict n h
  then (if final then (if final_ok strict n h && fdrain then 0 else 1) else 0)
  else 1.

(* ---- what the model predicts about an implementation run (acceptance) ------------------ *)

(* one SendBatchHandler call observed on the implementation *)
Record hbatch := HBatch { hb_items : list (nat * N * N); (* session, ClientSeq, bytes *)
                          hb_t0 : N; hb_t1 : N }.

Definition sess_of (x : nat * N * N) : nat := fst (fst x).
Definition bytes_of (x : nat * N * N) : N := snd x.

(* sub-batch shape: non-empty, <= maxRecords, > maxBytes only as a singleton, one shard *)
Definition batch_shape_ok (c : cfg) (b : hbatch) : bool :=
  match hb_items b with
  | [] => false
  | x :: r =>
      (length (hb_items b) <=? eff_maxrec (c_maxrec c))%nat
      && ((sumN (map bytes_of (hb_items b)) <=? c_maxbytes c) || match r with [] => true | _ => false end)
      && forallb (fun y => Nat.eqb (shard_of c (sess_of y)) (shard_of c (sess_of x))) r
  end.

Definition batch_shard (c : cfg) (b : hbatch) : nat :=
  match hb_items b with [] => O | x :: _ => shard_of c (sess_of x) end.

(* one drain per shard: handler calls of one shard do not overlap *)
Fixpoint all_pairs {A} (f : A -> A -> bool) (l : list A) : bool :=
  match l with
  | [] => true
  | a :: r => forallb (fun b => f a b && f b a) r && all_pairs f r
  end.
Definition batches_disjoint (c : cfg) (a b : hbatch) : bool :=
  negb (Nat.eqb (batch_shard c a) (batch_shard c b)) || (hb_t1 a <? hb_t0 b) || (hb_t1 b <? hb_t0 a).

(* ---- case-file interface ------------------------------------------------------------------ *)

Inductive c28_kind :=
| KSplit (maxrec : nat) (maxbytes : N) (sizes : list N) (impl : list (list N))
  (* impl = item indexes of each sub-batch the real dispatchMailboxBatch produced *)
| KConc (c : cfg) (workers per_worker : N) (final fdrain : bool) (h : hist) (batches : list hbatch) (maxdepth : N)
| KSeq (c : cfg) (evs : list ev) (final fdrain : bool) (h : hist) (queued_end : N) (shq_end : list N).

Record c28_case := C28Case { c28_kind_of : c28_kind }.

Fixpoint index_from (i : N) (l : list N) : list (N * N) :=
  match l with [] => [] | x :: r => (i, x) :: index_from (i + 1) r end.

Definition list_N_eqb := list_eqb N.eqb.

Definition hsend_eqb (a b : hsend) : bool :=
  Nat.eqb (hs_s a) (hs_s b) && (hs_q a =? hs_q b) && (hs_b a =? hs_b b) && Bool.eqb (hs_acc a) (hs_acc b).
Definition hdisp_eqb (a b : hdisp) : bool := Nat.eqb (hd_s a) (hd_s b) && (hd_q a =? hd_q b).
Definition hwire_eqb (a b : hwire) : bool :=
  Nat.eqb (hw_s a) (hw_s b) && (hw_w a =? hw_w b) && (hw_tag a =? hw_tag b).
Definition hdrain_eqb (a b : hdrain) : bool := Bool.eqb (hr_ok a) (hr_ok b).
Definition hissue_eqb (a b : hissue) : bool :=
  Nat.eqb (hi_s a) (hi_s b) && (hi_w a =? hi_w b) && (hi_tag a =? hi_tag b) && Bool.eqb (hi_ok a) (hi_ok b).

(* sequential replay: the model run on the recorded event list must produce the
   implementation's history (stamps aside) and final depth counters *)
Definition seq_agrees (c : cfg) (evs : list ev) (h : hist) (queued_end : N) (shq_end : list N) : bool :=
  let st := run c evs in
  list_eqb hsend_eqb (sends st) (h_sends h)
  && list_eqb hdisp_eqb (disps st) (h_disps h)
  && forallb (fun s => list_eqb hwire_eqb (filter (fun x => Nat.eqb (hw_s x) s) (wire st))
                                          (filter (fun x => Nat.eqb (hw_s x) s) (h_wire h)))
             (seq 0 (c_nsess c))
  && list_eqb hdrain_eqb (drains st) (h_drains h)
  && list_eqb hissue_eqb (issues st) (h_issues h)
  && forallb (fun s => Bool.eqb (sclosed st s) (h_closed h s)) (seq 0 (c_nsess c))
  && (queued st =? queued_end)
  && list_N_eqb (map (shq st) (seq 0 (c_shards c))) shq_end.

Definition geometry_ok (c : cfg) (workers per_worker : N) : bool :=
  (N.of_nat (c_shards c) =? logical_shard_count per_worker workers (c_cap c))
  && (c_shardcap c =? shard_capacity (c_cap c) (N.of_nat (c_shards c))).

Definition C28_mismatch (c : c28_case) : bool :=
  match c28_kind_of c with
  | KSplit maxrec maxbytes sizes impl =>
      negb (list_eqb list_N_eqb
              (map (map fst) (split snd maxrec maxbytes (index_from 0 sizes))) impl)
  | KConc c workers per_worker final fdrain h batches maxdepth =>
      negb (geometry_ok c workers per_worker
            && forallb (batch_shape_ok c) batches
            && all_pairs (batches_disjoint c) batches
            && (maxdepth <=? c_cap c))
  | KSeq c evs final fdrain h queued_end shq_end => negb (seq_agrees c evs h queued_end shq_end)
  end.

Definition C28_monitor (c : c28_case) : N :=
  match c28_kind_of c with
  | KSplit _ _ _ _ => 0
  | KConc c _ _ final fdrain h _ _ => monitor (c_closeonerr c) (c_nsess c) final fdrain h
  | KSeq c _ final fdrain h _ _ => monitor (c_closeonerr c) (c_nsess c) final fdrain h
  end.
