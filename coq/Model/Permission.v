(* Model/Permission.v — send permission decisions (C36).
   internal/usecase/message: permission.go (per-send path), permission_batch.go
   (read-plan path), send.go (resolveSendBatchPermissions routing and request
   coalescing), permission_cache.go (read-through cache).

   Two levels, both transcriptions of the code:

   * DECISION level: a finite record [facts] holds everything either path looks
     at — command/configuration flags and the RAW answers ([rresult], the shape
     of message.PermissionReadResult) of the seven reads a send can need.
     [checkSendPermission] (= decide_single) follows permission.go's call
     order with one definition per Go function; [decide_batch] follows
     resolveSendBatchPermissions + the planners' slot shapes +
     evaluate{Group,Person}PermissionReadPlan.
   * FULL level: commands are byte strings, the store is any function
     [reader : pread -> rresult].  The per-send path computes its keys as
     permission.go does ([facts_single]; reads are pure, so hoisting them out of
     the control flow changes nothing) and decides with [checkSendPermission].
     The batch path is transcribed with its read list, the addRead
     de-duplication, index plans and results[index] ([planGroup], [planPerson],
     [checkGroupSendPermissionsBatch], ...).

   Channel-id string functions are those of Model/ChannelId.v (C35).  The
   internal member-list ids channelmembers.{Deny,Allow}listChannelID(key) are
   kept structured: (list kind 1|2, key type, key id); the harness inverts the
   real encoding and checks the inversion by re-encoding. *)
From WK Require Import Base.Base Model.ChannelId.
From WK Require Import Gen.Consts_C36.
Open Scope N_scope.

(* ---- raw read results (message.PermissionReadResult) ---------------------------- *)

Record rresult := RR {
  r_found : bool;            (* Found *)
  r_sendban : bool;          (* Channel.SendBan != 0 *)
  r_ban : bool;              (* Channel.Ban != 0 *)
  r_disband : bool;          (* Channel.Disband != 0 *)
  r_allowstranger : bool;    (* Channel.AllowStranger != 0 *)
  r_value : bool;            (* Value *)
  r_err : bool }.            (* Err != nil *)

Definition zero_result : rresult := RR false false false false false false false.

(* error classes: nil, a store error, channelid.ErrInvalidPersonChannel, ErrInvalidAgentChannel *)
Inductive errc := ENone | EStore | EPerson | EAgent.
Definition errc_code (e : errc) : N :=
  match e with ENone => 0 | EStore => 1 | EPerson => 2 | EAgent => 3 end.
Definition is_nil_err (e : errc) : bool := match e with ENone => true | _ => false end.

(* (Reason, error) *)
Definition res := (N * errc)%type.
(* reason == ReasonSuccess && err == nil *)
Definition ok (r : res) : bool := (fst r =? ReasonSuccess) && is_nil_err (snd r).

(* ---- the PermissionStore view of a raw result -------------------------------------
   GetChannelForPermission: Err -> error, !Found -> metadb.ErrNotFound, else the row.
   ContainsChannelSubscriber / HasChannelSubscribers: Err -> error, else Value. *)
Inductive chan_ans := CErr | CNotFound | CFound (c : rresult).
Definition getChannel (r : rresult) : chan_ans :=
  if r_err r then CErr else if r_found r then CFound r else CNotFound.
Definition getBool (r : rresult) : option bool :=
  if r_err r then None else Some (r_value r).

(* ---- facts -------------------------------------------------------------------------- *)

Inductive ctype := TPerson | TGroup | TInfoCS | TAgent | TVisitors | TOther.
Inductive agent_rel := AgErr | AgMember | AgStranger.

Record facts := Facts {
  f_type : ctype;              (* switch cmd.ChannelType *)
  f_request_scoped : bool;     (* cmd.RequestScoped *)
  f_scoped_uids : bool;        (* len(cmd.MessageScopedUIDs) > 0 *)
  f_chan_empty : bool;         (* cmd.ChannelID == "" *)
  f_norm : bool;               (* cmd.NormalizePersonChannel *)
  f_norm_err : bool;           (* NormalizePersonChannel(from, source id) fails *)
  f_sender_sys : bool;         (* systemUIDs != nil && IsSystemUID(from) *)
  f_device_sys : bool;         (* systemDeviceID != "" && DeviceID == systemDeviceID *)
  f_decode_err : bool;         (* DecodePersonChannel(permission id) fails *)
  f_recv_sys : bool;           (* IsSystemUID(receiver) *)
  f_whitelist : bool;          (* personWhitelistEnabled *)
  f_agent : agent_rel;         (* DecodeAgentChannel + from in {uid, agentUID} *)
  f_visitor_self : bool;       (* from == channel id (visitors) *)
  f_sender : rresult;          (* channel (from, person) *)
  f_target : rresult;          (* channel (permission id, cmd type) *)
  f_recv : rresult;            (* channel (receiver, person) *)
  f_denied : rresult;          (* contains(denylist, from) *)
  f_sub : rresult;             (* contains(channel, from) *)
  f_hasallow : rresult;        (* hasAny(allowlist) *)
  f_allowentry : rresult }.    (* contains(allowlist, from) *)

(* ---- permission.go (per-send path), one definition per function -------------------- *)

Definition checkTerminalChannelPermission (f : facts) : res :=
  match getChannel (f_target f) with
  | CNotFound => (ReasonSuccess, ENone)
  | CErr => (ReasonSystemError, EStore)
  | CFound c => if r_disband c then (ReasonDisband, ENone) else (ReasonSuccess, ENone)
  end.

Definition checkSenderSendPermission (f : facts) : res :=
  match getChannel (f_sender f) with
  | CNotFound => (ReasonSuccess, ENone)
  | CErr => (ReasonSystemError, EStore)
  | CFound c => if r_sendban c then (ReasonSendBan, ENone) else (ReasonSuccess, ENone)
  end.

Definition checkCommonMemberPermission (f : facts) : res :=
  match getBool (f_denied f) with
  | None => (ReasonSystemError, EStore)
  | Some true => (ReasonInBlacklist, ENone)
  | Some false =>
    match getBool (f_sub f) with
    | None => (ReasonSystemError, EStore)
    | Some false => (ReasonSubscriberNotExist, ENone)
    | Some true =>
      match getBool (f_hasallow f) with
      | None => (ReasonSystemError, EStore)
      | Some false => (ReasonSuccess, ENone)
      | Some true =>
        match getBool (f_allowentry f) with
        | None => (ReasonSystemError, EStore)
        | Some false => (ReasonNotInWhitelist, ENone)
        | Some true => (ReasonSuccess, ENone)
        end
      end
    end
  end.

Definition checkGroupSendPermission (f : facts) : res :=
  match getChannel (f_target f) with
  | CNotFound => (ReasonChannelNotExist, ENone)
  | CErr => (ReasonSystemError, EStore)
  | CFound c => if r_ban c then (ReasonBan, ENone)
                else if r_disband c then (ReasonDisband, ENone)
                else checkCommonMemberPermission f
  end.

Definition checkAgentSendPermission (f : facts) : res :=
  match f_agent f with
  | AgErr => (0, EAgent)                      (* return 0, err *)
  | AgMember => (ReasonSuccess, ENone)
  | AgStranger => (ReasonNotAllowSend, ENone)
  end.

Definition checkVisitorsSendPermission (f : facts) : res :=
  if f_visitor_self f then (ReasonSuccess, ENone) else checkCommonMemberPermission f.

Definition checkPersonSendPermission (f : facts) : res :=
  if f_decode_err f then (0, EPerson) else        (* return 0, err *)
  if f_recv_sys f then (ReasonSuccess, ENone) else
  match getBool (f_denied f) with
  | None => (ReasonSystemError, EStore)
  | Some true => (ReasonInBlacklist, ENone)
  | Some false =>
    if negb (f_whitelist f) then (ReasonSuccess, ENone) else
    match getBool (f_allowentry f) with
    | None => (ReasonSystemError, EStore)
    | Some true => (ReasonSuccess, ENone)
    | Some false =>
      match getChannel (f_recv f) with
      | CNotFound => (ReasonNotInWhitelist, ENone)
      | CErr => (ReasonSystemError, EStore)
      | CFound c => if r_allowstranger c then (ReasonSuccess, ENone)
                    else (ReasonNotInWhitelist, ENone)
      end
    end
  end.

Definition is_person (t : ctype) : bool := match t with TPerson => true | _ => false end.

(* the early return of checkSendPermission: nothing is checked *)
Definition permission_free (f : facts) : bool :=
  f_request_scoped f || (f_scoped_uids f && f_chan_empty f).

(* checkSendPermission, reason and error (the rewritten command is [single_out] below) *)
Definition checkSendPermission (f : facts) : res :=
  if permission_free f then (ReasonSuccess, ENone) else
  if is_person (f_type f) && f_norm f && f_norm_err f then (0, EPerson) else   (* return cmd, 0, err *)
  if f_sender_sys f then checkTerminalChannelPermission f else
  let s := checkSenderSendPermission f in
  if negb (ok s) then s else
  if f_device_sys f then checkTerminalChannelPermission f else
  match f_type f with
  | TPerson =>
      let t := checkTerminalChannelPermission f in
      if negb (ok t) then t else checkPersonSendPermission f
  | TGroup => checkGroupSendPermission f
  | TInfoCS => checkTerminalChannelPermission f
  | TAgent =>
      let t := checkTerminalChannelPermission f in
      if ok t then checkAgentSendPermission f else t
  | TVisitors =>
      let t := checkTerminalChannelPermission f in
      if ok t then checkVisitorsSendPermission f else t
  | TOther => checkTerminalChannelPermission f
  end.

Definition decide_single : facts -> res := checkSendPermission.

(* ---- permission_batch.go: evaluation over raw results ----------------------------------
   A slot is what read(index) yields: None for index -1 (ok = false). *)

Definition read_or_zero (o : option rresult) : rresult :=
  match o with Some r => r | None => zero_result end.

Record groupSlots := GSlots {
  gs_trusted : bool;
  gs_senderChannel : option rresult; gs_groupChannel : option rresult;
  gs_denied : option rresult; gs_subscriber : option rresult;
  gs_hasAllowlist : option rresult; gs_allowlistEntry : option rresult }.

Definition evaluateGroupPermissionReadPlan (p : groupSlots) : res :=
  let after_sender :=
    let group := read_or_zero (gs_groupChannel p) in
    if r_err group then (ReasonSystemError, EStore) else
    if negb (r_found group) then
      (if negb (gs_trusted p) then (ReasonChannelNotExist, ENone) else (ReasonSuccess, ENone)) else
    if gs_trusted p then
      (if r_disband group then (ReasonDisband, ENone) else (ReasonSuccess, ENone)) else
    if r_ban group then (ReasonBan, ENone) else
    if r_disband group then (ReasonDisband, ENone) else
    let denied := read_or_zero (gs_denied p) in
    if r_err denied then (ReasonSystemError, EStore) else
    if r_value denied then (ReasonInBlacklist, ENone) else
    let subscriber := read_or_zero (gs_subscriber p) in
    if r_err subscriber then (ReasonSystemError, EStore) else
    if negb (r_value subscriber) then (ReasonSubscriberNotExist, ENone) else
    let hasAllowlist := read_or_zero (gs_hasAllowlist p) in
    if r_err hasAllowlist then (ReasonSystemError, EStore) else
    if negb (r_value hasAllowlist) then (ReasonSuccess, ENone) else
    let allowlistEntry := read_or_zero (gs_allowlistEntry p) in
    if r_err allowlistEntry then (ReasonSystemError, EStore) else
    if negb (r_value allowlistEntry) then (ReasonNotInWhitelist, ENone) else
    (ReasonSuccess, ENone) in
  match gs_senderChannel p with
  | Some sender =>
      if r_err sender then (ReasonSystemError, EStore) else
      if r_found sender && r_sendban sender then (ReasonSendBan, ENone) else after_sender
  | None => after_sender
  end.

Record personSlots := PSlots {
  ps_planErr : bool;
  ps_trusted : bool; ps_systemDevice : bool; ps_receiverTrusted : bool;
  ps_senderChannel : option rresult; ps_terminalChannel : option rresult;
  ps_denied : option rresult; ps_allowlistEntry : option rresult;
  ps_receiverChannel : option rresult }.

Definition evaluatePersonPermissionReadPlan (p : personSlots) : res :=
  if ps_planErr p then (ReasonSuccess, EPerson) else      (* outcome.reason stays ReasonSuccess *)
  let after_sender :=
    let terminal := read_or_zero (ps_terminalChannel p) in
    if r_err terminal then (ReasonSystemError, EStore) else
    if r_found terminal && r_disband terminal then (ReasonDisband, ENone) else
    if ps_trusted p || ps_systemDevice p || ps_receiverTrusted p then (ReasonSuccess, ENone) else
    let denied := read_or_zero (ps_denied p) in
    if r_err denied then (ReasonSystemError, EStore) else
    if r_value denied then (ReasonInBlacklist, ENone) else
    match ps_allowlistEntry p with
    | None => (ReasonSuccess, ENone)
    | Some allowlistEntry =>
      if r_err allowlistEntry then (ReasonSystemError, EStore) else
      if r_value allowlistEntry then (ReasonSuccess, ENone) else
      let receiver := read_or_zero (ps_receiverChannel p) in
      if r_err receiver then (ReasonSystemError, EStore) else
      if negb (r_found receiver) || negb (r_allowstranger receiver)
      then (ReasonNotInWhitelist, ENone) else (ReasonSuccess, ENone)
    end in
  match ps_senderChannel p with
  | Some sender =>
      if r_err sender then (ReasonSystemError, EStore) else
      if r_found sender && r_sendban sender then (ReasonSendBan, ENone) else after_sender
  | None => after_sender
  end.

(* which slots the planners fill (index >= 0), as a function of the flags *)
Definition groupSlotsOf (f : facts) : groupSlots :=
  if f_sender_sys f then
    GSlots true None (Some (f_target f)) None None None None
  else if f_device_sys f then
    GSlots true (Some (f_sender f)) (Some (f_target f)) None None None None
  else
    GSlots false (Some (f_sender f)) (Some (f_target f))
           (Some (f_denied f)) (Some (f_sub f)) (Some (f_hasallow f)) (Some (f_allowentry f)).

Definition personSlotsOf (f : facts) : personSlots :=
  if f_norm f && f_norm_err f then
    PSlots true false false false None None None None None
  else if f_sender_sys f then
    PSlots false true false false None (Some (f_target f)) None None None
  else if f_device_sys f then
    PSlots false false true false (Some (f_sender f)) (Some (f_target f)) None None None
  else if f_decode_err f then
    PSlots true false false false (Some (f_sender f)) (Some (f_target f)) None None None
  else if f_recv_sys f then
    PSlots false false false true (Some (f_sender f)) (Some (f_target f)) None None None
  else if f_whitelist f then
    PSlots false false false false (Some (f_sender f)) (Some (f_target f))
           (Some (f_denied f)) (Some (f_allowentry f)) (Some (f_recv f))
  else
    PSlots false false false false (Some (f_sender f)) (Some (f_target f))
           (Some (f_denied f)) None None.

(* resolveSendBatchPermissions: which representative goes through a read plan *)
Definition batchable (f : facts) : bool := negb (f_request_scoped f) && negb (f_scoped_uids f).

Definition decide_batch (f : facts) : res :=
  if batchable f then
    match f_type f with
    | TGroup => evaluateGroupPermissionReadPlan (groupSlotsOf f)
    | TPerson => evaluatePersonPermissionReadPlan (personSlotsOf f)
    | _ => checkSendPermission f
    end
  else checkSendPermission f.

(* C36-K2: where the two paths order their checks differently. *)
(* the per-send path decodes the person channel id AFTER the sender and terminal checks,
   the batch planner BEFORE them *)
Definition k2_cond (f : facts) : bool :=
  is_person (f_type f) && batchable f && negb (f_norm f && f_norm_err f)
  && negb (f_sender_sys f) && negb (f_device_sys f) && f_decode_err f.

(* C36-K3: the property text asks for "disbanded channels first"; the code reports the sender's
   SendBan (any non-system uid) or the group's Ban before Disband.  [sig_k3 f reason err]: the
   command is checked, its target is disbanded, and the reported reason is one of the two
   shadowing reasons, produced by a check the sender is not exempt from. *)
(* the command is checked at all, and its channel id could be normalised *)
Definition checked (f : facts) : bool :=
  negb (permission_free f) && negb (is_person (f_type f) && f_norm f && f_norm_err f).

(* the target channel's permission record was read, found, and has Disband != 0 *)
Definition target_disbanded (f : facts) : bool :=
  negb (r_err (f_target f)) && r_found (f_target f) && r_disband (f_target f).

Definition sig_k3 (f : facts) (reason err : N) : bool :=
  checked f && target_disbanded f && (err =? 0)
  && (((reason =? ReasonSendBan) && negb (f_sender_sys f))
      || ((reason =? ReasonBan) && match f_type f with TGroup => true | _ => false end
          && negb (f_sender_sys f) && negb (f_device_sys f))).

(* an earlier check of the existing order fails: the sender's row (read error / SendBan) for a
   non-system uid, or the group's Ban for a sender that is neither system uid nor system device *)
Definition shadowed (f : facts) : bool :=
  (negb (f_sender_sys f) && (r_err (f_sender f) || (r_found (f_sender f) && r_sendban (f_sender f))))
  || (match f_type f with TGroup => true | _ => false end
      && negb (f_sender_sys f) && negb (f_device_sys f) && r_ban (f_target f)).

Definition k3_cond (f : facts) : bool :=
  sig_k3 f (fst (decide_single f)) (errc_code (snd (decide_single f))).

(* ---- the declarative precedence table (property text: "fixed precedence") -------------
   [(fails, verdict)] in order; the decision is the verdict of the first failing check. *)

Definition first_failing (l : list (bool * res)) : res :=
  match find (fun e => fst e) l with
  | Some e => snd e
  | None => (ReasonSuccess, ENone)
  end.

Definition SysErr : res := (ReasonSystemError, EStore).

Definition sender_checks (f : facts) : list (bool * res) :=
  [ (r_err (f_sender f), SysErr);
    (r_found (f_sender f) && r_sendban (f_sender f), (ReasonSendBan, ENone)) ].

(* the terminal (disband) check every sender is subject to *)
Definition terminal_checks (f : facts) : list (bool * res) :=
  [ (r_err (f_target f), SysErr);
    (r_found (f_target f) && r_disband (f_target f), (ReasonDisband, ENone)) ].

Definition member_checks (f : facts) : list (bool * res) :=
  [ (r_err (f_denied f), SysErr);
    (r_value (f_denied f), (ReasonInBlacklist, ENone));
    (r_err (f_sub f), SysErr);
    (negb (r_value (f_sub f)), (ReasonSubscriberNotExist, ENone));
    (r_err (f_hasallow f), SysErr);
    (r_value (f_hasallow f) && r_err (f_allowentry f), SysErr);
    (r_value (f_hasallow f) && negb (r_value (f_allowentry f)), (ReasonNotInWhitelist, ENone)) ].

Definition group_checks (f : facts) : list (bool * res) :=
  [ (r_err (f_target f), SysErr);
    (negb (r_found (f_target f)), (ReasonChannelNotExist, ENone));
    (r_ban (f_target f), (ReasonBan, ENone));
    (r_disband (f_target f), (ReasonDisband, ENone)) ] ++ member_checks f.

Definition person_checks (f : facts) : list (bool * res) :=
  let live := negb (f_recv_sys f) in
  let wl := live && f_whitelist f && negb (r_value (f_allowentry f)) in
  [ (f_decode_err f, (0, EPerson));
    (live && r_err (f_denied f), SysErr);
    (live && r_value (f_denied f), (ReasonInBlacklist, ENone));
    (live && f_whitelist f && r_err (f_allowentry f), SysErr);
    (wl && r_err (f_recv f), SysErr);
    (wl && (negb (r_found (f_recv f)) || negb (r_allowstranger (f_recv f))), (ReasonNotInWhitelist, ENone)) ].

Definition agent_checks (f : facts) : list (bool * res) :=
  match f_agent f with
  | AgErr => [(true, (0, EAgent))]
  | AgMember => []
  | AgStranger => [(true, (ReasonNotAllowSend, ENone))]
  end.

Definition precedence (f : facts) : list (bool * res) :=
  if permission_free f then [] else
  if is_person (f_type f) && f_norm f && f_norm_err f then [(true, (0, EPerson))] else
  if f_sender_sys f then terminal_checks f else
  sender_checks f ++
  (if f_device_sys f then terminal_checks f else
   match f_type f with
   | TPerson => terminal_checks f ++ person_checks f
   | TGroup => group_checks f
   | TAgent => terminal_checks f ++ agent_checks f
   | TVisitors => terminal_checks f ++ (if f_visitor_self f then [] else member_checks f)
   | TInfoCS | TOther => terminal_checks f
   end).

Definition spec_decision (f : facts) : res := first_failing (precedence f).

(* ======================================================================================
   FULL level
   ====================================================================================== *)

Record pcfg := PCfg { cfg_sys : list bytes; cfg_sysdev : bytes; cfg_wl : bool }.

Record pcmd := PCmd {
  c_from : bytes; c_dev : bytes; c_chan : bytes; c_type : N;
  c_norm : bool; c_req : bool; c_scoped : N }.       (* c_scoped = len(MessageScopedUIDs) *)

(* message.PermissionRead; ChannelID kept structured: rd_list 0 = the id itself,
   1 = DenylistChannelID(ChannelKey{rd_id, rd_ltype}), 2 = AllowlistChannelID(...) *)
Record pread := PRead {
  rd_kind : N; rd_list : N; rd_ltype : N; rd_id : bytes; rd_type : N; rd_uid : bytes }.

Definition pread_eqb (a b : pread) : bool :=
  (rd_kind a =? rd_kind b) && (rd_list a =? rd_list b) && (rd_ltype a =? rd_ltype b)
  && bytes_eqb (rd_id a) (rd_id b) && (rd_type a =? rd_type b) && bytes_eqb (rd_uid a) (rd_uid b).

Definition reader := pread -> rresult.

Definition chanRead (id : bytes) (t : N) : pread := PRead PermissionReadChannel 0 0 id t [].
(* Contains / HasAny on the list [lk] (0 plain, 1 deny, 2 allow) of channel key (id, kt) *)
Definition containsRead (lk kt : N) (id : bytes) (t : N) (uid : bytes) : pread :=
  PRead PermissionReadSubscriberContains lk (if lk =? 0 then 0 else kt) id t uid.
Definition hasAnyRead (lk kt : N) (id : bytes) (t : N) : pread :=
  PRead PermissionReadSubscriberHasAny lk (if lk =? 0 then 0 else kt) id t [].

Definition IsSystemUID (cfg : pcfg) (uid : bytes) : bool := existsb (bytes_eqb uid) (cfg_sys cfg).
Definition is_system_device (cfg : pcfg) (cmd : pcmd) : bool :=
  negb (is_nil (cfg_sysdev cfg)) && bytes_eqb (c_dev cmd) (cfg_sysdev cfg).

(* the switch of checkSendPermission, in its order *)
Definition classify (t : N) : ctype :=
  if t =? channelTypePerson then TPerson
  else if t =? channelTypeGroup then TGroup
  else if (t =? channelTypeInfo) || (t =? channelTypeCustomerService) then TInfoCS
  else if t =? channelTypeAgent then TAgent
  else if t =? channelTypeVisitors then TVisitors
  else TOther.

Definition agent_relation (from id : bytes) : agent_rel :=
  match DecodeAgentChannel id with
  | None => AgErr
  | Some (uid, agentUID) =>
      if bytes_eqb from uid || bytes_eqb from agentUID then AgMember else AgStranger
  end.

(* receiver of a person channel: right, or left when the sender is right *)
Definition person_receiver (from id : bytes) : option bytes :=
  match DecodePersonChannel id with
  | None => None
  | Some (lft, rgt) => Some (if bytes_eqb from rgt then lft else rgt)
  end.

(* all facts of a command whose permission channel id is [id] ([nerr]: normalization failed) *)
Definition facts_at (rd : reader) (cfg : pcfg) (cmd : pcmd) (nerr : bool) (id : bytes) : facts :=
  let from := c_from cmd in
  let t := c_type cmd in
  let ty := classify t in
  let recv := match person_receiver from id with Some r => r | None => [] end in
  (* member-list key: the receiver for person channels, (id, CustomerService) for visitors,
     (id, cmd type) otherwise *)
  let kid := if is_person ty then recv else id in
  let kt := match ty with TPerson => channelTypePerson | TVisitors => channelTypeCustomerService | _ => t end in
  Facts ty (c_req cmd) (0 <? c_scoped cmd) (is_nil (c_chan cmd)) (c_norm cmd) nerr
        (IsSystemUID cfg from) (is_system_device cfg cmd)
        (match person_receiver from id with Some _ => false | None => true end)
        (IsSystemUID cfg recv) (cfg_wl cfg)
        (agent_relation from id) (bytes_eqb from id)
        (rd (chanRead from channelTypePerson))
        (rd (chanRead id t))
        (rd (chanRead recv channelTypePerson))
        (rd (containsRead 1 kt kid kt from))
        (rd (containsRead 0 0 kid kt from))
        (rd (hasAnyRead 2 kt kid kt))
        (rd (containsRead 2 kt kid kt from)).

(* ---- per-send path: keys as permission.go derives them ------------------------------ *)

(* cmd.ChannelID after FromCommandChannel and (person, NormalizePersonChannel) normalization *)
Definition single_id (cmd : pcmd) : option bytes :=
  let src := fst (FromCommandChannel (c_chan cmd)) in
  if (c_type cmd =? channelTypePerson) && c_norm cmd
  then NormalizePersonChannel (c_from cmd) src else Some src.

Definition id_or_nil (o : option bytes) : bytes := match o with Some i => i | None => [] end.
Definition is_none {A} (o : option A) : bool := match o with None => true | Some _ => false end.

Definition facts_single (rd : reader) (cfg : pcfg) (cmd : pcmd) : facts :=
  facts_at rd cfg cmd (is_none (single_id cmd)) (id_or_nil (single_id cmd)).

Definition cmd_permission_free (cmd : pcmd) : bool :=
  c_req cmd || ((0 <? c_scoped cmd) && is_nil (c_chan cmd)).

(* the ChannelID of the command returned on success: reapplyCommandChannel *)
Definition single_out (cmd : pcmd) : bytes :=
  if cmd_permission_free cmd then c_chan cmd else
  let id := id_or_nil (single_id cmd) in
  if snd (FromCommandChannel (c_chan cmd)) then ToCommandChannel id else id.

(* a permission outcome: (channel id, reason, error) *)
Definition outcome := (bytes * res)%type.

Definition single_outcome (rd : reader) (cfg : pcfg) (cmd : pcmd) : outcome :=
  (single_out cmd, checkSendPermission (facts_single rd cfg cmd)).

(* ---- batch path: read list, addRead, index plans --------------------------------------- *)

Fixpoint index_of (r : pread) (l : list pread) : option nat :=
  match l with
  | [] => None
  | x :: t => if pread_eqb x r then Some 0%nat
              else match index_of r t with Some i => Some (S i) | None => None end
  end.

(* addRead: the index of an equal earlier read, else append *)
Definition addRead (reads : list pread) (r : pread) : list pread * nat :=
  match index_of r reads with
  | Some i => (reads, i)
  | None => (reads ++ [r], length reads)
  end.

(* results[index] for index >= 0; None for -1 *)
Definition slot (results : list rresult) (idx : option nat) : option rresult :=
  match idx with Some i => Some (nth i results zero_result) | None => None end.

Record groupPermissionReadPlan := GPlan {
  gp_command : pcmd; gp_trusted : bool;
  gp_senderChannel : option nat; gp_groupChannel : option nat; gp_denied : option nat;
  gp_subscriber : option nat; gp_hasAllowlist : option nat; gp_allowlistEntry : option nat }.

(* one iteration of the planning loop of checkGroupSendPermissionsBatch *)
Definition planGroup (cfg : pcfg) (reads : list pread) (cmd : pcmd)
  : list pread * groupPermissionReadPlan :=
  let src := fst (FromCommandChannel (c_chan cmd)) in
  let t := c_type cmd in
  let from := c_from cmd in
  let '(reads, gi) := addRead reads (chanRead src t) in
  if IsSystemUID cfg from then
    (reads, GPlan cmd true None (Some gi) None None None None)
  else
    let '(reads, si) := addRead reads (chanRead from channelTypePerson) in
    if is_system_device cfg cmd then
      (reads, GPlan cmd true (Some si) (Some gi) None None None None)
    else
      let '(reads, di) := addRead reads (containsRead 1 t src t from) in
      let '(reads, ui) := addRead reads (containsRead 0 0 src t from) in
      let '(reads, hi) := addRead reads (hasAnyRead 2 t src t) in
      let '(reads, ai) := addRead reads (containsRead 2 t src t from) in
      (reads, GPlan cmd false (Some si) (Some gi) (Some di) (Some ui) (Some hi) (Some ai)).

Fixpoint planGroups (cfg : pcfg) (reads : list pread) (cmds : list pcmd)
  : list pread * list groupPermissionReadPlan :=
  match cmds with
  | [] => (reads, [])
  | cmd :: rest =>
      let '(reads1, p) := planGroup cfg reads cmd in
      let '(reads2, ps) := planGroups cfg reads1 rest in
      (reads2, p :: ps)
  end.

Definition groupSlotsOfPlan (p : groupPermissionReadPlan) (results : list rresult) : groupSlots :=
  GSlots (gp_trusted p) (slot results (gp_senderChannel p)) (slot results (gp_groupChannel p))
         (slot results (gp_denied p)) (slot results (gp_subscriber p))
         (slot results (gp_hasAllowlist p)) (slot results (gp_allowlistEntry p)).

(* outcome.channelID = plan.command.ChannelID: the id as given *)
Definition checkGroupSendPermissionsBatch (rd : reader) (cfg : pcfg) (cmds : list pcmd) : list outcome :=
  let '(reads, plans) := planGroups cfg [] cmds in
  let readResults := map rd reads in
  map (fun p => (c_chan (gp_command p),
                 evaluateGroupPermissionReadPlan (groupSlotsOfPlan p readResults))) plans.

Record personPermissionReadPlan := PPlan {
  pp_channel : bytes;                 (* plan.command.ChannelID *)
  pp_planErr : bool;
  pp_trusted : bool; pp_systemDevice : bool; pp_receiverTrusted : bool;
  pp_senderChannel : option nat; pp_terminalChannel : option nat; pp_denied : option nat;
  pp_allowlistEntry : option nat; pp_receiverChannel : option nat }.

(* one iteration of the planning loop of checkPersonSendPermissionsBatch *)
Definition planPerson (cfg : pcfg) (reads : list pread) (cmd : pcmd)
  : list pread * personPermissionReadPlan :=
  let '(sourceChannelID, commandChannel) := FromCommandChannel (c_chan cmd) in
  let from := c_from cmd in
  let normalized := if c_norm cmd then NormalizePersonChannel from sourceChannelID
                    else Some sourceChannelID in
  match normalized with
  | None => (reads, PPlan sourceChannelID true false false false None None None None None)
  | Some nid =>
    let cid := if commandChannel then ToCommandChannel nid else nid in
    let permissionChannelID := fst (FromCommandChannel cid) in
    let '(reads, ti) := addRead reads (chanRead permissionChannelID channelTypePerson) in
    if IsSystemUID cfg from then
      (reads, PPlan cid false true false false None (Some ti) None None None)
    else
      let '(reads, si) := addRead reads (chanRead from channelTypePerson) in
      if is_system_device cfg cmd then
        (reads, PPlan cid false false true false (Some si) (Some ti) None None None)
      else
        match person_receiver from permissionChannelID with
        | None => (reads, PPlan cid true false false false (Some si) (Some ti) None None None)
        | Some receiver =>
          if IsSystemUID cfg receiver then
            (reads, PPlan cid false false false true (Some si) (Some ti) None None None)
          else
            let pt := channelTypePerson in
            let '(reads, di) := addRead reads (containsRead 1 pt receiver pt from) in
            if cfg_wl cfg then
              let '(reads, ai) := addRead reads (containsRead 2 pt receiver pt from) in
              let '(reads, ri) := addRead reads (chanRead receiver pt) in
              (reads, PPlan cid false false false false (Some si) (Some ti) (Some di) (Some ai) (Some ri))
            else
              (reads, PPlan cid false false false false (Some si) (Some ti) (Some di) None None)
        end
  end.

Fixpoint planPersons (cfg : pcfg) (reads : list pread) (cmds : list pcmd)
  : list pread * list personPermissionReadPlan :=
  match cmds with
  | [] => (reads, [])
  | cmd :: rest =>
      let '(reads1, p) := planPerson cfg reads cmd in
      let '(reads2, ps) := planPersons cfg reads1 rest in
      (reads2, p :: ps)
  end.

Definition personSlotsOfPlan (p : personPermissionReadPlan) (results : list rresult) : personSlots :=
  PSlots (pp_planErr p) (pp_trusted p) (pp_systemDevice p) (pp_receiverTrusted p)
         (slot results (pp_senderChannel p)) (slot results (pp_terminalChannel p))
         (slot results (pp_denied p)) (slot results (pp_allowlistEntry p))
         (slot results (pp_receiverChannel p)).

Definition checkPersonSendPermissionsBatch (rd : reader) (cfg : pcfg) (cmds : list pcmd) : list outcome :=
  let '(reads, plans) := planPersons cfg [] cmds in
  let readResults := map rd reads in
  map (fun p => (pp_channel p,
                 evaluatePersonPermissionReadPlan (personSlotsOfPlan p readResults))) plans.

(* ---- send.go: coalescing and routing of a SendBatch -------------------------------------- *)

Definition pcmd_eqb (a b : pcmd) : bool :=
  bytes_eqb (c_from a) (c_from b) && bytes_eqb (c_dev a) (c_dev b) && bytes_eqb (c_chan a) (c_chan b)
  && (c_type a =? c_type b) && Bool.eqb (c_norm a) (c_norm b) && Bool.eqb (c_req a) (c_req b)
  && (c_scoped a =? c_scoped b).

(* permissionScopeForBatch / resolveSendBatchPermissions: coalescible and batched *)
Definition cmd_batchable (cmd : pcmd) : bool := negb (c_req cmd) && (c_scoped cmd =? 0).
Definition batched_group (cmd : pcmd) : bool := cmd_batchable cmd && (c_type cmd =? channelTypeGroup).
Definition batched_person (cmd : pcmd) : bool := cmd_batchable cmd && (c_type cmd =? channelTypePerson).

(* representatives: first occurrence of each permission scope, in item order *)
Fixpoint representatives (seen : list pcmd) (items : list pcmd) : list pcmd :=
  match items with
  | [] => []
  | c :: rest => if existsb (pcmd_eqb c) seen then representatives seen rest
                 else c :: representatives (c :: seen) rest
  end.

Fixpoint lookup_outcome (c : pcmd) (reps : list pcmd) (outs : list outcome) : option outcome :=
  match reps, outs with
  | r :: reps', o :: outs' => if pcmd_eqb r c then Some o else lookup_outcome c reps' outs'
  | _, _ => None
  end.

(* per-item permission outcomes of SendBatch on an App with a PermissionBatchStore *)
Definition batch_outcomes (rd : reader) (cfg : pcfg) (items : list pcmd) : list outcome :=
  let reps := representatives [] items in
  let groups := filter batched_group reps in
  let persons := filter batched_person reps in
  let gouts := checkGroupSendPermissionsBatch rd cfg groups in
  let pouts := checkPersonSendPermissionsBatch rd cfg persons in
  map (fun c =>
         if batched_group c then
           match lookup_outcome c groups gouts with Some o => o | None => single_outcome rd cfg c end
         else if batched_person c then
           match lookup_outcome c persons pouts with Some o => o | None => single_outcome rd cfg c end
         else single_outcome rd cfg c) items.

(* ---- what one SendBatch item amounts to (proved in Proof/Permission_batch.v) -------------------
   The ids the batch planners derive, the facts they read, and the outcome of one item. *)

Definition group_id (cmd : pcmd) : bytes := fst (FromCommandChannel (c_chan cmd)).

(* the permission channel id checkPersonSendPermissionsBatch works with *)
Definition person_batch_normalized (cmd : pcmd) : option bytes :=
  let src := fst (FromCommandChannel (c_chan cmd)) in
  if c_norm cmd then NormalizePersonChannel (c_from cmd) src else Some src.
Definition person_batch_cid (cmd : pcmd) (nid : bytes) : bytes :=
  if snd (FromCommandChannel (c_chan cmd)) then ToCommandChannel nid else nid.
Definition person_batch_id (cmd : pcmd) : option bytes :=
  match person_batch_normalized cmd with
  | None => None
  | Some nid => Some (fst (FromCommandChannel (person_batch_cid cmd nid)))
  end.

Definition facts_batch (rd : reader) (cfg : pcfg) (cmd : pcmd) : facts :=
  if c_type cmd =? channelTypePerson
  then facts_at rd cfg cmd (is_none (person_batch_id cmd)) (id_or_nil (person_batch_id cmd))
  else facts_at rd cfg cmd false (group_id cmd).

(* the channel id of the outcome *)
Definition batch_out (cmd : pcmd) : bytes :=
  if c_type cmd =? channelTypePerson then
    match person_batch_normalized cmd with
    | None => fst (FromCommandChannel (c_chan cmd))
    | Some nid => person_batch_cid cmd nid
    end
  else c_chan cmd.

(* the outcome of one SendBatch item on an App with a PermissionBatchStore *)
Definition batch_outcome1 (rd : reader) (cfg : pcfg) (cmd : pcmd) : outcome :=
  if batched_group cmd || batched_person cmd
  then (batch_out cmd, decide_batch (facts_batch rd cfg cmd))
  else single_outcome rd cfg cmd.

(* ---- permission_cache.go ---------------------------------------------------------------------
   Read-through cache over a store that answers [store k]; one map (the three maps of the
   code are the same generic code on disjoint key types).  A value is cached unless the read
   failed with an error other than NotFound ([cacheable]). *)
Section Cache.
  Context {K V : Type}.
  Variable keqb : K -> K -> bool.
  Variable cacheable : V -> bool.

  Record centry := CEntry { ce_key : K; ce_value : V; ce_expires : N }.
  Record cstate := CState { cs_generation : N; cs_entries : list centry }.

  Definition cache_empty : cstate := CState 0 [].

  Definition cache_find (k : K) (es : list centry) : option centry :=
    find (fun e => keqb (ce_key e) k) es.
  Definition cache_delete (k : K) (es : list centry) : list centry :=
    filter (fun e => negb (keqb (ce_key e) k)) es.

  (* permissionCacheGet: (hit value, state); an expired entry is deleted *)
  Definition permissionCacheGet (c : cstate) (k : K) (now : N) : option V * cstate :=
    match cache_find k (cs_entries c) with
    | Some e => if now <? ce_expires e then (Some (ce_value e), c)
                else (None, CState (cs_generation c) (cache_delete k (cs_entries c)))
    | None => (None, c)
    end.

  (* permissionCachePut: dropped when the generation moved; clear when full; set *)
  Definition permissionCachePut (c : cstate) (k : K) (v : V) (expires generation : N) : cstate :=
    if negb (cs_generation c =? generation) then c else
    let es := if permissionCacheMaxEntries <=? N.of_nat (length (cs_entries c)) then [] else cs_entries c in
    CState (cs_generation c) (CEntry k v expires :: cache_delete k es).

  Definition resetAfterRestore (c : cstate) : cstate := CState (cs_generation c + 1) [].

  (* one cached read (GetChannelForPermission / ContainsChannelSubscriber / HasChannelSubscribers) *)
  Definition cache_read (store : K -> V) (ttl : N) (c : cstate) (k : K) (now : N) : V * cstate :=
    match permissionCacheGet c k now with
    | (Some v, c') => (v, c')
    | (None, c') =>
        let v := store k in
        if cacheable v then (v, permissionCachePut c' k v (now + ttl) (cs_generation c')) else (v, c')
    end.

  (* the same read with ResetAfterRestore running between its Get and its Put *)
  Definition cache_read_racing (store : K -> V) (ttl : N) (c : cstate) (k : K) (now : N) : V * cstate :=
    match permissionCacheGet c k now with
    | (Some v, c') => (v, resetAfterRestore c')
    | (None, c') =>
        let v := store k in
        let c'' := resetAfterRestore c' in
        if cacheable v then (v, permissionCachePut c'' k v (now + ttl) (cs_generation c')) else (v, c'')
    end.

  Inductive cache_op := CRead (k : K) (now : N) | CReadRacing (k : K) (now : N) | CReset.

  (* the answers of a history of operations *)
  Fixpoint cache_run (store : K -> V) (ttl : N) (c : cstate) (ops : list cache_op) : list V :=
    match ops with
    | [] => []
    | CRead k now :: rest => let '(v, c') := cache_read store ttl c k now in v :: cache_run store ttl c' rest
    | CReadRacing k now :: rest =>
        let '(v, c') := cache_read_racing store ttl c k now in v :: cache_run store ttl c' rest
    | CReset :: rest => cache_run store ttl (resetAfterRestore c) rest
    end.
End Cache.

(* ======================================================================================
   Case-file interface
   ====================================================================================== *)

Record obs := Obs { o_reason : N; o_err : N; o_chan : option bytes }.

Record c36_case := C36Case {
  k_cfg : pcfg;
  k_table : list (pread * rresult);     (* every read any path performed, with its answer *)
  k_items : list pcmd;
  k_paths : list (N * list obs) }.      (* path id (see harness) -> per-item observations *)

Definition unknown_result : rresult := RR false false false false false false true.

Definition table_reader (tbl : list (pread * rresult)) : reader :=
  fun r => match find (fun e => pread_eqb (fst e) r) tbl with
           | Some e => snd e
           | None => unknown_result
           end.

(* what Send / SendBatch report for a permission outcome with a submitter that accepts *)
Definition obs_of (o : outcome) : obs :=
  let '(ch, r) := o in
  Obs (fst r) (errc_code (snd r)) (if ok r then Some ch else None).

Definition obs_eqb (a b : obs) : bool :=
  (o_reason a =? o_reason b) && (o_err a =? o_err b) && option_eqb bytes_eqb (o_chan a) (o_chan b).

Definition model_single (c : c36_case) : list obs :=
  let rd := table_reader (k_table c) in
  map (fun cmd => obs_of (single_outcome rd (k_cfg c) cmd)) (k_items c).
Definition model_batch_all (c : c36_case) : list obs :=
  map obs_of (batch_outcomes (table_reader (k_table c)) (k_cfg c) (k_items c)).
Definition model_batch_each (c : c36_case) : list obs :=
  let rd := table_reader (k_table c) in
  flat_map (fun cmd => map obs_of (batch_outcomes rd (k_cfg c) [cmd])) (k_items c).

(* path ids of the harness: 4 = SendBatch(all) with batch store, 5 = SendBatch([item]) each,
   all others (Send, cached Send cold/warm/expired, fallback SendBatch) = per-send path *)
Definition is_batch_path (p : N) : bool := (p =? 4) || (p =? 5).
Definition path_ids : list N := [0; 1; 2; 3; 4; 5; 6; 7].

Definition model_path (c : c36_case) (p : N) : list obs :=
  if p =? 4 then model_batch_all c else if p =? 5 then model_batch_each c else model_single c.

Definition path_obs (c : c36_case) (p : N) : option (list obs) :=
  match find (fun e => fst e =? p) (k_paths c) with Some e => Some (snd e) | None => None end.

Definition C36_mismatch (c : c36_case) : bool :=
  negb (forallb (fun p => match path_obs c p with
                          | Some os => list_eqb obs_eqb os (model_path c p)
                          | None => false
                          end) path_ids).

(* ---- the property on implementation observations -------------------------------------------
   Inputs: configuration, commands, the fact table.  Observations: per path and item.
   (a) every per-send-family path reports, item by item, the same observation as path 0;
   (b) path 0 reports the decision of the precedence table on the facts of the command;
   (c) the batch paths report the same as path 0 — except on the two known divergences:
       code 2 (C36-K1): the permission channel id still ends in the command suffix;
       code 3 (C36-K2): person channel id that cannot be decoded while an earlier check of the
                        per-send order fails (the batch path reports the decode error first);
   (d) code 4 (C36-K3): all paths agree, but the target is disbanded and the reason is SendBan or
       Ban: the order that exists is not the "disbanded first" of the property text. *)

Definition spec_obs (rd : reader) (cfg : pcfg) (cmd : pcmd) : obs :=
  obs_of (single_out cmd, spec_decision (facts_single rd cfg cmd)).

(* C36-K1 signature, on the command alone *)
Definition sig_k1 (cmd : pcmd) : bool :=
  cmd_batchable cmd
  && ((c_type cmd =? channelTypeGroup) || (c_type cmd =? channelTypePerson))
  && match single_id cmd with Some id => IsCommandChannel id | None => false end.

(* C36-K2 signature: command + facts + the two observations *)
Definition sig_k2 (rd : reader) (cfg : pcfg) (cmd : pcmd) (o0 ob : obs) : bool :=
  k2_cond (facts_single rd cfg cmd)
  && obs_eqb ob (Obs ReasonSuccess (errc_code EPerson) None)
  && negb (obs_eqb o0 ob).

Definition nth_obs (os : list obs) (i : nat) : option obs := nth_error os i.

(* verdict for item [i]: 0 ok, 1 violation, 2 / 3 known divergence of the batch paths,
   4 all paths agree on SendBan / Ban for a disbanded target (C36-K3) *)
Definition item_code (c : c36_case) (rd : reader) (i : nat) (cmd : pcmd) : N :=
  match path_obs c 0 with
  | None => 1
  | Some os0 =>
    match nth_obs os0 i with
    | None => 1
    | Some o0 =>
      let same p := match path_obs c p with
                    | Some os => match nth_obs os i with Some o => obs_eqb o o0 | None => false end
                    | None => false
                    end in
      if negb (forallb same [1; 2; 3; 6; 7]) then 1
      else if negb (obs_eqb o0 (spec_obs rd (k_cfg c) cmd)) then 1
      else
        let batch_code p :=
          match path_obs c p with
          | Some os => match nth_obs os i with
                       | Some o => if obs_eqb o o0 then 0
                                   else if sig_k1 cmd then 2
                                   else if sig_k2 rd (k_cfg c) cmd o0 o then 3
                                   else 1
                       | None => 1
                       end
          | None => 1
          end in
        let a := batch_code 4 in let b := batch_code 5 in
        if (a =? 1) || (b =? 1) then 1
        else if 0 <? N.max a b then N.max a b
        else if sig_k3 (facts_single rd (k_cfg c) cmd) (o_reason o0) (o_err o0) then 4
        else 0
    end
  end.

Fixpoint item_codes (c : c36_case) (rd : reader) (i : nat) (items : list pcmd) : list N :=
  match items with
  | [] => []
  | cmd :: rest => item_code c rd i cmd :: item_codes c rd (S i) rest
  end.

Definition lengths_ok (c : c36_case) : bool :=
  forallb (fun p => match path_obs c p with
                    | Some os => (length os =? length (k_items c))%nat
                    | None => false
                    end) path_ids.

Definition C36_monitor (c : c36_case) : N :=
  if negb (lengths_ok c) then 1 else
  let codes := item_codes c (table_reader (k_table c)) 0 (k_items c) in
  if existsb (N.eqb 1) codes then 1
  else if existsb (N.eqb 2) codes then 2
  else if existsb (N.eqb 3) codes then 3
  else if existsb (N.eqb 4) codes then 4
  else 0.

(* ---- vocabulary of the monitor theorem ------------------------------------------------------------ *)

(* the case whose observations are the model's *)
Definition model_case (cfg : pcfg) (tbl : list (pread * rresult)) (items : list pcmd) : c36_case :=
  let c0 := C36Case cfg tbl items [] in
  C36Case cfg tbl items (map (fun p => (p, model_path c0 p)) path_ids).

Definition single_obs (cfg : pcfg) (tbl : list (pread * rresult)) (items : list pcmd) : list obs :=
  map (fun cmd => obs_of (single_outcome (table_reader tbl) cfg cmd)) items.

(* no item of the batch falls under C36-K1, C36-K2 or C36-K3 *)
Definition no_divergence (cfg : pcfg) (tbl : list (pread * rresult)) (items : list pcmd) : bool :=
  forallb (fun c => let f := facts_single (table_reader tbl) cfg c in
                    negb (sig_k1 c) && negb (k2_cond f) && negb (k3_cond f)) items.
