(* Model/WorkQueue.v — pkg/workqueue: the observable HISTORY of one queue
   (admission / run / cancel / close / shard-drain events, every event stamped
   by one global clock) and the C37 property as a boolean monitor over such a
   history.  The three transition systems that produce histories are in
   Model/WorkQueue_worker.v (BoundedWorkerQueue), Model/WorkQueue_dpool.v
   (BoundedPool and BoundedBatchPool: the dispatcher pools) and
   Model/WorkQueue_mailbox.v (ShardedMailbox). *)
From WK Require Import Base.Base.
Open Scope N_scope.

Inductive qkind := KPool | KBatch | KWorker | KMailbox.

Record cfg := Cfg {
  c_kind : qkind;
  c_workers : N;          (* Workers *)
  c_qsize : N;            (* QueueSize / QueueSizePerShard *)
  c_shards : N;           (* Shards (mailbox), 1 otherwise *)
  c_batch : N;            (* effective max batch size (>= 1) *)
  c_cancel_acc : bool;    (* CancelAcceptedOnClose *)
  c_cancel_run : bool }.  (* CancelRunningOnClose *)

(* result class of one Submit / SubmitWait call *)
Inductive sres := ROk | RFull | RClosed | RCtx.

(* a completed Submit call: task id (unique per call), shard (0 unless mailbox),
   call stamp, return stamp, result *)
Record sub := Sub { s_task : N; s_shard : N; s_b : N; s_e : N; s_res : sres }.
(* one item delivered to a handler: the handler call began at r_b and returned
   at r_e; r_pos is the item's index in the batch slice (0 for single items) *)
Record runr := Run { r_task : N; r_shard : N; r_b : N; r_e : N; r_pos : N }.
(* CancelAccepted hook called for a task *)
Record canr := Can { k_task : N; k_at : N }.
(* a completed Close call; l_ok = returned nil *)
Record clo := Clo { l_b : N; l_e : N; l_ok : bool }.
(* one shard drain of a mailbox: [d_b, d_e] *)
Record drn := Drn { d_shard : N; d_b : N; d_e : N }.

Record hist := Hist {
  h_cfg : cfg;
  h_subs : list sub;
  h_runs : list runr;
  h_cans : list canr;
  h_clos : list clo;
  h_drains : list drn }.

Definition is_ok (r : sres) : bool := match r with ROk => true | _ => false end.
Definition kind_eqb (a b : qkind) : bool :=
  match a, b with
  | KPool, KPool | KBatch, KBatch | KWorker, KWorker | KMailbox, KMailbox => true
  | _, _ => false
  end.

Fixpoint nodupb (l : list N) : bool :=
  match l with
  | [] => true
  | x :: r => negb (existsb (N.eqb x) r) && nodupb r
  end.

(* forall ordered pairs (a before b in the list): f a b && f b a *)
Fixpoint all_pairs {A} (f : A -> A -> bool) (l : list A) : bool :=
  match l with
  | [] => true
  | a :: r => forallb (fun b => f a b && f b a) r && all_pairs f r
  end.

(* ---- terminal events of a task ------------------------------------------------ *)

Definition terminal_ids (h : hist) : list N := map r_task (h_runs h) ++ map k_task (h_cans h).

Definition has_terminal (h : hist) (x : N) : bool := existsb (N.eqb x) (terminal_ids h).

Definition terminal_before (h : hist) (x ce : N) : bool :=
  existsb (fun r => (r_task r =? x) && (r_e r <? ce)) (h_runs h)
  || existsb (fun k => (k_task k =? x) && (k_at k <? ce)) (h_cans h).

(* ---- clauses ------------------------------------------------------------------- *)

(* at most one terminal event per task: never run twice, never run and cancelled *)
Definition ok_once (h : hist) : bool := nodupb (terminal_ids h).

(* a rejected task never runs (and is never cancelled) *)
Definition ok_rejected (h : hist) : bool :=
  forallb (fun s => is_ok (s_res s) || negb (has_terminal h (s_task s))) (h_subs h).

(* the cancellation hook is only used when CancelAcceptedOnClose is configured *)
Definition ok_cancel_cfg (h : hist) : bool :=
  match h_cans h with
  | [] => true
  | _ => kind_eqb (c_kind (h_cfg h)) KBatch && c_cancel_acc (h_cfg h)
  end.

(* All four known defects strand a SUFFIX of the admission order: once the
   dispatcher / the shard's drain has gone, nothing admitted later is taken either.
   [no_later_terminal]: no task whose Submit was called after [s]'s Submit returned
   has a run or cancel event (pools: one FIFO queue, one dispatcher). *)
Definition no_later_terminal (h : hist) (s : sub) : bool :=
  forallb (fun x => negb (is_ok (s_res x) && (s_e s <? s_b x) && has_terminal h (s_task x))) (h_subs h).
(* mailbox: no handler call of the item's shard began after the item's Submit returned *)
Definition no_later_run_on_shard (h : hist) (s : sub) : bool :=
  forallb (fun r => negb (r_shard r =? s_shard s) || (r_b r <? s_e s)) (h_runs h).

(* Exactly-once + close-waits for one admitted task [s] against one Close that
   returned nil at [l_e c]:
     0  the task has its terminal event before Close returned;
     1  violation (terminal event after Close returned, or lost without matching a known defect);
     2  C37-K1  BoundedPool: the task is lost, its Submit call overlapped a Close call
                (Close is once-only: later calls return the first call's result), and
                nothing admitted after it has a terminal event;
     3  C37-K2  ShardedMailbox: the task is lost, its shard had a drain, and no handler call
                of that shard began after the item was admitted (the item arrived between the
                drain's last empty check and finishShardDrain, which does not reschedule once closed);
     4  C37-K3  BoundedBatchPool, CancelRunningOnClose without CancelAcceptedOnClose: lost,
                and nothing admitted after it has a terminal event (retryExecutor took ctx.Done);
     5  C37-K4  BoundedBatchPool, CancelAcceptedOnClose: lost although other accepted items were
                cancelled, and nothing admitted after it has a terminal event (dispatcher leaves
                without cancelQueued). *)
Definition task_code (h : hist) (c : clo) (s : sub) : N :=
  if terminal_before h (s_task s) (l_e c) then 0
  else if has_terminal h (s_task s) then 1
  else match c_kind (h_cfg h) with
       | KPool => if existsb (fun c' => (s_b s <? l_e c') && (l_b c' <? s_e s)) (h_clos h) && no_later_terminal h s
                  then 2 else 1
       | KMailbox => if existsb (fun d => d_shard d =? s_shard s) (h_drains h) && no_later_run_on_shard h s
                     then 3 else 1
       | KBatch =>
           if no_later_terminal h s then
             if c_cancel_acc (h_cfg h)
             then match h_cans h with [] => 1 | _ => 5 end
             else if c_cancel_run (h_cfg h) then 4 else 1
           else 1
       | KWorker => 1
       end.

(* 1 dominates; otherwise the first non-zero code *)
Definition comb (a b : N) : N :=
  if (a =? 1) || (b =? 1) then 1 else if a =? 0 then b else a.

Definition close_code (h : hist) (c : clo) : N :=
  if l_ok c
  then fold_right (fun s acc => if is_ok (s_res s) then comb (task_code h c s) acc else acc) 0 (h_subs h)
  else 0.

Definition closes_code (h : hist) : N :=
  fold_right (fun c acc => comb (close_code h c) acc) 0 (h_clos h).

(* mailbox: at most one drain per shard at any time *)
Definition drains_disjoint (a b : drn) : bool :=
  negb (d_shard a =? d_shard b) || (d_e a <? d_b b) || (d_e b <? d_b a).
(* ... and handler calls of one shard never overlap (same batch = same call) *)
Definition runs_disjoint (a b : runr) : bool :=
  negb (r_shard a =? r_shard b) || (r_b a =? r_b b) || (r_e a <? r_b b) || (r_e b <? r_b a).

Definition run_before (a b : runr) : bool :=
  (r_b a <? r_b b) || ((r_b a =? r_b b) && (r_pos a <? r_pos b)).

(* shard FIFO: if Submit a returned before Submit b was called (same shard, both
   admitted), a is delivered before b.  [run_of]: the delivery record of a task (unique by ok_once). *)
Definition run_of (h : hist) (x : N) : option runr := find (fun r => r_task r =? x) (h_runs h).

Definition fifo_pair (h : hist) (a b : sub) : bool :=
  if is_ok (s_res a) && is_ok (s_res b) && (s_shard a =? s_shard b) && (s_e a <? s_b b)
  then match run_of h (s_task a), run_of h (s_task b) with
       | Some ra, Some rb => run_before ra rb
       | _, _ => true
       end
  else true.

Definition ok_mailbox (h : hist) : bool :=
  if kind_eqb (c_kind (h_cfg h)) KMailbox
  then all_pairs drains_disjoint (h_drains h)
       && all_pairs runs_disjoint (h_runs h)
       && all_pairs (fifo_pair h) (h_subs h)
  else true.

(* ---- the monitor ------------------------------------------------------------------ *)

Definition C37_monitor (h : hist) : N :=
  if ok_once h && ok_rejected h && ok_cancel_cfg h && ok_mailbox h
  then closes_code h
  else 1.

(* ---- acceptance: facts every history of the model has, independent of the property.
   A real history violating them is outside the model (reported as mismatch). *)
Definition stamps_ok (h : hist) : bool :=
  forallb (fun s => s_b s <? s_e s) (h_subs h)
  && forallb (fun r => r_b r <? r_e r) (h_runs h)
  && forallb (fun c => l_b c <? l_e c) (h_clos h)
  && forallb (fun d => d_b d <? d_e d) (h_drains h).

Definition batch_size_ok (h : hist) : bool :=
  forallb (fun r => r_pos r <? N.max 1 (c_batch (h_cfg h))) (h_runs h).

Definition shards_ok (h : hist) : bool :=
  forallb (fun s => s_shard s <? N.max 1 (c_shards (h_cfg h))) (h_subs h).

Definition C37_mismatch (h : hist) : bool :=
  negb (nodupb (map s_task (h_subs h)) && stamps_ok h && batch_size_ok h && shards_ok h).

Definition c37_case := hist.

(* ---- helpers shared by the three transition systems ------------------------------ *)

Fixpoint set_nth {A} (t : nat) (x : A) (d : A) (l : list A) : list A :=
  match t, l with
  | O, [] => [x]
  | O, _ :: r => x :: r
  | S t', [] => d :: set_nth t' x d []
  | S t', y :: r => y :: set_nth t' x d r
  end.

(* the Close caller (Close is once-only: one caller is modelled) *)
Inductive cpc :=
| CIdle
| CStart (cb : N)       (* Close called at cb; admission not yet closed *)
| CMid (cb : N)         (* closed stored; stop channel / shard flags not yet done *)
| CWait (cb : N)        (* waiting for the wait groups *)
| CDone.
