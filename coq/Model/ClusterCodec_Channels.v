(* Model/ClusterCodec_Channels.v — pkg/cluster/channels/codec.go.

   Frames: [version][kind][body]; decodeFrameWithVersion accepts versions
   3..7, encodeRequestFrame / encodeRPCResultVersion write 5, 6 or 7; bodies
   are read by the read* functions (here: one format per read* function, same
   name, parameterised by the frame version where the code is); RPC results
   carry a status byte in front of the payload.

   Modelled: the eleven request codecs (pull, pull batch, ack, pull hint, pull
   hint batch, notify, append, append batch, last visible, conversation heads,
   committed reads) and three result codecs (pull response, append response,
   last visible response), with every primitive (uvarint / varint / readInt /
   bool / string / optional bytes / time / slice header / collection length).
   NOT modelled (run by the harness against the implementation only): the
   result codecs with item-scoped errors (pull batch, pull hint batch, append
   batch, conversation heads, committed reads responses) — the error value is
   rebuilt from (code, message) by string surgery (decodeRPCApplicationError).

   Fields of the Go structs that the wire does not carry are kept in the
   records and excluded from the encoder's domain ([dom] of FMapD):
   Message.SyncOnce, Record.SyncOnce, Meta.RouteGeneration; a copied empty
   payload comes back nil. *)
From WK Require Import Base.Base Base.Bytes Model.ClusterCodecBase Gen.Consts_C27.
Open Scope N_scope.
Local Open Scope fmt_scope.

Ltac ch_iso :=
  let b := fresh "b" in let a := fresh "a" in let E := fresh "E" in let D := fresh "D" in
  intros b a E D; destruct b; cbn in E, D; inversion E; subst;
  repeat match goal with
         | H : (_ && _)%bool = true |- _ => apply andb_true_iff in H; destruct H
         | H : negb ?x = true |- _ => destruct x; [discriminate H|clear H]
         | H : (?x =? 0) = true |- _ => apply N.eqb_eq in H; subst
         end;
  cbn; try reflexivity.

(* ---- primitives ------------------------------------------------------------------ *)

Definition u64max_c : N := 18446744073709551615.
(* readString / readBytes: uvarint length, offset+length <= len(body) *)
Definition f_s : fmt bytes := FBytes u64max_c.
Definition Z_is0_spec : forall x, Z.eqb x 0 = true -> x = 0%Z.
Proof. intros x H. apply Z.eqb_eq. exact H. Qed.
Definition FZeroZ : fmt Z := FConst 0%Z (fun x => Z.eqb x 0) Z_is0_spec.

(* []byte with the nil / non-nil distinction of appendOptionalBytes; readBytesCopy
   of an empty value gives nil again *)
Definition opt_bytes := option bytes.
Definition norm_payload (o : opt_bytes) : opt_bytes :=
  match o with Some [] => None | x => x end.
Definition payload_dom (o : opt_bytes) : bool :=
  match o with Some [] => false | _ => true end.
Lemma norm_payload_id o : payload_dom o = true -> norm_payload o = o.
Proof. destruct o as [[|x l]|]; cbn; intro H; try reflexivity; discriminate. Qed.
(* readOptionalBytes *)
Definition f_optbytes : fmt opt_bytes := FOpt f_s.

(* appendTime / readTime: zero time = None, else UnixNano *)
Definition f_time : fmt (option Z) := FOpt FVarint.

(* ch.ChannelID *)
Record chan_id := ChanId { cid_id : bytes; cid_type : N }.
Definition readChannelID : fmt chan_id :=
  FMap (f_s ;; FByte) (fun '(i, t) => ChanId i t) (fun c => Some (cid_id c, cid_type c))
       ltac:(intros b a E; destruct b; cbn in E; inversion E; subst; reflexivity).

(* readNodeIDs *)
Definition readNodeIDs : fmt (option (list N)) := FList CKPresRem 0 (fun _ => FUvarint).

(* ---- version predicates ----------------------------------------------------------------- *)

Definition version_known (v : N) : bool :=
  (v =? legacyCodecVersionV3) || (v =? legacyCodecVersionV4) || (v =? legacyCodecVersionV5)
  || (v =? legacyCodecVersionV6) || (v =? codecVersion).
Definition version_writable (v : N) : bool :=
  (v =? legacyCodecVersionV5) || (v =? legacyCodecVersionV6) || (v =? codecVersion).

(* ---- ch.Message --------------------------------------------------------------------------- *)

Record cmessage := CMessage {
  cm_id : N; cm_seq : N; cm_channel_id : bytes; cm_channel_type : N; cm_setting : N;
  cm_from_uid : bytes; cm_client_msg_no : bytes; cm_ts : Z; cm_trace_id : bytes;
  cm_channel_key : bytes; cm_sync_once : bool; cm_payload : opt_bytes }.

(* the version switch of readMessage: v3 has neither timestamp nor setting, v4 no setting *)
Definition msg_ts (ver : N) : fmt Z := if ver =? legacyCodecVersionV3 then FZeroZ else FVarint.
Definition msg_setting (ver : N) : fmt N :=
  if (ver =? legacyCodecVersionV3) || (ver =? legacyCodecVersionV4) then FZero else FByte.

Definition readMessage (ver : N) : fmt cmessage :=
  FMapD (FUvarint ;; FUvarint ;; f_s ;; FByte ;; f_s ;; f_s ;; msg_ts ver ;; msg_setting ver ;;
         f_s ;; f_s ;; f_optbytes)
        (fun '(i, (s, (c, (t, (u, (n, (ts, (st, (tr, (k, p)))))))))) =>
           CMessage i s c t st u n ts tr k false (norm_payload p))
        (fun m => Some (cm_id m, (cm_seq m, (cm_channel_id m, (cm_channel_type m, (cm_from_uid m,
                   (cm_client_msg_no m, (cm_ts m, (cm_setting m, (cm_trace_id m, (cm_channel_key m,
                    cm_payload m)))))))))))
        (fun m => negb (cm_sync_once m) && payload_dom (cm_payload m))
        ltac:(ch_iso; rewrite norm_payload_id by assumption; reflexivity).

(* readMessages *)
Definition readMessages (ver : N) : fmt (option (list cmessage)) :=
  FList CKPresRem 0 (fun _ => readMessage ver).

(* ---- ch.Record (channels layout: SizeBytes is a varint) -------------------------------------- *)

Record crecord := CRecord {
  cr_id : N; cr_index : N; cr_epoch : N; cr_setting : N; cr_from_uid : bytes; cr_client_msg_no : bytes;
  cr_ts : Z; cr_sync_once : bool; cr_payload : opt_bytes; cr_size : Z }.

Definition rec_str (ver : N) : fmt bytes := if ver =? legacyCodecVersionV3 then FNil else f_s.

Definition readRecord (ver : N) : fmt crecord :=
  FMapD (FUvarint ;; FUvarint ;; FUvarint ;; rec_str ver ;; rec_str ver ;; msg_ts ver ;; msg_setting ver ;;
         f_optbytes ;; FVarint)
        (fun '(i, (x, (e, (u, (n, (ts, (st, (p, z)))))))) =>
           CRecord i x e st u n ts false (norm_payload p) z)
        (fun r => Some (cr_id r, (cr_index r, (cr_epoch r, (cr_from_uid r, (cr_client_msg_no r,
                   (cr_ts r, (cr_setting r, (cr_payload r, cr_size r)))))))))
        (fun r => negb (cr_sync_once r) && payload_dom (cr_payload r))
        ltac:(ch_iso; rewrite norm_payload_id by assumption; reflexivity).

Definition readRecords (ver : N) : fmt (option (list crecord)) :=
  FList CKPresRem 0 (fun _ => readRecord ver).

(* ---- ch.Meta -------------------------------------------------------------------------------------- *)

Record cmeta := CMeta {
  me_key : bytes; me_id : chan_id; me_epoch : N; me_leader_epoch : N; me_route_generation : N;
  me_leader : N; me_replicas : option (list N); me_isr : option (list N); me_min_isr : Z;
  me_lease_until : option Z; me_retention_through_seq : N;
  me_fence_token : bytes; me_fence_version : N; me_fence_reason : N; me_fence_until : option Z;
  me_status : N }.

Definition is_none_z (o : option Z) : bool := match o with None => true | Some _ => false end.
Lemma is_none_z_spec : forall x, is_none_z x = true -> x = None.
Proof. intros [z|] H; [discriminate|reflexivity]. Qed.
Definition FNoTime : fmt (option Z) := FConst None is_none_z is_none_z_spec.

(* the fields appended from version 6 on *)
Definition v6 (ver : N) : bool := legacyCodecVersionV6 <=? ver.
Definition meta_uv (ver : N) : fmt N := if v6 ver then FUvarint else FZero.
Definition meta_str (ver : N) : fmt bytes := if v6 ver then f_s else FNil.
Definition meta_byte (ver : N) : fmt N := if v6 ver then FByte else FZero.
Definition meta_time (ver : N) : fmt (option Z) := if v6 ver then f_time else FNoTime.

Definition readMeta (ver : N) : fmt cmeta :=
  FMapD (f_s ;; readChannelID ;; FUvarint ;; FUvarint ;; FUvarint ;; readNodeIDs ;; readNodeIDs ;;
         FVarint ;; f_time ;; FByte ;;
         meta_uv ver ;; meta_str ver ;; meta_uv ver ;; meta_byte ver ;; meta_time ver)
        (fun '(k, (i, (e, (le, (l, (rs, (isr, (mi, (lu, (st, (rt, (ft, (fv, (fr, fu)))))))))))))) =>
           CMeta k i e le 0 l rs isr mi lu rt ft fv fr fu st)
        (fun m => Some (me_key m, (me_id m, (me_epoch m, (me_leader_epoch m, (me_leader m, (me_replicas m,
                   (me_isr m, (me_min_isr m, (me_lease_until m, (me_status m, (me_retention_through_seq m,
                   (me_fence_token m, (me_fence_version m, (me_fence_reason m, me_fence_until m)))))))))))))))
        (fun m => me_route_generation m =? 0)
        ltac:(ch_iso).

(* ---- requests ------------------------------------------------------------------------------------------ *)

Record pull_request := PullRequest {
  pl_key : bytes; pl_id : chan_id; pl_epoch : N; pl_leader_epoch : N; pl_follower : N;
  pl_next_offset : N; pl_ack_offset : N; pl_max_bytes : Z; pl_need_meta : bool }.
Definition readPullRequest : fmt pull_request :=
  FMap (f_s ;; readChannelID ;; FUvarint ;; FUvarint ;; FUvarint ;; FUvarint ;; FUvarint ;; FVarint ;; FBool)
       (fun '(k, (i, (e, (le, (f, (n, (a, (m, nm)))))))) => PullRequest k i e le f n a m nm)
       (fun q => Some (pl_key q, (pl_id q, (pl_epoch q, (pl_leader_epoch q, (pl_follower q,
                  (pl_next_offset q, (pl_ack_offset q, (pl_max_bytes q, pl_need_meta q)))))))))
       ltac:(intros b a E; destruct b; cbn in E; inversion E; subst; reflexivity).

(* readPullBatchRequest: count, readCollectionLen(count, remaining), make, loop *)
Definition readPullBatchRequest : fmt (list pull_request) :=
  FMap (FList CKRem 0 (fun _ => readPullRequest)) list_of (fun l => Some (Some l))
       ltac:(intros b a E; inversion E; subst; reflexivity).

Record ack_request := AckRequest {
  ak_key : bytes; ak_epoch : N; ak_leader_epoch : N; ak_follower : N; ak_match_offset : N;
  ak_activity_version : N; ak_stopped : bool }.
Definition readAckRequest : fmt ack_request :=
  FMap (f_s ;; FUvarint ;; FUvarint ;; FUvarint ;; FUvarint ;; FUvarint ;; FBool)
       (fun '(k, (e, (le, (f, (m, (a, s)))))) => AckRequest k e le f m a s)
       (fun q => Some (ak_key q, (ak_epoch q, (ak_leader_epoch q, (ak_follower q, (ak_match_offset q,
                  (ak_activity_version q, ak_stopped q)))))))
       ltac:(intros b a E; destruct b; cbn in E; inversion E; subst; reflexivity).

Record pull_hint_request := PullHintRequest {
  ph_key : bytes; ph_id : chan_id; ph_epoch : N; ph_leader_epoch : N; ph_leader : N;
  ph_leader_leo : N; ph_activity_version : N; ph_reason : N }.
Definition readPullHintRequest : fmt pull_hint_request :=
  FMap (f_s ;; readChannelID ;; FUvarint ;; FUvarint ;; FUvarint ;; FUvarint ;; FUvarint ;; FByte)
       (fun '(k, (i, (e, (le, (l, (o, (a, r))))))) => PullHintRequest k i e le l o a r)
       (fun q => Some (ph_key q, (ph_id q, (ph_epoch q, (ph_leader_epoch q, (ph_leader q,
                  (ph_leader_leo q, (ph_activity_version q, ph_reason q))))))))
       ltac:(intros b a E; destruct b; cbn in E; inversion E; subst; reflexivity).
Definition readPullHintBatchRequest : fmt (list pull_hint_request) :=
  FMap (FList CKRem 0 (fun _ => readPullHintRequest)) list_of (fun l => Some (Some l))
       ltac:(intros b a E; inversion E; subst; reflexivity).

Record notify_request := NotifyRequest {
  nt_key : bytes; nt_id : chan_id; nt_epoch : N; nt_leader_epoch : N; nt_leader : N; nt_leader_leo : N }.
Definition readNotifyRequest : fmt notify_request :=
  FMap (f_s ;; readChannelID ;; FUvarint ;; FUvarint ;; FUvarint ;; FUvarint)
       (fun '(k, (i, (e, (le, (l, o))))) => NotifyRequest k i e le l o)
       (fun q => Some (nt_key q, (nt_id q, (nt_epoch q, (nt_leader_epoch q, (nt_leader q, nt_leader_leo q))))))
       ltac:(intros b a E; destruct b; cbn in E; inversion E; subst; reflexivity).

Record append_request := AppendRequest {
  ap_id : chan_id; ap_message : cmessage; ap_commit_mode : N;
  ap_expected_channel_epoch : N; ap_expected_leader_epoch : N }.
Definition readAppendRequest (ver : N) : fmt append_request :=
  FMap (readChannelID ;; readMessage ver ;; FByte ;; FUvarint ;; FUvarint)
       (fun '(i, (m, (c, (e, l)))) => AppendRequest i m c e l)
       (fun q => Some (ap_id q, (ap_message q, (ap_commit_mode q, (ap_expected_channel_epoch q,
                  ap_expected_leader_epoch q)))))
       ltac:(intros b a E; destruct b; cbn in E; inversion E; subst; reflexivity).

Record append_batch_request := AppendBatchRequest {
  ab_id : chan_id; ab_messages : option (list cmessage); ab_trace_id : bytes; ab_channel_key : bytes;
  ab_attempt : Z; ab_commit_mode : N; ab_expected_channel_epoch : N; ab_expected_leader_epoch : N;
  ab_omit_result_payload : bool; ab_server_allocated : bool }.
(* "if version >= codecVersion" tails *)
Definition v7 (ver : N) : bool := codecVersion <=? ver.
Definition readAppendBatchRequest (ver : N) : fmt append_batch_request :=
  FMap (readChannelID ;; readMessages ver ;; f_s ;; f_s ;; FVarint ;; FByte ;; FUvarint ;; FUvarint ;; FBool ;;
        (if v7 ver then FBool else FFalse))
       (fun '(i, (m, (t, (k, (a, (c, (e, (l, (o, s))))))))) => AppendBatchRequest i m t k a c e l o s)
       (fun q => Some (ab_id q, (ab_messages q, (ab_trace_id q, (ab_channel_key q, (ab_attempt q,
                  (ab_commit_mode q, (ab_expected_channel_epoch q, (ab_expected_leader_epoch q,
                  (ab_omit_result_payload q, ab_server_allocated q))))))))))
       ltac:(intros b a E; destruct b; cbn in E; inversion E; subst; reflexivity).

Record last_visible_request := LastVisibleRequest {
  lv_id : chan_id; lv_visible_after_seq : N; lv_expected_leader : N; lv_expected_channel_epoch : N;
  lv_expected_leader_epoch : N; lv_head_uid : bytes; lv_expected_min_isr : N }.
(* minISR > maxInt -> error *)
Definition f_min_isr : fmt N := FGuard FUvarint (fun v => v <=? IntMax).
Definition readLastVisibleRequest (ver : N) : fmt last_visible_request :=
  FMap (readChannelID ;; FUvarint ;; FUvarint ;; FUvarint ;; FUvarint ;;
        (if v7 ver then f_s else FNil) ;; (if v7 ver then f_min_isr else FZero))
       (fun '(i, (v, (l, (e, (le, (h, m)))))) => LastVisibleRequest i v l e le h m)
       (fun q => Some (lv_id q, (lv_visible_after_seq q, (lv_expected_leader q, (lv_expected_channel_epoch q,
                  (lv_expected_leader_epoch q, (lv_head_uid q, lv_expected_min_isr q)))))))
       ltac:(intros b a E; destruct b; cbn in E; inversion E; subst; reflexivity).

Record conversation_head_request := ConversationHeadRequest {
  chq_id : chan_id; chq_retention_through_seq : N; chq_expected_leader : N;
  chq_expected_channel_epoch : N; chq_expected_leader_epoch : N; chq_expected_min_isr : N }.
Record conversation_heads_request := ConversationHeadsRequest {
  chs_uid : bytes; chs_items : option (list conversation_head_request) }.
Definition readConversationHeadRequest : fmt conversation_head_request :=
  FMap (readChannelID ;; FUvarint ;; FUvarint ;; FUvarint ;; FUvarint ;; f_min_isr)
       (fun '(i, (r, (l, (e, (le, m))))) => ConversationHeadRequest i r l e le m)
       (fun q => Some (chq_id q, (chq_retention_through_seq q, (chq_expected_leader q,
                  (chq_expected_channel_epoch q, (chq_expected_leader_epoch q, chq_expected_min_isr q))))))
       ltac:(intros b a E; destruct b; cbn in E; inversion E; subst; reflexivity).
Definition readConversationHeadsRequest : fmt conversation_heads_request :=
  FMap (f_s ;; FList CKPresRem 0 (fun _ => readConversationHeadRequest))
       (fun '(u, l) => ConversationHeadsRequest u l)
       (fun q => Some (chs_uid q, chs_items q))
       ltac:(intros b a E; destruct b; cbn in E; inversion E; subst; reflexivity).

Record committed_read_request := CommittedReadRequest {
  crq_id : chan_id; crq_from_seq : N; crq_max_seq : N; crq_min_seq : N; crq_limit : Z; crq_max_bytes : Z;
  crq_reverse : bool; crq_retention_through_seq : N; crq_expected_leader : N;
  crq_expected_channel_epoch : N; crq_expected_leader_epoch : N; crq_expected_min_isr : Z }.
Definition readCommittedReadRequest : fmt committed_read_request :=
  FMap (readChannelID ;; FUvarint ;; FUvarint ;; FUvarint ;; FVarint ;; FVarint ;; FBool ;;
        FUvarint ;; FUvarint ;; FUvarint ;; FUvarint ;; FVarint)
       (fun '(i, (f, (mx, (mn, (l, (mb, (r, (rt, (el, (ee, (ele, mi))))))))))) =>
          CommittedReadRequest i f mx mn l mb r rt el ee ele mi)
       (fun q => Some (crq_id q, (crq_from_seq q, (crq_max_seq q, (crq_min_seq q, (crq_limit q, (crq_max_bytes q,
                  (crq_reverse q, (crq_retention_through_seq q, (crq_expected_leader q,
                  (crq_expected_channel_epoch q, (crq_expected_leader_epoch q, crq_expected_min_isr q))))))))))))
       ltac:(intros b a E; destruct b; cbn in E; inversion E; subst; reflexivity).
Definition readCommittedReadsRequest : fmt (option (list committed_read_request)) :=
  FList CKPresRem 0 (fun _ => readCommittedReadRequest).

(* ---- results ------------------------------------------------------------------------------------------------ *)

Record pull_response := PullResponse {
  ps_key : bytes; ps_epoch : N; ps_leader_epoch : N; ps_leader_hw : N; ps_leader_leo : N;
  ps_activity_version : N; ps_next_pull_after : Z; ps_control : N; ps_meta : option cmeta;
  ps_records : option (list crecord) }.
Definition readPullResponse (ver : N) : fmt pull_response :=
  FMap (f_s ;; FUvarint ;; FUvarint ;; FUvarint ;; FUvarint ;; FUvarint ;; FVarint ;; FByte ;;
        FOpt (readMeta ver) ;; readRecords ver)
       (fun '(k, (e, (le, (hw, (leo, (av, (np, (c, (m, r))))))))) => PullResponse k e le hw leo av np c m r)
       (fun q => Some (ps_key q, (ps_epoch q, (ps_leader_epoch q, (ps_leader_hw q, (ps_leader_leo q,
                  (ps_activity_version q, (ps_next_pull_after q, (ps_control q, (ps_meta q, ps_records q))))))))))
       ltac:(intros b a E; destruct b; cbn in E; inversion E; subst; reflexivity).

Record append_result := AppendResult { ar_id : N; ar_seq : N; ar_message : cmessage }.
Definition readAppendResult (ver : N) : fmt append_result :=
  FMap (FUvarint ;; FUvarint ;; readMessage ver)
       (fun '(i, (s, m)) => AppendResult i s m)
       (fun q => Some (ar_id q, (ar_seq q, ar_message q)))
       ltac:(intros b a E; destruct b; cbn in E; inversion E; subst; reflexivity).

(* Found + Message as one option: the message is on the wire only when Found; a
   response with Found = false and a non-zero Message is not in the domain *)
Record last_visible_response := LastVisibleResponse {
  lr_message : option cmessage; lr_last_committed_seq : N; lr_retention_through_seq : N;
  lr_current_user_last_send_seq : N }.
Definition v7uv (ver : N) : fmt N := if v7 ver then FUvarint else FZero.
Definition readLastVisibleResponse (ver : N) : fmt last_visible_response :=
  FMap (FOpt (readMessage ver) ;; v7uv ver ;; v7uv ver ;; v7uv ver)
       (fun '(m, (a, (b, c))) => LastVisibleResponse m a b c)
       (fun q => Some (lr_message q, (lr_last_committed_seq q, (lr_retention_through_seq q,
                  lr_current_user_last_send_seq q))))
       ltac:(intros b a E; destruct b; cbn in E; inversion E; subst; reflexivity).

(* ---- frames ---------------------------------------------------------------------------------------------------- *)

(* decodeFrameWithVersion: len >= 2, data[1] == wantKind, version one of 3..7 *)
Definition f_frame_head (kind : N) : fmt (N * N) :=
  FGuard (FByte ;; FByte) (fun vk => version_known (fst vk) && (snd vk =? kind)).

(* a request frame: (version, body) *)
Definition request_frame {A} (kind : N) (body : N -> fmt A) : fmt (N * A) :=
  FMap (FBind (f_frame_head kind) (fun vk => body (fst vk)))
       (fun '((v, _), x) => (v, x))
       (fun vx => Some ((fst vx, kind), snd vx))
       ltac:(intros b a E; destruct b; cbn in E; inversion E; subst; reflexivity).

(* an RPC result frame with status rpcResultOK; status rpcResultErr and any other
   status make decodeRPCResult return an error (the application error, or a codec error) *)
Definition result_frame {A} (kind : N) (body : N -> fmt A) : fmt (N * A) :=
  FMap (FBind (f_frame_head kind) (fun vk => FGuard FByte (fun s => s =? rpcResultOK) ;; body (fst vk)))
       (fun '((v, _), (_, x)) => (v, x))
       (fun vx => Some ((fst vx, kind), (rpcResultOK, snd vx)))
       ltac:(intros b a E; destruct b; cbn in E; inversion E; subst; reflexivity).

(* the decoders return only the body *)
Definition decode_frame {A} (f : fmt (N * A)) (data : bytes) : option (N * A) := decode_full f data.
(* encodeRequestFrame / encodeRPCResultVersion: the version must be writable *)
Definition encode_frame {A} (f : fmt (N * A)) (vx : N * A) : option bytes :=
  if version_writable (fst vx) then Some (encode f vx) else None.

Definition f_pull := request_frame kindPull (fun _ => readPullRequest).
Definition f_pull_batch := request_frame kindPullBatch (fun _ => readPullBatchRequest).
Definition f_ack := request_frame kindAck (fun _ => readAckRequest).
Definition f_pull_hint := request_frame kindPullHint (fun _ => readPullHintRequest).
Definition f_pull_hint_batch := request_frame kindPullHintBatch (fun _ => readPullHintBatchRequest).
Definition f_notify := request_frame kindNotify (fun _ => readNotifyRequest).
Definition f_append := request_frame kindAppend readAppendRequest.
Definition f_append_batch := request_frame kindAppendBatch readAppendBatchRequest.
Definition f_last_visible := request_frame kindLastVisible readLastVisibleRequest.
Definition f_conversation_heads := request_frame kindConversationHeads (fun _ => readConversationHeadsRequest).
Definition f_committed_reads := request_frame kindCommittedReads (fun _ => readCommittedReadsRequest).
Definition f_pull_response := result_frame kindPullResponse readPullResponse.
Definition f_append_response := result_frame kindAppendResponse readAppendResult.
Definition f_last_visible_response := result_frame kindLastVisibleResponse readLastVisibleResponse.
