(* Model/ClusterCodec_SlotFSM.v — pkg/slot/fsm/command.go, the TLV command codec:
     frame   [version:1][cmdType:1][TLV fields...]
     field   [tag:1][length:4 big-endian][value]
   readTLV, the field loops of decodeNoop / decodeUser / decodeDevice,
   decodeCommand (header check + decoder table) and the encoders
   EncodeNoopCommand / EncodeUpsertUserCommand / EncodeCreateUserCommand /
   EncodeUpsertDeviceCommand.  The other 40-odd command types of the decoder
   table are [CmdOther]: the table membership is modelled (unknown type =
   error), their field decoders are not.
   Unknown tags are skipped and a field that is absent keeps its zero value,
   so a frame cut at a field boundary is again a frame (of an older writer);
   [tlv_complete] is the predicate "header + whole fields".  Definitions only. *)
From WK Require Import Base.Base Base.Bytes Model.ClusterCodecBase Gen.Consts_C27.
Open Scope N_scope.

(* [tag][len:4][value]: appendStringTLVField / putStringField *)
Definition put_tlv (tag : N) (value : bytes) : bytes :=
  tag :: put_u32 (blen value) ++ value.
(* putInt64Field / appendInt64TLVField: uint64(v) big-endian *)
Definition u64_of_i64 (z : Z) : N := Z.to_N (z mod 18446744073709551616).
Definition i64_of_u64 (n : N) : Z :=
  if n <? 9223372036854775808 then Z.of_N n else (Z.of_N n - 18446744073709551616)%Z.
Definition put_i64_tlv (tag : N) (v : Z) : bytes := put_tlv tag (put_u64 (u64_of_i64 v)).

(* readTLV: (tag, value, rest); errors: short header, value longer than the input *)
Definition readTLV (data : bytes) : option (N * bytes * bytes) :=
  match data with
  | tag :: l3 :: l2 :: l1 :: l0 :: r =>
    match ntake r (be_get [l3; l2; l1; l0]) with
    | Some (v, rest) => Some (tag, v, rest)
    | None => None
    end
  | _ => None
  end.

(* "for off < len(data) { tag, value, n, err := readTLV(data[off:]) ... }" with the
   per-field action [step]; every field takes at least tlvOverhead bytes, so
   [length data] iterations are enough *)
Fixpoint tlv_loop {S} (fuel : nat) (step : S -> N -> bytes -> option S) (st : S) (data : bytes) : option S :=
  match data with
  | [] => Some st
  | _ =>
    match fuel with
    | O => None
    | Datatypes.S f =>
      match readTLV data with
      | None => None
      | Some (tag, v, rest) =>
        match step st tag v with
        | None => None
        | Some st' => tlv_loop f step st' rest
        end
      end
    end
  end.
Definition tlv_fields {S} (step : S -> N -> bytes -> option S) (st : S) (data : bytes) : option S :=
  tlv_loop (length data) step st data.

(* metadb.User / metadb.Device *)
Record user := User { u_uid : bytes; u_token : bytes; u_device_flag : Z; u_device_level : Z }.
Record device := Device { d_uid : bytes; d_device_flag : Z; d_token : bytes; d_device_level : Z }.

(* "if len(value) != 8 { error }; int64(binary.BigEndian.Uint64(value))" *)
Definition i64_value (v : bytes) : option Z :=
  if Nat.eqb (length v) 8 then Some (i64_of_u64 (be_get v)) else None.

(* the switch of decodeUser *)
Definition user_step (u : user) (tag : N) (v : bytes) : option user :=
  if tag =? tagUserUID then Some (User v (u_token u) (u_device_flag u) (u_device_level u))
  else if tag =? tagUserToken then Some (User (u_uid u) v (u_device_flag u) (u_device_level u))
  else if tag =? tagUserDeviceFlag then
    match i64_value v with Some z => Some (User (u_uid u) (u_token u) z (u_device_level u)) | None => None end
  else if tag =? tagUserDeviceLevel then
    match i64_value v with Some z => Some (User (u_uid u) (u_token u) (u_device_flag u) z) | None => None end
  else Some u.
Definition decodeUser (data : bytes) : option user := tlv_fields user_step (User [] [] 0 0) data.

(* the switch of decodeDevice *)
Definition device_step (d : device) (tag : N) (v : bytes) : option device :=
  if tag =? tagDeviceUID then Some (Device v (d_device_flag d) (d_token d) (d_device_level d))
  else if tag =? tagDeviceFlag then
    match i64_value v with Some z => Some (Device (d_uid d) z (d_token d) (d_device_level d)) | None => None end
  else if tag =? tagDeviceToken then Some (Device (d_uid d) (d_device_flag d) v (d_device_level d))
  else if tag =? tagDeviceLevel then
    match i64_value v with Some z => Some (Device (d_uid d) (d_device_flag d) (d_token d) z) | None => None end
  else Some d.
Definition decodeDevice (data : bytes) : option device := tlv_fields device_step (Device [] 0 [] 0) data.

(* decodeNoop: the fields must be well formed, their content is ignored *)
Definition decodeNoop (data : bytes) : option unit := tlv_fields (fun st _ _ => Some st) tt data.

Inductive fsm_command :=
| CmdNoop
| CmdUpsertUser (u : user)
| CmdCreateUser (u : user)
| CmdUpsertDevice (d : device)
| CmdOther (cmd_type : N).       (* a registered command type whose decoder is not modelled *)

Definition omap_cmd {A} (f : A -> fsm_command) (o : option A) : option fsm_command :=
  match o with Some x => Some (f x) | None => None end.

(* decodeCommand *)
Definition decodeCommand (data : bytes) : option fsm_command :=
  match data with
  | version :: cmd_type :: body =>
    if negb (version =? commandVersion) then None
    else if negb (existsb (N.eqb cmd_type) commandTypes) then None
    else if cmd_type =? cmdTypeNoop then omap_cmd (fun _ => CmdNoop) (decodeNoop body)
    else if cmd_type =? cmdTypeUpsertUser then omap_cmd CmdUpsertUser (decodeUser body)
    else if cmd_type =? cmdTypeCreateUser then omap_cmd CmdCreateUser (decodeUser body)
    else if cmd_type =? cmdTypeUpsertDevice then omap_cmd CmdUpsertDevice (decodeDevice body)
    else Some (CmdOther cmd_type)
  | _ => None
  end.

(* encodeUserCommand / EncodeUpsertDeviceCommand / EncodeNoopCommand *)
Definition encodeUserCommand (cmd_type : N) (u : user) : bytes :=
  [commandVersion; cmd_type]
  ++ put_tlv tagUserUID (u_uid u) ++ put_tlv tagUserToken (u_token u)
  ++ put_i64_tlv tagUserDeviceFlag (u_device_flag u) ++ put_i64_tlv tagUserDeviceLevel (u_device_level u).
Definition EncodeUpsertDeviceCommand (d : device) : bytes :=
  [commandVersion; cmdTypeUpsertDevice]
  ++ put_tlv tagDeviceUID (d_uid d) ++ put_i64_tlv tagDeviceFlag (d_device_flag d)
  ++ put_tlv tagDeviceToken (d_token d) ++ put_i64_tlv tagDeviceLevel (d_device_level d).
Definition encodeCommand (c : fsm_command) : option bytes :=
  match c with
  | CmdNoop => Some [commandVersion; cmdTypeNoop]
  | CmdUpsertUser u => Some (encodeUserCommand cmdTypeUpsertUser u)
  | CmdCreateUser u => Some (encodeUserCommand cmdTypeCreateUser u)
  | CmdUpsertDevice d => Some (EncodeUpsertDeviceCommand d)
  | CmdOther _ => None
  end.

Definition user_eqb (a b : user) : bool :=
  bytes_eqb (u_uid a) (u_uid b) && bytes_eqb (u_token a) (u_token b)
  && (u_device_flag a =? u_device_flag b)%Z && (u_device_level a =? u_device_level b)%Z.
Definition device_eqb (a b : device) : bool :=
  bytes_eqb (d_uid a) (d_uid b) && (d_device_flag a =? d_device_flag b)%Z
  && bytes_eqb (d_token a) (d_token b) && (d_device_level a =? d_device_level b)%Z.
Definition command_eqb (a b : fsm_command) : bool :=
  match a, b with
  | CmdNoop, CmdNoop => true
  | CmdUpsertUser x, CmdUpsertUser y => user_eqb x y
  | CmdCreateUser x, CmdCreateUser y => user_eqb x y
  | CmdUpsertDevice x, CmdUpsertDevice y => device_eqb x y
  | CmdOther x, CmdOther y => x =? y
  | _, _ => false
  end.

(* the encoder's domain: field lengths a uint32 can express, int64 values *)
Definition i64_ok (z : Z) : bool := ((- two63 <=? z) && (z <? two63))%Z.
Definition str_ok (s : bytes) : bool := (blen s <? 4294967296) && all_bytes s.
Definition command_wf (c : fsm_command) : bool :=
  match c with
  | CmdNoop => true
  | CmdUpsertUser u | CmdCreateUser u =>
    str_ok (u_uid u) && str_ok (u_token u) && i64_ok (u_device_flag u) && i64_ok (u_device_level u)
  | CmdUpsertDevice d =>
    str_ok (d_uid d) && str_ok (d_token d) && i64_ok (d_device_flag d) && i64_ok (d_device_level d)
  | CmdOther _ => false
  end.

(* "header + whole fields": what a frame cut at a field boundary still is *)
Definition tlv_complete (data : bytes) : bool :=
  match data with
  | _ :: _ :: body =>
    match tlv_fields (fun st _ _ => Some st) tt body with Some _ => true | None => false end
  | _ => false
  end.
