(* Model/StateFile_C19.v — case type, mismatch and monitor of C19.

   Contents of files are coded relative to the case:
     kill     i >= 0: the bytes of state number i of the case; -1 absent; -2 unreadable / rejected; -3 other
     hook     0: the previous state's bytes; 1: the new state's bytes; -1 absent; -2 anything else *)
From WK Require Import Base.Base.
From WK Require Import Gen.Consts_C18 Model.CtrlFSM Model.StateFile.
Open Scope N_scope.

Record DirObsT := DirObs { do_main : Z; do_temps : list Z }.

(* one event of a history: state number [he_idx] saved with [he_mode] (0 Save in-process, 1 Save
   killed inside the hook, 2 Save with a failing hook); [he_save]: 0 Save returned nil, 1 an
   error, 3 the process died; [he_fresh]: the temp name Save used was not present before;
   then what Load returns and what the directory holds (codes = state numbers) *)
Record HEvent := HEv { he_mode : N; he_idx : N; he_save : N; he_fresh : bool;
                       he_loaded : Z; he_main : Z; he_temps : list Z }.

Inductive c19_case :=
| HistCase (events : list HEvent)
| KillCase (n done : N) (loaded : Z) (temps : list Z) (resave_ok : bool)
| HookCase (variant : N) (has_old : bool) (at_hook after : DirObsT) (outcome : N) (loaded : Z)
| CorruptCase (size variants rejected same diff : N) (orig_ok : bool)
| TamperCase (n rejected accepted : N).

(* ---- the property ---- *)

(* what Load returns after a crash is the previous or the new complete content *)
Definition old_or_new_b (old new loaded : Z) : bool := Z.eqb loaded old || Z.eqb loaded new.

Definition kill_ok (n done : N) (loaded : Z) : bool :=
  if n =? 0 then true
  else
    let last := if done =? 0 then (-1)%Z else Z.of_N ((done - 1) mod n) in   (* the last Save the child reported *)
    let next := Z.of_N (done mod n) in                                         (* the Save it may have been in *)
    old_or_new_b last next loaded.

Definition hook_ok (variant : N) (has_old : bool) (loaded : Z) : bool :=
  let old := if has_old then 0%Z else (-1)%Z in
  if variant =? 0 then Z.eqb loaded 1 (* Save returned nil: the new state *)
  else Z.eqb loaded old.              (* Save failed / died before the rename: the previous state *)

(* a history: a Save that returned nil is what Load returns; a failed or killed Save leaves the
   previously loadable state or the new one; [cur] = what Load returned before the event *)
Fixpoint hist_ok (cur : Z) (evs : list HEvent) : bool :=
  match evs with
  | [] => true
  | e :: r =>
    (if he_save e =? 0 then Z.eqb (he_loaded e) (Z.of_N (he_idx e))
     else old_or_new_b cur (Z.of_N (he_idx e)) (he_loaded e))
    && hist_ok (he_loaded e) r
  end.

Definition C19_monitor (c : c19_case) : N :=
  match c with
  | HistCase evs => if hist_ok (-1)%Z evs then 0 else 1
  | KillCase n done loaded _ resave_ok => if kill_ok n done loaded && resave_ok then 0 else 1
  | HookCase v has_old _ _ _ loaded => if hook_ok v has_old loaded then 0 else 1
  | CorruptCase size variants rejected same diff orig_ok =>
    if (diff =? 0) && orig_ok && (rejected + same + diff =? variants) && ((size =? 0) || (0 <? variants)) then 0 else 1
  | TamperCase n rejected accepted => if (accepted =? 0) && (rejected =? n) then 0 else 1
  end.

(* ---- the model on the hook cases ---- *)

(* a file system whose directory holds the main file with the previous bytes ([0]) or nothing *)
Definition fs_start (has_old : bool) : fs :=
  if has_old then FS [(0, 0)] [(0, 0)] [] [(0, IN [0] true)] 1 else FS [] [] [] [] 0.

Definition code_of (o : option bytes) : Z :=
  match o with
  | None => (-1)%Z
  | Some [0] => 0%Z
  | Some [1] => 1%Z
  | Some _ => (-2)%Z
  end.

Definition model_obs (s : fs) : DirObsT :=
  DirObs (code_of (read s 0))
         (map (fun p => code_of (read s (fst p))) (filter (fun p => negb (fst p =? 0)) (f_dir s))).

(* the temp name is 1, the new bytes are [1] *)
Definition model_hook (variant : N) (has_old : bool) : DirObsT * DirObsT * Z :=
  let s0 := fs_start has_old in
  let at_hook := run s0 (firstn 4 (save_ops 1 [1])) in
  let after :=
      if variant =? 0 then run s0 (save_ops 1 [1])
      else if variant =? 3 then at_hook                    (* the process dies: what is visible stays *)
      else run s0 (save_ops_hook_fails 1 [1]) in           (* error or panic: the deferred Remove runs *)
  (model_obs at_hook, model_obs after, code_of (load_bytes after)).

(* ---- the model on histories ---- *)

(* the bytes of state number k are [k]; the temp name of event number n is n + 1 (os.CreateTemp
   returns a name that is not in the directory) *)
Definition code_gen (o : option bytes) : Z :=
  match o with
  | None => (-1)%Z
  | Some [k] => Z.of_N k
  | Some _ => (-2)%Z
  end.

Definition hist_step (s : fs) (n : N) (mode idx : N) : fs :=
  if mode =? 0 then run s (save_ops (n + 1) [idx])
  else if mode =? 1 then run s (firstn 4 (save_ops (n + 1) [idx]))    (* the process dies in the hook: what is visible stays *)
  else run s (save_ops_hook_fails (n + 1) [idx]).

Definition temps_of (s : fs) : list Z :=
  isort Z.ltb (map (fun p => code_gen (read s (fst p))) (filter (fun p => negb (fst p =? 0)) (f_dir s))).

(* the events the model produces for the (mode, state) sequence *)
Fixpoint model_hist (s : fs) (n : N) (plan : list (N * N)) : list HEvent :=
  match plan with
  | [] => []
  | (mode, idx) :: r =>
    let s' := hist_step s n mode idx in
    HEv mode idx (if mode =? 0 then 0 else if mode =? 1 then 3 else 1) true
        (code_gen (load_bytes s')) (code_gen (read s' 0)) (temps_of s')
    :: model_hist s' (n + 1) r
  end.

Definition HEvent_eqb (a b : HEvent) : bool :=
  (he_mode a =? he_mode b) && (he_idx a =? he_idx b) && (he_save a =? he_save b)
  && Bool.eqb (he_fresh a) (he_fresh b) && Z.eqb (he_loaded a) (he_loaded b) && Z.eqb (he_main a) (he_main b)
  && list_eqb Z.eqb (he_temps a) (he_temps b).

Definition DirObs_eqb (a b : DirObsT) : bool :=
  Z.eqb (do_main a) (do_main b) && list_eqb Z.eqb (do_temps a) (do_temps b).

Definition C19_mismatch (c : c19_case) : bool :=
  match c with
  | HistCase evs =>
    negb (list_eqb HEvent_eqb (model_hist (fs_start false) 0 (map (fun e => (he_mode e, he_idx e)) evs)) evs)
  | HookCase v has_old at_hook after outcome loaded =>
    let '(mh, ma, ml) := model_hook v has_old in
    negb (DirObs_eqb mh at_hook && DirObs_eqb ma after && Z.eqb ml loaded && (outcome =? v))
  | _ => false
  end.
