(* Model/StateFile_C19.v — case type, mismatch and monitor of C19.

   Contents of files are coded relative to the case:
     kill     i >= 0: the bytes of state number i of the case; -1 absent; -2 unreadable / rejected; -3 other
     hook     0: the previous state's bytes; 1: the new state's bytes; -1 absent; -2 anything else *)
From WK Require Import Base.Base.
From WK Require Import Gen.Consts_C18 Model.CtrlFSM Model.StateFile.
Open Scope N_scope.

Record DirObsT := DirObs { do_main : Z; do_temps : list Z }.

Inductive c19_case :=
| KillCase (n done : N) (loaded : Z) (temps : list Z)
| HookCase (variant : N) (has_old : bool) (at_hook after : DirObsT) (outcome : N) (loaded : Z)
| CorruptCase (size variants rejected same diff : N) (orig_ok : bool)
| TamperCase (n rejected accepted : N).

(* ---- the property ---- *)

(* what Load returns after a crash is the previous or the new complete content *)
Definition old_or_new_b (old new loaded : Z) : bool := Z.eqb loaded old || Z.eqb loaded new.

Definition kill_ok (n done : N) (loaded : Z) : bool :=
  if n =? 0 then true
  else
    let last := if done =? 0 then (-1)%Z else Z.of_N ((done - 1) mod n) in   (* the last Save the child reported *)
    let next := Z.of_N (done mod n) in                                         (* the Save it may have been in *)
    old_or_new_b last next loaded.

Definition hook_ok (variant : N) (has_old : bool) (loaded : Z) : bool :=
  let old := if has_old then 0%Z else (-1)%Z in
  if variant =? 0 then Z.eqb loaded 1 (* Save returned nil: the new state *)
  else Z.eqb loaded old.              (* Save failed / died before the rename: the previous state *)

Definition C19_monitor (c : c19_case) : N :=
  match c with
  | KillCase n done loaded _ => if kill_ok n done loaded then 0 else 1
  | HookCase v has_old _ _ _ loaded => if hook_ok v has_old loaded then 0 else 1
  | CorruptCase size variants rejected same diff orig_ok =>
    if (diff =? 0) && orig_ok && (rejected + same + diff =? variants) && ((size =? 0) || (0 <? variants)) then 0 else 1
  | TamperCase n rejected accepted => if (accepted =? 0) && (rejected =? n) then 0 else 1
  end.

(* ---- the model on the hook cases ---- *)

(* a file system whose directory holds the main file with the previous bytes ([0]) or nothing *)
Definition fs_start (has_old : bool) : fs :=
  if has_old then FS [(0, 0)] [(0, 0)] [] [(0, IN [0] true)] 1 else FS [] [] [] [] 0.

Definition code_of (o : option bytes) : Z :=
  match o with
  | None => (-1)%Z
  | Some [0] => 0%Z
  | Some [1] => 1%Z
  | Some _ => (-2)%Z
  end.

Definition model_obs (s : fs) : DirObsT :=
  DirObs (code_of (read s 0))
         (map (fun p => code_of (read s (fst p))) (filter (fun p => negb (fst p =? 0)) (f_dir s))).

(* the temp name is 1, the new bytes are [1] *)
Definition model_hook (variant : N) (has_old : bool) : DirObsT * DirObsT * Z :=
  let s0 := fs_start has_old in
  let at_hook := run s0 (firstn 4 (save_ops 1 [1])) in
  let after :=
      if variant =? 0 then run s0 (save_ops 1 [1])
      else if variant =? 3 then at_hook                    (* the process dies: what is visible stays *)
      else run s0 (save_ops_hook_fails 1 [1]) in           (* error or panic: the deferred Remove runs *)
  (model_obs at_hook, model_obs after, code_of (load_bytes after)).

Definition DirObs_eqb (a b : DirObsT) : bool :=
  Z.eqb (do_main a) (do_main b) && list_eqb Z.eqb (do_temps a) (do_temps b).

Definition C19_mismatch (c : c19_case) : bool :=
  match c with
  | HookCase v has_old at_hook after outcome loaded =>
    let '(mh, ma, ml) := model_hook v has_old in
    negb (DirObs_eqb mh at_hook && DirObs_eqb ma after && Z.eqb ml loaded && (outcome =? v))
  | _ => false
  end.
