(* Model/MsgEvent_C40.v — C40 "message event projection is monotonic and
   fail-closed": the case record printed by harness/cmd/C40, [C40_mismatch]
   (model of Model/MsgEvent.v vs implementation) and [C40_monitor] (the
   property evaluated on the implementation's observations alone).

   Four kinds of cases:
     C40Reduce  one call of the exported reduceMessageEventAppend
     C40Merge   one call of the exported mergeMessageEventTerminalPayload
     C40Meta    a history of meta.Shard.AppendMessageEvent / meta.WriteBatch
                (AppendMessageEvent* ; Commit) calls on a fresh temporary DB,
                with the three tables dumped after every call
     C40Node    a history of Node.appendMessageEventLocal calls on a skeletal
                leader node (real stream cache, real finish path, real slot FSM
                on a fresh temporary DB behind a recording proposer), with cache
                losses (authority change, restore reset / pause) and rejected
                proposals; the cache and the tables are dumped after every step
   Definitions only. *)
From WK Require Import Base.Base.
From WK Require Import Gen.Consts_C40 Model.MsgEvent.
Open Scope N_scope.

(* ---- equality of observables --------------------------------------------------- *)

Definition obytes_eqb (a b : option bytes) : bool := option_eqb bytes_eqb a b.

(* rows are compared on every field; snapshots on their bytes *)
Definition state_eqb (a b : State) : bool :=
  bytes_eqb (st_channel a) (st_channel b) && Z.eqb (st_ctype a) (st_ctype b)
  && bytes_eqb (st_msgno a) (st_msgno b) && bytes_eqb (st_key a) (st_key b)
  && bytes_eqb (st_status a) (st_status b) && (st_seq a =? st_seq b)
  && bytes_eqb (st_last_id a) (st_last_id b) && bytes_eqb (st_last_type a) (st_last_type b)
  && bytes_eqb (st_last_vis a) (st_last_vis b) && Z.eqb (st_last_at a) (st_last_at b)
  && bytes_eqb (s_raw (st_snap a)) (s_raw (st_snap b)) && (st_end_reason a =? st_end_reason b)
  && bytes_eqb (st_error a) (st_error b) && Z.eqb (st_updated a) (st_updated b).

Definition cursor_eqb (a b : Cursor) : bool :=
  bytes_eqb (cu_channel a) (cu_channel b) && Z.eqb (cu_ctype a) (cu_ctype b)
  && bytes_eqb (cu_msgno a) (cu_msgno b) && (cu_seq a =? cu_seq b) && Z.eqb (cu_updated a) (cu_updated b).

Definition applied_eqb (a b : Applied) : bool :=
  bytes_eqb (ap_channel a) (ap_channel b) && Z.eqb (ap_ctype a) (ap_ctype b)
  && bytes_eqb (ap_msgno a) (ap_msgno b) && bytes_eqb (ap_id a) (ap_id b)
  && bytes_eqb (ap_key a) (ap_key b) && (ap_seq a =? ap_seq b)
  && bytes_eqb (ap_status a) (ap_status b) && Z.eqb (ap_updated a) (ap_updated b).

Definition result_eqb (a b : Result) : bool :=
  bytes_eqb (r_channel a) (r_channel b) && Z.eqb (r_ctype a) (r_ctype b)
  && bytes_eqb (r_msgno a) (r_msgno b) && bytes_eqb (r_id a) (r_id b)
  && bytes_eqb (r_key a) (r_key b) && (r_seq a =? r_seq b)
  && bytes_eqb (r_status a) (r_status b) && state_eqb (r_state a) (r_state b).

Definition outcome_eqb (a b : Err * option Result) : bool :=
  err_eqb (fst a) (fst b) && option_eqb result_eqb (snd a) (snd b).

(* finite sets represented by duplicate-free lists *)
Definition subset_b {A} (eqb : A -> A -> bool) (l1 l2 : list A) : bool :=
  forallb (fun x => existsb (eqb x) l2) l1.
Definition same_set {A} (eqb : A -> A -> bool) (l1 l2 : list A) : bool :=
  Nat.eqb (length l1) (length l2) && subset_b eqb l1 l2.

(* ---- dumps of the three tables for one message --------------------------------- *)

Record Dump := mkDump {
  d_hs : N; d_channel : bytes; d_ctype : Z; d_msgno : bytes;
  d_states : list State;           (* ListMessageEventStates *)
  d_cursor : option Cursor;        (* the cursor row *)
  d_applied : list Applied         (* the applied-id rows *)
}.

Definition states_of (db : DB) hs c t m : list State :=
  map snd (filter (fun x => (fst x =? hs) && msg_eqb (st_channel (snd x)) (st_ctype (snd x)) (st_msgno (snd x)) c t m)
                  (db_states db)).
Definition applied_of (db : DB) hs c t m : list Applied :=
  map snd (filter (fun x => (fst x =? hs) && msg_eqb (ap_channel (snd x)) (ap_ctype (snd x)) (ap_msgno (snd x)) c t m)
                  (db_applied db)).

Definition dump_of (db : DB) hs c t m : Dump :=
  mkDump hs c t m (states_of db hs c t m) (get_cursor db hs c t m) (applied_of db hs c t m).

Definition dump_eqb (a b : Dump) : bool :=
  same_set state_eqb (d_states a) (d_states b)
  && option_eqb cursor_eqb (d_cursor a) (d_cursor b)
  && same_set applied_eqb (d_applied a) (d_applied b).

(* the model's tables agree with every observed dump *)
Definition dumps_agree (db : DB) (ds : list Dump) : bool :=
  forallb (fun d => dump_eqb d (dump_of db (d_hs d) (d_channel d) (d_ctype d) (d_msgno d))) ds.

(* ---- cases ---------------------------------------------------------------------- *)

Inductive MetaOp :=
| MAppend (hs : N) (e : Event)          (* Shard.AppendMessageEvent *)
| MBatch (evs : list (N * Event)).      (* NewWriteBatch; AppendMessageEvent ...; Commit *)

Record MetaObs := mkMetaObs {
  mo_results : list (Err * option Result);   (* one per append call *)
  mo_commit : Err;                           (* Commit's error (ENone for MAppend) *)
  mo_dumps : list Dump                       (* every message of the history's alphabet, after the call *)
}.

Record CacheDump := mkCacheDump {
  cd_channel : bytes; cd_ctype : Z; cd_msgno : bytes;
  cd_states : list State                     (* cache.states(key); snapshots carry their canonical view *)
}.

Record NodeObs := mkNodeObs {
  no_err : Err;
  no_result : option Result;
  no_proposals : list Proposal;                         (* per proposal: its events, each with the FSM's result (None: rejected) *)
  no_cache : list CacheDump;
  no_sessions : N;                                      (* cache observation: retained sessions *)
  no_dumps : list Dump
}.

Inductive c40_case :=
| C40Reduce (st : State) (st_exists : bool) (cu : Cursor) (cu_exists : bool) (e : Event)
            (o_st : State) (o_cu : Cursor) (o_did : bool) (o_res : Result)
| C40Merge (p : Payload) (s : Snap) (o : option Payload)   (* None: the call panicked *)
| C40Meta (steps : list (MetaOp * MetaObs))
| C40Node (max_sessions hs_count : N) (chan_hs : list (bytes * N)) (steps : list (NodeOp * NodeObs)).

(* ---- mismatch: model vs implementation ------------------------------------------- *)

Definition meta_step (db : DB) (op : MetaOp) : list (Err * option Result) * DB :=
  match op with
  | MAppend hs e => let '(o, db') := AppendMessageEvent db hs e in ([o], db')
  | MBatch evs => batch_appends db evs
  end.

Fixpoint meta_mismatch (db : DB) (steps : list (MetaOp * MetaObs)) : bool :=
  match steps with
  | [] => false
  | (op, obs) :: r =>
    let '(outs, db') := meta_step db op in
    if list_eqb outcome_eqb outs (mo_results obs) && err_eqb (mo_commit obs) ENone && dumps_agree db' (mo_dumps obs)
    then meta_mismatch db' r else true
  end.

Definition tview_eqb (a b : Payload) : bool :=
  Bool.eqb (p_tok a) (p_tok b) && obytes_eqb (p_tsnap a) (p_tsnap b)
  && (p_treason a =? p_treason b) && bytes_eqb (p_terror a) (p_terror b).

(* a proposed event: every field, the payload through its terminal view *)
Definition pevent_eqb (a b : Event) : bool :=
  bytes_eqb (e_channel a) (e_channel b) && Z.eqb (e_ctype a) (e_ctype b)
  && bytes_eqb (e_msgno a) (e_msgno b) && bytes_eqb (e_id a) (e_id b)
  && bytes_eqb (e_key a) (e_key b) && bytes_eqb (e_etype a) (e_etype b)
  && bytes_eqb (e_vis a) (e_vis b) && Z.eqb (e_at a) (e_at b)
  && tview_eqb (e_payload a) (e_payload b) && Z.eqb (e_updated a) (e_updated b).

Definition pitem_eqb (a b : Event * option Result) : bool :=
  pevent_eqb (fst a) (fst b) && option_eqb result_eqb (snd a) (snd b).

Definition cache_dump_of (ca : Cache) c t m : list State :=
  match find_session ca c t m with
  | Some s => map snd (ss_states s)
  | None => []
  end.

Definition cache_agrees (ca : Cache) (ds : list CacheDump) : bool :=
  forallb (fun d => same_set state_eqb (cd_states d) (cache_dump_of ca (cd_channel d) (cd_ctype d) (cd_msgno d))) ds.

Fixpoint node_mismatch (st : NodeSt) (steps : list (NodeOp * NodeObs)) : bool :=
  match steps with
  | [] => false
  | (op, obs) :: r =>
    let '(out, st') := node_step st op in
    if err_eqb (ao_err out) (no_err obs)
       && option_eqb result_eqb (ao_result out) (no_result obs)
       && list_eqb (list_eqb pitem_eqb) (ao_proposals out) (no_proposals obs)
       && cache_agrees (n_cache st') (no_cache obs)
       && (N.of_nat (length (c_sessions (n_cache st'))) =? no_sessions obs)
       && dumps_agree (n_db st') (no_dumps obs)
    then node_mismatch st' r else true
  end.

Definition C40_mismatch (c : c40_case) : bool :=
  match c with
  | C40Reduce st st_exists cu cu_exists e o_st o_cu o_did o_res =>
    let '(st', cu', did, res) := reduceMessageEventAppend st st_exists cu cu_exists e in
    negb (state_eqb st' o_st && cursor_eqb cu' o_cu && Bool.eqb did o_did && result_eqb res o_res)
  | C40Merge p s o =>
    match o with
    | None => true
    | Some o =>
      let m := mergeMessageEventTerminalPayload p s in
      negb (tview_eqb m o && Bool.eqb (p_hassnap m) (p_hassnap o) && Bool.eqb (p_obj m) (p_obj o)
            && (if is_empty (s_raw s) then bytes_eqb (p_raw m) (p_raw o) else true))
    end
  | C40Meta steps => meta_mismatch db_empty steps
  | C40Node max_sessions hs_count chan_hs steps => node_mismatch (node_init max_sessions chan_hs hs_count) steps
  end.

(* ---- the property on observations -------------------------------------------------

   The durable projection is specified by an abstract table state (the [DB] of
   the model with every payload-dependent column erased) advanced by the
   RESULTS the implementation reports:

     replay      the event id has an applied row for the message: the result
                 repeats the recorded (lane, sequence, status); nothing changes;
     finalized   the lane is terminal, or the event id is the lane's last id:
                 the result is the stored lane (sequence, status); nothing changes;
     applied     otherwise: the result's sequence is the successor of the message
                 cursor (cursor + 1; the 64-bit wrap of the code at 2^64-1, which
                 no history reaches, is accepted), it becomes the cursor and the
                 lane's sequence, the status is
                 terminal iff the event is a terminal event (close, error,
                 cancel, finish), and the event id gets its applied row.

   After every call the dumped tables must be exactly this abstract state.
   Hence: sequences only increase (by one per applied event), a terminal lane
   never changes again, a replayed id is not applied twice. *)

Definition abs_state (s : State) : State :=
  mkState (st_channel s) (st_ctype s) (st_msgno s) (st_key s) (st_status s) (st_seq s) (st_last_id s)
          [] [] 0%Z snap_empty 0 [] 0%Z.
Definition abs_cursor (c : Cursor) : Cursor := mkCursor (cu_channel c) (cu_ctype c) (cu_msgno c) (cu_seq c) 0%Z.
Definition abs_applied (a : Applied) : Applied :=
  mkApplied (ap_channel a) (ap_ctype a) (ap_msgno a) (ap_id a) (ap_key a) (ap_seq a) (ap_status a) 0%Z.

Definition abs_dump (d : Dump) : Dump :=
  mkDump (d_hs d) (d_channel d) (d_ctype d) (d_msgno d) (map abs_state (d_states d))
         (option_map abs_cursor (d_cursor d)) (map abs_applied (d_applied d)).

(* [terminal_event]: the event is close / error / cancel / finish *)
Definition spec_append (g : DB) (hs : N) (terminal_event : bool) (r : Result) : option DB :=
  let c := r_channel r in let t := r_ctype r in let m := r_msgno r in let id := r_id r in
  match get_applied g hs c t m id with
  | Some a =>
    if bytes_eqb (r_key r) (ap_key a) && (r_seq r =? ap_seq a) && bytes_eqb (r_status r) (ap_status a)
    then Some g else None
  | None =>
    match get_state g hs c t m (r_key r) with
    | Some s =>
      if bytes_eqb (st_last_id s) id || isMessageEventTerminal (st_status s) then
        if (r_seq r =? st_seq s) && bytes_eqb (r_status r) (st_status s) then Some g else None
      else
        let cur := match get_cursor g hs c t m with Some cu => cu_seq cu | None => 0 end in
        if (r_seq r =? wrap_succ cur) && Bool.eqb (isMessageEventTerminal (r_status r)) terminal_event
        then Some (put_rows g hs (mkState c t m (r_key r) (r_status r) (r_seq r) id [] [] 0%Z snap_empty 0 [] 0%Z)
                            (mkCursor c t m (r_seq r) 0%Z)
                            (mkApplied c t m id (r_key r) (r_seq r) (r_status r) 0%Z))
        else None
    | None =>
      let cur := match get_cursor g hs c t m with Some cu => cu_seq cu | None => 0 end in
      if (r_seq r =? wrap_succ cur) && Bool.eqb (isMessageEventTerminal (r_status r)) terminal_event
      then Some (put_rows g hs (mkState c t m (r_key r) (r_status r) (r_seq r) id [] [] 0%Z snap_empty 0 [] 0%Z)
                          (mkCursor c t m (r_seq r) 0%Z)
                          (mkApplied c t m id (r_key r) (r_seq r) (r_status r) 0%Z))
      else None
    end
  end.

Definition event_is_terminal (e : Event) : bool :=
  isMessageEventTerminalEvent (ToLower (TrimSpace (e_etype e))).

(* the results of the append calls of one step, in order; an error result changes nothing *)
Fixpoint spec_appends (g : DB) (calls : list (N * Event * (Err * option Result))) : option DB :=
  match calls with
  | [] => Some g
  | (hs, e, (ENone, Some r)) :: rest =>
    match spec_append g hs (event_is_terminal e) r with
    | Some g' => spec_appends g' rest
    | None => None
    end
  | (_, _, (ENone, None)) :: _ => None          (* success without a result *)
  | (_, _, (_, Some _)) :: _ => None            (* an error together with a result *)
  | (_, _, (_, None)) :: rest => spec_appends g rest
  end.

Definition dumps_are (g : DB) (ds : list Dump) : bool :=
  forallb (fun d => dump_eqb (abs_dump d) (dump_of g (d_hs d) (d_channel d) (d_ctype d) (d_msgno d))) ds.

Fixpoint zip_exact {A B} (l1 : list A) (l2 : list B) : option (list (A * B)) :=
  match l1, l2 with
  | [], [] => Some []
  | a :: r1, b :: r2 => match zip_exact r1 r2 with Some r => Some ((a, b) :: r) | None => None end
  | _, _ => None
  end.

Definition meta_calls (op : MetaOp) (obs : MetaObs) : option (list (N * Event * (Err * option Result))) :=
  match op with
  | MAppend hs e => zip_exact [(hs, e)] (mo_results obs)
  | MBatch evs => zip_exact evs (mo_results obs)
  end.

(* 0 = holds, 1 = violated *)
Fixpoint meta_monitor (g : DB) (steps : list (MetaOp * MetaObs)) : N :=
  match steps with
  | [] => 0
  | (op, obs) :: r =>
    match meta_calls op obs with
    | None => 1
    | Some calls =>
      match mo_commit obs with
      | ENone =>
        match spec_appends g calls with
        | Some g' => if dumps_are g' (mo_dumps obs) then meta_monitor g' r else 1
        | None => 1
        end
      | _ => if dumps_are g (mo_dumps obs) then meta_monitor g r else 1   (* a failed Commit writes nothing *)
      end
    end
  end.

(* one reducer call:
     - finalized lane or repeated last id: not applied, state and cursor returned unchanged;
     - applied: cursor, lane and result carry the successor of the cursor; terminal status
       iff terminal event *)
Definition reduce_monitor (st : State) (st_exists : bool) (cu : Cursor) (cu_exists : bool) (e : Event)
           (o_st : State) (o_cu : Cursor) (o_did : bool) (o_res : Result) : N :=
  let cur := if cu_exists then cu_seq cu else 0 in
  if st_exists && (bytes_eqb (st_last_id st) (e_id e) || isMessageEventTerminal (st_status st)) then
    if negb o_did && state_eqb o_st st && cursor_eqb o_cu cu
       && (r_seq o_res =? st_seq st) && bytes_eqb (r_status o_res) (st_status st) && state_eqb (r_state o_res) st
    then 0 else 1
  else
    if o_did && (cu_seq o_cu =? wrap_succ cur) && (st_seq o_st =? wrap_succ cur) && (r_seq o_res =? wrap_succ cur)
       && bytes_eqb (st_last_id o_st) (e_id e)
       && Bool.eqb (isMessageEventTerminal (st_status o_st)) (isMessageEventTerminalEvent (e_etype e))
       && bytes_eqb (r_status o_res) (st_status o_st)
    then 0 else 1.

(* ---- the finish clause on a node history -----------------------------------------

   With [cache] the cached lanes of the message before the call and [g] the
   durable abstract state before the call, for a stream.finish that reaches the
   finish path:
     F1  no open cached lane (cache lost / never filled) and no snapshot in the
         finish payload: the call fails with ErrMessageEventStreamCacheMiss,
         proposes nothing (so nothing durable changes);
     F2  the call succeeds: every open cached lane with a non-empty (non-null)
         cached snapshot that was not already durable, and whose flush id was
         not used before, is now a durable terminal lane whose snapshot is the
         cached one (or the snapshot the finish payload itself carries).
         (That the completed marker itself is written exactly when the finish
         id is new is part of the table specification above.)
   Known-finding signature 2: every such lane is finalized but one lost its
   snapshot, while the finish payload is a non-empty JSON object that
   decodeMessageEventTerminalPayload cannot decode (p_obj && !merge_decodes). *)

Definition cache_lanes (cache : list CacheDump) c t m : list State :=
  match find (fun d => msg_eqb (cd_channel d) (cd_ctype d) (cd_msgno d) c t m) cache with
  | Some d => cd_states d
  | None => []
  end.

Definition open_lane (s : State) : bool :=
  negb (is_empty (st_key s) || bytes_eqb (st_key s) EventKeyFinish || isMessageEventTerminal (st_status s)).

Definition dumped_lane (ds : list Dump) hs c t m key : option State :=
  match find (fun d => (d_hs d =? hs) && msg_eqb (d_channel d) (d_ctype d) (d_msgno d) c t m) ds with
  | Some d => find (fun s => bytes_eqb (st_key s) key) (d_states d)
  | None => None
  end.

(* the lanes the finish has to make durable: open in the cache with a non-empty
   cached snapshot, not durable before, flush id not used before *)
Definition lane_pending (g : DB) (hs : N) (fin : Event) (cached : State) : bool :=
  let c := e_channel fin in let t := e_ctype fin in let m := e_msgno fin in
  negb (is_empty (s_raw (st_snap cached))) && is_some (tsnap_of_canon (s_canon (st_snap cached)))
  && negb (is_some (get_state g hs c t m (st_key cached)))
  && negb (is_some (get_applied g hs c t m (finishFlushMessageEventID (e_id fin) (st_key cached)))).

Definition lane_finalized (ds : list Dump) (hs : N) (fin : Event) (cached : State) : bool :=
  match dumped_lane ds hs (e_channel fin) (e_ctype fin) (e_msgno fin) (st_key cached) with
  | Some s => isMessageEventTerminal (st_status s)
  | None => false
  end.

Definition lane_keeps_snapshot (ds : list Dump) (hs : N) (fin : Event) (cached : State) : bool :=
  match dumped_lane ds hs (e_channel fin) (e_ctype fin) (e_msgno fin) (st_key cached) with
  | Some s =>
    bytes_eqb (s_raw (st_snap s)) (s_canon (st_snap cached))
    || (p_hassnap (e_payload fin) && is_some (p_tsnap (e_payload fin))
        && bytes_eqb (s_raw (st_snap s)) (p_tsnap_canon (e_payload fin)))
  | None => false
  end.

Definition finish_monitor (g : DB) (chan_hs : list (bytes * N)) (cache : list CacheDump) (e : Event) (obs : NodeObs) : N :=
  match normalizeMessageEventAppend e with
  | None => 0
  | Some fin =>
    if negb (bytes_eqb (e_etype fin) EventTypeStreamFinish) then 0 else
    match no_err obs with
    | EInvalidArgument | ENotLeader | EMaintenance | EBackpressured => 0     (* did not reach the finish path *)
    | err =>
      let c := e_channel fin in let t := e_ctype fin in let m := e_msgno fin in
      let hs := opt_or (assoc c chan_hs) 0 in
      let opens := filter open_lane (cache_lanes cache c t m) in
      if nil_b opens && negb (p_hassnap (e_payload fin)) then
        if err_eqb err ECacheMiss && nil_b (no_proposals obs) then 0 else 1
      else
        match err with
        | ENone =>
          let pending := filter (lane_pending g hs fin) opens in
          if negb (forallb (lane_finalized (no_dumps obs) hs fin) pending)
          then 1
          else if forallb (lane_keeps_snapshot (no_dumps obs) hs fin) pending then 0
          else if p_obj (e_payload fin) && negb (merge_decodes (e_payload fin)) then 2 else 1
        | _ => 0      (* failed: nothing durable may change, checked by the table comparison *)
        end
    end
  end.

(* a call that panicked (recovered by the harness): violation *)
Definition panic_monitor (cache : list CacheDump) (e : Event) (obs : NodeObs) : N :=
  match no_err obs with EPanic => 1 | _ => 0 end.

(* the durable append calls recorded in the proposals of one step *)
Definition proposal_calls (chan_hs : list (bytes * N)) (props : list Proposal) : list (N * Event * (Err * option Result)) :=
  flat_map (fun prop => map (fun er => (opt_or (assoc (e_channel (fst er)) chan_hs) 0, fst er,
                                        match snd er with Some r => (ENone, Some r) | None => (EOther, None) end)) prop)
           props.

Definition node_calls (chan_hs : list (bytes * N)) (obs : NodeObs) := proposal_calls chan_hs (no_proposals obs).

(* a proposal is atomic: either every event has a result or none *)
Definition proposal_atomic (prop : list (Event * option Result)) : bool :=
  forallb (fun er => is_some (snd er)) prop || forallb (fun er => negb (is_some (snd er))) prop.

Definition max_code (a b : N) : N := if a =? 1 then 1 else if b =? 1 then 1 else N.max a b.

(* the clauses that are not about the tables: finish (F1, F2), panics, and
   "cache-only events (open, delta, snapshot) are not durable: they propose nothing" *)
Definition clause_monitor (g : DB) (chan_hs : list (bytes * N)) (cache : list CacheDump) (op : NodeOp) (obs : NodeObs) : N :=
  match op with
  | NEv e _ =>
    let co := match normalizeMessageEventAppend e with
              | Some ne => if isMessageEventCacheOnlyEvent (e_etype ne) && negb (nil_b (no_proposals obs)) then 1 else 0
              | None => if nil_b (no_proposals obs) then 0 else 1
              end in
    max_code co (max_code (finish_monitor g chan_hs cache e obs) (panic_monitor cache e obs))
  | _ => if nil_b (no_proposals obs) && err_eqb (no_err obs) ENone then 0 else 1
  end.

Fixpoint node_monitor (g : DB) (chan_hs : list (bytes * N)) (cache : list CacheDump) (steps : list (NodeOp * NodeObs)) : N :=
  match steps with
  | [] => 0
  | (op, obs) :: r =>
    if negb (forallb proposal_atomic (no_proposals obs)) then 1 else
    match spec_appends g (node_calls chan_hs obs) with
    | None => 1
    | Some g' =>
      if negb (dumps_are g' (no_dumps obs)) then 1 else
      max_code (clause_monitor g chan_hs cache op obs) (node_monitor g' chan_hs (no_cache obs) r)
    end
  end.

Definition C40_monitor (c : c40_case) : N :=
  match c with
  | C40Reduce st st_exists cu cu_exists e o_st o_cu o_did o_res =>
    reduce_monitor st st_exists cu cu_exists e o_st o_cu o_did o_res
  | C40Merge p s o => match o with Some _ => 0 | None => 1 end     (* a panic is a violation *)
  | C40Meta steps => meta_monitor db_empty steps
  | C40Node _ _ chan_hs steps => node_monitor db_empty chan_hs [] steps
  end.
