(* Model/Membership.v — per-user conversation rows of pkg/db/meta:
   UserChannelMembership (table_user_channel_membership.go) with its activation
   directory index, and UserCMDChannelMembership (table_user_cmd_channel_membership.go).

   One Gallina definition per Go function, same names:
     resolveUserChannelMembership, resolveEnsuredUserChannelMembership,
     the mutate closures of AdvanceUserChannelMembershipReadSeq /
     SetUserChannelMembershipActivatedAt (Shard) / ActivateUserChannelMembership
     (Batch) / HideUserChannelMembership, mutateUserChannelMembership,
     stageUserChannelMembership (primary row + activation index entry),
     Table.Delete / StageDelete, ListUserChannelMembershipPage (index scan with
     strict cursor, rowMatchesIndex filter, limit+1 look-ahead),
     validateUserChannelMembershipCursor,
     resolveUserCMDChannelMembership, the Shard and Batch variants of the CMD
     acknowledgement / tombstone closures, mutateUserCMDChannelMembership.
   Definitions only. *)
From WK Require Import Base.Base.
From WK Require Import Gen.Consts_C16.
Open Scope N_scope.

(* ---- rows -------------------------------------------------------------------- *)

Record membership := Membership {
  m_uid : bytes;
  m_channel_id : bytes;
  m_channel_type : Z;
  m_join_seq : N;
  m_read_seq : N;
  m_deleted_to_seq : N;
  m_activated_at : Z;
  m_tombstone : bool;
  m_tombstone_at : Z;
  m_source_version : N;
  m_updated_at : Z }.

Record cmd_membership := CmdMembership {
  c_uid : bytes;
  c_command_channel_id : bytes;
  c_channel_type : Z;
  c_start_seq : N;
  c_ack_seq : N;
  c_tombstone : bool;
  c_tombstone_at : Z;
  c_updated_at : Z }.

Definition membership_eqb (a b : membership) : bool :=
  bytes_eqb (m_uid a) (m_uid b) && bytes_eqb (m_channel_id a) (m_channel_id b)
  && (m_channel_type a =? m_channel_type b)%Z
  && (m_join_seq a =? m_join_seq b) && (m_read_seq a =? m_read_seq b)
  && (m_deleted_to_seq a =? m_deleted_to_seq b) && (m_activated_at a =? m_activated_at b)%Z
  && Bool.eqb (m_tombstone a) (m_tombstone b) && (m_tombstone_at a =? m_tombstone_at b)%Z
  && (m_source_version a =? m_source_version b) && (m_updated_at a =? m_updated_at b)%Z.

Definition cmd_membership_eqb (a b : cmd_membership) : bool :=
  bytes_eqb (c_uid a) (c_uid b) && bytes_eqb (c_command_channel_id a) (c_command_channel_id b)
  && (c_channel_type a =? c_channel_type b)%Z
  && (c_start_seq a =? c_start_seq b) && (c_ack_seq a =? c_ack_seq b)
  && Bool.eqb (c_tombstone a) (c_tombstone b) && (c_tombstone_at a =? c_tombstone_at b)%Z
  && (c_updated_at a =? c_updated_at b)%Z.

(* field updates *)
Definition with_cursors (m : membership) (join read deleted : N) : membership :=
  Membership (m_uid m) (m_channel_id m) (m_channel_type m) join read deleted
    (m_activated_at m) (m_tombstone m) (m_tombstone_at m) (m_source_version m) (m_updated_at m).
Definition with_activated_at (m : membership) (v : Z) : membership :=
  Membership (m_uid m) (m_channel_id m) (m_channel_type m) (m_join_seq m) (m_read_seq m)
    (m_deleted_to_seq m) v (m_tombstone m) (m_tombstone_at m) (m_source_version m) (m_updated_at m).
Definition with_tombstone (m : membership) (t : bool) (at_ : Z) : membership :=
  Membership (m_uid m) (m_channel_id m) (m_channel_type m) (m_join_seq m) (m_read_seq m)
    (m_deleted_to_seq m) (m_activated_at m) t at_ (m_source_version m) (m_updated_at m).
Definition with_source_version (m : membership) (v : N) : membership :=
  Membership (m_uid m) (m_channel_id m) (m_channel_type m) (m_join_seq m) (m_read_seq m)
    (m_deleted_to_seq m) (m_activated_at m) (m_tombstone m) (m_tombstone_at m) v (m_updated_at m).
Definition with_updated_at (m : membership) (v : Z) : membership :=
  Membership (m_uid m) (m_channel_id m) (m_channel_type m) (m_join_seq m) (m_read_seq m)
    (m_deleted_to_seq m) (m_activated_at m) (m_tombstone m) (m_tombstone_at m) (m_source_version m) v.

(* if v > row.UpdatedAt { row.UpdatedAt = v } *)
Definition bump_updated_at (m : membership) (v : Z) : membership :=
  if (m_updated_at m <? v)%Z then with_updated_at m v else m.

Definition cmd_with (c : cmd_membership) (ack : N) (tomb : bool) (tomb_at updated_at : Z) : cmd_membership :=
  CmdMembership (c_uid c) (c_command_channel_id c) (c_channel_type c) (c_start_seq c) ack tomb tomb_at updated_at.

(* ---- keys ----------------------------------------------------------------------- *)

(* primary key of both tables, with the hash slot of the shard *)
Record mkey := MKey { k_slot : N; k_uid : bytes; k_channel_id : bytes; k_channel_type : Z }.

Definition mkey_eqb (a b : mkey) : bool :=
  (k_slot a =? k_slot b) && bytes_eqb (k_uid a) (k_uid b)
  && bytes_eqb (k_channel_id a) (k_channel_id b) && (k_channel_type a =? k_channel_type b)%Z.

Definition membership_key (slot : N) (m : membership) : mkey :=
  MKey slot (m_uid m) (m_channel_id m) (m_channel_type m).
Definition cmd_membership_key (slot : N) (c : cmd_membership) : mkey :=
  MKey slot (c_uid c) (c_command_channel_id c) (c_channel_type c).

(* validateKeyString / validateUID / validateChannelKey *)
Definition validateKeyString (s : bytes) : bool :=
  match s with
  | [] => false
  | _ => N.of_nat (length s) <=? maxKeyStringLen
  end.
(* validateUserChannelMembershipIdentity = validateUserCMDChannelMembershipIdentity *)
Definition validateIdentity (k : mkey) : bool :=
  validateKeyString (k_uid k) && validateKeyString (k_channel_id k).

(* ---- resolveUserChannelMembership ------------------------------------------------- *)

Definition resolveUserChannelMembership (existing : membership) (exists_ : bool) (next : membership)
  : membership :=
  if negb exists_ then next
  else if m_source_version next <? m_source_version existing then existing
  else if m_source_version next =? m_source_version existing then
    if negb (m_tombstone existing) && m_tombstone next then existing
    else if m_tombstone existing && negb (m_tombstone next)
    then bump_updated_at (with_tombstone existing false 0%Z) (m_updated_at next)
    else existing
  else if m_tombstone next then
    bump_updated_at
      (with_source_version (with_tombstone existing true (m_tombstone_at next)) (m_source_version next))
      (m_updated_at next)
  else if m_tombstone existing then next
  else bump_updated_at (with_source_version existing (m_source_version next)) (m_updated_at next).

(* ---- resolveEnsuredUserChannelMembership ------------------------------------------- *)

Definition resolveEnsuredUserChannelMembership (existing : membership) (exists_ : bool)
           (incoming : membership) : membership :=
  if negb exists_ then incoming
  else if m_source_version incoming <=? m_source_version existing then existing
  else
    let e :=
      if m_source_version existing =? 0
      then with_cursors existing (m_join_seq incoming)
             (N.max (m_read_seq existing) (m_read_seq incoming))
             (N.max (m_deleted_to_seq existing) (m_deleted_to_seq incoming))
      else with_cursors existing (m_join_seq incoming) (m_read_seq incoming) (m_deleted_to_seq incoming) in
    bump_updated_at (with_source_version e (m_source_version incoming)) (m_updated_at incoming).

(* ---- the personal-state closures ----------------------------------------------------- *)

(* AdvanceUserChannelMembershipReadSeq (Shard and Batch: same closure) *)
Definition advanceReadSeq (row : membership) (readSeq : N) (updatedAt : Z) : membership :=
  if m_read_seq row <? readSeq
  then bump_updated_at (with_cursors row (m_join_seq row) readSeq (m_deleted_to_seq row)) updatedAt
  else row.

(* SetUserChannelMembershipActivatedAt / ActivateUserChannelMembership: same closure *)
Definition activate (row : membership) (activatedAt updatedAt : Z) : membership :=
  if (m_activated_at row <? activatedAt)%Z
  then bump_updated_at (with_activated_at row activatedAt) updatedAt
  else row.

(* HideUserChannelMembership *)
Definition hide (row : membership) (deletedToSeq : N) (updatedAt : Z) : membership :=
  let changed1 := m_deleted_to_seq row <? deletedToSeq in
  let row1 := if changed1 then with_cursors row (m_join_seq row) (m_read_seq row) deletedToSeq else row in
  let changed2 := negb (m_activated_at row1 =? 0)%Z in
  let row2 := if changed2 then with_activated_at row1 0%Z else row1 in
  if changed1 || changed2 then bump_updated_at row2 updatedAt else row2.

(* ---- resolveUserCMDChannelMembership and the CMD closures ----------------------------- *)

Definition resolveUserCMDChannelMembership (existing : cmd_membership) (exists_ : bool)
           (next : cmd_membership) : cmd_membership :=
  if negb exists_ || (c_tombstone existing && negb (c_tombstone next)) then next
  else if c_tombstone existing then existing
  else cmd_with existing (N.max (c_ack_seq existing) (c_ack_seq next)) (c_tombstone existing)
         (c_tombstone_at existing) (Z.max (c_updated_at existing) (c_updated_at next)).

(* Shard.AdvanceUserCMDChannelMembershipAckSeq: UpdatedAt moves even without an ack advance *)
Definition cmdAdvanceAckShard (row : cmd_membership) (ackSeq : N) (updatedAt : Z) : cmd_membership :=
  cmd_with row (N.max (c_ack_seq row) ackSeq) (c_tombstone row) (c_tombstone_at row)
    (Z.max (c_updated_at row) updatedAt).

(* Batch.AdvanceUserCMDChannelMembershipAckSeq: UpdatedAt moves only with the ack *)
Definition cmdAdvanceAckBatch (row : cmd_membership) (ackSeq : N) (updatedAt : Z) : cmd_membership :=
  if c_ack_seq row <? ackSeq
  then cmd_with row ackSeq (c_tombstone row) (c_tombstone_at row) (Z.max (c_updated_at row) updatedAt)
  else row.

(* Shard.TombstoneUserCMDChannelMembership (tombstoneAt also feeds UpdatedAt) and the
   Batch variant (TombstoneAt and UpdatedAt from the request row) *)
Definition cmdTombstone (row : cmd_membership) (tombstoneAt updatedAt : Z) : cmd_membership :=
  cmd_with row (c_ack_seq row) true (Z.max (c_tombstone_at row) tombstoneAt)
    (Z.max (c_updated_at row) updatedAt).

(* validateUserCMDChannelMembership *)
Definition validateUserCMDChannelMembership (slot : N) (c : cmd_membership) : bool :=
  validateIdentity (cmd_membership_key slot c)
  && negb ((c_tombstone_at c <? 0)%Z || (c_updated_at c <? 0)%Z).

(* ---- the activation directory index ---------------------------------------------------- *)

(* index key (hash slot, uid, ActivatedAt desc, channel id, channel type) -> primary key *)
Record idx_entry := IdxEntry {
  ie_slot : N; ie_uid : bytes; ie_activated_at : Z; ie_channel_id : bytes; ie_channel_type : Z }.

Definition idx_entry_eqb (a b : idx_entry) : bool :=
  (ie_slot a =? ie_slot b) && bytes_eqb (ie_uid a) (ie_uid b)
  && (ie_activated_at a =? ie_activated_at b)%Z
  && bytes_eqb (ie_channel_id a) (ie_channel_id b) && (ie_channel_type a =? ie_channel_type b)%Z.

(* userChannelMembershipActivationKey *)
Definition activation_entry (slot : N) (m : membership) : idx_entry :=
  IdxEntry slot (m_uid m) (m_activated_at m) (m_channel_id m) (m_channel_type m).
(* userChannelMembershipPrimaryFromActivationIndex *)
Definition entry_primary (e : idx_entry) : mkey :=
  MKey (ie_slot e) (ie_uid e) (ie_channel_id e) (ie_channel_type e).

(* byte order of the encoded index key inside one (slot, uid) prefix:
   Int64Desc (larger ActivatedAt first), then the length-prefixed channel id
   (shorter first, then bytewise), then Int64Ordered channel type *)
Fixpoint lex_compare (a b : bytes) : comparison :=
  match a, b with
  | [], [] => Eq
  | [], _ :: _ => Lt
  | _ :: _, [] => Gt
  | x :: a', y :: b' => match N.compare x y with Eq => lex_compare a' b' | c => c end
  end.
Definition keystring_compare (a b : bytes) : comparison :=
  match Nat.compare (length a) (length b) with Eq => lex_compare a b | c => c end.
Definition entry_compare (a b : idx_entry) : comparison :=
  match Z.compare (ie_activated_at b) (ie_activated_at a) with
  | Eq => match keystring_compare (ie_channel_id a) (ie_channel_id b) with
          | Eq => Z.compare (ie_channel_type a) (ie_channel_type b)
          | c => c
          end
  | c => c
  end.
Definition entry_ltb (a b : idx_entry) : bool :=
  match entry_compare a b with Lt => true | _ => false end.

(* ---- state ---------------------------------------------------------------------------------- *)

Record mstate := MState {
  st_rows : list (mkey * membership);
  st_index : list idx_entry;
  st_cmd : list (mkey * cmd_membership) }.

Definition mstate_empty : mstate := MState [] [] [].

Fixpoint assoc_get {V} (s : list (mkey * V)) (k : mkey) : option V :=
  match s with
  | [] => None
  | (k', v) :: r => if mkey_eqb k' k then Some v else assoc_get r k
  end.
Fixpoint assoc_put {V} (s : list (mkey * V)) (k : mkey) (v : V) : list (mkey * V) :=
  match s with
  | [] => [(k, v)]
  | (k', v') :: r => if mkey_eqb k' k then (k', v) :: r else (k', v') :: assoc_put r k v
  end.
Fixpoint assoc_del {V} (s : list (mkey * V)) (k : mkey) : list (mkey * V) :=
  match s with
  | [] => []
  | (k', v') :: r => if mkey_eqb k' k then assoc_del r k else (k', v') :: assoc_del r k
  end.

Definition index_del (idx : list idx_entry) (e : idx_entry) : list idx_entry :=
  filter (fun e' => negb (idx_entry_eqb e' e)) idx.
Definition index_put (idx : list idx_entry) (e : idx_entry) : list idx_entry :=
  e :: index_del idx e.

Definition get_row (st : mstate) (k : mkey) : option membership := assoc_get (st_rows st) k.
Definition get_cmd (st : mstate) (k : mkey) : option cmd_membership := assoc_get (st_cmd st) k.

(* stageUserChannelMembership: delete the old row's index entry, write the row,
   put the new row's index entry *)
Definition stageUserChannelMembership (st : mstate) (k : mkey) (existing : option membership)
           (next : membership) : mstate :=
  let idx := match existing with
             | Some old => index_del (st_index st) (activation_entry (k_slot k) old)
             | None => st_index st
             end in
  MState (assoc_put (st_rows st) k next) (index_put idx (activation_entry (k_slot k) next)) (st_cmd st).

(* Table.Delete / StageDelete: the row and the index entry of its current value *)
Definition deleteUserChannelMembership (st : mstate) (k : mkey) : mstate :=
  match get_row st k with
  | Some old => MState (assoc_del (st_rows st) k)
                       (index_del (st_index st) (activation_entry (k_slot k) old)) (st_cmd st)
  | None => st
  end.

Definition put_cmd (st : mstate) (k : mkey) (c : cmd_membership) : mstate :=
  MState (st_rows st) (st_index st) (assoc_put (st_cmd st) k c).

(* ---- ListUserChannelMembershipPage ------------------------------------------------------------ *)

Record page_cursor := PageCursor { pc_activated_at : Z; pc_channel_id : bytes; pc_channel_type : Z }.

Definition page_cursor_zero : page_cursor := PageCursor 0%Z [] 0%Z.
Definition page_cursor_is_zero (c : page_cursor) : bool :=
  (pc_activated_at c =? 0)%Z && match pc_channel_id c with [] => true | _ => false end
  && (pc_channel_type c =? 0)%Z.
Definition page_cursor_eqb (a b : page_cursor) : bool :=
  (pc_activated_at a =? pc_activated_at b)%Z && bytes_eqb (pc_channel_id a) (pc_channel_id b)
  && (pc_channel_type a =? pc_channel_type b)%Z.

(* validateUserChannelMembershipCursor *)
Definition validateUserChannelMembershipCursor (c : page_cursor) : bool :=
  if page_cursor_is_zero c then true
  else match pc_channel_id c with
       | [] => false
       | _ => negb (pc_activated_at c <? 0)%Z && validateKeyString (pc_channel_id c)
       end.

(* insertion sort of index entries by key order *)
Fixpoint entry_insert (e : idx_entry) (l : list idx_entry) : list idx_entry :=
  match l with
  | [] => [e]
  | x :: r => if entry_ltb x e then x :: entry_insert e r else e :: l
  end.
Definition entry_sort (l : list idx_entry) : list idx_entry := fold_right entry_insert [] l.

(* the index entries of one (slot, uid) prefix in key order *)
Definition uid_entries (st : mstate) (slot : N) (uid : bytes) : list idx_entry :=
  entry_sort (filter (fun e => (ie_slot e =? slot) && bytes_eqb (ie_uid e) uid) (st_index st)).

(* the row an index entry leads to, if it exists and still matches (rowMatchesIndex) *)
Definition entry_row (st : mstate) (e : idx_entry) : option membership :=
  match get_row st (entry_primary e) with
  | Some row => if idx_entry_eqb (activation_entry (ie_slot e) row) e then Some row else None
  | None => None
  end.

Fixpoint entry_rows (st : mstate) (es : list idx_entry) : list membership :=
  match es with
  | [] => []
  | e :: r => match entry_row st e with Some row => row :: entry_rows st r | None => entry_rows st r end
  end.

Definition cursor_entry (slot : N) (uid : bytes) (c : page_cursor) : idx_entry :=
  IdxEntry slot uid (pc_activated_at c) (pc_channel_id c) (pc_channel_type c).
Definition row_cursor (m : membership) : page_cursor :=
  PageCursor (m_activated_at m) (m_channel_id m) (m_channel_type m).

Inductive page_err := PageOk | PageInvalid.

(* rows, next cursor, done, error *)
Definition listUserChannelMembershipPage (st : mstate) (slot : N) (uid : bytes)
           (cursor : page_cursor) (limit : Z) : list membership * page_cursor * bool * page_err :=
  if negb (validateKeyString uid) || negb (validateUserChannelMembershipCursor cursor)
     || (limit <=? 0)%Z
  then ([], page_cursor_zero, false, PageInvalid)
  else
    let es := uid_entries st slot uid in
    let es := if page_cursor_is_zero cursor then es
              else filter (fun e => entry_ltb (cursor_entry slot uid cursor) e) es in
    let rows := entry_rows st es in
    let n := Z.to_nat limit in
    let page := firstn n rows in
    let done := Nat.leb (length rows) n in
    let next := match rev page with
                | last :: _ => row_cursor last
                | [] => cursor
                end in
    (page, next, done, PageOk).
