(* Model/MsgIds.v — internal/app/app.go nodeMessageIDs as a transition system
   over its atomic steps (Generate, floor.Load, floor.CompareAndSwap).
   The Snowflake generator is an arbitrary oracle: every generate step takes
   its value from the event (any stream, possibly repeating or decreasing). *)
From WK Require Import Base.Base.
Open Scope N_scope.

Inductive pc :=
| Idle
| NextGen  (st : N)                      (* for { raw := Generate() *)
| NextLoad (st raw : N)                  (*   floor := g.floor.Load(); if raw <= floor continue *)
| NextCas  (st raw fl : N)               (*   if CAS(floor, raw) return raw } *)
| SfLoad0  (st f : N)                    (* current := Load(); if f <= current return nil *)
| SfGen    (st f : N)                    (* probe := Generate(); if probe <= f return error *)
| SfLoad   (st f probe : N)              (* for { current = Load(); if probe <= current return nil *)
| SfCas    (st f probe cur : N).         (*   if CAS(current, probe) return nil } *)

Inductive ret := RNext (id : N) | RSetOk (f : N) | RSetErr (f : N).

(* a completed call: thread, start stamp, end stamp, result *)
Record done := Done { d_tid : nat; d_start : N; d_end : N; d_ret : ret }.

Record state := St {
  floor  : N;
  now    : N;              (* logical clock: one tick per event *)
  pcs    : list pc;        (* per thread *)
  log    : list done;      (* newest first *)
  gens   : list N;         (* every value the generator produced *)
  stored : list N }.       (* every value a successful CAS wrote to floor *)

Inductive ev :=
| ECallNext (t : nat)
| ECallSetFloor (t : nat) (f : N)
| EStep (t : nat) (g : N).     (* g is used only if the step is a Generate *)

Definition get_pc (s : state) (t : nat) : pc := nth t (pcs s) Idle.

Fixpoint set_nth {A} (t : nat) (x : A) (d : A) (l : list A) : list A :=
  match t, l with
  | O, [] => [x]
  | O, _ :: r => x :: r
  | S t', [] => d :: set_nth t' x d []
  | S t', y :: r => y :: set_nth t' x d r
  end.

Definition with_pc (s : state) (t : nat) (p : pc) : state :=
  St (floor s) (now s) (set_nth t p Idle (pcs s)) (log s) (gens s) (stored s).

Definition finish (s : state) (t : nat) (st : N) (r : ret) : state :=
  St (floor s) (now s) (set_nth t Idle Idle (pcs s))
     (Done t st (now s) r :: log s) (gens s) (stored s).

Definition thread_step (s : state) (t : nat) (g : N) : state :=
  match get_pc s t with
  | Idle => s
  | NextGen st =>
      with_pc (St (floor s) (now s) (pcs s) (log s) (g :: gens s) (stored s)) t (NextLoad st g)
  | NextLoad st raw =>
      if raw <=? floor s then with_pc s t (NextGen st) else with_pc s t (NextCas st raw (floor s))
  | NextCas st raw fl =>
      if floor s =? fl
      then finish (St raw (now s) (pcs s) (log s) (gens s) (raw :: stored s)) t st (RNext raw)
      else with_pc s t (NextGen st)
  | SfLoad0 st f =>
      if f <=? floor s then finish s t st (RSetOk f) else with_pc s t (SfGen st f)
  | SfGen st f =>
      let s' := St (floor s) (now s) (pcs s) (log s) (g :: gens s) (stored s) in
      if g <=? f then finish s' t st (RSetErr f) else with_pc s' t (SfLoad st f g)
  | SfLoad st f probe =>
      if probe <=? floor s then finish s t st (RSetOk f) else with_pc s t (SfCas st f probe (floor s))
  | SfCas st f probe cur =>
      if floor s =? cur
      then finish (St probe (now s) (pcs s) (log s) (gens s) (probe :: stored s)) t st (RSetOk f)
      else with_pc s t (SfLoad st f probe)
  end.

Definition tick (s : state) : state :=
  St (floor s) (now s + 1) (pcs s) (log s) (gens s) (stored s).

Definition step (s0 : state) (e : ev) : state :=
  let s := tick s0 in
  match e with
  | ECallNext t => match get_pc s t with Idle => with_pc s t (NextGen (now s)) | _ => s end
  | ECallSetFloor t f => match get_pc s t with Idle => with_pc s t (SfLoad0 (now s) f) | _ => s end
  | EStep t g => thread_step s t g
  end.

Definition init : state := St 0 0 [] [] [] [].
Definition run (evs : list ev) : state := fold_left step evs init.

(* ---- the property on a history of completed calls ------------------------ *)

Definition ret_next (r : ret) : option N := match r with RNext id => Some id | _ => None end.

(* A entirely before B in real time *)
Definition before (a b : done) : bool := d_end a <? d_start b.

(* one ordered pair (a, b) *)
Definition pair_ok (a b : done) : bool :=
  match d_ret b with
  | RNext idb =>
      match d_ret a with
      | RNext ida => (* unique; increasing with real time *)
          negb (ida =? idb) && (if before a b then ida <? idb else true)
      | RSetOk f => if before a b then f <? idb else true
      | RSetErr _ => true
      end
  | _ => true
  end.

Fixpoint all_pairs_ok (l : list done) : bool :=
  match l with
  | [] => true
  | a :: r => forallb (fun b => pair_ok a b && pair_ok b a) r && all_pairs_ok r
  end.

(* ---- case-file interface ---------------------------------------------------
   A case is the list of completed calls observed on the implementation
   (stamps from one global atomic ticket), plus, for sequential cases, the
   allocator's floor after each call (same order as the calls). *)
Record c30_case := C30Case {
  c30_seq : bool;
  c30_ops : list done;           (* in order of completion for sequential cases *)
  c30_floors : list N }.         (* sequential cases only: floor after each op *)

Definition C30_monitor (c : c30_case) : N :=
  if all_pairs_ok (c30_ops c) then 0 else 1.

(* sequential replay of the atomic-step model, oracle values taken from the
   observation: the id returned by Next is what the generator produced; for an
   accepted SetFloor that changed the floor the probe is the new floor; for a
   rejected one any value <= f (we use f). *)
Definition seq_events (d : done) (fl_after : N) : list ev :=
  match d_ret d with
  | RNext id => [ECallNext 0; EStep 0 id; EStep 0 0; EStep 0 0]
  | RSetOk f => [ECallSetFloor 0 f; EStep 0 0; EStep 0 fl_after; EStep 0 0; EStep 0 0]
  | RSetErr f => [ECallSetFloor 0 f; EStep 0 0; EStep 0 f; EStep 0 0; EStep 0 0]
  end.

Definition ret_eqb (a b : ret) : bool :=
  match a, b with
  | RNext x, RNext y => x =? y
  | RSetOk x, RSetOk y => x =? y
  | RSetErr x, RSetErr y => x =? y
  | _, _ => false
  end.

Fixpoint seq_replay (s : state) (ops : list done) (fls : list N) : bool :=
  match ops, fls with
  | [], [] => true
  | d :: ops', fl :: fls' =>
      let s' := fold_left step (seq_events d fl) s in
      match log s' with
      | r :: _ => ret_eqb (d_ret r) (d_ret d) && (floor s' =? fl)
                  && match get_pc s' 0 with Idle => true | _ => false end
                  && (length (log s') =? S (length (log s)))%nat
                  && seq_replay s' ops' fls'
      | [] => false
      end
  | _, _ => false
  end.

Definition C30_mismatch (c : c30_case) : bool :=
  if c30_seq c then negb (seq_replay init (c30_ops c) (c30_floors c))
  else false.
