(* Model/Monitor_C02.v — C02 "replica logs agree on every committed offset",
   evaluated on the implementation's observations alone (every voter's Load with all
   indexes after every step; entry ids interned by digest; the table gives each entry's
   index and the id of its predecessor).

   After every step, for all voters whose store could be read:
     readable   the store answers Load (a store that reports a corrupt frontier is a violation);  (code 1)
     chain      the log is an unbroken predecessor hash chain from genesis: entry k sits at
                index k and names entry k-1 as predecessor;                              (code 1)
     bounds     committed <= log end;                                                     (code 1)
     monotone   committed did not move backwards in this step;                            (code 1)
     agreement  any two voters hold the same entry at every offset <= both committed watermarks.
   A disagreement is code 2 (known finding C02-K1) only when, at that offset, one of the two
   entries is an acknowledged entry that an Install matching the C01-K1 signature dropped
   (held by fewer than WriteQuorum of the voters that answered that Install's probe) — the
   deposed leader checkpointed it; code 3 (C02-K2, the C01-K2 analogue) when instead one of the two
   is an acknowledged entry dropped by an Install matching the C01-K2 signature (>= WriteQuorum holders
   answered the frontier round, fewer than WriteQuorum holders answered every identity page, and the
   post-page guard of recoverQuorumPrefix holds on the observed pre-install states: see Monitor_C01.v);
   any other disagreement is code 1. *)
From WK Require Import Base.Base.
From WK Require Export Model.ReplicaLog Model.QuorumLog Model.Cluster.
Open Scope N_scope.

Record c02_state := C02State { cb_acked : list (N * N); cb_down : list N; cb_k1 : list (N * N); cb_k2 : list (N * N); cb_max : authid }.

Fixpoint acked_at2 (l : list (N * N)) (idx : N) : option N :=
  match l with
  | [] => None
  | (i, id) :: rest => if i =? idx then Some id else acked_at2 rest idx
  end.
Definition countb2 {A} (f : A -> bool) (l : list A) : N := lenN (filter f l).
Definition holds2 (full : list (N * robs)) (w : N) (p : N * N) : bool :=
  obs_id_at (get_robs full w) (fst p) =? snd p.
Definition worse2 (a b : N) : N :=
  if (a =? 1) || (b =? 1) then 1 else if (a =? 0) then b else a.

(* bookkeeping of acknowledged entries and of the entries dropped by C01-K1 installs *)
Definition c02_track (cfg : qconfig) (st : c02_state) (prev : list (N * robs))
           (s : qop * qres * list (N * robs)) : c02_state :=
  let '(op, res, full) := s in
  let vs := voters_of cfg in
  match op, res with
  | OCommit node _ _ _ _ _, RReceipt _ _ first last _ =>
      let leader := get_robs full node in
      let new := map (fun i => (i, obs_id_at leader i)) (seqN first (N.to_nat (last + 1 - first))) in
      C02State (filter (fun p => match acked_at2 (cb_acked st) (fst p) with Some _ => false | None => true end) new
                ++ cb_acked st) (cb_down st) (cb_k1 st) (cb_k2 st) (cb_max st)
  | OInstall node a _ _ f, RInstalled _ _ _ =>
      match compareAuthorityID a (cb_max st) with
      | Lt => st     (* a stale leader told its old authority again: not a failover (see Monitor_C01.v) *)
      | _ =>
      let lost := filter (fun p => negb (holds2 full node p)) (cb_acked st) in
      let q := cf_quorum cfg in
      let frontier := node :: filter (fun w => negb (w =? node) && negb (memN w (cb_down st)) &&
                                               negb (memN w (fl_drop f))) vs in
      let stable := filter (fun w => (w =? node) || negb (memN w (fl_pdrop f))) frontier in
      let qth (sel : robs -> N) (ws : list N) := quorumFrontier (map (fun w => sel (get_robs prev w)) ws) q in
      let guard := (q <=? lenN stable) && (qth ro_hw stable =? qth ro_hw frontier) &&
                   (qth ro_leo stable =? qth ro_leo frontier) in
      let k1p (p : N * N) := countb2 (fun w => holds2 prev w p) frontier <? q in
      let k2p (p : N * N) := negb (k1p p) && guard && (countb2 (fun w => holds2 prev w p) stable <? q) in
      C02State (filter (fun p => holds2 full node p) (cb_acked st)) (cb_down st)
               (filter k1p lost ++ cb_k1 st) (filter k2p lost ++ cb_k2 st) a
      end
  | ODown node, _ => C02State (cb_acked st) (node :: filter (fun v => negb (v =? node)) (cb_down st)) (cb_k1 st) (cb_k2 st) (cb_max st)
  | OUp node, _ => C02State (cb_acked st) (filter (fun v => negb (v =? node)) (cb_down st)) (cb_k1 st) (cb_k2 st) (cb_max st)
  | _, _ => st
  end.

(* code of the agreement clause for one pair of voters *)
Fixpoint pair_agreement (k1 k2 : list (N * N)) (a b : robs) (idx : N) (count : nat) : N :=
  match count with
  | O => 0
  | S c =>
      let x := obs_id_at a idx in let y := obs_id_at b idx in
      let here := if x =? y then 0
                  else if existsb (fun p => (fst p =? idx) && ((snd p =? x) || (snd p =? y))) k1 then 2
                  else if existsb (fun p => (fst p =? idx) && ((snd p =? x) || (snd p =? y))) k2 then 3 else 1 in
      worse2 here (pair_agreement k1 k2 a b (idx + 1) c)
  end.

Fixpoint all_pairs_agreement (k1 k2 : list (N * N)) (os : list robs) : N :=
  match os with
  | [] => 0
  | a :: rest =>
      worse2 (fold_left (fun acc b =>
                 if ro_err a || ro_err b then acc
                 else worse2 acc (pair_agreement k1 k2 a b 1 (N.to_nat (N.min (ro_hw a) (ro_hw b))))) rest 0)
             (all_pairs_agreement k1 k2 rest)
  end.

Definition c02_check (cfg : qconfig) (tab : list ent) (st : c02_state) (prev full : list (N * robs)) : N :=
  let vs := voters_of cfg in
  let local_ok :=
    forallb (fun v => let o := get_robs full v in let o0 := get_robs prev v in
               negb (ro_err o) && obs_chain_ok tab o && (ro_hw o <=? ro_leo o) &&
               (ro_err o || ro_err o0 || (ro_hw o0 <=? ro_hw o))) vs in
  if negb local_ok then 1
  else all_pairs_agreement (cb_k1 st) (cb_k2 st) (map (get_robs full) vs).

Fixpoint c02_run (cfg : qconfig) (tab : list ent) (st : c02_state) (prev : list (N * robs))
         (steps : list (qop * qres * list (N * robs))) : N :=
  match steps with
  | [] => 0
  | s :: rest =>
      let st' := c02_track cfg st prev s in
      worse2 (c02_check cfg tab st' prev (snd s)) (c02_run cfg tab st' (snd s) rest)
  end.

Definition c02_code (cfg : qconfig) (tab : list ent) (steps : list (qop * qres * list (N * robs))) : N :=
  c02_run cfg tab (C02State [] [] [] [] authid_zero) [] steps.

Definition C02_mismatch : qcase -> bool := q_mismatch.
Definition C02_monitor (c : qcase) : N := c02_code (cs_cfg c) (cs_tab c) (expand_steps [] (cs_steps c)).
