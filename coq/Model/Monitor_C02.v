(* placeholder *)
From WK Require Import Base.Base.
From WK Require Export Model.ReplicaLog Model.QuorumLog Model.Cluster.
Open Scope N_scope.
Definition C02_mismatch : qcase -> bool := q_mismatch.
Definition C02_monitor (c : qcase) : N := 0.
