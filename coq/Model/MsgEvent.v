(* Model/MsgEvent.v — executable model of the message event projection (C40).

   Go code transcribed (one definition per Go function, same names):

     pkg/db/meta/table_message_event.go
       normalizeMessageEventAppend, isMessageEventTerminal, reduceMessageEventDelta,
       decodeMessageEventTerminalPayload (through the payload views, see below),
       reduceMessageEventAppend, messageEventAppendResult,
       messageEventAppliedFromResult, messageEventAppendResultFromApplied,
       Shard.AppendMessageEvent, Batch.AppendMessageEvent (+ Batch.Commit:
       staged appends applied in order, atomically)
     pkg/slot/fsm/message_event_cmds.go
       appendMessageEventCmd.apply / appendMessageEventsBatchCmd.apply
       (one WriteBatch, all-or-nothing), applyResult (last result / all results)
     pkg/cluster/node_message_event_stream_cache.go
       messageEventStreamCache.{appendCachedObserved, mergeTerminalPayload,
       markTerminalPersisted, openStatesForFinish, removeObserved,
       removeHashSlotsObserved, resetAfterRestore, pauseForRestore,
       resumeAfterRestore, sessionLocked, evictOldestTerminalLocked},
       mergeMessageEventTerminalPayload, finishFlushMessageEvent,
       normalizeClusterMessageEventAppend, Node.appendMessageEventLocal,
       Node.appendMessageEventFinishLocal, appendMessageEventFinishPreparedDirect

   JSON.  encoding/json is NOT modelled.  Every client-supplied payload enters
   the model as a [Payload]: the raw bytes plus the *views* encoding/json gives
   of them (what the delta / snapshot / terminal decoders of the code read).
   The views are computed by the harness with its own calls of encoding/json.
   Payloads the code *produces* are computed here: the text snapshot
   json.Marshal(struct{Kind,Text}) byte-exactly ([marshal_text]), and the
   merged terminal payload through its views ([mergeMessageEventTerminalPayload]).

   Strings are byte lists; TrimSpace / ToLower are the ASCII versions (the
   harness keeps identifiers ASCII).  Definitions only. *)
From WK Require Import Base.Base.
From WK Require Import Gen.Consts_C40.
Open Scope N_scope.

(* ---- strings -------------------------------------------------------------- *)

Definition is_space (b : N) : bool :=
  (b =? 9) || (b =? 10) || (b =? 11) || (b =? 12) || (b =? 13) || (b =? 32).

Fixpoint trim_left (s : bytes) : bytes :=
  match s with
  | [] => []
  | b :: r => if is_space b then trim_left r else s
  end.

(* strings.TrimSpace on ASCII *)
Definition TrimSpace (s : bytes) : bytes := rev (trim_left (rev (trim_left s))).

Definition lower_byte (b : N) : N := if (65 <=? b) && (b <=? 90) then b + 32 else b.
(* strings.ToLower on ASCII *)
Definition ToLower (s : bytes) : bytes := map lower_byte s.

Definition is_empty (s : bytes) : bool := match s with [] => true | _ => false end.

(* Go string "<" : bytewise lexicographic *)
Fixpoint bytes_ltb (a b : bytes) : bool :=
  match a, b with
  | _, [] => false
  | [], _ :: _ => true
  | x :: a', y :: b' => if x <? y then true else if y <? x then false else bytes_ltb a' b'
  end.

(* ---- json.Marshal of a Go string (escapeHTML on), valid UTF-8 input ------- *)

Definition hexdig (n : N) : N := if n <? 10 then 48 + n else 87 + n.

Definition esc_byte (b : N) : bytes :=
  if (b =? 34) || (b =? 92) then [92; b]
  else if b =? 8 then [92; 98]
  else if b =? 12 then [92; 102]
  else if b =? 10 then [92; 110]
  else if b =? 13 then [92; 114]
  else if b =? 9 then [92; 116]
  else if (b <? 32) || (b =? 60) || (b =? 62) || (b =? 38)
       then [92; 117; 48; 48; hexdig (b / 16); hexdig (b mod 16)]
  else [b].

(* U+2028 / U+2029 (e2 80 a8 / e2 80 a9) are written \u2028 / \u2029;
   [skip] = bytes of the current rune still to be dropped *)
Fixpoint json_escape_aux (skip : nat) (s : bytes) : bytes :=
  match s with
  | [] => []
  | b :: r =>
    match skip with
    | S k => json_escape_aux k r
    | O =>
      match r with
      | b2 :: b3 :: _ =>
        if (b =? 226) && (b2 =? 128) && ((b3 =? 168) || (b3 =? 169))
        then [92; 117; 50; 48; 50; (if b3 =? 168 then 56 else 57)] ++ json_escape_aux 2 r
        else esc_byte b ++ json_escape_aux 0 r
      | _ => esc_byte b ++ json_escape_aux 0 r
      end
    end
  end.
Definition json_escape (s : bytes) : bytes := json_escape_aux 0 s.

(* json.Marshal(struct{Kind string "kind"; Text string "text"}{"text", t}) *)
Definition marshal_text (t : bytes) : bytes :=
  TextSnapshotPrefix ++ json_escape t ++ TextSnapshotSuffix.

(* ---- payloads and snapshots ------------------------------------------------- *)

(* a stored / cached SnapshotPayload: the bytes and what encoding/json reads in them *)
Record Snap := mkSnap {
  s_raw : bytes;
  s_text : option bytes;   (* Some t: unmarshals into {kind,text} with kind = "text" *)
  s_canon : bytes          (* json.Marshal(cloneJSONRawMessage(s_raw)): compact, HTML-escaped; a JSON string when s_raw is not valid JSON *)
}.

Definition snap_empty : Snap := mkSnap [] None [].
(* an observed snapshot whose views are not needed *)
Definition osnap (raw : bytes) : Snap := mkSnap raw None raw.

Record Payload := mkPayload {
  p_raw : bytes;
  p_delta : option bytes;      (* reduceMessageEventDelta: Some d iff unmarshals into {kind,delta} with kind = "text" *)
  p_text : option bytes;       (* the payload stored as a snapshot: its text view *)
  p_canon : bytes;             (* the payload stored as a snapshot: its canonical re-marshalling *)
  p_tok : bool;                (* decodeMessageEventTerminalPayload: json.Unmarshal into the struct succeeded *)
  p_tsnap : option bytes;      (* ... .snapshot (None when missing / null / decode error) *)
  p_tsnap_canon : bytes;       (* canonical re-marshalling of that snapshot *)
  p_treason : N;               (* ... .endReason *)
  p_terror : bytes;            (* ... .errorText *)
  p_obj : bool;                (* empty, or unmarshals into map[string]json.RawMessage *)
  p_hassnap : bool             (* messageEventPayloadHasSnapshot *)
}.

Definition payload_empty : Payload := mkPayload [] None None [] false None [] 0 [] true false.

(* cloneBytes(event.Payload) stored as SnapshotPayload *)
Definition snap_of_payload (p : Payload) : Snap := mkSnap (p_raw p) (p_text p) (p_canon p).

(* ---- rows ------------------------------------------------------------------- *)

Record Event := mkEvent {
  e_channel : bytes; e_ctype : Z; e_msgno : bytes; e_id : bytes; e_key : bytes;
  e_etype : bytes; e_vis : bytes; e_at : Z; e_payload : Payload; e_updated : Z
}.

Record State := mkState {
  st_channel : bytes; st_ctype : Z; st_msgno : bytes; st_key : bytes;
  st_status : bytes; st_seq : N; st_last_id : bytes; st_last_type : bytes;
  st_last_vis : bytes; st_last_at : Z; st_snap : Snap; st_end_reason : N;
  st_error : bytes; st_updated : Z
}.

Definition state_zero : State := mkState [] 0%Z [] [] [] 0 [] [] [] 0%Z snap_empty 0 [] 0%Z.

Record Cursor := mkCursor {
  cu_channel : bytes; cu_ctype : Z; cu_msgno : bytes; cu_seq : N; cu_updated : Z
}.
Definition cursor_zero : Cursor := mkCursor [] 0%Z [] 0 0%Z.

Record Applied := mkApplied {
  ap_channel : bytes; ap_ctype : Z; ap_msgno : bytes; ap_id : bytes;
  ap_key : bytes; ap_seq : N; ap_status : bytes; ap_updated : Z
}.

Record Result := mkResult {
  r_channel : bytes; r_ctype : Z; r_msgno : bytes; r_id : bytes;
  r_key : bytes; r_seq : N; r_status : bytes; r_state : State
}.

(* error classes (errors.Is) *)
(* EPanic: the call panicked (recovered by the harness); the model never produces it *)
Inductive Err := ENone | EInvalidArgument | ENotLeader | EMaintenance | EBackpressured | ECacheMiss | EOther | EPanic.

Definition err_eqb (a b : Err) : bool :=
  match a, b with
  | ENone, ENone | EInvalidArgument, EInvalidArgument | ENotLeader, ENotLeader
  | EMaintenance, EMaintenance | EBackpressured, EBackpressured
  | ECacheMiss, ECacheMiss | EOther, EOther | EPanic, EPanic => true
  | _, _ => false
  end.

(* ---- event kinds ---------------------------------------------------------- *)

Inductive EvKind := KOpen | KDelta | KClose | KError | KCancel | KSnapshot | KFinish.

(* the string switches of the code *)
Definition event_kind (et : bytes) : option EvKind :=
  if bytes_eqb et EventTypeStreamOpen then Some KOpen
  else if bytes_eqb et EventTypeStreamDelta then Some KDelta
  else if bytes_eqb et EventTypeStreamClose then Some KClose
  else if bytes_eqb et EventTypeStreamError then Some KError
  else if bytes_eqb et EventTypeStreamCancel then Some KCancel
  else if bytes_eqb et EventTypeStreamSnapshot then Some KSnapshot
  else if bytes_eqb et EventTypeStreamFinish then Some KFinish
  else None.

Definition isMessageEventTerminal (status : bytes) : bool :=
  bytes_eqb status EventStatusClosed || bytes_eqb status EventStatusError
  || bytes_eqb status EventStatusCancelled.

(* pkg/cluster: isMessageEventCacheOnlyEvent / isMessageEventTerminalEvent *)
Definition isMessageEventCacheOnlyEvent (et : bytes) : bool :=
  match event_kind et with Some KOpen | Some KDelta | Some KSnapshot => true | _ => false end.
Definition isMessageEventTerminalEvent (et : bytes) : bool :=
  match event_kind et with Some KClose | Some KError | Some KCancel | Some KFinish => true | _ => false end.

(* ---- normalizeMessageEventAppend (= normalizeClusterMessageEventAppend) ------ *)

Definition normalizeMessageEventAppend (e : Event) : option Event :=
  let channel := TrimSpace (e_channel e) in
  let msgno := TrimSpace (e_msgno e) in
  let id := TrimSpace (e_id e) in
  let key := TrimSpace (e_key e) in
  let etype := ToLower (TrimSpace (e_etype e)) in
  let vis := TrimSpace (e_vis e) in
  if is_empty channel || (e_ctype e <=? 0)%Z || is_empty msgno || is_empty id || is_empty etype
  then None else
  let key := if is_empty key then EventKeyDefault else key in
  let key := if bytes_eqb etype EventTypeStreamFinish then EventKeyFinish else key in
  let vis := if is_empty vis then VisibilityPublic else vis in
  match event_kind etype with
  | None => None
  | Some _ => Some (mkEvent channel (e_ctype e) msgno id key etype vis (e_at e) (e_payload e) (e_updated e))
  end.

(* ---- reducers --------------------------------------------------------------- *)

Definition reduceMessageEventDelta (existing : Snap) (p : Payload) : Snap :=
  match p_delta p with
  | None => snap_of_payload p
  | Some d =>
    let text := match s_text existing with Some t => t | None => [] end in
    let out := marshal_text (text ++ d) in
    mkSnap out (Some (text ++ d)) out
  end.

(* decodeMessageEventTerminalPayload(payload).snapshot as a stored snapshot *)
Definition terminal_snapshot (p : Payload) : option Snap :=
  match p_tsnap p with
  | Some raw => Some (mkSnap raw None (p_tsnap_canon p))
  | None => None
  end.

Definition messageEventAppendResult (e : Event) (s : State) : Result :=
  mkResult (e_channel e) (e_ctype e) (e_msgno e) (e_id e) (st_key s) (st_seq s) (st_status s) s.

Definition wrap_succ (x : N) : N := wrap64 (x + 1).

Definition reduceMessageEventAppend (state : State) (stateExists : bool) (cursor : Cursor) (cursorExists : bool)
           (e : Event) : State * Cursor * bool * Result :=
  if stateExists && (bytes_eqb (st_last_id state) (e_id e) || isMessageEventTerminal (st_status state))
  then (state, cursor, false, messageEventAppendResult e state) else
  let state := if stateExists then state
               else mkState (e_channel e) (e_ctype e) (e_msgno e) (e_key e) EventStatusOpen 0 [] [] [] 0%Z snap_empty 0 [] 0%Z in
  let cursor := if cursorExists then cursor else mkCursor (e_channel e) (e_ctype e) (e_msgno e) 0 0%Z in
  let nextSeq := wrap_succ (cu_seq cursor) in
  let p := e_payload e in
  let keep_or (o : option Snap) := match o with Some s => s | None => st_snap state end in
  let '(status, snap, reason, errtext) :=
    match event_kind (e_etype e) with
    | Some KDelta => (EventStatusOpen, reduceMessageEventDelta (st_snap state) p, st_end_reason state, st_error state)
    | Some KSnapshot => (EventStatusOpen, snap_of_payload p, st_end_reason state, st_error state)
    | Some KClose => (EventStatusClosed, keep_or (terminal_snapshot p), p_treason p, st_error state)
    | Some KError => (EventStatusError, keep_or (terminal_snapshot p), st_end_reason state, p_terror p)
    | Some KCancel => (EventStatusCancelled, keep_or (terminal_snapshot p), st_end_reason state, st_error state)
    | Some KFinish => (EventStatusClosed, st_snap state, st_end_reason state, st_error state)
    | Some KOpen | None => (st_status state, st_snap state, st_end_reason state, st_error state)
    end in
  let state' := mkState (st_channel state) (st_ctype state) (st_msgno state) (st_key state)
                        status nextSeq (e_id e) (e_etype e) (e_vis e) (e_at e) snap reason errtext (e_updated e) in
  let cursor' := mkCursor (cu_channel cursor) (cu_ctype cursor) (cu_msgno cursor) nextSeq (e_updated e) in
  (state', cursor', true, messageEventAppendResult e state').

Definition messageEventAppliedFromResult (e : Event) (r : Result) : Applied :=
  mkApplied (e_channel e) (e_ctype e) (e_msgno e) (e_id e) (r_key r) (r_seq r) (r_status r) (e_updated e).

Definition messageEventAppendResultFromApplied (e : Event) (a : Applied) (state : State) (stateExists : bool) : Result :=
  let appliedState :=
    if stateExists && bytes_eqb (st_last_id state) (e_id e) && (st_seq state =? ap_seq a)
    then state
    else mkState (e_channel e) (e_ctype e) (e_msgno e) (ap_key a) (ap_status a) (ap_seq a) (e_id e) [] [] 0%Z snap_empty 0 [] (ap_updated a) in
  mkResult (e_channel e) (e_ctype e) (e_msgno e) (e_id e) (ap_key a) (ap_seq a) (ap_status a) appliedState.

(* ---- the three tables of one meta DB (rows tagged with their hash slot) ------ *)

Record DB := mkDB {
  db_states : list (N * State);
  db_cursors : list (N * Cursor);
  db_applied : list (N * Applied)
}.
Definition db_empty : DB := mkDB [] [] [].

Definition msg_eqb (c1 : bytes) (t1 : Z) (m1 : bytes) (c2 : bytes) (t2 : Z) (m2 : bytes) : bool :=
  bytes_eqb c1 c2 && Z.eqb t1 t2 && bytes_eqb m1 m2.

Definition state_at (hs : N) (c : bytes) (t : Z) (m key : bytes) (x : N * State) : bool :=
  (fst x =? hs) && msg_eqb (st_channel (snd x)) (st_ctype (snd x)) (st_msgno (snd x)) c t m
  && bytes_eqb (st_key (snd x)) key.
Definition cursor_at (hs : N) (c : bytes) (t : Z) (m : bytes) (x : N * Cursor) : bool :=
  (fst x =? hs) && msg_eqb (cu_channel (snd x)) (cu_ctype (snd x)) (cu_msgno (snd x)) c t m.
Definition applied_at (hs : N) (c : bytes) (t : Z) (m id : bytes) (x : N * Applied) : bool :=
  (fst x =? hs) && msg_eqb (ap_channel (snd x)) (ap_ctype (snd x)) (ap_msgno (snd x)) c t m
  && bytes_eqb (ap_id (snd x)) id.

Fixpoint upsert {A} (same : A -> bool) (x : A) (l : list A) : list A :=
  match l with
  | [] => [x]
  | y :: r => if same y then x :: r else y :: upsert same x r
  end.

Definition get_state (db : DB) hs c t m key : option State :=
  option_map snd (find (state_at hs c t m key) (db_states db)).
Definition get_cursor (db : DB) hs c t m : option Cursor :=
  option_map snd (find (cursor_at hs c t m) (db_cursors db)).
Definition get_applied (db : DB) hs c t m id : option Applied :=
  option_map snd (find (applied_at hs c t m id) (db_applied db)).

Definition put_rows (db : DB) (hs : N) (s : State) (cu : Cursor) (a : Applied) : DB :=
  mkDB (upsert (state_at hs (st_channel s) (st_ctype s) (st_msgno s) (st_key s)) (hs, s) (db_states db))
       (upsert (cursor_at hs (cu_channel cu) (cu_ctype cu) (cu_msgno cu)) (hs, cu) (db_cursors db))
       (upsert (applied_at hs (ap_channel a) (ap_ctype a) (ap_msgno a) (ap_id a)) (hs, a) (db_applied db)).

Definition opt_or {A} (o : option A) (d : A) : A := match o with Some x => x | None => d end.
Definition is_some {A} (o : option A) : bool := match o with Some _ => true | None => false end.

(* Shard.AppendMessageEvent; Batch.AppendMessageEvent is the same function on
   the batch's staged view of the tables *)
Definition AppendMessageEvent (db : DB) (hs : N) (e : Event) : (Err * option Result) * DB :=
  match normalizeMessageEventAppend e with
  | None => ((EInvalidArgument, None), db)
  | Some e =>
    let c := e_channel e in let t := e_ctype e in let m := e_msgno e in
    match get_applied db hs c t m (e_id e) with
    | Some a =>
      let st := get_state db hs c t m (ap_key a) in
      ((ENone, Some (messageEventAppendResultFromApplied e a (opt_or st state_zero) (is_some st))), db)
    | None =>
      let st := get_state db hs c t m (e_key e) in
      let cu := get_cursor db hs c t m in
      let '(ns, nc, didApply, res) :=
        reduceMessageEventAppend (opt_or st state_zero) (is_some st) (opt_or cu cursor_zero) (is_some cu) e in
      if didApply then ((ENone, Some res), put_rows db hs ns nc (messageEventAppliedFromResult e res))
      else ((ENone, Some res), db)
    end
  end.

(* WriteBatch: stage appends in order (a failing stage call changes nothing), then Commit *)
Fixpoint batch_appends (db : DB) (evs : list (N * Event)) : list (Err * option Result) * DB :=
  match evs with
  | [] => ([], db)
  | (hs, e) :: r =>
    let '(o, db1) := AppendMessageEvent db hs e in
    let '(os, db2) := batch_appends db1 r in
    (o :: os, db2)
  end.

(* pkg/slot/fsm: one command = one WriteBatch; any apply error fails the whole
   ApplyBatch and nothing is committed.  None = error. *)
Fixpoint fsm_apply_events (db : DB) (hs : N) (evs : list Event) : option (list Result * DB) :=
  match evs with
  | [] => Some ([], db)
  | e :: r =>
    match AppendMessageEvent db hs e with
    | ((ENone, Some res), db1) =>
      match fsm_apply_events db1 hs r with
      | Some (rs, db2) => Some (res :: rs, db2)
      | None => None
      end
    | _ => None
    end
  end.

(* validateMessageEventAppend (fsm): exact, no trimming *)
Definition validateMessageEventAppend (e : Event) : bool :=
  negb (is_empty (e_channel e) || (e_ctype e <=? 0)%Z || is_empty (e_msgno e) || is_empty (e_id e) || is_empty (e_etype e))
  && is_some (event_kind (e_etype e)).

Definition validateMessageEventAppendBatch (evs : list Event) : bool :=
  match evs with
  | [] => false
  | first :: _ =>
    forallb (fun e => validateMessageEventAppend e && bytes_eqb (e_channel e) (e_channel first)
                      && Z.eqb (e_ctype e) (e_ctype first)) evs
  end.

(* ---- the leader-side stream cache -------------------------------------------- *)

Record Session := mkSession {
  ss_channel : bytes; ss_ctype : Z; ss_msgno : bytes;
  ss_states : list (bytes * State);     (* map[eventKey]state *)
  ss_applied : list (bytes * Result);   (* map[eventID]result *)
  ss_updated : N                        (* time.Now() of the last touch, as a logical clock *)
}.

Record Cache := mkCache {
  c_paused : bool;
  c_max : N;
  c_sessions : list Session;
  c_clock : N
}.

Definition newMessageEventStreamCache (maxSessions : N) : Cache :=
  mkCache false (if maxSessions =? 0 then defaultMessageEventStreamCacheMaxSessions else maxSessions) [] 0.

Definition session_at (c : bytes) (t : Z) (m : bytes) (s : Session) : bool :=
  msg_eqb (ss_channel s) (ss_ctype s) (ss_msgno s) c t m.

Definition find_session (ca : Cache) c t m : option Session := find (session_at c t m) (c_sessions ca).

Fixpoint assoc {A} (k : bytes) (l : list (bytes * A)) : option A :=
  match l with
  | [] => None
  | (k', v) :: r => if bytes_eqb k' k then Some v else assoc k r
  end.
Definition assoc_put {A} (k : bytes) (v : A) (l : list (bytes * A)) : list (bytes * A) :=
  upsert (fun x => bytes_eqb (fst x) k) (k, v) l.

Definition isMessageEventTerminalCacheSession (s : Session) : bool :=
  forallb (fun x => isMessageEventTerminal (st_status (snd x))) (ss_states s).

(* the terminal session with the smallest [updated]; first one on ties *)
Fixpoint oldest_terminal (l : list Session) (best : option Session) : option Session :=
  match l with
  | [] => best
  | s :: r =>
    if isMessageEventTerminalCacheSession s then
      match best with
      | Some b => if ss_updated s <? ss_updated b then oldest_terminal r (Some s) else oldest_terminal r best
      | None => oldest_terminal r (Some s)
      end
    else oldest_terminal r best
  end.

Definition remove_session (c : bytes) (t : Z) (m : bytes) (l : list Session) : list Session :=
  filter (fun s => negb (session_at c t m s)) l.

Definition put_session (s : Session) (l : list Session) : list Session :=
  upsert (session_at (ss_channel s) (ss_ctype s) (ss_msgno s)) s l.

(* sessionLocked: Some (session, sessions after a possible eviction) or None = ErrBackpressured *)
Definition sessionLocked (ca : Cache) c t m (now : N) : option (Session * list Session) :=
  match find_session ca c t m with
  | Some s => Some (mkSession (ss_channel s) (ss_ctype s) (ss_msgno s) (ss_states s) (ss_applied s) now, c_sessions ca)
  | None =>
    let fresh := mkSession c t m [] [] now in
    if N.of_nat (length (c_sessions ca)) <? c_max ca then Some (fresh, c_sessions ca)
    else match oldest_terminal (c_sessions ca) None with
         | Some victim => Some (fresh, remove_session (ss_channel victim) (ss_ctype victim) (ss_msgno victim) (c_sessions ca))
         | None => None
         end
  end.

Definition cachedMessageEventState (e : Event) : State :=
  mkState (e_channel e) (e_ctype e) (e_msgno e) (e_key e) EventStatusOpen 0 (e_id e) (e_etype e)
          (e_vis e) (e_at e) snap_empty 0 [] (e_updated e).

Definition cachedMessageEventResult (e : Event) (s : State) : Result :=
  mkResult (e_channel e) (e_ctype e) (e_msgno e) (e_id e) (st_key s) (st_seq s) (st_status s) s.

Definition appendCachedObserved (ca : Cache) (e : Event) : (Err * option Result) * Cache :=
  let now := c_clock ca + 1 in
  if c_paused ca then ((EMaintenance, None), ca) else
  match sessionLocked ca (e_channel e) (e_ctype e) (e_msgno e) now with
  | None => ((EBackpressured, None), mkCache (c_paused ca) (c_max ca) (c_sessions ca) now)
  | Some (session, sessions) =>
    match assoc (e_id e) (ss_applied session) with
    | Some res =>
      ((ENone, Some res), mkCache (c_paused ca) (c_max ca) (put_session session sessions) now)
    | None =>
      let state := match assoc (e_key e) (ss_states session) with
                   | Some s => if is_empty (st_key s) then cachedMessageEventState e else s
                   | None => cachedMessageEventState e
                   end in
      if isMessageEventTerminal (st_status state) then
        let res := cachedMessageEventResult e state in
        let session' := mkSession (ss_channel session) (ss_ctype session) (ss_msgno session) (ss_states session)
                                  (assoc_put (e_id e) res (ss_applied session)) (ss_updated session) in
        ((ENone, Some res), mkCache (c_paused ca) (c_max ca) (put_session session' sessions) now)
      else
        let snap := match event_kind (e_etype e) with
                    | Some KDelta => reduceMessageEventDelta (st_snap state) (e_payload e)
                    | Some KSnapshot => snap_of_payload (e_payload e)
                    | _ => st_snap state
                    end in
        let state' := mkState (st_channel state) (st_ctype state) (st_msgno state) (st_key state) EventStatusOpen
                              (st_seq state) (e_id e) (e_etype e) (e_vis e) (e_at e) snap
                              (st_end_reason state) (st_error state) (e_updated e) in
        let res := cachedMessageEventResult e state' in
        let session' := mkSession (ss_channel session) (ss_ctype session) (ss_msgno session)
                                  (assoc_put (e_key e) state' (ss_states session))
                                  (assoc_put (e_id e) res (ss_applied session)) now in
        ((ENone, Some res), mkCache (c_paused ca) (c_max ca) (put_session session' sessions) now)
    end
  end.

(* mergeMessageEventTerminalPayload(payload, snapshot), through the views *)
Definition tsnap_of_canon (c : bytes) : option bytes :=
  if bytes_eqb c (hx "6e756c6c") then None else Some c.   (* the JSON literal null *)

(* a payload that is the JSON literal null unmarshals into a nil map, which the code
   replaces by an empty one (fix a05aa1e4b): it merges like the empty object; its views
   say so already (p_obj, no snapshot, decodes into the zero terminal struct) *)
(* an empty payload is not unmarshalled at all: it merges like the empty object *)
Definition merge_decodes (p : Payload) : bool := is_empty (p_raw p) || p_tok p.

Definition mergeMessageEventTerminalPayload (p : Payload) (s : Snap) : Payload :=
  if is_empty (s_raw s) then p
  else if p_obj p then
    if p_hassnap p then
      (* body unchanged, re-marshalled *)
      mkPayload [] None None [] (p_tok p)
                (if p_tok p then option_map (fun _ => p_tsnap_canon p) (p_tsnap p) else None)
                (p_tsnap_canon p) (p_treason p) (p_terror p) true true
    else if merge_decodes p then
      mkPayload [] None None [] true (tsnap_of_canon (s_canon s)) (s_canon s) (p_treason p) (p_terror p) true
                (is_some (tsnap_of_canon (s_canon s)))
    else
      (* the object does not decode into the terminal struct: neither does the merged one *)
      mkPayload [] None None [] false None [] 0 [] true (is_some (tsnap_of_canon (s_canon s)))
  else
    (* {"raw_payload": "...", "snapshot": ...} *)
    mkPayload [] None None [] true (tsnap_of_canon (s_canon s)) (s_canon s) 0 [] true
              (is_some (tsnap_of_canon (s_canon s))).

Definition with_payload (e : Event) (p : Payload) : Event :=
  mkEvent (e_channel e) (e_ctype e) (e_msgno e) (e_id e) (e_key e) (e_etype e) (e_vis e) (e_at e) p (e_updated e).

(* messageEventStreamCache.mergeTerminalPayload *)
Definition mergeTerminalPayload (ca : Cache) (e : Event) : Event :=
  if negb (isMessageEventTerminalEvent (e_etype e)) then e else
  match find_session ca (e_channel e) (e_ctype e) (e_msgno e) with
  | None => e
  | Some session =>
    match assoc (e_key e) (ss_states session) with
    | None => e
    | Some state =>
      if is_empty (st_key state) || is_empty (s_raw (st_snap state)) then e
      else with_payload e (mergeMessageEventTerminalPayload (e_payload e) (st_snap state))
    end
  end.

(* messageEventStreamCache.markTerminalPersisted *)
Definition markTerminalPersisted (ca : Cache) (e : Event) (r : Result) : Cache :=
  if negb (isMessageEventTerminalEvent (e_etype e)) then ca else
  let now := c_clock ca + 1 in
  match find_session ca (e_channel e) (e_ctype e) (e_msgno e) with
  | None => mkCache (c_paused ca) (c_max ca) (c_sessions ca) now
  | Some session =>
    let state := if is_empty (st_key (r_state r))
                 then let s := cachedMessageEventState e in
                      mkState (st_channel s) (st_ctype s) (st_msgno s) (st_key s) (r_status r) (r_seq r)
                              (st_last_id s) (st_last_type s) (st_last_vis s) (st_last_at s) (st_snap s)
                              (st_end_reason s) (st_error s) (st_updated s)
                 else r_state r in
    let session' := mkSession (ss_channel session) (ss_ctype session) (ss_msgno session)
                              (assoc_put (r_key r) state (ss_states session))
                              (assoc_put (e_id e) r (ss_applied session)) now in
    mkCache (c_paused ca) (c_max ca) (put_session session' (c_sessions ca)) now
  end.

(* insertion sort by EventKey (sort.Slice with "<" on distinct map keys) *)
Fixpoint insert_state (s : State) (l : list State) : list State :=
  match l with
  | [] => [s]
  | x :: r => if bytes_ltb (st_key s) (st_key x) then s :: l else x :: insert_state s r
  end.
Definition sort_states (l : list State) : list State := fold_right insert_state [] l.

(* messageEventStreamCache.openStatesForFinish *)
Definition openStatesForFinish (ca : Cache) (e : Event) : list State :=
  if negb (bytes_eqb (e_etype e) EventTypeStreamFinish) then [] else
  match find_session ca (e_channel e) (e_ctype e) (e_msgno e) with
  | None => []
  | Some session =>
    sort_states (filter (fun s => negb (is_empty (st_key s) || bytes_eqb (st_key s) EventKeyFinish
                                        || isMessageEventTerminal (st_status s)))
                        (map snd (ss_states session)))
  end.

Definition removeObserved (ca : Cache) (e : Event) : Cache :=
  mkCache (c_paused ca) (c_max ca) (remove_session (e_channel e) (e_ctype e) (e_msgno e) (c_sessions ca)) (c_clock ca).

Definition resetAfterRestore (ca : Cache) : Cache := mkCache (c_paused ca) (c_max ca) [] (c_clock ca).
Definition pauseForRestore (ca : Cache) : Cache := mkCache true (c_max ca) [] (c_clock ca).
Definition resumeAfterRestore (ca : Cache) : Cache := mkCache false (c_max ca) [] (c_clock ca).

(* removeHashSlotsObserved: drop the sessions whose channel hashes into a lost hash slot *)
Definition removeHashSlotsObserved (ca : Cache) (hash_slot_of : bytes -> N) (lost : list N) : Cache :=
  mkCache (c_paused ca) (c_max ca)
          (filter (fun s => negb (existsb (N.eqb (hash_slot_of (ss_channel s))) lost)) (c_sessions ca))
          (c_clock ca).

(* finishFlushMessageEvent *)
Definition finishFlushMessageEventID (finishID key : bytes) : bytes := finishID ++ FinishFlushSeparator ++ key.

Definition finishFlushMessageEvent (finish : Event) (state : State) : Event :=
  mkEvent (e_channel finish) (e_ctype finish) (e_msgno finish)
          (finishFlushMessageEventID (e_id finish) (st_key state)) (st_key state) EventTypeStreamClose
          (e_vis finish) (e_at finish)
          (mergeMessageEventTerminalPayload (e_payload finish) (st_snap state)) (e_updated finish).

(* ---- the node: cache + routing authority + the durable tables behind the slot FSM --- *)

Record NodeSt := mkNodeSt {
  n_cache : Cache;
  n_db : DB;
  n_local : list (N * bool);      (* slot id -> this node is the observed leader *)
  n_chan_hs : list (bytes * N);   (* routing.HashSlotForKey(channel, count) for the channels in play *)
  n_hs_count : N
}.

Definition hash_slot_of (st : NodeSt) (channel : bytes) : N := opt_or (assoc channel (n_chan_hs st)) 0.

Fixpoint slot_local (l : list (N * bool)) (slot : N) : bool :=
  match l with
  | [] => false
  | (s, b) :: r => if s =? slot then b else slot_local r slot
  end.

Definition set_cache (st : NodeSt) (ca : Cache) : NodeSt :=
  mkNodeSt ca (n_db st) (n_local st) (n_chan_hs st) (n_hs_count st).
Definition set_db (st : NodeSt) (db : DB) : NodeSt :=
  mkNodeSt (n_cache st) db (n_local st) (n_chan_hs st) (n_hs_count st).

(* one proposal = the events of one slot command; [fail] = the proposal is
   rejected before it is applied (injected by the harness' proposer).
   appendMessageEventDurable / appendMessageEventsDurableResults + the FSM *)
Definition propose_events (st : NodeSt) (evs : list Event) (fail : bool) : option (list Result) * NodeSt :=
  if fail then (None, st) else
  if negb (validateMessageEventAppendBatch evs) then (None, st) else
  match evs with
  | [] => (None, st)
  | first :: _ =>
    match fsm_apply_events (n_db st) (hash_slot_of st (e_channel first)) evs with
    | Some (rs, db') => (Some rs, set_db st db')
    | None => (None, st)
    end
  end.

Fixpoint last_result (rs : list Result) : option Result :=
  match rs with
  | [] => None
  | [r] => Some r
  | _ :: r => last_result r
  end.

(* a proposal as the harness' proposer records it: its events, each with the
   FSM's result (None: the proposal was rejected, nothing applied) *)
Definition Proposal := list (Event * option Result).

Definition with_results (evs : list Event) (rs : option (list Result)) : Proposal :=
  match rs with
  | Some rs => combine evs (map Some rs)
  | None => map (fun e => (e, None)) evs
  end.

(* outcome of one append: error class, result, the proposals issued *)
Record AppendOut := mkAppendOut { ao_err : Err; ao_result : option Result; ao_proposals : list Proposal }.

Definition nil_b {A} (l : list A) : bool := match l with [] => true | _ => false end.

(* Node.appendMessageEventFinishLocal (direct or coalesced: the same single proposal) *)
Definition appendMessageEventFinishLocal (st : NodeSt) (e : Event) (fail : bool) : AppendOut * NodeSt :=
  let openStates := openStatesForFinish (n_cache st) e in
  if nil_b openStates && negb (p_hassnap (e_payload e))
  then (mkAppendOut ECacheMiss None [], st) else
  let events := map (finishFlushMessageEvent e) openStates ++ [e] in
  match propose_events st events fail with
  | (Some rs, st') =>
    match last_result rs with
    | Some r => (mkAppendOut ENone (Some r) [with_results events (Some rs)], set_cache st' (removeObserved (n_cache st') e))
    | None => (mkAppendOut EOther None [with_results events (Some rs)], st')
    end
  | (None, st') => (mkAppendOut EOther None [with_results events None], st')
  end.

(* Node.appendMessageEventLocal *)
Definition appendMessageEventLocal (st : NodeSt) (e : Event) (fail : bool) : AppendOut * NodeSt :=
  match normalizeMessageEventAppend e with
  | None => (mkAppendOut EInvalidArgument None [], st)
  | Some e =>
    let hs := hash_slot_of st (e_channel e) in
    if negb (slot_local (n_local st) (hs + 1)) then (mkAppendOut ENotLeader None [], st) else
    if isMessageEventCacheOnlyEvent (e_etype e) then
      let '((err, res), ca) := appendCachedObserved (n_cache st) e in
      (mkAppendOut err res [], set_cache st ca)
    else if bytes_eqb (e_etype e) EventTypeStreamFinish then appendMessageEventFinishLocal st e fail
    else if isMessageEventTerminalEvent (e_etype e) then
      let e' := mergeTerminalPayload (n_cache st) e in
      match propose_events st [e'] fail with
      | (Some rs, st') =>
        match last_result rs with
        | Some r => (mkAppendOut ENone (Some r) [with_results [e'] (Some rs)],
                     set_cache st' (markTerminalPersisted (n_cache st') e' r))
        | None => (mkAppendOut EOther None [with_results [e'] (Some rs)], st')
        end
      | (None, st') => (mkAppendOut EOther None [with_results [e'] None], st')
      end
    else
      (* unreachable after normalization (every admitted type is handled above); kept as in the code *)
      match propose_events st [e] fail with
      | (Some rs, st') => (mkAppendOut (match last_result rs with Some _ => ENone | None => EOther end)
                                       (last_result rs) [with_results [e] (Some rs)], st')
      | (None, st') => (mkAppendOut EOther None [with_results [e] None], st')
      end
  end.

(* ---- node operations driven by the harness ------------------------------------ *)

Inductive NodeOp :=
| NEv (e : Event) (fail : bool)   (* Node.appendMessageEventLocal; [fail]: the proposer rejects this op's proposal *)
| NLose (slot : N)                (* observed leader of [slot] becomes another node (router update + publication) *)
| NGain (slot : N)                (* ... becomes this node again *)
| NReset                          (* Node.ResetLocalRestoreCaches *)
| NPause                          (* cache.pauseForRestore *)
| NResume.                        (* cache.resumeAfterRestore *)

Fixpoint set_local (l : list (N * bool)) (slot : N) (b : bool) : list (N * bool) :=
  match l with
  | [] => []
  | (s, x) :: r => if s =? slot then (s, b) :: r else (s, x) :: set_local r slot b
  end.

(* hash slots served by [slot] are exactly {slot - 1} in the harness' table *)
Definition node_step (st : NodeSt) (op : NodeOp) : AppendOut * NodeSt :=
  match op with
  | NEv e fail => appendMessageEventLocal st e fail
  | NLose slot =>
    let lost := if slot_local (n_local st) slot then [slot - 1] else [] in
    (mkAppendOut ENone None [],
     mkNodeSt (removeHashSlotsObserved (n_cache st) (hash_slot_of st) lost) (n_db st)
              (set_local (n_local st) slot false) (n_chan_hs st) (n_hs_count st))
  | NGain slot =>
    (mkAppendOut ENone None [],
     mkNodeSt (n_cache st) (n_db st) (set_local (n_local st) slot true) (n_chan_hs st) (n_hs_count st))
  | NReset => (mkAppendOut ENone None [], set_cache st (resetAfterRestore (n_cache st)))
  | NPause => (mkAppendOut ENone None [], set_cache st (pauseForRestore (n_cache st)))
  | NResume => (mkAppendOut ENone None [], set_cache st (resumeAfterRestore (n_cache st)))
  end.

Fixpoint init_local (count : nat) (slot : N) : list (N * bool) :=
  match count with
  | O => []
  | S k => (slot, true) :: init_local k (slot + 1)
  end.

Definition node_init (max_sessions : N) (chan_hs : list (bytes * N)) (hs_count : N) : NodeSt :=
  mkNodeSt (newMessageEventStreamCache max_sessions) db_empty (init_local (N.to_nat hs_count) 1) chan_hs hs_count.
