(* MsgStore.v — executable model of the Pebble-backed message store
   pkg/db/message (typed ChannelLog API + the compatibility ChannelStore append /
   Truncate), over Model/KV.v.  One Gallina definition per Go function, same
   names.  Shared by C07 (faithful sequential log), C08 (idempotency uniqueness)
   and C09 (crash atomicity).

   Keys are structured (no byte encoding); a channel is its index in the
   harness' channel table.  Every mutation API builds ONE batch and commits it
   ([commit]); the list of committed batches is part of the state so that C09
   can talk about crash prefixes.

   The negative membership filter (idempotency_filter.go) is a parameter of the
   model: [F] with [f_may] / [f_add]; the executable instance is the exact set
   (process-random maphash seeds make a bit-level tie impossible; C08 proves the
   observable behaviour does not depend on the instance as long as it is sound). *)
From WK Require Import Base.Base Model.KV Gen.Consts_C07.

(* ---- rows, keys, values --------------------------------------------------------- *)

Record row := Row {
  r_seq : N;          (* MessageSeq *)
  r_id : N;           (* MessageID *)
  r_flags : N;        (* FramerFlags (compat appends only) *)
  r_cno : bytes;      (* ClientMsgNo *)
  r_uid : bytes;      (* FromUID *)
  r_ch : N;           (* ChannelID / ChannelType, as the channel index *)
  r_hash : N;         (* PayloadHash *)
  r_payload : bytes;
  r_ts : Z }.         (* ServerTimestampMS *)

Inductive key :=
| KyRow (c seq : N)                  (* primary row, header family *)
| KyGid (id : N)                     (* global message-id index (all channels) *)
| KyCidx (c : N) (cno : bytes) (seq : N)   (* sender-less client-msg-no index *)
| KyIdem (c : N) (cno uid : bytes)   (* (sender, client msg no) idempotency index *)
| KySseq (c : N) (uid : bytes) (seq : N)   (* sender sequence index *)
| KyCkpt (c : N)
| KyRet (c : N)
| KyHist (c off epoch : N)
| KyCat (c : N)
| KyIdent (c idx : N).               (* proposal entry identities: only ever range-deleted here *)

Inductive value :=
| VRow (r : row)
| VGid (c seq : N)
| VNum (n : N)                       (* cidx: seq; sseq: message id *)
| VIdem (seq id hash : N)
| VTriple (a b c : N)                (* checkpoint (epoch, logStart, hw); retention (local, physical, retainedMax) *)
| VUnit.                             (* history point, catalog *)

Definition key_eqb (a b : key) : bool :=
  match a, b with
  | KyRow c s, KyRow c' s' => (c =? c') && (s =? s')
  | KyGid i, KyGid i' => i =? i'
  | KyCidx c n s, KyCidx c' n' s' => (c =? c') && bytes_eqb n n' && (s =? s')
  | KyIdem c n u, KyIdem c' n' u' => (c =? c') && bytes_eqb n n' && bytes_eqb u u'
  | KySseq c u s, KySseq c' u' s' => (c =? c') && bytes_eqb u u' && (s =? s')
  | KyCkpt c, KyCkpt c' => c =? c'
  | KyRet c, KyRet c' => c =? c'
  | KyHist c o e, KyHist c' o' e' => (c =? c') && (o =? o') && (e =? e')
  | KyCat c, KyCat c' => c =? c'
  | KyIdent c i, KyIdent c' i' => (c =? c') && (i =? i')
  | _, _ => false
  end.

Definition kvs := @store key value.
Definition kget (k : key) (s : kvs) : option value := get key_eqb k s.
Definition kbatch := @batch key value.
Definition kapply (s : kvs) (b : kbatch) : kvs := apply_batch key_eqb s b.

(* ---- errors ---------------------------------------------------------------------- *)

Definition res (A : Type) := (A + N)%type.   (* inr = error class of Consts_C07 *)
Definition ok {A} (a : A) : res A := inl a.
Definition err {A} (e : N) : res A := inr e.
Definition bind {A B} (r : res A) (f : A -> res B) : res B :=
  match r with inl a => f a | inr e => inr e end.
Notation "x <- r ;; k" := (bind r (fun x => k)) (at level 61, r at next level, right associativity).

(* toChannelError (compat.go): the legacy API folds conflicts into corrupt state *)
Definition toChannelError (e : N) : N :=
  if e =? EConflict then ECorruptState else e.

(* ---- row.go --------------------------------------------------------------------- *)

Definition two64 : N := 18446744073709551616.

Definition hashPayload (p : bytes) : N :=
  fold_left (fun h b => (N.lxor h b * fnv64aPrime) mod two64) p fnv64aOffset.

(* normalizeMessageRow: the payload hash is filled in whenever it is zero *)
Definition normalize_hash (h : N) (p : bytes) : N :=
  if h =? 0 then hashPayload p else h.

(* validateMaterializedMessageRow *)
Definition validateMaterializedMessageRow (r : row) : res unit :=
  if r_id r =? 0 then err ECorruptValue
  else if negb (r_hash r =? hashPayload (r_payload r)) then err ECorruptState
  else ok tt.

(* ---- scans ---------------------------------------------------------------------- *)

Definition is_nil (b : bytes) : bool := match b with [] => true | _ => false end.

Definition rows_unsorted (s : kvs) (c : N) : list row :=
  flat_map (fun kv => match kv with
                      | (KyRow c' _, VRow r) => if c' =? c then [r] else []
                      | _ => []
                      end) s.

(* all primary rows of a channel in sequence order (iteration over the row prefix) *)
Definition rows_of (s : kvs) (c : N) : list row := sort_by r_seq (rows_unsorted s c).

Definition max_seq (l : list row) : N := fold_left (fun m r => N.max m (r_seq r)) l 0.

Definition idem_entries (s : kvs) (c : N) : list (bytes * bytes * (N * N * N)) :=
  flat_map (fun kv => match kv with
                      | (KyIdem c' n u, VIdem q i h) => if c' =? c then [(n, u, (q, i, h))] else []
                      | _ => []
                      end) s.

Definition cidx_seqs (s : kvs) (c : N) (cno : bytes) : list N :=
  flat_map (fun kv => match kv with
                      | (KyCidx c' n q, _) => if (c' =? c) && bytes_eqb n cno then [q] else []
                      | _ => []
                      end) s.

Definition sseq_seqs (s : kvs) (c : N) (uid : bytes) : list N :=
  flat_map (fun kv => match kv with
                      | (KySseq c' u q, _) => if (c' =? c) && bytes_eqb u uid then [q] else []
                      | _ => []
                      end) s.

Definition hist_points (s : kvs) (c : N) : list (N * N) :=   (* (startOffset, epoch) *)
  flat_map (fun kv => match kv with
                      | (KyHist c' o e, _) => if c' =? c then [(o, e)] else []
                      | _ => []
                      end) s.

Definition pair_leb (a b : N * N) : bool :=
  (fst a <? fst b) || ((fst a =? fst b) && (snd a <=? snd b)).

Fixpoint insert_pair (x : N * N) (l : list (N * N)) : list (N * N) :=
  match l with
  | [] => [x]
  | y :: r => if pair_leb x y then x :: l else y :: insert_pair x r
  end.
Definition sort_pairs (l : list (N * N)) : list (N * N) := fold_right insert_pair [] l.

(* loadHistory: points in key order = (startOffset, epoch) lexicographic *)
Definition loadHistory (s : kvs) (c : N) : list (N * N) := sort_pairs (hist_points s c).

Definition loadRetentionState (s : kvs) (c : N) : option (N * N * N) :=
  match kget (KyRet c) s with Some (VTriple a b d) => Some (a, b, d) | _ => None end.

Definition loadCheckpoint (s : kvs) (c : N) : option (N * N * N) :=
  match kget (KyCkpt c) s with Some (VTriple a b d) => Some (a, b, d) | _ => None end.

(* ---- read.go -------------------------------------------------------------------- *)

Definition getRowBySeq (s : kvs) (c seq : N) : res (option row) :=
  if seq =? 0 then err EInvalid
  else match kget (KyRow c seq) s with
       | Some (VRow r) => _ <- validateMaterializedMessageRow r ;; ok (Some r)
       | _ => ok None
       end.

(* appendReadMessage / the flush closure of readMessagesRaw and readRowsRaw:
   rows are materialised one after another; a row is validated, then the byte
   budget may stop the scan before it, then it is appended and the count limit
   may stop the scan after it. *)
Definition is_nil_rows (l : list row) : bool := match l with [] => true | _ => false end.

Fixpoint read_loop (rows : list row) (limit maxb : Z) (acc : list row) (total : Z) : res (list row) :=
  match rows with
  | [] => ok (rev acc)
  | r :: rest =>
    match validateMaterializedMessageRow r with
    | inr e => err e
    | inl _ =>
      let pb := Z.of_nat (length (r_payload r)) in
      if (0 <? maxb)%Z && negb (is_nil_rows acc) && (maxb <? total + pb)%Z then ok (rev acc)
      else
        let acc' := r :: acc in
        if (0 <? limit)%Z && (limit <=? Z.of_nat (length acc'))%Z then ok (rev acc')
        else read_loop rest limit maxb acc' (total + pb)%Z
    end
  end.

(* readMessagesRaw / readRowsRaw: rows with fromSeq <= seq (and seq <= maxSeq when maxSeq > 0) *)
Definition readForward (s : kvs) (c fromSeq maxSeq : N) (limit maxb : Z) : res (list row) :=
  let rs := filter (fun r => (fromSeq <=? r_seq r) && ((maxSeq =? 0) || (r_seq r <=? maxSeq))) (rows_of s c) in
  read_loop rs limit maxb [] 0%Z.

(* ---- per-channel volatile state (channelEntry / channelWarmState) ------------------ *)

Section Model.
  (* the membership filter implementation *)
  Variable F : Type.
  Variable f_empty : F.
  Variable f_may : F -> bytes * bytes -> bool.      (* key = (cno, uid) inside the channel prefix *)
  Variable f_add : F -> bytes * bytes -> F.

  Record ccache := CC {
    cc_leo : N;
    cc_loaded : bool;
    cc_filter : F;
    cc_floaded : bool }.       (* idempotencyMembershipLoaded *)

  Definition cc_init : ccache := CC 0 false f_empty false.

  Record mstate := MS {
    st_kv : kvs;
    st_cache : N -> ccache;
    st_log : list kbatch }.    (* every committed batch, oldest first (C09) *)

  Definition st_init : mstate := MS [] (fun _ => cc_init) [].

  Definition set_cache (st : mstate) (c : N) (cc : ccache) : mstate :=
    MS (st_kv st) (fun c' => if c' =? c then cc else st_cache st c') (st_log st).

  (* Batch.Commit(true): the ONLY way the store changes *)
  Definition commit (st : mstate) (b : kbatch) : mstate :=
    MS (kapply (st_kv st) b) (st_cache st) (st_log st ++ [b]).

  (* ---- channel_log.go ------------------------------------------------------------- *)

  Definition recoverLEO (s : kvs) (c : N) : N :=
    let leo := max_seq (rows_unsorted s c) in
    match loadRetentionState s c with
    | Some (_, _, rmax) => if leo <? rmax then rmax else leo
    | None => leo
    end.

  Definition loadLEOLocked (st : mstate) (c : N) : mstate * N :=
    let cc := st_cache st c in
    if cc_loaded cc then (st, cc_leo cc)
    else let leo := recoverLEO (st_kv st) c in
         (set_cache st c (CC leo true (cc_filter cc) (cc_floaded cc)), leo).

  Definition set_leo (st : mstate) (c leo : N) : mstate :=
    let cc := st_cache st c in set_cache st c (CC leo true (cc_filter cc) (cc_floaded cc)).

  Definition set_filter (st : mstate) (c : N) (f : F) (loaded : bool) : mstate :=
    let cc := st_cache st c in set_cache st c (CC (cc_leo cc) (cc_loaded cc) f loaded).

  (* ---- idempotency.go --------------------------------------------------------------- *)

  (* lookupIdempotencyByKey *)
  Definition lookupIdempotencyByKey (s : kvs) (c : N) (uid cno : bytes) : res (option (N * N * N)) :=
    match kget (KyIdem c cno uid) s with
    | Some (VIdem q i h) =>
      ro <- getRowBySeq s c q ;;
      match ro with
      | Some r =>
        if (r_id r =? i) && (r_hash r =? h) && bytes_eqb (r_uid r) uid && bytes_eqb (r_cno r) cno
        then ok (Some (q, i, h)) else err ECorruptState
      | None => err ECorruptState
      end
    | _ => ok None
    end.

  (* ensureIdempotencyMembershipLoaded *)
  Definition ensureIdempotencyMembershipLoaded (st : mstate) (c : N) : mstate :=
    let cc := st_cache st c in
    if cc_floaded cc then st
    else set_filter st c
           (fold_left (fun f e => f_add f (fst (fst e), snd (fst e))) (idem_entries (st_kv st) c) (cc_filter cc))
           true.

  (* ---- append.go ------------------------------------------------------------------ *)

  Definition mem_N (x : N) (l : list N) : bool := existsb (N.eqb x) l.
  Definition pair_eqb (a b : bytes * bytes) : bool := bytes_eqb (fst a) (fst b) && bytes_eqb (snd a) (snd b).
  Definition mem_pair (x : bytes * bytes) (l : list (bytes * bytes)) : bool := existsb (pair_eqb x) l.

  (* appendValidationSeen *)
  Record seen := Seen { sn_ids : list N; sn_keys : list (bytes * bytes) }.   (* keys = (uid, cno) *)

  (* validateAppendRow *)
  Definition validateAppendRow (st : mstate) (c : N) (r : row) (sn : seen) (mode : N) : mstate * res seen :=
    if r_id r =? 0 then (st, err EInvalid)
    else if mem_N (r_id r) (sn_ids sn) then (st, err EConflict)
    else
      let sn1 := Seen (r_id r :: sn_ids sn) (sn_keys sn) in
      let gid_conflict :=
        if mode =? AppendStrict then
          match kget (KyGid (r_id r)) (st_kv st) with
          | Some (VGid c' q) => negb ((c' =? c) && (q =? r_seq r))
          | _ => false
          end
        else false in
      if gid_conflict then (st, err EConflict)
      else if is_nil (r_uid r) || is_nil (r_cno r) then (st, ok sn1)
      else if mem_pair (r_uid r, r_cno r) (sn_keys sn1) then (st, err EConflict)
      else
        let sn2 := Seen (sn_ids sn1) ((r_uid r, r_cno r) :: sn_keys sn1) in
        let fk := (r_cno r, r_uid r) in
        if mode =? AppendTrustedContiguous then
          let cc := st_cache st c in
          ((if cc_floaded cc then set_filter st c (f_add (cc_filter cc) fk) true else st), ok sn2)
        else
          let st1 := ensureIdempotencyMembershipLoaded st c in
          let cc := st_cache st1 c in
          if negb (f_may (cc_filter cc) fk) then
            (set_filter st1 c (f_add (cc_filter cc) fk) true, ok sn2)
          else
            match lookupIdempotencyByKey (st_kv st1) c (r_uid r) (r_cno r) with
            | inr e => (st1, err e)
            | inl (Some (q, _, _)) =>
              if negb (q =? r_seq r) then (st1, err EConflict)
              else (set_filter st1 c (f_add (cc_filter cc) fk) true, ok sn2)
            | inl None => (set_filter st1 c (f_add (cc_filter cc) fk) true, ok sn2)
            end.

  Fixpoint validate_rows (st : mstate) (c : N) (rows : list row) (sn : seen) (mode : N) : mstate * res seen :=
    match rows with
    | [] => (st, ok sn)
    | r :: rest =>
      match validateAppendRow st c r sn mode with
      | (st', inl sn') => validate_rows st' c rest sn' mode
      | (st', inr e) => (st', inr e)
      end
    end.

  (* stageMessageRow *)
  Definition stageMessageRow (c : N) (r : row) : kbatch :=
    [Put (KyRow c (r_seq r)) (VRow r); Put (KyGid (r_id r)) (VGid c (r_seq r))]
    ++ (if negb (is_nil (r_cno r)) && is_nil (r_uid r) then [Put (KyCidx c (r_cno r) (r_seq r)) (VNum (r_seq r))] else [])
    ++ (if negb (is_nil (r_uid r)) && negb (is_nil (r_cno r))
        then [Put (KyIdem c (r_cno r) (r_uid r)) (VIdem (r_seq r) (r_id r) (r_hash r))] else [])
    ++ (if negb (is_nil (r_uid r)) && (N.land (r_flags r) syncOnceFlag =? 0)
        then [Put (KySseq c (r_uid r) (r_seq r)) (VNum (r_id r))] else []).

  Definition stageMessageRows (c : N) (rows : list row) : kbatch := flat_map (stageMessageRow c) rows.

  Definition stageCatalog (c : N) : kbatch := [Put (KyCat c) VUnit].
  Definition stageCatalogForAppend (c baseSeq : N) : kbatch := if 1 <? baseSeq then [] else stageCatalog c.

  (* an input record (typed Record, or the decoded compat payload) *)
  Record rec := R {
    i_id : N; i_cno : bytes; i_uid : bytes; i_payload : bytes; i_ts : Z;
    i_flags : N;    (* compat only *)
    i_ridx : N;     (* compat only: channel.Record.Index *)
    i_rid : N }.    (* compat only: channel.Record.ID *)

  (* recordToRow + normalizeMessageRow (typed records carry no flags) *)
  Definition recordToRow (c seq : N) (x : rec) : row :=
    Row seq (i_id x) 0 (i_cno x) (i_uid x) c (normalize_hash 0 (i_payload x)) (i_payload x) (i_ts x).

  Fixpoint rows_from (c seq : N) (recs : list rec) : list row :=
    match recs with
    | [] => []
    | x :: rest => recordToRow c seq x :: rows_from c (seq + 1) rest
    end.

  Definition valid_mode (mode : N) : bool :=
    (mode =? AppendStrict) || (mode =? AppendServerAllocatedMessageID) || (mode =? AppendTrustedContiguous).

  (* walkAppendRowsLocked: returns the validated rows (empty for an empty append) *)
  Definition walkAppendRowsLocked (st : mstate) (c : N) (recs : list rec) (mode baseSeq : N)
    : mstate * res (list row) :=
    if negb (valid_mode mode) then (st, err EInvalid)
    else
      let '(st1, leo) := loadLEOLocked st c in
      if negb (baseSeq =? 0) && negb (baseSeq =? leo + 1) then (st1, err EConflict)
      else match recs with
           | [] => (st1, ok [])
           | _ =>
             let rows := rows_from c (leo + 1) recs in
             match validate_rows st1 c rows (Seen [] []) mode with
             | (st2, inl _) => (st2, ok rows)
             | (st2, inr e) => (st2, err e)
             end
           end.

  Definition last_seq (rows : list row) : N := match rev rows with r :: _ => r_seq r | [] => 0 end.
  Definition first_seq (rows : list row) : N := match rows with r :: _ => r_seq r | [] => 0 end.

  (* ChannelLog.Append *)
  Definition Append (st : mstate) (c : N) (recs : list rec) (mode baseSeq : N) : mstate * res (N * N * N) :=
    match walkAppendRowsLocked st c recs mode baseSeq with
    | (st1, inr e) => (st1, err e)
    | (st1, inl []) => (st1, ok (0, 0, 0))
    | (st1, inl rows) =>
      let b := stageMessageRows c rows ++ stageCatalogForAppend c (first_seq rows) in
      let st2 := commit st1 b in
      (set_leo st2 c (last_seq rows), ok (first_seq rows, last_seq rows, N.of_nat (length rows)))
    end.

  (* ---- checkpoint.go ---------------------------------------------------------------- *)

  Definition validateCheckpoint (ck : N * N * N) : res unit :=
    let '(_, lso, hw) := ck in if hw <? lso then err ECorruptState else ok tt.

  Definition validateCheckpointMonotonicLocked (s : kvs) (c : N) (ck : N * N * N) (visibleHW leo : N) : res unit :=
    _ <- validateCheckpoint ck ;;
    let '(e, lso, hw) := ck in
    if visibleHW <? hw then err ECorruptState
    else if leo <? hw then err ECorruptState
    else match loadCheckpoint s c with
         | None => ok tt
         | Some (e0, lso0, hw0) =>
           if hw <? hw0 then err ECorruptState
           else if lso <? lso0 then err ECorruptState
           else if e <? e0 then err ECorruptState
           else ok tt
         end.

  Definition ckpt_put (c : N) (ck : N * N * N) : kbatch :=
    let '(e, lso, hw) := ck in [Put (KyCkpt c) (VTriple e lso hw)].

  (* StoreCheckpoint *)
  Definition StoreCheckpoint (st : mstate) (c : N) (ck : N * N * N) : mstate * res unit :=
    match validateCheckpoint ck with
    | inr e => (st, err e)
    | inl _ => (commit st (ckpt_put c ck ++ stageCatalog c), ok tt)
    end.

  (* StoreCheckpointMonotonic *)
  Definition StoreCheckpointMonotonic (st : mstate) (c : N) (ck : N * N * N) (visibleHW leo : N) : mstate * res unit :=
    match validateCheckpointMonotonicLocked (st_kv st) c ck visibleHW leo with
    | inr e => (st, err e)
    | inl _ => StoreCheckpoint st c ck
    end.

  (* ---- history.go -------------------------------------------------------------------- *)

  (* shouldAppendHistoryPoint; a point is (epoch, startOffset) in the API, stored as (startOffset, epoch) *)
  Definition shouldAppendHistoryPoint (points : list (N * N)) (epoch off : N) : res bool :=
    if epoch =? 0 then err ECorruptState
    else match rev points with
         | [] => ok true
         | (loff, lep) :: _ =>
           if lep <? epoch then (if off <? loff then err ECorruptState else ok true)
           else if (epoch =? lep) && (off =? loff) then ok false
           else err ECorruptState
         end.

  (* ---- apply_fetch.go ------------------------------------------------------------------ *)

  Definition ApplyFetch (st : mstate) (c baseSeq : N) (recs : list rec)
             (ck : option (N * N * N)) (ep : option (N * N)) : mstate * res (N * N * N) :=
    match walkAppendRowsLocked st c recs AppendTrustedContiguous baseSeq with
    | (st1, inr e) => (st1, err e)
    | (st1, inl rows) =>
      let visibleLEO := match rows with [] => cc_leo (st_cache st1 c) | _ => last_seq rows end in
      let ckv := match ck with
                 | Some k => validateCheckpointMonotonicLocked (st_kv st1) c k visibleLEO visibleLEO
                 | None => ok tt
                 end in
      match ckv with
      | inr e => (st1, err e)
      | inl _ =>
        let epv := match ep with
                   | Some (epoch, off) => shouldAppendHistoryPoint (loadHistory (st_kv st1) c) epoch off
                   | None => ok false
                   end in
        match epv with
        | inr e => (st1, err e)
        | inl writeEpoch =>
          match rows, ck, writeEpoch with
          | [], None, false => (st1, ok (0, 0, 0))
          | _, _, _ =>
            let b := stageMessageRows c rows
                     ++ (match ck with Some k => ckpt_put c k | None => [] end)
                     ++ (match ep with
                         | Some (epoch, off) => if writeEpoch then [Put (KyHist c off epoch) VUnit] else []
                         | None => []
                         end)
                     ++ (match rows with [] => stageCatalog c | _ => stageCatalogForAppend c (first_seq rows) end) in
            let st2 := commit st1 b in
            match rows with
            | [] => (st2, ok (0, 0, 0))
            | _ => (set_leo st2 c (last_seq rows), ok (first_seq rows, last_seq rows, N.of_nat (length rows)))
            end
          end
        end
      end
    end.

  (* ---- truncate.go -------------------------------------------------------------------- *)

  (* stageDeleteMessage *)
  Definition stageDeleteMessage (c : N) (r : row) : kbatch :=
    [Del (KyRow c (r_seq r))]
    ++ (if negb (r_id r =? 0) then [Del (KyGid (r_id r))] else [])
    ++ (if negb (is_nil (r_cno r)) && is_nil (r_uid r) then [Del (KyCidx c (r_cno r) (r_seq r))] else [])
    ++ (if negb (is_nil (r_uid r)) && negb (is_nil (r_cno r)) then [Del (KyIdem c (r_cno r) (r_uid r))] else [])
    ++ (if negb (is_nil (r_uid r)) then [Del (KySseq c (r_uid r) (r_seq r))] else []).

  (* stageTruncateDurableProposals(to): no proposal manifests exist in the
     modelled API; what remains is the range delete of entry identities > to *)
  Definition stageTruncateDurableProposals (c to : N) : kbatch :=
    [DelRange (fun k => match k with KyIdent c' i => (c' =? c) && (to <? i) | _ => false end)].

  (* the retention state after removing every sequence above [to]
     (TruncateFrom after the fix of finding C07-K1; compat.go retentionStateAfterTruncate) *)
  Definition retentionStateAfterTruncate (s : kvs) (c to : N) : res kbatch :=
    match loadRetentionState s c with
    | None => ok []
    | Some (l, p, rmax) =>
      if to <? l then err ECorruptState
      else if to <? rmax then ok [Put (KyRet c) (VTriple l p to)]
      else ok []
    end.

  (* ChannelLog.TruncateFrom *)
  Definition TruncateFrom (st : mstate) (c fromSeq : N) : mstate * res unit :=
    let fromSeq := if fromSeq =? 0 then 1 else fromSeq in
    let '(st1, leo) := loadLEOLocked st c in
    if leo <? fromSeq then (st1, ok tt)
    else
      match retentionStateAfterTruncate (st_kv st1) c (fromSeq - 1) with
      | inr e => (st1, err e)
      | inl retb =>
        match readForward (st_kv st1) c fromSeq 0 0 0 with
        | inr e => (st1, err e)
        | inl msgs =>
          let b := stageTruncateDurableProposals c (fromSeq - 1)
                   ++ flat_map (stageDeleteMessage c) msgs ++ retb ++ stageCatalog c in
          (set_leo (commit st1 b) c (fromSeq - 1), ok tt)
        end
      end.

  (* ChannelStore.Truncate (compat.go truncateLocked, truncateHistory = false) *)
  Definition CTruncate (st : mstate) (c to : N) : mstate * res unit :=
    let '(st1, leo) := loadLEOLocked st c in
    if leo <? to then (st1, err ECorruptState)
    else if to =? leo then (st1, ok tt)
    else
      match retentionStateAfterTruncate (st_kv st1) c to with
      | inr e => (st1, err e)
      | inl retb =>
        match readForward (st_kv st1) c (to + 1) 0 0 0 with
        | inr e => (st1, err (toChannelError e))
        | inl rows =>
          let b := stageTruncateDurableProposals c to
                   ++ flat_map (stageDeleteMessage c) rows ++ retb ++ stageCatalog c in
          (set_leo (commit st1 b) c to, ok tt)
        end
      end.

  (* ---- retention.go -------------------------------------------------------------------- *)

  Definition firstn_rows (n : Z) (l : list row) : list row := firstn (Z.to_nat n) l.

  (* trimPrefixThroughLimit, adoptBoundary = true *)
  Definition TrimPrefixThroughLimit (st : mstate) (c through : N) (maxMessages maxBytes : Z)
    : mstate * res (N * N * bool) :=
    if through =? 0 then (st, ok (0, 0, false))
    else
      let '(st1, leo) := loadLEOLocked st c in
      let '(l0, p0, r0) := match loadRetentionState (st_kv st1) c with Some x => x | None => (0, 0, 0) end in
      let startSeq := p0 + 1 in
      let limit := if (0 <? maxMessages)%Z then (maxMessages + 1)%Z else 0%Z in
      match readForward (st_kv st1) c startSeq through limit maxBytes with
      | inr e => (st1, err e)
      | inl rows =>
        let more1 := (0 <? maxMessages)%Z && (maxMessages <? Z.of_nat (length rows))%Z in
        let deleteRows := if more1 then firstn_rows maxMessages rows else rows in
        let more2 := (0 <? maxBytes)%Z && (match rev deleteRows with r :: _ => r_seq r <? through | [] => false end) in
        let more := more1 || more2 in
        let l1 := N.max l0 through in
        let r1 := N.max (N.max r0 through) leo in
        let deletedThrough := last_seq deleteRows in
        let p1 := if negb more && (p0 <? through) then through
                  else if p0 <? deletedThrough then deletedThrough else p0 in
        let b := flat_map (stageDeleteMessage c) deleteRows
                 ++ [Put (KyRet c) (VTriple l1 p1 r1)] ++ stageCatalog c in
        (set_leo (commit st1 b) c (N.max leo r1),
         ok (deletedThrough, N.of_nat (length deleteRows), more))
      end.

  (* ---- compat.go: ChannelStore.Append / AppendServerAllocated / AppendTrusted ------------ *)

  (* compatibilityRowsFromRecords: the payload carries the whole row; the
     harness encodes it with the production codec, hash always filled in *)
  Fixpoint compatibilityRowsFromRecords (c seq : N) (recs : list rec) : res (list row) :=
    match recs with
    | [] => ok []
    | x :: rest =>
      if negb (i_ridx x =? 0) && negb (i_ridx x =? seq) then err ECorruptState
      else if i_id x =? 0 then err ECorruptValue
      else if negb (i_rid x =? 0) && negb (i_rid x =? i_id x) then err ECorruptState
      else
        rs <- compatibilityRowsFromRecords c (seq + 1) rest ;;
        ok (Row seq (i_id x) (i_flags x) (i_cno x) (i_uid x) c (hashPayload (i_payload x)) (i_payload x) (i_ts x) :: rs)
    end.

  Definition CAppend (st : mstate) (c : N) (recs : list rec) (mode : N) : mstate * res N :=
    let '(st1, base) := loadLEOLocked st c in
    match recs with
    | [] => (st1, ok base)
    | _ =>
      match compatibilityRowsFromRecords c (base + 1) recs with
      | inr e => (st1, err e)
      | inl rows =>
        match validate_rows st1 c rows (Seen [] []) mode with
        | (st2, inr e) => (st2, err (toChannelError e))
        | (st2, inl _) =>
          let b := stageMessageRows c rows ++ stageCatalogForAppend c (first_seq rows) in
          (set_leo (commit st2 b) c (base + N.of_nat (length recs)), ok base)
        end
      end
    end.

  (* ---- compat.go: StoreAppendBatch, non-exact items of one engine ------------------------- *)

  (* one item = (channel, mode 0 strict / 1 server-allocated ids, records).  Every
     channel's rows are validated against the durable store (not against the rows
     the other items stage) and ALL of them are committed in ONE physical batch,
     channel by channel in key order. *)
  Definition item := (N * N * list rec)%type.

  Definition count_chan (items : list item) (c : N) : nat :=
    length (filter (fun it : item => fst (fst it) =? c) items).

  (* result per item: (error class or 0, base offset, last offset) *)
  Fixpoint cbatch_items (st : mstate) (all items : list item)
    : mstate * list (N * N * N) * list (N * kbatch) * list (N * N) :=
    match items with
    | [] => (st, [], [], [])
    | (c, m, recs) :: rest =>
      if (1 <? count_chan all c)%nat then
        let '(st', rs, bs, ls) := cbatch_items st all rest in (st', (EInvalid, 0, 0) :: rs, bs, ls)
      else
        let mode := if m =? 1 then AppendServerAllocatedMessageID else AppendStrict in
        let '(st1, base) := loadLEOLocked st c in
        match recs with
        | [] => let '(st', rs, bs, ls) := cbatch_items st1 all rest in (st', (0, base, base) :: rs, bs, ls)
        | _ =>
          match compatibilityRowsFromRecords c (base + 1) recs with
          | inr e => let '(st', rs, bs, ls) := cbatch_items st1 all rest in (st', (e, 0, 0) :: rs, bs, ls)
          | inl rows =>
            match validate_rows st1 c rows (Seen [] []) mode with
            | (st2, inr e) =>
              let '(st', rs, bs, ls) := cbatch_items st2 all rest in (st', (toChannelError e, 0, 0) :: rs, bs, ls)
            | (st2, inl _) =>
              let last := base + N.of_nat (length recs) in
              let '(st', rs, bs, ls) := cbatch_items st2 all rest in
              (st', (0, base, last) :: rs,
               (c, stageMessageRows c rows ++ stageCatalogForAppend c (first_seq rows)) :: bs,
               (c, last) :: ls)
            end
          end
        end
    end.

  Definition CBatch (st : mstate) (items : list item) : mstate * list (N * N * N) :=
    let '(st1, rs, bs, ls) := cbatch_items st items items in
    match bs with
    | [] => (st1, rs)
    | _ =>
      let b := flat_map snd (sort_by (fun x : N * kbatch => fst x) bs) in
      (fold_left (fun s cl => set_leo s (fst cl) (snd cl)) ls (commit st1 b), rs)
    end.

  (* ---- compat.go: ChannelStore.DiscardForRestore (restore-failure cleanup) ---------------- *)

  (* page bounds (function-local constants restoreDiscardBatchMessages / ...Bytes) *)
  Definition restoreDiscardBatchMessages : Z := 1024.
  Definition restoreDiscardBatchBytes : Z := 8388608.

  (* the channel partition: every channel-local key; the global message-id index
     and the catalog row live outside *)
  Definition in_partition (c : N) (k : key) : bool :=
    match k with
    | KyRow c' _ | KyCidx c' _ _ | KyIdem c' _ _ | KySseq c' _ _
    | KyCkpt c' | KyRet c' | KyHist c' _ _ | KyIdent c' _ => c' =? c
    | KyGid _ | KyCat _ => false
    end.

  (* the page loop: every page is ONE synchronous batch deleting the rows of the
     page with all their secondary indexes (stageDeleteMessage); it ends when a
     read from the next sequence finds nothing.  [fuel] > number of rows. *)
  Fixpoint discard_pages (fuel : nat) (st : mstate) (c next : N) : mstate * res unit :=
    match fuel with
    | O => (st, err ECorruptState)
    | S fuel' =>
      match readForward (st_kv st) c next 0 restoreDiscardBatchMessages restoreDiscardBatchBytes with
      | inr e => (st, err (toChannelError e))
      | inl [] => (st, ok tt)
      | inl rows =>
        let st1 := commit st (flat_map (stageDeleteMessage c) rows) in
        if last_seq rows <? next then (st1, err ECorruptState)
        else discard_pages fuel' st1 c (last_seq rows + 1)
      end
    end.

  (* ... then the terminal batch: range delete of the partition + the catalog row;
     the cached log end is dropped, the membership filter stays (it is negative) *)
  Definition DiscardForRestore (st : mstate) (c : N) : mstate * res unit :=
    let '(st1, r) := discard_pages (S (length (rows_unsorted (st_kv st) c))) st c 1 in
    match r with
    | inr e => (st1, err e)
    | inl _ =>
      let st2 := commit st1 [DelRange (in_partition c); Del (KyCat c)] in
      let cc := st_cache st2 c in
      (set_cache st2 c (CC 0 false (cc_filter cc) (cc_floaded cc)), ok tt)
    end.

  (* ---- read API ------------------------------------------------------------------------ *)

  Definition Read (st : mstate) (c fromSeq : N) (limit maxb : Z) : res (list row) :=
    readForward (st_kv st) c (if fromSeq =? 0 then 1 else fromSeq) 0 limit maxb.

  Definition ReadReverse (st : mstate) (c fromSeq : N) (limit maxb : Z) : mstate * res (list row) :=
    let '(st1, fromSeq) := if fromSeq =? 0 then loadLEOLocked st c else (st, fromSeq) in
    match readForward (st_kv st1) c 1 fromSeq 0 0 with
    | inr e => (st1, err e)
    | inl all =>
      (* the reverse loop never fails: rows were validated by readForward *)
      (st1, read_loop (rev all) limit maxb [] 0%Z)
    end.

  Definition GetBySeq (st : mstate) (c seq : N) : res (option row) := getRowBySeq (st_kv st) c seq.

  Definition GetByMessageID (st : mstate) (c id : N) : res (option row) :=
    if id =? 0 then err EInvalid
    else match kget (KyGid id) (st_kv st) with
         | Some (VGid c' q) =>
           if negb (c' =? c) then ok None
           else ro <- getRowBySeq (st_kv st) c q ;;
                match ro with
                | Some r => if r_id r =? id then ok (Some r) else err ECorruptState
                | None => err ECorruptState
                end
         | _ => ok None
         end.

  (* descending sort of (seq, allowMissingRow) *)
  Definition sort_desc (l : list (N * bool)) : list (N * bool) :=
    rev (sort_by (fun x : N * bool => fst x) l).

  Fixpoint list_rows (s : kvs) (c : N) (cno : bytes) (seqs : list (N * bool)) : res (list row) :=
    match seqs with
    | [] => ok []
    | (q, allowMissing) :: rest =>
      ro <- getRowBySeq s c q ;;
      match ro with
      | None => if allowMissing then list_rows s c cno rest else err ECorruptState
      | Some r =>
        if negb (bytes_eqb (r_cno r) cno) then err ECorruptState
        else rs <- list_rows s c cno rest ;; ok (r :: rs)
      end
    end.

  Definition ListByClientMsgNo (st : mstate) (c : N) (cno : bytes) (before : N) (limit : Z)
    : res (list row * bool * N) :=
    if is_nil cno || (limit <=? 0)%Z then err EInvalid
    else
      let s := st_kv st in
      let want q := (before =? 0) || (q <? before) in
      let canonical := flat_map (fun e => let '(n, _, (q, _, _)) := e in
                                          if bytes_eqb n cno && want q then [(q, true)] else [])
                                (idem_entries s c) in
      let legacy := flat_map (fun q => if want q then [(q, false)] else []) (cidx_seqs s c cno) in
      rs <- list_rows s c cno (sort_desc (canonical ++ legacy)) ;;
      if (limit <? Z.of_nat (length rs))%Z
      then let page := firstn_rows limit rs in ok (page, true, last_seq page)
      else ok (rs, false, 0).

  Definition LookupIdempotency (st : mstate) (c : N) (uid cno : bytes) : res (option (N * N * N)) :=
    if is_nil uid || is_nil cno then err EInvalid
    else lookupIdempotencyByKey (st_kv st) c uid cno.

  Definition GetLastSenderMessageSeq (st : mstate) (c : N) (uid : bytes) (through : N) : res (option N) :=
    if is_nil uid || (through =? 0) then err EInvalid
    else match filter (fun q => q <=? through) (sseq_seqs (st_kv st) c uid) with
         | [] => ok None
         | l => ok (Some (fold_left N.max l 0))
         end.

  (* ---- histories ------------------------------------------------------------------------- *)

  Inductive op :=
  | OAppend (c mode base : N) (recs : list rec)
  | OApply (c base : N) (recs : list rec) (ck : option (N * N * N)) (ep : option (N * N))
  | OCApp (c mode : N) (recs : list rec)
  | OCBatch (items : list (N * N * list rec))
  | OTrunc (c fromSeq : N)
  | OCTrunc (c to : N)
  | OTrim (c through : N) (maxMessages maxBytes : Z)
  | OCkpt (c e lso hw : N)
  | OCkptM (c e lso hw visibleHW leo : N)
  | ORelease (c : N)
  | OReopen
  | ORead (c fromSeq : N) (limit maxb : Z)
  | ORRead (c fromSeq : N) (limit maxb : Z)
  | OGet (c seq : N)
  | OById (c id : N)
  | OByCno (c : N) (cno : bytes) (before : N) (limit : Z)
  | OIdem (c : N) (uid cno : bytes)
  | OLastS (c : N) (uid : bytes) (through : N)
  | OLeo (c : N)
  | ORet (c : N)
  | OLoadCk (c : N)
  | OHist (c : N)
  | ODiscard (c : N).                (* compat DiscardForRestore: SEVERAL batches (pages + terminal) *)

  (* a materialised message as the API returns it *)
  Record msg := M {
    m_seq : N; m_id : N; m_ch : N; m_cno : bytes; m_uid : bytes; m_hash : N; m_payload : bytes; m_ts : Z }.

  Definition messageFromRow (r : row) : msg :=
    M (r_seq r) (r_id r) (r_ch r) (r_cno r) (r_uid r) (r_hash r) (r_payload r) (r_ts r).

  Inductive out :=
  | XErr (e : N)
  | XOk
  | XApp (base last count : N)
  | XN (n : N)
  | XTrim (deletedThrough deleted : N) (more : bool)
  | XMsgs (ms : list msg)
  | XMsgO (m : option msg)
  | XPage (ms : list msg) (hasMore : bool) (nextBefore : N)
  | XHit (h : option (N * N * N * N))       (* seq, id, offset, hash *)
  | XNO (n : option N)
  | XTriple (t : option (N * N * N))
  | XPairs (l : list (N * N))
  | XBatch (l : list (N * N * N)).

  Definition out_of {A} (r : res A) (f : A -> out) : out :=
    match r with inl a => f a | inr e => XErr e end.

  Definition is_mutation (o : op) : bool :=
    match o with
    | OAppend _ _ _ _ | OApply _ _ _ _ _ | OCApp _ _ _ | OCBatch _ | OTrunc _ _ | OCTrunc _ _ | OTrim _ _ _ _
    | OCkpt _ _ _ _ | OCkptM _ _ _ _ _ _ | ORelease _ | ODiscard _ => true
    | _ => false
    end.

  Definition op_chan (o : op) : N :=
    match o with
    | OAppend c _ _ _ | OApply c _ _ _ _ | OCApp c _ _ | OTrunc c _ | OCTrunc c _ | OTrim c _ _ _
    | OCkpt c _ _ _ | OCkptM c _ _ _ _ _ | ORelease c | ORead c _ _ _ | ORRead c _ _ _ | OGet c _
    | OById c _ | OByCno c _ _ _ | OIdem c _ _ | OLastS c _ _ | OLeo c | ORet c | OLoadCk c | OHist c
    | ODiscard c => c
    | OReopen | OCBatch _ => 0
    end.

  (* closing the whole database drops every canonical entry and the warm cache *)
  Definition reopen (st : mstate) : mstate := MS (st_kv st) (fun _ => cc_init) (st_log st).

  Definition step (st : mstate) (o : op) : mstate * out :=
    match o with
    | OAppend c mode base recs =>
      let '(st', r) := Append st c recs mode base in
      (st', out_of r (fun x => let '(b, l, n) := x in XApp b l n))
    | OApply c base recs ck ep =>
      let '(st', r) := ApplyFetch st c base recs ck ep in
      (st', out_of r (fun x => let '(b, l, n) := x in XApp b l n))
    | OCApp c mode recs =>
      let '(st', r) := CAppend st c recs mode in (st', out_of r XN)
    | OCBatch items => let '(st', rs) := CBatch st items in (st', XBatch rs)
    | OTrunc c f => let '(st', r) := TruncateFrom st c f in (st', out_of r (fun _ => XOk))
    | OCTrunc c t => let '(st', r) := CTruncate st c t in (st', out_of r (fun _ => XOk))
    | OTrim c t mm mb =>
      let '(st', r) := TrimPrefixThroughLimit st c t mm mb in
      (st', out_of r (fun x => let '(d, n, m) := x in XTrim d n m))
    | OCkpt c e l h => let '(st', r) := StoreCheckpoint st c (e, l, h) in (st', out_of r (fun _ => XOk))
    | OCkptM c e l h v leo =>
      let '(st', r) := StoreCheckpointMonotonic st c (e, l, h) v leo in (st', out_of r (fun _ => XOk))
    | ORelease _ => (st, XOk)       (* the entry moves to the warm cache and back unchanged *)
    | OReopen => (reopen st, XOk)
    | ORead c f lim mb => (st, out_of (Read st c f lim mb) (fun rs => XMsgs (map messageFromRow rs)))
    | ORRead c f lim mb =>
      let '(st', r) := ReadReverse st c f lim mb in (st', out_of r (fun rs => XMsgs (map messageFromRow rs)))
    | OGet c q => (st, out_of (GetBySeq st c q) (fun ro => XMsgO (option_map messageFromRow ro)))
    | OById c i => (st, out_of (GetByMessageID st c i) (fun ro => XMsgO (option_map messageFromRow ro)))
    | OByCno c cno before lim =>
      (st, out_of (ListByClientMsgNo st c cno before lim)
                  (fun x => let '(rs, more, nb) := x in XPage (map messageFromRow rs) more nb))
    | OIdem c uid cno =>
      (st, out_of (LookupIdempotency st c uid cno)
                  (fun h => XHit (option_map (fun x => let '(q, i, hh) := x in (q, i, q - 1, hh)) h)))
    | OLastS c uid t => (st, out_of (GetLastSenderMessageSeq st c uid t) XNO)
    | OLeo c => let '(st', leo) := loadLEOLocked st c in (st', XN leo)
    | ORet c => (st, XTriple (loadRetentionState (st_kv st) c))
    | OLoadCk c => (st, XTriple (loadCheckpoint (st_kv st) c))
    | OHist c => (st, XPairs (loadHistory (st_kv st) c))
    | ODiscard c => let '(st', r) := DiscardForRestore st c in (st', out_of r (fun _ => XOk))
    end.

  (* what the harness reads after a mutation: LEO, then Read(1, {}) printed in
     compact form (seq, id, hash), then -- after a successful append -- the
     complete rows of the appended range, Read(base, {Limit: count}) *)
  Inductive dump := D (c : N) (leo : N + N) (rows : list (N * N * N) + N) (news : list msg + N).

  Definition compact (r : row) : N * N * N := (r_seq r, r_id r, r_hash r).

  (* the appended range reported by a successful append-type op *)
  Definition new_range (o : op) (x : out) : option (N * Z) :=
    match o, x with
    | (OAppend _ _ _ _ | OApply _ _ _ _ _), XApp b _ n => if n =? 0 then None else Some (b, Z.of_N n)
    | OCApp _ _ recs, XN base => match recs with [] => None | _ => Some (base + 1, Z.of_nat (length recs)) end
    | _, _ => None
    end.

  Definition dump_chan (st : mstate) (c : N) (nr : option (N * Z)) : mstate * dump :=
    let '(st', leo) := loadLEOLocked st c in
    (st', D c (inl leo)
            (match Read st' c 1 0 0 with
             | inl rs => inl (map compact rs)
             | inr e => inr e
             end)
            (match nr with
             | None => inl []
             | Some (f, n) => match Read st' c f n 0 with
                              | inl rs => inl (map messageFromRow rs)
                              | inr e => inr e
                              end
             end)).

  Fixpoint dump_chans (st : mstate) (cs : list N) : mstate * list dump :=
    match cs with
    | [] => (st, [])
    | c :: rest => let '(st1, d) := dump_chan st c None in
                   let '(st2, ds) := dump_chans st1 rest in (st2, d :: ds)
    end.

  Definition all_chans : list N := [0; 1; 2].

  (* [compact]: long histories are run without the per-mutation dumps *)
  Definition step_dump (compact : bool) (st : mstate) (o : op) : mstate * out * list dump :=
    let '(st1, x) := step st o in
    let '(st2, ds) := match o with
                      | OReopen => dump_chans st1 all_chans
                      | OCBatch _ => if compact then (st1, []) else dump_chans st1 all_chans
                      | _ => if is_mutation o && negb compact
                             then let '(st2, d) := dump_chan st1 (op_chan o) (new_range o x) in (st2, [d])
                             else (st1, [])
                      end in
    (st2, x, ds).

  Fixpoint run (compact : bool) (st : mstate) (ops : list op) : mstate * list (out * list dump) :=
    match ops with
    | [] => (st, [])
    | o :: rest => let '(st1, x, ds) := step_dump compact st o in
                   let '(st2, tr) := run compact st1 rest in (st2, (x, ds) :: tr)
    end.
End Model.

(* ---- the executable filter instance: the exact set of added keys --------------------- *)
Definition xfilter := list (bytes * bytes).
Definition x_may (f : xfilter) (k : bytes * bytes) : bool :=
  existsb (fun k' => bytes_eqb (fst k) (fst k') && bytes_eqb (snd k) (snd k')) f.
Definition x_add (f : xfilter) (k : bytes * bytes) : xfilter := if x_may f k then f else k :: f.

Definition xstate := mstate xfilter.
Definition xinit : xstate := st_init xfilter [].
Definition xrun (compact : bool) (ops : list op) := run xfilter [] x_may x_add compact xinit ops.
