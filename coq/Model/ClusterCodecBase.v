(* Model/ClusterCodecBase.v — reusable decode combinators for the internal
   cluster codecs (C27), on top of Base/Bytes.v.

   A wire format is a term [fmt A] of a small description language; ONE
   interpreter gives the decoder ([decode]), the encoder ([encode]), the
   domain of the encoder ([wf], boolean), a structural equality ([veqb]) and
   the list of allocation requests a decoder issues ([allocs]).  The lemmas
   (round trip, extension stability, truncation rejected, allocation bounded)
   are proved once, by induction on [fmt], in Proof/ClusterCodecBase.v; each Go
   codec is then a [fmt] term (Model/ClusterCodec_*.v).

   Primitives: one byte, strict bool, big-endian u8/u16/u32/u64 ([FBe w]),
   encoding/binary Uvarint / Varint with Go's exact accept set (overflow
   rule, non-minimal encodings accepted), fixed-size arrays, length-prefixed
   bytes with the length checked against a constant bound AND the remaining
   input before the copy, presence-byte optionals, counted lists whose count
   is checked BEFORE the allocation ([count_kind] = which check the Go code
   performs), sequencing, dependent sequencing (tag dispatch, version
   dependent tails), record packing, validation guards.
   Definitions only. *)
From WK Require Import Base.Base Base.Bytes.
Open Scope N_scope.

Definition parser (A : Type) := bytes -> option (A * bytes).

(* ---- encoding/binary.Uvarint / PutUvarint ------------------------------- *)

(* Uvarint(buf): bytes are consumed low group first; the 11th byte, or a 10th
   byte above 1, is an overflow (n < 0); running out of input is n = 0.
   Non-minimal encodings (0x80 0x00) are accepted, as in Go. [fuel] counts
   the bytes still allowed (10 at the start). *)
Fixpoint uvar_loop (fuel : nat) (mul acc : N) (bs : bytes) : option (N * bytes) :=
  match fuel with
  | O => None
  | S fuel' =>
    match bs with
    | [] => None
    | b :: r =>
      if b <? 128 then
        (match fuel' with
         | O => if 1 <? b then None else Some (acc + b * mul, r)
         | S _ => Some (acc + b * mul, r)
         end)
      else uvar_loop fuel' (mul * 128) (acc + (b - 128) * mul) r
    end
  end.
Definition p_uvarint : parser N := uvar_loop 10 1 0.

Fixpoint uvar_enc (fuel : nat) (x : N) : bytes :=
  match fuel with
  | O => []
  | S fuel' => if x <? 128 then [x] else (x mod 128 + 128) :: uvar_enc fuel' (x / 128)
  end.
Definition put_uvarint (x : N) : bytes := uvar_enc 10 x.

Definition two64 : N := 18446744073709551616.
Definition two63 : Z := 9223372036854775808%Z.

(* binary.PutVarint: ux = uint64(x) << 1; if x < 0 { ux = ^ux } *)
Definition zigzag (z : Z) : N :=
  if (z <? 0)%Z then Z.to_N (- 2 * z - 1) else Z.to_N (2 * z).
(* binary.Varint: x = int64(ux >> 1); if ux&1 != 0 { x = ^x } *)
Definition unzigzag (u : N) : Z :=
  if N.even u then Z.of_N (u / 2) else (- Z.of_N (u / 2) - 1)%Z.

Definition put_varint (z : Z) : bytes := put_uvarint (zigzag z).
Definition p_varint : parser Z :=
  fun bs => match p_uvarint bs with
            | Some (u, r) => Some (unzigzag u, r)
            | None => None
            end.

(* ---- bytes, bools, counts ------------------------------------------------- *)

Definition p_byte : parser N :=
  fun bs => match bs with [] => None | b :: r => Some (b, r) end.

(* value == 1, ok && value <= 1  /  switch value { case 0: case 1: default: error } *)
Definition p_bool : parser bool :=
  fun bs => match bs with
            | [] => None
            | b :: r => if b =? 0 then Some (false, r) else if b =? 1 then Some (true, r) else None
            end.
Definition put_bool (b : bool) : bytes := [if b then 1 else 0].

Definition blen {A} (bs : list A) : N := N.of_nat (length bs).

(* Base.Bytes.take computes [length bs] first: linear in the REMAINING input at
   every field.  The decoders below use these two, which walk only what they
   take ([ctake_eq] / [ntake_eq] / [has_len_eq] in Proof/ClusterCodecBase.v tie
   them to [take] and [blen]). *)
Fixpoint ctake (n : nat) (bs : bytes) : option (bytes * bytes) :=
  match n with
  | O => Some ([], bs)
  | S n' => match bs with
            | [] => None
            | b :: r => match ctake n' r with
                        | Some (h, t) => Some (b :: h, t)
                        | None => None
                        end
            end
  end.
(* n bytes, n a binary number (declared lengths go up to 2^64-1) *)
Fixpoint ntake (bs : bytes) (n : N) : option (bytes * bytes) :=
  match bs with
  | [] => if n =? 0 then Some ([], []) else None
  | b :: r => if n =? 0 then Some ([], bs)
              else match ntake r (n - 1) with
                   | Some (h, t) => Some (b :: h, t)
                   | None => None
                   end
  end.
(* n <= len(bs) *)
Fixpoint has_len {A} (bs : list A) (n : N) : bool :=
  match bs with
  | [] => n =? 0
  | _ :: r => if n =? 0 then true else has_len r (n - 1)
  end.
Definition cget_be (w : nat) (bs : bytes) : option (N * bytes) :=
  match ctake w bs with
  | Some (h, r) => Some (be_get h, r)
  | None => None
  end.

(* the size an [append([]byte(nil), data[off:off+n]...)] copies: [n] is checked
   against the constant bound and against the remaining input first *)
Definition p_bytes_len (max : N) : parser N :=
  fun bs => match p_uvarint bs with
            | Some (n, r) => if (n <=? max) && has_len r n then Some (n, r) else None
            | None => None
            end.
Definition p_bytes (max : N) : parser bytes :=
  fun bs => match p_uvarint bs with
            | Some (n, r) => if n <=? max then ntake r n else None
            | None => None
            end.
Definition put_bytes (d : bytes) : bytes := put_uvarint (blen d) ++ d.

(* which check the Go code performs on a declared element count before make():
   CKConst    uvarint n,            n <= max                 (replication cursor.count)
   CKNilable  uvarint v, 0 = nil,   v-1 <= max               (replication cursor.sliceCount)
   CKRem      uvarint n,            n <= remaining bytes     (channels readCollectionLen)
   CKPresRem  presence byte 0 = nil | 1, then as CKRem       (channels readSliceHeader) *)
Inductive count_kind := CKConst | CKNilable | CKRem | CKPresRem.

(* result: None = nil slice, Some n = make([]T, n) *)
Definition p_count (ck : count_kind) (max : N) : parser (option N) :=
  fun bs =>
    match ck with
    | CKConst =>
      match p_uvarint bs with
      | Some (n, r) => if n <=? max then Some (Some n, r) else None
      | None => None
      end
    | CKNilable =>
      match p_uvarint bs with
      | Some (v, r) => if v =? 0 then Some (None, r)
                       else if v - 1 <=? max then Some (Some (v - 1), r) else None
      | None => None
      end
    | CKRem =>
      match p_uvarint bs with
      | Some (n, r) => if has_len r n then Some (Some n, r) else None
      | None => None
      end
    | CKPresRem =>
      match bs with
      | [] => None
      | b :: r0 =>
        if b =? 0 then Some (None, r0)
        else if b =? 1 then
          match p_uvarint r0 with
          | Some (n, r) => if has_len r n then Some (Some n, r) else None
          | None => None
          end
        else None
      end
    end.

Definition put_count (ck : count_kind) (c : option N) : bytes :=
  match ck, c with
  | CKConst, Some n => put_uvarint n
  | CKConst, None => put_uvarint 0
  | CKNilable, Some n => put_uvarint (n + 1)
  | CKNilable, None => put_uvarint 0
  | CKRem, Some n => put_uvarint n
  | CKRem, None => put_uvarint 0
  | CKPresRem, Some n => 1 :: put_uvarint n
  | CKPresRem, None => [0]
  end.

(* does the kind have a nil form on the wire *)
Definition ck_nilable (ck : count_kind) : bool :=
  match ck with CKNilable | CKPresRem => true | _ => false end.
(* is the count checked against the remaining input (rather than a constant) *)
Definition ck_rem (ck : count_kind) : bool :=
  match ck with CKRem | CKPresRem => true | _ => false end.

(* n elements, element i decoded by [dec i] *)
Fixpoint rep_dec {A} (dec : nat -> parser A) (i n : nat) (bs : bytes) : option (list A * bytes) :=
  match n with
  | O => Some ([], bs)
  | S n' =>
    match dec i bs with
    | None => None
    | Some (a, r) =>
      match rep_dec dec (S i) n' r with
      | None => None
      | Some (l, r') => Some (a :: l, r')
      end
    end
  end.
Fixpoint rep_enc {A} (enc : nat -> A -> bytes) (i : nat) (l : list A) : bytes :=
  match l with
  | [] => []
  | a :: l' => enc i a ++ rep_enc enc (S i) l'
  end.
Fixpoint rep_all {A} (p : nat -> A -> bool) (i : nat) (l : list A) : bool :=
  match l with
  | [] => true
  | a :: l' => p i a && rep_all p (S i) l'
  end.
Fixpoint rep_eqb {A} (e : nat -> A -> A -> bool) (i : nat) (l l' : list A) : bool :=
  match l, l' with
  | [], [] => true
  | a :: r, b :: r' => e i a b && rep_eqb e (S i) r r'
  | _, _ => false
  end.

(* ---- the format language ----------------------------------------------------- *)

Inductive fmt : Type -> Type :=
| FByte : fmt N
| FBool : fmt bool
| FBe (w : nat) : fmt N                       (* big-endian unsigned, w bytes: u8/u16/u32/u64 *)
| FUvarint : fmt N
| FVarint : fmt Z
| FFixed (n : nat) : fmt bytes                (* [n]byte *)
| FBytes (max : N) : fmt bytes                (* uvarint length ‖ data, length <= max and <= remaining *)
| FConst {A} (v : A) (is_v : A -> bool) (H : forall x, is_v x = true -> x = v) : fmt A
| FSeq {A B} (fa : fmt A) (fb : fmt B) : fmt (A * B)
| FBind {A B} (fa : fmt A) (k : A -> fmt B) : fmt (A * B)
(* record packing / tag injection.  [from] gives the encoder its fields for
   EVERY value; [dom] marks the values the decoder can give back (a field the
   wire does not carry must have its zero value, a copied empty byte string
   comes back nil, ...): the inverse law is needed only there. *)
| FMapD {A B} (f : fmt A) (to : A -> B) (from : B -> option A) (dom : B -> bool)
        (H : forall b a, from b = Some a -> dom b = true -> to a = b) : fmt B
| FGuard {A} (f : fmt A) (ok : A -> bool) : fmt A
| FOpt {A} (f : fmt A) : fmt (option A)       (* presence byte 0 | 1 ‖ value *)
| FList {A} (ck : count_kind) (max : N) (f : nat -> fmt A) : fmt (option (list A)).

Fixpoint decode {A} (f : fmt A) : parser A :=
  match f in fmt T return parser T with
  | FByte => p_byte
  | FBool => p_bool
  | FBe w => cget_be w
  | FUvarint => p_uvarint
  | FVarint => p_varint
  | FFixed n => ctake n
  | FBytes max => p_bytes max
  | FConst v _ _ => fun bs => Some (v, bs)
  | FSeq fa fb =>
    fun bs => match decode fa bs with
              | None => None
              | Some (a, r) =>
                match decode fb r with
                | None => None
                | Some (b, r') => Some ((a, b), r')
                end
              end
  | FBind fa k =>
    fun bs => match decode fa bs with
              | None => None
              | Some (a, r) =>
                match decode (k a) r with
                | None => None
                | Some (b, r') => Some ((a, b), r')
                end
              end
  | FMapD f to _ _ _ =>
    fun bs => match decode f bs with
              | None => None
              | Some (a, r) => Some (to a, r)
              end
  | FGuard f ok =>
    fun bs => match decode f bs with
              | None => None
              | Some (a, r) => if ok a then Some (a, r) else None
              end
  | FOpt f =>
    fun bs => match bs with
              | [] => None
              | b :: r =>
                if b =? 0 then Some (None, r)
                else if b =? 1 then
                  match decode f r with
                  | None => None
                  | Some (a, r') => Some (Some a, r')
                  end
                else None
              end
  | FList ck max f =>
    fun bs => match p_count ck max bs with
              | None => None
              | Some (None, r) => Some (None, r)
              | Some (Some n, r) =>
                match rep_dec (fun i => decode (f i)) 0 (N.to_nat n) r with
                | None => None
                | Some (l, r') => Some (Some l, r')
                end
              end
  end.

Fixpoint encode {A} (f : fmt A) : A -> bytes :=
  match f in fmt T return T -> bytes with
  | FByte => fun v => [v]
  | FBool => put_bool
  | FBe w => be_put w
  | FUvarint => put_uvarint
  | FVarint => put_varint
  | FFixed _ => fun v => v
  | FBytes _ => put_bytes
  | FConst _ _ _ => fun _ => []
  | FSeq fa fb => fun v => encode fa (fst v) ++ encode fb (snd v)
  | FBind fa k => fun v => encode fa (fst v) ++ encode (k (fst v)) (snd v)
  | FMapD f _ from _ _ => fun v => match from v with Some a => encode f a | None => [] end
  | FGuard f _ => encode f
  | FOpt f => fun v => match v with None => [0] | Some a => 1 :: encode f a end
  | FList ck _ f =>
    fun v => match v with
             | None => put_count ck None
             | Some l => put_count ck (Some (blen l)) ++ rep_enc (fun i => encode (f i)) 0 l
             end
  end.

(* the encoder's domain: values the Go encoder can be handed and that come back *)
Fixpoint wf {A} (f : fmt A) : A -> bool :=
  match f in fmt T return T -> bool with
  | FByte => fun v => v <? 256
  | FBool => fun _ => true
  | FBe w => fun v => v <? 256 ^ N.of_nat w
  | FUvarint => fun v => v <? two64
  | FVarint => fun v => ((- two63 <=? v) && (v <? two63))%Z
  | FFixed n => fun v => Nat.eqb (length v) n
  | FBytes max => fun v => (blen v <=? max) && (blen v <? two64)
  | FConst _ is_v _ => is_v
  | FSeq fa fb => fun v => wf fa (fst v) && wf fb (snd v)
  | FBind fa k => fun v => wf fa (fst v) && wf (k (fst v)) (snd v)
  | FMapD f _ from dom _ => fun v => dom v && match from v with Some a => wf f a | None => false end
  | FGuard f ok => fun v => wf f v && ok v
  | FOpt f => fun v => match v with None => true | Some a => wf f a end
  | FList ck max f =>
    fun v => match v with
             | None => ck_nilable ck
             | Some l =>
               (blen l <? two64 - 1)
               && (if ck_rem ck then blen l <=? blen (rep_enc (fun i => encode (f i)) 0 l)
                   else blen l <=? max)
               && rep_all (fun i => wf (f i)) 0 l
             end
  end.

(* structural equality read off the format (sound unconditionally, reflexive on wf values) *)
Fixpoint veqb {A} (f : fmt A) : A -> A -> bool :=
  match f in fmt T return T -> T -> bool with
  | FByte => N.eqb
  | FBool => Bool.eqb
  | FBe _ => N.eqb
  | FUvarint => N.eqb
  | FVarint => Z.eqb
  | FFixed _ => bytes_eqb
  | FBytes _ => bytes_eqb
  | FConst _ is_v _ => fun x y => is_v x && is_v y
  | FSeq fa fb => fun x y => veqb fa (fst x) (fst y) && veqb fb (snd x) (snd y)
  | FBind fa k => fun x y => veqb fa (fst x) (fst y) && veqb (k (fst x)) (snd x) (snd y)
  | FMapD f _ from dom _ =>
    fun x y => dom x && dom y &&
               match from x, from y with
               | Some a, Some b => veqb f a b
               | _, _ => false
               end
  | FGuard f _ => veqb f
  | FOpt f => fun x y => match x, y with
                         | None, None => true
                         | Some a, Some b => veqb f a b
                         | _, _ => false
                         end
  | FList _ _ f =>
    fun x y => match x, y with
               | None, None => true
               | Some l, Some l' => rep_eqb (fun i => veqb (f i)) 0 l l'
               | _, _ => false
               end
  end.

(* the common case: the inverse law holds for every value *)
Definition FMap {A B} (f : fmt A) (to : A -> B) (from : B -> option A)
           (H : forall b a, from b = Some a -> to a = b) : fmt B :=
  FMapD f to from (fun _ => true) (fun b a E _ => H b a E).

(* ---- whole-input decoding ("if offset != len(data) { error }") --------------- *)

Definition decode_full {A} (f : fmt A) (bs : bytes) : option A :=
  match decode f bs with
  | Some (v, []) => Some v
  | _ => None
  end.

(* ---- allocation requests --------------------------------------------------------
   what the decoder asks the allocator for, in order: [AList n] = make([]T, n),
   [ABytes n] = a copy of n input bytes.  Defined beside [decode] (same
   traversal, continuing with [decode]'s leftovers) so that the decoder proper
   stays simple. *)
Inductive alloc_req := AList (n : N) | ABytes (n : N).

Fixpoint rep_allocs {A} (dec : nat -> parser A) (al : nat -> bytes -> list alloc_req)
         (i n : nat) (bs : bytes) : list alloc_req :=
  match n with
  | O => []
  | S n' => al i bs ++ match dec i bs with
                       | None => []
                       | Some (_, r) => rep_allocs dec al (S i) n' r
                       end
  end.

Fixpoint allocs {A} (f : fmt A) : bytes -> list alloc_req :=
  match f in fmt T return bytes -> list alloc_req with
  | FByte | FBool | FBe _ | FUvarint | FVarint => fun _ => []
  | FFixed _ => fun _ => []                     (* copied into a stack array *)
  | FBytes max => fun bs => match p_bytes_len max bs with
                            | Some (n, _) => [ABytes n]
                            | None => []
                            end
  | FConst _ _ _ => fun _ => []
  | FSeq fa fb => fun bs => allocs fa bs ++ match decode fa bs with
                                            | Some (_, r) => allocs fb r
                                            | None => []
                                            end
  | FBind fa k => fun bs => allocs fa bs ++ match decode fa bs with
                                            | Some (a, r) => allocs (k a) r
                                            | None => []
                                            end
  | FMapD f _ _ _ _ => allocs f
  | FGuard f _ => allocs f
  | FOpt f => fun bs => match bs with
                        | b :: r => if b =? 1 then allocs f r else []
                        | [] => []
                        end
  | FList ck max f =>
    fun bs => match p_count ck max bs with
              | Some (Some n, r) =>
                AList n :: rep_allocs (fun i => decode (f i)) (fun i => allocs (f i)) 0 (N.to_nat n) r
              | _ => []
              end
  end.

(* every constant-bounded list of the format is bounded by [c]; [r] says whether
   counts checked against the remaining input (CKRem / CKPresRem) may occur *)
Fixpoint capped {A} (r : bool) (c : N) (f : fmt A) : Prop :=
  match f with
  | FSeq fa fb => capped r c fa /\ capped r c fb
  | FBind fa k => capped r c fa /\ forall a, capped r c (k a)
  | FMapD f _ _ _ _ => capped r c f
  | FGuard f _ => capped r c f
  | FOpt f => capped r c f
  | FList ck max f => (if ck_rem ck then r = true else max <= c) /\ forall i, capped r c (f i)
  | _ => True
  end.

(* an allocation request is fine when a list has at most c elements — or, where
   remaining-input checks occur, at most max(c, input length) — and a byte copy
   is no longer than the input *)
Definition alloc_ok (r : bool) (c len : N) (a : alloc_req) : Prop :=
  match a with
  | AList n => n <= (if r then N.max c len else c)
  | ABytes n => n <= len
  end.

(* ---- small helpers for the format files ---------------------------------------- *)

Declare Scope fmt_scope.
Delimit Scope fmt_scope with fmt.
Notation "a ;; b" := (FSeq a b) (at level 61, right associativity) : fmt_scope.

Definition is_nil_bytes (b : bytes) : bool := match b with [] => true | _ => false end.
Lemma is_nil_bytes_spec : forall x, is_nil_bytes x = true -> x = [].
Proof. intros [|? ?]; [reflexivity|discriminate]. Qed.
Lemma N_is0_spec : forall x, N.eqb x 0 = true -> x = 0.
Proof. intros x H. apply N.eqb_eq. exact H. Qed.
Lemma negb_is_false_spec : forall x, negb x = true -> x = false.
Proof. intros []; [discriminate|reflexivity]. Qed.

Definition FNil : fmt bytes := FConst [] is_nil_bytes is_nil_bytes_spec.
Definition FZero : fmt N := FConst 0 (fun x => N.eqb x 0) N_is0_spec.
Definition FFalse : fmt bool := FConst false negb negb_is_false_spec.

(* the two-byte [version][kind] envelope in front of a payload *)
Definition f_header (version kind : N) : fmt (N * N) :=
  FGuard (FSeq FByte FByte) (fun vk => (fst vk =? version) && (snd vk =? kind)).

(* plain lists (kinds without a nil form) as [list A] *)
Definition list_of {A} (o : option (list A)) : list A :=
  match o with Some l => l | None => [] end.
