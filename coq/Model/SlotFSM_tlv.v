(* Model/SlotFSM_tlv.v — the command wire format of pkg/slot/fsm (command.go,
   migration_cmds.go): [version:1][cmdType:1] then TLV fields [tag:1][length:4 BE][value].

   Go function                         Gallina
   readTLV                             readTLV
   the "for off < len(data)" loop      tlv_fields   (all fields, or None when one is truncated)
   decodeCommand                       decodeCommand (header checks and dispatch)
   decodeApplyDelta                    decodeApplyDelta
   decodeEnterFence                    decodeEnterFence
   decodeMigrationOutboxIdentity,
   decodeAckMigrationOutbox,
   decodeCleanupMigrationOutbox        decodeMigrationOutbox
   EncodeApplyDeltaCommand, EncodeEnterFenceCommand(ForTarget),
   EncodeAck…/EncodeCleanup…Command    encodeApplyDelta, encodeEnterFence, encodeMigrationOutbox
   The payload decoders of the other command types are not transcribed
   ([DecUnmodelled]).  Every error of the transcribed decoders is ErrCorruptValue, so
   the order in which the Go loop meets a truncated field and a malformed value does
   not matter for the error class.  Definitions only. *)
From WK Require Import Base.Base Base.Bytes.
From WK Require Import Gen.Consts_C13.
Open Scope N_scope.

Inductive dec_obs :=
| DecErr (cls : N)                     (* 1 ErrCorruptValue, 2 ErrInvalidArgument, 3 other *)
| DecOther                             (* decoded, not a migration command *)
| DecUnmodelled                        (* model only: payload decoder not transcribed *)
| DecDelta (source_slot source_index hash_slot : N) (orig : bytes)
| DecFence (hash_slot target : N)
| DecAck (hash_slot source_slot target_slot source_index : N)
| DecCleanup (hash_slot source_slot target_slot through_index : N).

Definition DEC_CORRUPT : N := 1.
Definition DEC_INVALID : N := 2.

(* readTLV: (tag, value, bytes consumed) *)
Definition readTLV (data : bytes) : option (N * bytes * nat) :=
  match data with
  | tag :: l3 :: l2 :: l1 :: l0 :: rest =>
      let len := be_get [l3; l2; l1; l0] in
      (* compared in N: the declared length may be 2^32-1 *)
      if len <=? N.of_nat (length rest)
      then Some (tag, firstn (N.to_nat len) rest, (5 + N.to_nat len)%nat) else None
  | _ => None
  end.

(* the field loop; [fuel] bounds the number of fields (every field consumes >= 5 bytes) *)
Fixpoint tlv_fields (fuel : nat) (data : bytes) : option (list (N * bytes)) :=
  match data with
  | [] => Some []
  | _ =>
    match fuel with
    | O => None
    | S f =>
      match readTLV data with
      | None => None
      | Some (tag, v, n) =>
        match tlv_fields f (skipn n data) with
        | None => None
        | Some r => Some ((tag, v) :: r)
        end
      end
    end
  end.

Definition fields_of (data : bytes) : option (list (N * bytes)) := tlv_fields (length data) data.

(* a field of exactly 8 bytes read as big-endian uint64 *)
Definition u64_field (v : bytes) : option N := if Nat.eqb (length v) 8 then Some (be_get v) else None.

(* ---- apply_delta ---------------------------------------------------------------------- *)

Record delta_acc := DAcc { da_src : option N; da_idx : option N; da_hs : option N; da_orig : option bytes }.

(* one loop iteration; None = ErrCorruptValue *)
Definition delta_step (a : delta_acc) (f : N * bytes) : option delta_acc :=
  let '(tag, v) := f in
  if tag =? tagApplyDeltaSourceSlotID then
    match u64_field v with Some x => Some (DAcc (Some x) (da_idx a) (da_hs a) (da_orig a)) | None => None end
  else if tag =? tagApplyDeltaSourceIndex then
    match u64_field v with Some x => Some (DAcc (da_src a) (Some x) (da_hs a) (da_orig a)) | None => None end
  else if tag =? tagApplyDeltaHashSlot then
    match u64_field v with
    | Some x => if 65535 <? x then None else Some (DAcc (da_src a) (da_idx a) (Some x) (da_orig a))
    | None => None
    end
  else if tag =? tagApplyDeltaOriginalCmd then Some (DAcc (da_src a) (da_idx a) (da_hs a) (Some v))
  else Some a.

Fixpoint fold_opt {A B} (f : A -> B -> option A) (a : A) (l : list B) : option A :=
  match l with
  | [] => Some a
  | x :: r => match f a x with Some a' => fold_opt f a' r | None => None end
  end.

Definition decodeApplyDelta (data : bytes) : dec_obs :=
  match fields_of data with
  | None => DecErr DEC_CORRUPT
  | Some fs =>
    match fold_opt delta_step (DAcc None None None None) fs with
    | Some (DAcc (Some s) (Some i) (Some h) (Some o)) => DecDelta s i h o
    | _ => DecErr DEC_CORRUPT
    end
  end.

(* ---- enter_fence ------------------------------------------------------------------------ *)

Definition fence_step (a : option N * N) (f : N * bytes) : option (option N * N) :=
  let '(tag, v) := f in
  if tag =? tagEnterFenceHashSlot then
    match u64_field v with
    | Some x => if 65535 <? x then None else Some (Some x, snd a)
    | None => None
    end
  else if tag =? tagEnterFenceTarget then
    match u64_field v with Some x => Some (fst a, x) | None => None end
  else Some a.

Definition decodeEnterFence (data : bytes) : dec_obs :=
  match fields_of data with
  | None => DecErr DEC_CORRUPT
  | Some fs =>
    match fold_opt fence_step (None, 0) fs with
    | Some (Some h, t) => DecFence h t
    | _ => DecErr DEC_CORRUPT
    end
  end.

(* ---- ack / cleanup ------------------------------------------------------------------------ *)

Record outbox_acc := OAcc { oa_hs : option N; oa_src : option N; oa_tgt : option N; oa_idx : option N }.

(* every field, known tag or not, must be 8 bytes long *)
Definition outbox_step (a : outbox_acc) (f : N * bytes) : option outbox_acc :=
  let '(tag, v) := f in
  match u64_field v with
  | None => None
  | Some x =>
    if tag =? tagMigrationOutboxHashSlot then
      if 65535 <? x then None else Some (OAcc (Some x) (oa_src a) (oa_tgt a) (oa_idx a))
    else if tag =? tagMigrationOutboxSourceSlot then Some (OAcc (oa_hs a) (Some x) (oa_tgt a) (oa_idx a))
    else if tag =? tagMigrationOutboxTargetSlot then Some (OAcc (oa_hs a) (oa_src a) (Some x) (oa_idx a))
    else if tag =? tagMigrationOutboxSourceIndex then Some (OAcc (oa_hs a) (oa_src a) (oa_tgt a) (Some x))
    else Some a
  end.

Definition decodeMigrationOutbox (cleanup : bool) (data : bytes) : dec_obs :=
  match fields_of data with
  | None => DecErr DEC_CORRUPT
  | Some fs =>
    match fold_opt outbox_step (OAcc None None None None) fs with
    | Some (OAcc (Some h) (Some s) (Some t) (Some i)) => if cleanup then DecCleanup h s t i else DecAck h s t i
    | _ => DecErr DEC_CORRUPT
    end
  end.

(* ---- decodeCommand -------------------------------------------------------------------------- *)

Definition decodeCommand (data : bytes) : dec_obs :=
  match data with
  | version :: cmdType :: payload =>
      if negb (version =? commandVersion) then DecErr DEC_CORRUPT
      else if negb (existsb (N.eqb cmdType) commandTypes) then DecErr DEC_INVALID
      else if cmdType =? cmdTypeApplyDelta then decodeApplyDelta payload
      else if cmdType =? cmdTypeEnterFence then decodeEnterFence payload
      else if cmdType =? cmdTypeAckMigrationOutbox then decodeMigrationOutbox false payload
      else if cmdType =? cmdTypeCleanupMigrationOutbox then decodeMigrationOutbox true payload
      else DecUnmodelled
  | _ => DecErr DEC_CORRUPT
  end.

(* ---- encoders ---------------------------------------------------------------------------------- *)

Definition tlv (tag : N) (v : bytes) : bytes := tag :: put_u32 (N.of_nat (length v)) ++ v.
Definition tlv_u64 (tag : N) (x : N) : bytes := tlv tag (put_u64 x).

Definition encodeApplyDelta (src idx hs : N) (orig : bytes) : bytes :=
  [commandVersion; cmdTypeApplyDelta] ++ tlv_u64 tagApplyDeltaSourceSlotID src ++ tlv_u64 tagApplyDeltaSourceIndex idx
  ++ tlv_u64 tagApplyDeltaHashSlot hs ++ tlv tagApplyDeltaOriginalCmd orig.

Definition encodeEnterFence (hs target : N) : bytes :=
  [commandVersion; cmdTypeEnterFence] ++ tlv_u64 tagEnterFenceHashSlot hs
  ++ (if target =? 0 then [] else tlv_u64 tagEnterFenceTarget target).

Definition encodeMigrationOutbox (cleanup : bool) (hs src tgt idx : N) : bytes :=
  [commandVersion; if cleanup then cmdTypeCleanupMigrationOutbox else cmdTypeAckMigrationOutbox]
  ++ tlv_u64 tagMigrationOutboxHashSlot hs ++ tlv_u64 tagMigrationOutboxSourceSlot src
  ++ tlv_u64 tagMigrationOutboxTargetSlot tgt ++ tlv_u64 tagMigrationOutboxSourceIndex idx.

Definition dec_obs_eqb (a b : dec_obs) : bool :=
  match a, b with
  | DecErr x, DecErr y => x =? y
  | DecOther, DecOther => true
  | DecUnmodelled, DecUnmodelled => true
  | DecDelta a1 a2 a3 o1, DecDelta b1 b2 b3 o2 => (a1 =? b1) && (a2 =? b2) && (a3 =? b3) && bytes_eqb o1 o2
  | DecFence a1 a2, DecFence b1 b2 => (a1 =? b1) && (a2 =? b2)
  | DecAck a1 a2 a3 a4, DecAck b1 b2 b3 b4 => (a1 =? b1) && (a2 =? b2) && (a3 =? b3) && (a4 =? b4)
  | DecCleanup a1 a2 a3 a4, DecCleanup b1 b2 b3 b4 => (a1 =? b1) && (a2 =? b2) && (a3 =? b3) && (a4 =? b4)
  | _, _ => false
  end.
