(* Model/ClusterCodec_Replication.v — pkg/channel/replication/codec.go:
   EncodeExchangeBatch / DecodeExchangeBatch, EncodeExchangeBatchResult /
   DecodeExchangeBatchResult and every exchangeCursor method, as formats of
   Model/ClusterCodecBase.v.  One format per cursor method, same names.

   What is transcribed as it is in the code: field order, uvarint/varint
   widths, the slice-count convention (0 = nil, n+1 = n elements), every
   constant bound (MaxExchangeBatchItems, MaxExchangeBatchBytes,
   maxRecoveryProbeIndexes, maxRecoveryReplacementProposals) and where it is
   checked, the MaxUint16 / MaxInt range checks, requestID != 0, the priority
   rule of probe / fetch items, the trailing-bytes check, the frame size
   checks of the two Decode functions and the checks of the two Encode
   functions.
   What is abstracted: the cursor methods of the code do not stop at the first
   failure (they go on reading with ok = false and AND the flags at the end);
   the formats stop at the first failure.  The result (value or error) is the
   same; the correspondence harness checks it on mutated input.
   Request.Valid() (digest chain, manifest shape) is the parameter [valid]:
   position and decoded item -> bool. *)
From WK Require Import Base.Base Base.Bytes Model.ClusterCodecBase Gen.Consts_C27.
Open Scope N_scope.

Ltac solve_iso :=
  let b := fresh "b" in let a := fresh "a" in let E := fresh "E" in
  intros b a E; destruct b; cbn in E; inversion E; subst; reflexivity.

(* ---- wire scalars ------------------------------------------------------------- *)

(* uvarint that must fit a uint16 ("version <= math.MaxUint16") *)
Definition f_u16v : fmt N := FGuard FUvarint (fun v => v <=? MaxUint16).
(* uvarint that must fit an int ("maxBytes <= math.MaxInt", "sizeBytes > math.MaxInt") *)
Definition f_int : fmt N := FGuard FUvarint (fun v => v <=? IntMax).
(* cursor.bytes / cursor.string: count(MaxExchangeBatchBytes), count <= remaining, copy *)
Definition f_str : fmt bytes := FBytes MaxExchangeBatchBytes.
(* cursor.fixed32 *)
Definition f_d32 : fmt bytes := FFixed 32.
(* requestID, valid := c.uvarint(); requestID == 0 -> error *)
Definition f_reqid : fmt N := FGuard FUvarint (fun v => negb (v =? 0)).

(* ---- records -------------------------------------------------------------------- *)

(* (ChannelKey, ChannelID{ID, Type}) *)
Record chan_ident := ChanIdent { ci_key : bytes; ci_id : bytes; ci_type : N }.
(* channel.ProposalManifest, fields in wire order *)
Record manifest := Manifest {
  m_version : N; m_epoch : N; m_term : N; m_fence : N; m_cmd : bytes;
  m_base : N; m_last : N; m_prev_term : N; m_prev_index : N;
  m_prev_digest : bytes; m_digest : bytes }.
(* channel.EntryIdentity, fields in wire order *)
Record entry_ident := EntryIdent {
  e_version : N; e_epoch : N; e_term : N; e_fence : N; e_index : N;
  e_prev_term : N; e_prev_index : N; e_cmd : bytes; e_prev_digest : bytes; e_digest : bytes }.
Record replica_state := ReplicaState {
  rs_leo : N; rs_committed : N; rs_manifest : manifest; rs_tail : entry_ident }.
(* channel.Record, fields in wire order; SizeBytes is a non-negative int *)
Record rrecord := RRecord {
  r_id : N; r_index : N; r_epoch : N; r_setting : N; r_from_uid : bytes; r_client_msg_no : bytes;
  r_ts : Z; r_sync_once : bool; r_payload : bytes; r_size : N }.
(* []T with the nil / non-nil distinction the wire keeps *)
Definition slice (A : Type) := option (list A).

Record replicate_request := ReplicateRequest {
  rq_ident : chan_ident; rq_leader : N; rq_follower : N; rq_manifest : manifest;
  rq_records : slice rrecord; rq_committed : N; rq_server_alloc : bool }.
(* ProbeRequest and ProbeProof have the same fields and the same wire form *)
Record probe_request := ProbeRequest {
  pq_ident : chan_ident; pq_leader : N; pq_follower : N; pq_indexes : slice N }.
(* FetchRequest and FetchProof have the same fields and the same wire form *)
Record fetch_request := FetchRequest {
  fq_ident : chan_ident; fq_leader : N; fq_follower : N; fq_expected : replica_state;
  fq_from : N; fq_through : N; fq_previous : entry_ident; fq_max_bytes : N }.

Record replicate_proof := ReplicateProof {
  rp_ident : chan_ident; rp_leader : N; rp_follower : N; rp_manifest : manifest }.
(* wire order: status, last offset, need from, proof *)
Record replicate_result := ReplicateResult {
  rr_status : N; rr_last_offset : N; rr_need_from : N; rr_proof : replicate_proof }.
Record entry_probe := EntryProbe { ep_index : N; ep_present : bool; ep_identity : entry_ident }.
Record probe_result := ProbeResult {
  pr_proof : probe_request; pr_state : replica_state; pr_entries : slice entry_probe }.
Record recovery_proposal := RecoveryProposal { rc_manifest : manifest; rc_records : slice rrecord }.
Record fetch_result := FetchResult {
  fr_proof : fetch_request; fr_state : replica_state; fr_proposals : slice recovery_proposal }.

(* ExchangeItem: RequestID, Kind and the one non-nil request pointer *)
Inductive item_body :=
| IReplicate (r : replicate_request)
| IProbe (p : probe_request)
| IFetch (q : fetch_request).
Record exchange_item := ExchangeItem { it_request_id : N; it_kind : N; it_body : item_body }.
Record exchange_batch := ExchangeBatch {
  eb_version : N; eb_priority : N; eb_items : list exchange_item }.

Record exchange_item_result := ExchangeItemResult {
  ir_request_id : N; ir_replicate : replicate_result; ir_probe : probe_result; ir_fetch : fetch_result }.
Record exchange_batch_result := ExchangeBatchResult {
  er_version : N; er_items : list exchange_item_result }.

(* Go zero values (the harness prints them by name: case files stay small) *)
Definition z32 : bytes := repeat 0 32.
Definition zI : chan_ident := ChanIdent [] [] 0.
Definition zM : manifest := Manifest 0 0 0 0 z32 0 0 0 0 z32 z32.
Definition zE : entry_ident := EntryIdent 0 0 0 0 0 0 0 z32 z32 z32.
Definition zS : replica_state := ReplicaState 0 0 zM zE.
Definition zRR : replicate_result := ReplicateResult 0 0 0 (ReplicateProof zI 0 0 zM).
Definition zPR : probe_result := ProbeResult (ProbeRequest zI 0 0 None) zS None.
Definition zFR : fetch_result := FetchResult (FetchRequest zI 0 0 zS 0 0 zE 0) zS None.

(* ---- cursor methods ------------------------------------------------------------- *)

Local Open Scope fmt_scope.

Definition channelIdentity : fmt chan_ident :=
  FMap (f_str ;; f_str ;; FByte)
       (fun '(k, (i, t)) => ChanIdent k i t)
       (fun c => Some (ci_key c, (ci_id c, ci_type c)))
       ltac:(solve_iso).

Definition proposalManifest : fmt manifest :=
  FMap (f_u16v ;; FUvarint ;; FUvarint ;; FUvarint ;; f_d32 ;;
        FUvarint ;; FUvarint ;; FUvarint ;; FUvarint ;; f_d32 ;; f_d32)
       (fun '(v, (e, (t, (f, (c, (b, (l, (pt, (pi, (pd, d)))))))))) => Manifest v e t f c b l pt pi pd d)
       (fun m => Some (m_version m, (m_epoch m, (m_term m, (m_fence m, (m_cmd m, (m_base m, (m_last m,
                  (m_prev_term m, (m_prev_index m, (m_prev_digest m, m_digest m)))))))))))
       ltac:(solve_iso).

Definition entryIdentity : fmt entry_ident :=
  FMap (f_u16v ;; FUvarint ;; FUvarint ;; FUvarint ;; FUvarint ;; FUvarint ;; FUvarint ;;
        f_d32 ;; f_d32 ;; f_d32)
       (fun '(v, (e, (t, (f, (i, (pt, (pi, (c, (pd, d))))))))) => EntryIdent v e t f i pt pi c pd d)
       (fun x => Some (e_version x, (e_epoch x, (e_term x, (e_fence x, (e_index x, (e_prev_term x,
                  (e_prev_index x, (e_cmd x, (e_prev_digest x, e_digest x))))))))))
       ltac:(solve_iso).

Definition replicaState : fmt replica_state :=
  FMap (FUvarint ;; FUvarint ;; proposalManifest ;; entryIdentity)
       (fun '(l, (c, (m, t))) => ReplicaState l c m t)
       (fun s => Some (rs_leo s, (rs_committed s, (rs_manifest s, rs_tail s))))
       ltac:(solve_iso).

Definition record : fmt rrecord :=
  FMap (FUvarint ;; FUvarint ;; FUvarint ;; FByte ;; f_str ;; f_str ;; FVarint ;; FBool ;; f_str ;; f_int)
       (fun '(i, (x, (e, (s, (u, (c, (t, (o, (p, z))))))))) => RRecord i x e s u c t o p z)
       (fun r => Some (r_id r, (r_index r, (r_epoch r, (r_setting r, (r_from_uid r, (r_client_msg_no r,
                  (r_ts r, (r_sync_once r, (r_payload r, r_size r))))))))))
       ltac:(solve_iso).

(* cursor.records: sliceCount(maxRecoveryProbeIndexes), make, loop *)
Definition records : fmt (slice rrecord) := FList CKNilable maxRecoveryProbeIndexes (fun _ => record).
(* the Indexes loops of probeRequest / probeProof *)
Definition indexes : fmt (slice N) := FList CKNilable maxRecoveryProbeIndexes (fun _ => FUvarint).

Definition replicateRequest : fmt replicate_request :=
  FMap (channelIdentity ;; FUvarint ;; FUvarint ;; proposalManifest ;; records ;; FUvarint ;; FBool)
       (fun '(i, (l, (f, (m, (r, (c, s)))))) => ReplicateRequest i l f m r c s)
       (fun q => Some (rq_ident q, (rq_leader q, (rq_follower q, (rq_manifest q, (rq_records q,
                  (rq_committed q, rq_server_alloc q)))))))
       ltac:(solve_iso).

Definition probeRequest : fmt probe_request :=
  FMap (channelIdentity ;; FUvarint ;; FUvarint ;; indexes)
       (fun '(i, (l, (f, x))) => ProbeRequest i l f x)
       (fun q => Some (pq_ident q, (pq_leader q, (pq_follower q, pq_indexes q))))
       ltac:(solve_iso).
Definition probeProof : fmt probe_request := probeRequest.

Definition fetchRequest : fmt fetch_request :=
  FMap (channelIdentity ;; FUvarint ;; FUvarint ;; replicaState ;; FUvarint ;; FUvarint ;; entryIdentity ;; f_int)
       (fun '(i, (l, (f, (e, (a, (t, (p, m))))))) => FetchRequest i l f e a t p m)
       (fun q => Some (fq_ident q, (fq_leader q, (fq_follower q, (fq_expected q, (fq_from q,
                  (fq_through q, (fq_previous q, fq_max_bytes q))))))))
       ltac:(solve_iso).
Definition fetchProof : fmt fetch_request := fetchRequest.

Definition replicateProof : fmt replicate_proof :=
  FMap (channelIdentity ;; FUvarint ;; FUvarint ;; proposalManifest)
       (fun '(i, (l, (f, m))) => ReplicateProof i l f m)
       (fun p => Some (rp_ident p, (rp_leader p, (rp_follower p, rp_manifest p))))
       ltac:(solve_iso).

Definition replicateResult : fmt replicate_result :=
  FMap (FByte ;; FUvarint ;; FUvarint ;; replicateProof)
       (fun '(s, (l, (n, p))) => ReplicateResult s l n p)
       (fun r => Some (rr_status r, (rr_last_offset r, (rr_need_from r, rr_proof r))))
       ltac:(solve_iso).

Definition entryProbe : fmt entry_probe :=
  FMap (FUvarint ;; FBool ;; entryIdentity)
       (fun '(i, (p, e)) => EntryProbe i p e)
       (fun x => Some (ep_index x, (ep_present x, ep_identity x)))
       ltac:(solve_iso).

Definition probeResult : fmt probe_result :=
  FMap (probeProof ;; replicaState ;; FList CKNilable maxRecoveryProbeIndexes (fun _ => entryProbe))
       (fun '(p, (s, e)) => ProbeResult p s e)
       (fun r => Some (pr_proof r, (pr_state r, pr_entries r)))
       ltac:(solve_iso).

Definition recoveryProposal : fmt recovery_proposal :=
  FMap (proposalManifest ;; records)
       (fun '(m, r) => RecoveryProposal m r)
       (fun p => Some (rc_manifest p, rc_records p))
       ltac:(solve_iso).

Definition fetchResult : fmt fetch_result :=
  FMap (fetchProof ;; replicaState ;;
        FList CKNilable maxRecoveryReplacementProposals (fun _ => recoveryProposal))
       (fun '(p, (s, x)) => FetchResult p s x)
       (fun r => Some (fr_proof r, (fr_state r, fr_proposals r)))
       ltac:(solve_iso).

(* ---- request batch --------------------------------------------------------------- *)

Definition zero_ident : chan_ident := ChanIdent [] [] 0.
Definition zero_probe : probe_request := ProbeRequest zero_ident 0 0 None.

Lemma never_spec {A} (d : A) : forall x : A, false = true -> x = d.
Proof. intros x H. discriminate H. Qed.
(* a format that accepts nothing ("default: return error") *)
Definition f_fail {A} (d : A) : fmt A :=
  FGuard (FConst d (fun _ => false) (never_spec d)) (fun _ => false).

Definition priority_valid (p : N) : bool :=
  (p =? ExchangePriorityForeground) || (p =? ExchangePriorityBackground).

Definition as_replicate (b : item_body) := match b with IReplicate r => Some r | _ => None end.
Definition as_probe (b : item_body) := match b with IProbe r => Some r | _ => None end.
Definition as_fetch (b : item_body) := match b with IFetch r => Some r | _ => None end.

Ltac solve_inj :=
  let b := fresh "b" in let a := fresh "a" in let E := fresh "E" in
  intros b a E; destruct b; cbn in E; inversion E; subst; reflexivity.

(* switch item.Kind: the body format; probe and fetch need the foreground priority *)
Definition itemBody (priority kind : N) : fmt item_body :=
  if kind =? ExchangeReplicate then FMap replicateRequest IReplicate as_replicate ltac:(solve_inj)
  else if kind =? ExchangeProbe then
    (if priority =? ExchangePriorityForeground
     then FMap probeRequest IProbe as_probe ltac:(solve_inj)
     else f_fail (IProbe zero_probe))
  else if kind =? ExchangeFetch then
    (if priority =? ExchangePriorityForeground
     then FMap fetchRequest IFetch as_fetch ltac:(solve_inj)
     else f_fail (IProbe zero_probe))
  else f_fail (IProbe zero_probe).

Section WithValid.
  (* request.Valid() of the item decoded at a position *)
  Variable valid : nat -> exchange_item -> bool.

  Definition exchangeItem (priority : N) (i : nat) : fmt exchange_item :=
    FGuard
      (FMap (FBind (f_reqid ;; FByte) (fun rk => itemBody priority (snd rk)))
            (fun '((r, k), b) => ExchangeItem r k b)
            (fun it => Some ((it_request_id it, it_kind it), it_body it))
            ltac:(solve_iso))
      (valid i).

  Definition nonempty {A} (o : slice A) : bool :=
    match o with Some (_ :: _) => true | _ => false end.

  (* the whole frame: version, priority, count(MaxExchangeBatchItems) != 0, items *)
  Definition exchangeBatch : fmt exchange_batch :=
    FMap (FBind (FGuard FUvarint (fun v => v =? ExchangeVersion) ;; FGuard FByte priority_valid)
                (fun vp => FGuard (FList CKConst MaxExchangeBatchItems (exchangeItem (snd vp))) nonempty))
         (fun '((v, p), l) => ExchangeBatch v p (list_of l))
         (fun b => Some ((eb_version b, eb_priority b), Some (eb_items b)))
         ltac:(solve_iso).

  (* DecodeExchangeBatch *)
  Definition DecodeExchangeBatch (data : bytes) : option exchange_batch :=
    if (blen data =? 0) || (MaxExchangeBatchBytes <? blen data) then None
    else decode_full exchangeBatch data.

  (* the pointer-shape / priority part of EncodeExchangeBatch's per-item checks *)
  Definition item_shape_ok (priority : N) (it : exchange_item) : bool :=
    negb (it_request_id it =? 0) &&
    match it_body it with
    | IReplicate _ => it_kind it =? ExchangeReplicate
    | IProbe _ => (it_kind it =? ExchangeProbe) && (priority =? ExchangePriorityForeground)
    | IFetch _ => (it_kind it =? ExchangeFetch) && (priority =? ExchangePriorityForeground)
    end.

  (* EncodeExchangeBatch: its own checks, then the frame size check *)
  Definition EncodeExchangeBatch (b : exchange_batch) : option bytes :=
    if (eb_version b =? ExchangeVersion) && priority_valid (eb_priority b)
       && negb (blen (eb_items b) =? 0) && (blen (eb_items b) <=? MaxExchangeBatchItems)
       && rep_all (fun i it => item_shape_ok (eb_priority b) it && valid i it) 0 (eb_items b)
    then
      let e := encode exchangeBatch b in
      if MaxExchangeBatchBytes <? blen e then None else Some e
    else None.
End WithValid.

(* ---- result batch ----------------------------------------------------------------- *)

Definition exchangeItemResult : fmt exchange_item_result :=
  FMap (f_reqid ;; replicateResult ;; probeResult ;; fetchResult)
       (fun '(i, (r, (p, f))) => ExchangeItemResult i r p f)
       (fun x => Some (ir_request_id x, (ir_replicate x, (ir_probe x, ir_fetch x))))
       ltac:(solve_iso).

Definition exchangeBatchResult : fmt exchange_batch_result :=
  FMap (FGuard FUvarint (fun v => v =? ExchangeVersion) ;;
        FGuard (FList CKConst MaxExchangeBatchItems (fun _ => exchangeItemResult)) nonempty)
       (fun '(v, l) => ExchangeBatchResult v (list_of l))
       (fun b => Some (er_version b, Some (er_items b)))
       ltac:(solve_iso).

(* DecodeExchangeBatchResult *)
Definition DecodeExchangeBatchResult (data : bytes) : option exchange_batch_result :=
  if (blen data =? 0) || (MaxExchangeBatchBytes <? blen data) then None
  else decode_full exchangeBatchResult data.

Definition slice_len {A} (s : slice A) : N := match s with Some l => blen l | None => 0 end.

(* EncodeExchangeBatchResult *)
Definition EncodeExchangeBatchResult (b : exchange_batch_result) : option bytes :=
  if (er_version b =? ExchangeVersion)
     && negb (blen (er_items b) =? 0) && (blen (er_items b) <=? MaxExchangeBatchItems)
     && forallb (fun x => negb (ir_request_id x =? 0)
                          && (slice_len (pr_entries (ir_probe x)) <=? maxRecoveryProbeIndexes)
                          && (slice_len (fr_proposals (ir_fetch x)) <=? maxRecoveryReplacementProposals))
                (er_items b)
  then
    let e := encode exchangeBatchResult b in
    if MaxExchangeBatchBytes <? blen e then None else Some e
  else None.
