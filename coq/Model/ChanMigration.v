(* Model/ChanMigration.v — channel migration tasks of pkg/db/meta, applied through
   the slot state machine (pkg/slot/fsm).

   Transcribes, one Gallina definition per Go function and with the same names,
     pkg/db/meta/table_channel_migration.go   (task record, IsTerminal/IsActive, validators,
        guards' matches, canClaimChannelMigrationTask, stageUpsertChannelMigrationTask,
        ensureChannelMigrationActiveAvailable),
     pkg/db/meta/compat_channel_migration_helpers.go (request validators, require*Transition,
        requireMatchingFence, requireNoForeignChannelMigrationFence,
        requireActiveChannelMigrationTaskFence, requireChannelMigrationCutoverProof, ...),
     pkg/db/meta/compat.go (WriteBatch.CreateChannelMigrationTask ... AbortChannelMigration,
        stageChannelMigrationTask, stageChannelMigrationTaskAndMeta,
        DeleteTerminalChannelMigrationTasksBefore),
     pkg/db/meta/batch.go (Batch.UpsertChannelRuntimeMeta, the commit loop with its overlay maps),
     pkg/slot/fsm/statemachine.go (ApplyBatch: staging, commit, stale fallback to
        one-command batches; isStaleMetaResult / isStaleMetaCommitError).
   The runtime-meta row, normalizeChannelRuntimeMeta, validateChannelRuntimeMeta,
   bumpRuntimeRoute, resolveMonotonicChannelRuntimeMeta, clearChannelRuntimeMetaFence and
   channelRuntimeMetaEqual come from Model/RuntimeMeta.v (C15).

   One hash slot.  Reads of a commit go to the batch overlay for task / meta rows
   but to the COMMITTED database for the active index and for the "existing" row of
   stageUpsertChannelMigrationTask — exactly as the code does.  The terminal-task
   index and the count returned by the GC command are not modelled.

   Definitions only (plus the case record, C17_mismatch, C17_monitor). *)
From WK Require Import Base.Base.
From WK Require Import Gen.Consts_C15 Gen.Consts_C17 Model.RuntimeMeta.
Open Scope N_scope.

(* ---- records ----------------------------------------------------------------- *)

Record progress := Progress {
  pg_leader_leo : N; pg_leader_hw : N; pg_target_leo : N; pg_target_checkpoint_hw : N;
  pg_lag_records : N; pg_stable_since_ms : Z }.

Record proof := Proof {
  pf_cutover_leo : N; pf_cutover_hw : N; pf_drained_leader_node : N;
  pf_drained_runtime_generation : N; pf_drained_channel_epoch : N;
  pf_drained_leader_epoch : N; pf_drained_fence_version : N }.

Definition proof_zero : proof := Proof 0 0 0 0 0 0 0.
Definition progress_zero : progress := Progress 0 0 0 0 0 0%Z.

(* ChannelMigrationTask; fields in the order of the Go struct, the seven
   cutover-proof fields grouped in [t_proof] *)
Record task := Task {
  t_task_id : bytes; t_kind : N; t_status : N; t_phase : N;
  t_channel_id : bytes; t_channel_type : Z;
  t_source_node : N; t_target_node : N; t_desired_leader : N;
  t_base_channel_epoch : N; t_base_leader_epoch : N;
  t_fence_token : bytes; t_fence_version : N; t_fence_until_ms : Z;
  t_embedded_leader_transfer : bool; t_embedded_desired_leader : N;
  t_owner_node_id : N; t_owner_lease_until_ms : Z;
  t_proof : proof;
  t_attempt : N; t_next_run_at_ms : Z;
  t_blocker_code : bytes; t_blocker_message : bytes; t_last_error : bytes;
  t_created_at_ms : Z; t_updated_at_ms : Z; t_completed_at_ms : Z;
  t_progress : progress }.

(* ChannelMigrationTaskGuard *)
Record tguard := TGuard {
  tg_channel_id : bytes; tg_channel_type : Z; tg_task_id : bytes;
  tg_expected_status : N; tg_expected_phase : N; tg_expected_owner_node_id : N;
  tg_expected_owner_lease_until_ms : Z; tg_expected_updated_at_ms : Z }.

(* ChannelMigrationRuntimeGuard *)
Record rguard := RGuard {
  rg_channel_id : bytes; rg_channel_type : Z; rg_expected_channel_epoch : N;
  rg_expected_leader_epoch : N; rg_expected_leader : N; rg_expected_fence_token : bytes;
  rg_expected_fence_version : N; rg_expected_route_generation : N }.

(* the fields shared by the seven task+meta requests: Guard, RuntimeGuard, Status, Phase, UpdatedAtMS *)
Record trans := Trans {
  tr_guard : tguard; tr_rguard : rguard; tr_status : N; tr_phase : N; tr_updated_at_ms : Z }.

Inductive cmd :=
| CUpsertMeta (m : runtime_meta)
| CCreate (t : task)
| CCreateGuarded (t : task) (g : rguard)
| CClaim (g : tguard) (status phase owner : N) (owner_lease now updated : Z)
| CAdvance (g : tguard) (status phase attempt : N) (next_run : Z)
           (blocker_code blocker_message last_error : bytes) (updated completed : Z)
           (pg : progress) (pf : proof) (embedded_desired_leader : N)
| CSetFence (h : trans) (reason : N) (until_ms : Z)
| CReset (h : trans) (now : Z)
| CCommit (h : trans) (desired_leader next_leader_epoch : N) (lease_until now : Z)
| CAddLearner (h : trans) (target : N)
| CPromote (h : trans) (source target : N) (now : Z)
| CClear (h : trans) (completed : Z)
| CAbort (h : trans) (completed : Z) (last_error : bytes)
| CGC (before : Z) (limit : Z).

(* ---- equality --------------------------------------------------------------------- *)

Definition progress_eqb (a b : progress) : bool :=
  (pg_leader_leo a =? pg_leader_leo b) && (pg_leader_hw a =? pg_leader_hw b)
  && (pg_target_leo a =? pg_target_leo b) && (pg_target_checkpoint_hw a =? pg_target_checkpoint_hw b)
  && (pg_lag_records a =? pg_lag_records b) && (pg_stable_since_ms a =? pg_stable_since_ms b)%Z.

Definition proof_eqb (a b : proof) : bool :=
  (pf_cutover_leo a =? pf_cutover_leo b) && (pf_cutover_hw a =? pf_cutover_hw b)
  && (pf_drained_leader_node a =? pf_drained_leader_node b)
  && (pf_drained_runtime_generation a =? pf_drained_runtime_generation b)
  && (pf_drained_channel_epoch a =? pf_drained_channel_epoch b)
  && (pf_drained_leader_epoch a =? pf_drained_leader_epoch b)
  && (pf_drained_fence_version a =? pf_drained_fence_version b).

(* Go's == on ChannelMigrationTask *)
Definition task_eqb (a b : task) : bool :=
  bytes_eqb (t_task_id a) (t_task_id b) && (t_kind a =? t_kind b) && (t_status a =? t_status b)
  && (t_phase a =? t_phase b) && bytes_eqb (t_channel_id a) (t_channel_id b)
  && (t_channel_type a =? t_channel_type b)%Z && (t_source_node a =? t_source_node b)
  && (t_target_node a =? t_target_node b) && (t_desired_leader a =? t_desired_leader b)
  && (t_base_channel_epoch a =? t_base_channel_epoch b) && (t_base_leader_epoch a =? t_base_leader_epoch b)
  && bytes_eqb (t_fence_token a) (t_fence_token b) && (t_fence_version a =? t_fence_version b)
  && (t_fence_until_ms a =? t_fence_until_ms b)%Z
  && Bool.eqb (t_embedded_leader_transfer a) (t_embedded_leader_transfer b)
  && (t_embedded_desired_leader a =? t_embedded_desired_leader b)
  && (t_owner_node_id a =? t_owner_node_id b) && (t_owner_lease_until_ms a =? t_owner_lease_until_ms b)%Z
  && proof_eqb (t_proof a) (t_proof b) && (t_attempt a =? t_attempt b)
  && (t_next_run_at_ms a =? t_next_run_at_ms b)%Z && bytes_eqb (t_blocker_code a) (t_blocker_code b)
  && bytes_eqb (t_blocker_message a) (t_blocker_message b) && bytes_eqb (t_last_error a) (t_last_error b)
  && (t_created_at_ms a =? t_created_at_ms b)%Z && (t_updated_at_ms a =? t_updated_at_ms b)%Z
  && (t_completed_at_ms a =? t_completed_at_ms b)%Z && progress_eqb (t_progress a) (t_progress b).

(* ---- field updates (Go: task.X = v) ---------------------------------------------- *)

Definition set_status_phase_updated (t : task) (status phase : N) (updated : Z) : task :=
  Task (t_task_id t) (t_kind t) status phase (t_channel_id t) (t_channel_type t) (t_source_node t)
    (t_target_node t) (t_desired_leader t) (t_base_channel_epoch t) (t_base_leader_epoch t)
    (t_fence_token t) (t_fence_version t) (t_fence_until_ms t) (t_embedded_leader_transfer t)
    (t_embedded_desired_leader t) (t_owner_node_id t) (t_owner_lease_until_ms t) (t_proof t)
    (t_attempt t) (t_next_run_at_ms t) (t_blocker_code t) (t_blocker_message t) (t_last_error t)
    (t_created_at_ms t) updated (t_completed_at_ms t) (t_progress t).

Definition set_owner (t : task) (owner : N) (lease : Z) : task :=
  Task (t_task_id t) (t_kind t) (t_status t) (t_phase t) (t_channel_id t) (t_channel_type t) (t_source_node t)
    (t_target_node t) (t_desired_leader t) (t_base_channel_epoch t) (t_base_leader_epoch t)
    (t_fence_token t) (t_fence_version t) (t_fence_until_ms t) (t_embedded_leader_transfer t)
    (t_embedded_desired_leader t) owner lease (t_proof t)
    (t_attempt t) (t_next_run_at_ms t) (t_blocker_code t) (t_blocker_message t) (t_last_error t)
    (t_created_at_ms t) (t_updated_at_ms t) (t_completed_at_ms t) (t_progress t).

Definition set_fence (t : task) (token : bytes) (version : N) (until_ms : Z) : task :=
  Task (t_task_id t) (t_kind t) (t_status t) (t_phase t) (t_channel_id t) (t_channel_type t) (t_source_node t)
    (t_target_node t) (t_desired_leader t) (t_base_channel_epoch t) (t_base_leader_epoch t)
    token version until_ms (t_embedded_leader_transfer t)
    (t_embedded_desired_leader t) (t_owner_node_id t) (t_owner_lease_until_ms t) (t_proof t)
    (t_attempt t) (t_next_run_at_ms t) (t_blocker_code t) (t_blocker_message t) (t_last_error t)
    (t_created_at_ms t) (t_updated_at_ms t) (t_completed_at_ms t) (t_progress t).

Definition set_proof (t : task) (p : proof) : task :=
  Task (t_task_id t) (t_kind t) (t_status t) (t_phase t) (t_channel_id t) (t_channel_type t) (t_source_node t)
    (t_target_node t) (t_desired_leader t) (t_base_channel_epoch t) (t_base_leader_epoch t)
    (t_fence_token t) (t_fence_version t) (t_fence_until_ms t) (t_embedded_leader_transfer t)
    (t_embedded_desired_leader t) (t_owner_node_id t) (t_owner_lease_until_ms t) p
    (t_attempt t) (t_next_run_at_ms t) (t_blocker_code t) (t_blocker_message t) (t_last_error t)
    (t_created_at_ms t) (t_updated_at_ms t) (t_completed_at_ms t) (t_progress t).

Definition set_embedded (t : task) (flag : bool) (desired : N) : task :=
  Task (t_task_id t) (t_kind t) (t_status t) (t_phase t) (t_channel_id t) (t_channel_type t) (t_source_node t)
    (t_target_node t) (t_desired_leader t) (t_base_channel_epoch t) (t_base_leader_epoch t)
    (t_fence_token t) (t_fence_version t) (t_fence_until_ms t) flag desired
    (t_owner_node_id t) (t_owner_lease_until_ms t) (t_proof t)
    (t_attempt t) (t_next_run_at_ms t) (t_blocker_code t) (t_blocker_message t) (t_last_error t)
    (t_created_at_ms t) (t_updated_at_ms t) (t_completed_at_ms t) (t_progress t).

Definition set_completed (t : task) (completed : Z) : task :=
  Task (t_task_id t) (t_kind t) (t_status t) (t_phase t) (t_channel_id t) (t_channel_type t) (t_source_node t)
    (t_target_node t) (t_desired_leader t) (t_base_channel_epoch t) (t_base_leader_epoch t)
    (t_fence_token t) (t_fence_version t) (t_fence_until_ms t) (t_embedded_leader_transfer t)
    (t_embedded_desired_leader t) (t_owner_node_id t) (t_owner_lease_until_ms t) (t_proof t)
    (t_attempt t) (t_next_run_at_ms t) (t_blocker_code t) (t_blocker_message t) (t_last_error t)
    (t_created_at_ms t) (t_updated_at_ms t) completed (t_progress t).

Definition set_last_error (t : task) (e : bytes) : task :=
  Task (t_task_id t) (t_kind t) (t_status t) (t_phase t) (t_channel_id t) (t_channel_type t) (t_source_node t)
    (t_target_node t) (t_desired_leader t) (t_base_channel_epoch t) (t_base_leader_epoch t)
    (t_fence_token t) (t_fence_version t) (t_fence_until_ms t) (t_embedded_leader_transfer t)
    (t_embedded_desired_leader t) (t_owner_node_id t) (t_owner_lease_until_ms t) (t_proof t)
    (t_attempt t) (t_next_run_at_ms t) (t_blocker_code t) (t_blocker_message t) e
    (t_created_at_ms t) (t_updated_at_ms t) (t_completed_at_ms t) (t_progress t).

(* the fields the generic advance overwrites besides status / phase / updated / completed *)
Definition set_advance_fields (t : task) (attempt : N) (next_run : Z) (bc bm le : bytes) (pg : progress) : task :=
  Task (t_task_id t) (t_kind t) (t_status t) (t_phase t) (t_channel_id t) (t_channel_type t) (t_source_node t)
    (t_target_node t) (t_desired_leader t) (t_base_channel_epoch t) (t_base_leader_epoch t)
    (t_fence_token t) (t_fence_version t) (t_fence_until_ms t) (t_embedded_leader_transfer t)
    (t_embedded_desired_leader t) (t_owner_node_id t) (t_owner_lease_until_ms t) (t_proof t)
    attempt next_run bc bm le
    (t_created_at_ms t) (t_updated_at_ms t) (t_completed_at_ms t) pg.

(* ---- enums ------------------------------------------------------------------------ *)

Definition mem (x : N) (l : list N) : bool := existsb (fun y => x =? y) l.

(* ChannelMigrationTask.IsTerminal / IsActive *)
Definition status_terminal (s : N) : bool :=
  (s =? StatusCompleted) || (s =? StatusFailed) || (s =? StatusAborted).
Definition isTerminal (t : task) : bool := status_terminal (t_status t).
Definition isActive (t : task) : bool := negb (isTerminal t).

Definition isLeaderTransferTaskKind (k : N) : bool := (k =? KindLeaderTransfer) || (k =? KindLeaderFailover).

Definition isValidChannelMigrationStatus (s : N) : bool :=
  mem s [StatusPending; StatusRunning; StatusBlocked; StatusCompleted; StatusFailed; StatusAborted].

Definition isValidChannelMigrationPhase (p : N) : bool :=
  mem p [PhaseValidate; PhaseProbeTarget; PhaseWriteFence; PhaseDrainLeader; PhaseFinalTargetCatchUp;
         PhaseCommitLeaderMeta; PhaseVerifyNewLeader; PhaseAddLearner; PhaseBootstrapTarget;
         PhaseWarmCatchUp; PhaseCutoverFence; PhasePromoteAndRemove; PhaseVerifyMembership; PhaseClearFence].

Definition isLeaderTransferPhase (p : N) : bool :=
  mem p [PhaseValidate; PhaseProbeTarget; PhaseWriteFence; PhaseDrainLeader; PhaseFinalTargetCatchUp;
         PhaseCommitLeaderMeta; PhaseVerifyNewLeader; PhaseClearFence].

Definition isLeaderTransferFencePhase (p : N) : bool :=
  mem p [PhaseWriteFence; PhaseDrainLeader; PhaseFinalTargetCatchUp; PhaseCommitLeaderMeta;
         PhaseVerifyNewLeader; PhaseClearFence].

Definition isReplicaReplaceFencePhase (p : N) : bool :=
  mem p [PhaseCutoverFence; PhaseFinalTargetCatchUp; PhasePromoteAndRemove; PhaseVerifyMembership; PhaseClearFence].

Definition isLeaderTransferAbortPhase (p : N) : bool :=
  mem p [PhaseValidate; PhaseProbeTarget; PhaseWriteFence; PhaseDrainLeader; PhaseFinalTargetCatchUp;
         PhaseCommitLeaderMeta].

Definition isReplicaReplaceAbortPhase (p : N) : bool :=
  mem p [PhaseValidate; PhaseAddLearner; PhaseBootstrapTarget; PhaseWarmCatchUp; PhaseCutoverFence;
         PhaseFinalTargetCatchUp; PhasePromoteAndRemove].

Definition canAbortRemoveUnpromotedChannelMigrationLearner (t : task) : bool :=
  mem (t_phase t) [PhaseBootstrapTarget; PhaseWarmCatchUp; PhaseCutoverFence; PhaseFinalTargetCatchUp;
                   PhasePromoteAndRemove].

Definition isChannelMigrationFencePhaseAllowed (t : task) : bool :=
  if isLeaderTransferTaskKind (t_kind t) then isLeaderTransferFencePhase (t_phase t)
  else if t_kind t =? KindReplicaReplace then
    if isReplicaReplaceFencePhase (t_phase t) then true
    else t_embedded_leader_transfer t && isLeaderTransferFencePhase (t_phase t)
  else false.

(* ---- validators (true = nil; the only error is ErrInvalidArgument) ------------------ *)

Definition validateChannelMigrationIdentity (channel_id task_id : bytes) : bool :=
  validateKeyString channel_id && validateKeyString task_id.

Definition validateChannelMigrationTask (t : task) : bool :=
  validateChannelMigrationIdentity (t_channel_id t) (t_task_id t)
  && (isLeaderTransferTaskKind (t_kind t) || (t_kind t =? KindReplicaReplace))
  && negb ((t_status t <? StatusPending) || (StatusAborted <? t_status t) || (t_phase t =? 0))
  && negb (isLeaderTransferTaskKind (t_kind t) && negb (t_desired_leader t =? 0)
           && negb (t_desired_leader t =? t_target_node t))
  && negb (isTerminal t && (t_completed_at_ms t <=? 0)%Z).

Definition validateChannelMigrationTaskGuard (g : tguard) : bool :=
  validateChannelMigrationIdentity (tg_channel_id g) (tg_task_id g)
  && negb ((tg_expected_status g =? 0) || (tg_expected_phase g =? 0)).

Definition validateChannelMigrationRuntimeGuard (g : rguard) : bool := validateKeyString (rg_channel_id g).

Definition validateChannelMigrationTaskClaim (g : tguard) (owner : N) (owner_lease now : Z) : bool :=
  validateChannelMigrationTaskGuard g
  && negb ((owner =? 0) || (now <=? 0)%Z || (owner_lease <=? now)%Z).

Definition validateChannelMigrationTaskRuntimeTransition (h : trans) (completed : Z) : bool :=
  validateChannelMigrationTaskGuard (tr_guard h)
  && validateChannelMigrationRuntimeGuard (tr_rguard h)
  && negb (negb (isValidChannelMigrationStatus (tr_status h)) || negb (isValidChannelMigrationPhase (tr_phase h))
           || (tr_updated_at_ms h <=? tg_expected_updated_at_ms (tr_guard h))%Z)
  && negb (status_terminal (tr_status h) && (completed <=? 0)%Z).

Definition validateChannelMigrationFenceRequest (h : trans) (reason : N) (until_ms : Z) : bool :=
  validateChannelMigrationTaskGuard (tr_guard h)
  && validateChannelMigrationRuntimeGuard (tr_rguard h)
  && negb (negb (isValidChannelMigrationStatus (tr_status h)) || negb (isValidChannelMigrationPhase (tr_phase h))
           || (reason =? 0) || (until_ms <=? 0)%Z
           || (tr_updated_at_ms h <=? tg_expected_updated_at_ms (tr_guard h))%Z).

Definition validateChannelMigrationResetFenceRequest (h : trans) (now : Z) : bool :=
  validateChannelMigrationTaskRuntimeTransition h 0%Z && negb (now <=? 0)%Z.

Definition validateChannelMigrationLeaderTransferRequest (h : trans) (desired next_epoch : N) (lease now : Z) : bool :=
  validateChannelMigrationTaskRuntimeTransition h 0%Z
  && negb ((desired =? 0) || (next_epoch =? 0) || (lease <=? 0)%Z || (now <=? 0)%Z).

Definition validateChannelMigrationAddLearnerRequest (h : trans) (target : N) : bool :=
  validateChannelMigrationTaskRuntimeTransition h 0%Z && negb (target =? 0).

Definition validateChannelMigrationPromoteLearnerRequest (h : trans) (source target : N) (now : Z) : bool :=
  validateChannelMigrationTaskRuntimeTransition h 0%Z
  && negb ((source =? 0) || (target =? 0) || (source =? target) || (now <=? 0)%Z).

Definition validateChannelMigrationClearFenceRequest (h : trans) (completed : Z) : bool :=
  validateChannelMigrationTaskRuntimeTransition h completed.

Definition validateChannelMigrationAbortRequest (h : trans) (completed : Z) : bool :=
  (tr_status h =? StatusAborted) && validateChannelMigrationTaskRuntimeTransition h completed.

Definition validateChannelMigrationTaskGCRequest (before limit : Z) : bool :=
  negb ((before <=? 0)%Z || (limit <=? 0)%Z).

Definition validateChannelMigrationTaskCreate (t : task) (g : rguard) : bool :=
  validateChannelMigrationTask t && validateChannelMigrationRuntimeGuard g
  && bytes_eqb (t_channel_id t) (rg_channel_id g) && (t_channel_type t =? rg_channel_type g)%Z.

(* ---- guards -------------------------------------------------------------------------- *)

(* ChannelMigrationTaskGuard.matches *)
Definition tguard_matches (g : tguard) (t : task) : bool :=
  bytes_eqb (t_channel_id t) (tg_channel_id g) && (t_channel_type t =? tg_channel_type g)%Z
  && bytes_eqb (t_task_id t) (tg_task_id g) && (t_status t =? tg_expected_status g)
  && (t_phase t =? tg_expected_phase g) && (t_owner_node_id t =? tg_expected_owner_node_id g)
  && (t_owner_lease_until_ms t =? tg_expected_owner_lease_until_ms g)%Z
  && (t_updated_at_ms t =? tg_expected_updated_at_ms g)%Z.

(* ChannelMigrationRuntimeGuard.matches *)
Definition rguard_matches (g : rguard) (m : runtime_meta) : bool :=
  bytes_eqb (rm_channel_id m) (rg_channel_id g) && (rm_channel_type m =? rg_channel_type g)%Z
  && (rm_channel_epoch m =? rg_expected_channel_epoch g) && (rm_leader_epoch m =? rg_expected_leader_epoch g)
  && (rm_leader m =? rg_expected_leader g) && bytes_eqb (rm_write_fence_token m) (rg_expected_fence_token g)
  && (rm_write_fence_version m =? rg_expected_fence_version g)
  && ((rg_expected_route_generation g =? 0) || (rm_route_generation m =? rg_expected_route_generation g)).

Definition canClaimChannelMigrationTask (t : task) (owner : N) (now : Z) : bool :=
  if (t_owner_node_id t =? 0) || (t_owner_node_id t =? owner) then true
  else (0 <? t_owner_lease_until_ms t)%Z && (t_owner_lease_until_ms t <=? now)%Z.

(* ---- cutover proof --------------------------------------------------------------------- *)

Definition proof_hasAny (p : proof) : bool :=
  negb (pf_cutover_leo p =? 0) || negb (pf_cutover_hw p =? 0) || negb (pf_drained_leader_node p =? 0)
  || negb (pf_drained_runtime_generation p =? 0) || negb (pf_drained_channel_epoch p =? 0)
  || negb (pf_drained_leader_epoch p =? 0) || negb (pf_drained_fence_version p =? 0).

Definition proof_hasPartial (p : proof) : bool :=
  if negb (proof_hasAny p) then false
  else (pf_drained_leader_node p =? 0) || (pf_drained_runtime_generation p =? 0)
       || (pf_drained_channel_epoch p =? 0) || (pf_drained_leader_epoch p =? 0)
       || (pf_drained_fence_version p =? 0) || (pf_cutover_leo p <? pf_cutover_hw p).

(* true = nil, false = ErrConflict, for all require* functions *)
Definition requireChannelMigrationCutoverProof (t : task) (m : runtime_meta) (expectedFenceVersion : N) : bool :=
  let p := t_proof t in
  if (expectedFenceVersion =? 0) || negb (proof_hasAny p) || proof_hasPartial p then false
  else negb (negb (pf_drained_fence_version p =? expectedFenceVersion)
             || negb (rm_write_fence_version m =? expectedFenceVersion)
             || negb (pf_drained_channel_epoch p =? rm_channel_epoch m)
             || negb (pf_drained_leader_epoch p =? rm_leader_epoch m)
             || negb (pf_drained_leader_node p =? rm_leader m)
             || (pf_cutover_leo p <? pf_cutover_hw p)).

Definition is_empty (b : bytes) : bool := match b with [] => true | _ => false end.

Definition requireMatchingFence (m : runtime_meta) (token : bytes) (version : N) (now : Z) (allowExpired : bool) : bool :=
  if is_empty token || (version =? 0) || negb (bytes_eqb (rm_write_fence_token m) token)
     || negb (rm_write_fence_version m =? version) then false
  else negb (negb allowExpired && (rm_write_fence_until_ms m <? now)%Z).

Definition requireActiveChannelMigrationTaskFence (t : task) (m : runtime_meta) (expectedFenceVersion : N) : bool :=
  negb (is_empty (t_fence_token t) || (t_fence_version t =? 0) || (t_fence_until_ms t <=? 0)%Z
        || negb (bytes_eqb (t_fence_token t) (t_task_id t))
        || negb (bytes_eqb (t_fence_token t) (rm_write_fence_token m))
        || negb (t_fence_version t =? rm_write_fence_version m)
        || negb (t_fence_version t =? expectedFenceVersion)).

Definition taskHasFence (t : task) : bool :=
  negb (is_empty (t_fence_token t)) || negb (t_fence_version t =? 0) || negb (t_fence_until_ms t =? 0)%Z.

Definition requireNoForeignChannelMigrationFence (t : task) (m : runtime_meta) : bool :=
  let metaHasFence := negb (is_empty (rm_write_fence_token m)) in
  if negb (taskHasFence t) && negb metaHasFence then true
  else if negb (taskHasFence t) || negb metaHasFence then false
  else requireActiveChannelMigrationTaskFence t m (rm_write_fence_version m).

Definition channelMigrationTaskDesiredLeader (t : task) : N :=
  if t_embedded_leader_transfer t && negb (t_embedded_desired_leader t =? 0)
  then t_embedded_desired_leader t else t_desired_leader t.

Definition clearChannelMigrationTaskProof (t : task) : task := set_proof t proof_zero.
Definition clearChannelMigrationTaskFenceAndProof (t : task) : task :=
  clearChannelMigrationTaskProof (set_fence t [] 0 0%Z).

Definition replaceUint64Member (values : list N) (oldValue newValue : N) : list N :=
  normalizeUint64Set (map (fun v => if v =? oldValue then newValue else v) values).
Definition removeUint64Member (values : list N) (removed : N) : list N :=
  normalizeUint64Set (filter (fun v => negb (v =? removed)) values).

(* ---- transitions (true = nil, false = ErrConflict) -------------------------------------- *)

Definition requireChannelMigrationSetFenceTransition (t : task) (h : trans) : bool :=
  if negb (tr_status h =? StatusRunning) then false
  else if isLeaderTransferTaskKind (t_kind t)
          || ((t_kind t =? KindReplicaReplace) && t_embedded_leader_transfer t && isLeaderTransferPhase (t_phase t))
  then ((t_phase t =? PhaseWriteFence) && (tr_phase h =? PhaseDrainLeader))
       || (isLeaderTransferFencePhase (t_phase t) && (tr_phase h =? t_phase t))
  else if t_kind t =? KindReplicaReplace
  then ((t_phase t =? PhaseWarmCatchUp) && (tr_phase h =? PhaseCutoverFence))
       || (isReplicaReplaceFencePhase (t_phase t) && (tr_phase h =? t_phase t))
  else false.

Definition requireChannelMigrationResetFenceTransition (t : task) (h : trans) : bool :=
  if negb (tr_status h =? StatusRunning) || negb (isChannelMigrationFencePhaseAllowed t) then false
  else if isLeaderTransferTaskKind (t_kind t)
          || ((t_kind t =? KindReplicaReplace) && t_embedded_leader_transfer t && isLeaderTransferFencePhase (t_phase t))
  then (tr_phase h =? PhaseProbeTarget) || (tr_phase h =? PhaseWriteFence)
  else (t_kind t =? KindReplicaReplace) && (tr_phase h =? PhaseWarmCatchUp).

Definition requireChannelMigrationLeaderTransferTransition (t : task) (h : trans) : bool :=
  if negb (tr_status h =? StatusRunning) || negb (t_phase t =? PhaseCommitLeaderMeta)
     || negb (tr_phase h =? PhaseVerifyNewLeader) then false
  else if isLeaderTransferTaskKind (t_kind t) then true
  else (t_kind t =? KindReplicaReplace) && t_embedded_leader_transfer t.

Definition requireChannelMigrationAddLearnerTransition (t : task) (h : trans) : bool :=
  negb (negb (t_kind t =? KindReplicaReplace) || negb (t_phase t =? PhaseAddLearner)
        || negb (tr_status h =? StatusRunning) || negb (tr_phase h =? PhaseBootstrapTarget)).

Definition requireChannelMigrationPromoteLearnerTransition (t : task) (h : trans) : bool :=
  negb (negb (t_kind t =? KindReplicaReplace) || negb (t_phase t =? PhasePromoteAndRemove)
        || negb (tr_status h =? StatusRunning) || negb (tr_phase h =? PhaseVerifyMembership)).

Definition requireChannelMigrationClearFenceTransition (t : task) (h : trans) (completed : Z) : bool :=
  if negb (isChannelMigrationFencePhaseAllowed t) then false
  else if (tr_status h =? StatusCompleted) && (tr_phase h =? PhaseClearFence) && (0 <? completed)%Z
  then if isLeaderTransferTaskKind (t_kind t)
       then (t_phase t =? PhaseVerifyNewLeader) || (isTerminal t && (t_phase t =? PhaseClearFence))
       else if t_kind t =? KindReplicaReplace
       then (t_phase t =? PhaseVerifyMembership) || (isTerminal t && (t_phase t =? PhaseClearFence))
       else false
  else (t_kind t =? KindReplicaReplace) && t_embedded_leader_transfer t
       && (t_phase t =? PhaseVerifyNewLeader) && (tr_status h =? StatusRunning)
       && (tr_phase h =? PhaseAddLearner) && (completed =? 0)%Z.

Definition isChannelMigrationClearFenceIdempotent (t : task) (m : runtime_meta) (h : trans) (completed : Z) : bool :=
  if negb (tr_status h =? StatusCompleted) || negb (tr_phase h =? PhaseClearFence) || (completed <=? 0)%Z
     || negb (isTerminal t) || negb (t_status t =? StatusCompleted) || negb (t_phase t =? PhaseClearFence)
     || negb (t_updated_at_ms t =? tr_updated_at_ms h)%Z || negb (t_completed_at_ms t =? completed)%Z
  then false
  else if negb (is_empty (t_fence_token t)) || negb (t_fence_version t =? 0) || negb (t_fence_until_ms t =? 0)%Z
          || negb (proof_eqb (t_proof t) proof_zero)
  then false
  else let g := tr_rguard h in
    bytes_eqb (rm_channel_id m) (rg_channel_id g) && (rm_channel_type m =? rg_channel_type g)%Z
    && (rm_channel_epoch m =? rg_expected_channel_epoch g) && (rm_leader_epoch m =? rg_expected_leader_epoch g)
    && (rm_leader m =? rg_expected_leader g) && is_empty (rm_write_fence_token m)
    && (rm_write_fence_version m =? wrap64 (rg_expected_fence_version g + 1))
    && (rm_write_fence_reason m =? 0) && (rm_write_fence_until_ms m =? 0)%Z.

Definition requireChannelMigrationAbortTransition (t : task) : bool :=
  if isLeaderTransferTaskKind (t_kind t) then isLeaderTransferAbortPhase (t_phase t)
  else if t_kind t =? KindReplicaReplace then
    if t_embedded_leader_transfer t && isLeaderTransferPhase (t_phase t)
    then isLeaderTransferAbortPhase (t_phase t)
    else isReplicaReplaceAbortPhase (t_phase t)
  else false.

(* ---- errors ---------------------------------------------------------------------------- *)

Inductive err := EConflict | ENotFound | EAlreadyExists | EInvalidArgument | EOther.

Inductive res (A : Type) := Ok (a : A) | Err (e : err).
Arguments Ok {A} a.
Arguments Err {A} e.

Definition err_eqb (a b : err) : bool :=
  match a, b with
  | EConflict, EConflict | ENotFound, ENotFound | EAlreadyExists, EAlreadyExists
  | EInvalidArgument, EInvalidArgument | EOther, EOther => true
  | _, _ => false
  end.

(* isStaleMetaCommitError *)
Definition isStaleMetaCommitError (e : err) : bool :=
  match e with EConflict | ENotFound | EAlreadyExists => true | _ => false end.

(* ---- the mutators of the nine guarded commands --------------------------------------------
   each returns the next task (and next meta), or the error of the closure *)

Definition mutClaim (t : task) (status phase owner : N) (owner_lease now updated : Z) : res task :=
  if negb (canClaimChannelMigrationTask t owner now) then Err EConflict
  else Ok (set_owner (set_status_phase_updated t status phase updated) owner owner_lease).

Definition mutAdvance (t : task) (status phase attempt : N) (next_run : Z) (bc bm le : bytes)
           (updated completed : Z) (pg : progress) (pf : proof) (edl : N) : res task :=
  let t := set_completed (set_advance_fields (set_status_phase_updated t status phase updated)
                            attempt next_run bc bm le pg) completed in
  let t := if negb (proof_eqb pf proof_zero) then set_proof t pf else t in
  let t := if negb (edl =? 0) then set_embedded t true edl else t in
  Ok t.

Definition mutSetFence (t : task) (m : runtime_meta) (h : trans) (reason : N) (until_ms : Z)
  : res (task * runtime_meta) :=
  if negb (requireChannelMigrationSetFenceTransition t h) then Err EConflict
  else if negb (requireNoForeignChannelMigrationFence t m) then Err EConflict
  else
    let v := wrap64 (rm_write_fence_version m + 1) in
    let nt := set_status_phase_updated
                (set_fence (clearChannelMigrationTaskProof t) (t_task_id t) v until_ms)
                (tr_status h) (tr_phase h) (tr_updated_at_ms h) in
    Ok (nt, set_write_fence m (t_task_id t) v reason until_ms).

Definition mutReset (t : task) (m : runtime_meta) (h : trans) (now : Z) : res (task * runtime_meta) :=
  let g := tr_rguard h in
  if negb (requireChannelMigrationResetFenceTransition t h) then Err EConflict
  else if negb (requireActiveChannelMigrationTaskFence t m (rg_expected_fence_version g)) then Err EConflict
  else if negb (requireMatchingFence m (rg_expected_fence_token g) (rg_expected_fence_version g) 0%Z true)
  then Err EConflict
  else if (now <=? rm_write_fence_until_ms m)%Z then Err EConflict
  else Ok (set_status_phase_updated (clearChannelMigrationTaskFenceAndProof t)
             (tr_status h) (tr_phase h) (tr_updated_at_ms h),
           clearChannelRuntimeMetaFence m).

Definition set_leader (m : runtime_meta) (leader leader_epoch : N) (lease : Z) : runtime_meta :=
  RuntimeMeta (rm_channel_id m) (rm_channel_type m) (rm_channel_epoch m) leader_epoch
    (rm_route_generation m) (rm_replicas m) (rm_isr m) leader (rm_min_isr m) (rm_status m) (rm_features m)
    lease (rm_retention_through_seq m) (rm_retention_updated_at_ms m)
    (rm_write_fence_token m) (rm_write_fence_version m) (rm_write_fence_reason m)
    (rm_write_fence_until_ms m) (rm_directory_generation m).

Definition set_membership (m : runtime_meta) (replicas isr : list N) (channel_epoch : N) : runtime_meta :=
  RuntimeMeta (rm_channel_id m) (rm_channel_type m) channel_epoch (rm_leader_epoch m)
    (rm_route_generation m) replicas isr (rm_leader m) (rm_min_isr m) (rm_status m) (rm_features m)
    (rm_lease_until_ms m) (rm_retention_through_seq m) (rm_retention_updated_at_ms m)
    (rm_write_fence_token m) (rm_write_fence_version m) (rm_write_fence_reason m)
    (rm_write_fence_until_ms m) (rm_directory_generation m).

Definition mutCommit (t : task) (m : runtime_meta) (h : trans) (desired next_epoch : N) (lease now : Z)
  : res (task * runtime_meta) :=
  let g := tr_rguard h in
  if negb (requireChannelMigrationLeaderTransferTransition t h) then Err EConflict
  else if negb (requireMatchingFence m (rg_expected_fence_token g) (rg_expected_fence_version g) now false)
  then Err EConflict
  else if negb (requireActiveChannelMigrationTaskFence t m (rg_expected_fence_version g)) then Err EConflict
  else if negb (requireChannelMigrationCutoverProof t m (rg_expected_fence_version g)) then Err EConflict
  else if negb (desired =? channelMigrationTaskDesiredLeader t) || negb (containsUint64 (rm_isr m) desired)
          || (next_epoch <=? rm_leader_epoch m)
  then Err EConflict
  else Ok (set_status_phase_updated t (tr_status h) (tr_phase h) (tr_updated_at_ms h),
           set_leader m desired next_epoch lease).

Definition isr_below_min (m : runtime_meta) : bool := (Z.of_nat (length (rm_isr m)) <? rm_min_isr m)%Z.

Definition mutAddLearner (t : task) (m : runtime_meta) (h : trans) (target : N) : res (task * runtime_meta) :=
  if negb (requireChannelMigrationAddLearnerTransition t h) then Err EConflict
  else
    let sourceInISR := containsUint64 (rm_isr m) (t_source_node t) in
    if negb (target =? t_target_node t) || (rm_leader m =? t_source_node t)
       || negb (containsUint64 (rm_replicas m) (t_source_node t))
       || (negb sourceInISR && isr_below_min m)
       || containsUint64 (rm_replicas m) target || containsUint64 (rm_isr m) target
    then Err EConflict
    else
      let nm := if negb (containsUint64 (rm_replicas m) target)
                then set_membership m (rm_replicas m ++ [target]) (rm_isr m) (wrap64 (rm_channel_epoch m + 1))
                else m in
      Ok (set_status_phase_updated t (tr_status h) (tr_phase h) (tr_updated_at_ms h), nm).

Definition mutPromote (t : task) (m : runtime_meta) (h : trans) (source target : N) (now : Z)
  : res (task * runtime_meta) :=
  let g := tr_rguard h in
  if negb (requireChannelMigrationPromoteLearnerTransition t h) then Err EConflict
  else if negb (requireMatchingFence m (rg_expected_fence_token g) (rg_expected_fence_version g) now false)
  then Err EConflict
  else if negb (requireActiveChannelMigrationTaskFence t m (rg_expected_fence_version g)) then Err EConflict
  else if negb (requireChannelMigrationCutoverProof t m (rg_expected_fence_version g)) then Err EConflict
  else
    let sourceInISR := containsUint64 (rm_isr m) source in
    if negb (source =? t_source_node t) || negb (target =? t_target_node t) || (rm_leader m =? source)
       || negb (containsUint64 (rm_replicas m) source) || negb (containsUint64 (rm_replicas m) target)
       || (negb sourceInISR && isr_below_min m) || containsUint64 (rm_isr m) target
    then Err EConflict
    else
      let replicas := replaceUint64Member (rm_replicas m) source target in
      let isr := if sourceInISR then replaceUint64Member (rm_isr m) source target
                 else normalizeUint64Set (rm_isr m ++ [target]) in
      Ok (set_status_phase_updated t (tr_status h) (tr_phase h) (tr_updated_at_ms h),
          set_membership m replicas isr (wrap64 (rm_channel_epoch m + 1))).

Definition mutClear (t : task) (m : runtime_meta) (h : trans) (completed : Z) : res (task * runtime_meta) :=
  let g := tr_rguard h in
  if negb (requireChannelMigrationClearFenceTransition t h completed) then Err EConflict
  else if isChannelMigrationClearFenceIdempotent t m h completed then Ok (t, m)
  else if negb (requireActiveChannelMigrationTaskFence t m (rg_expected_fence_version g)) then Err EConflict
  else if negb (requireMatchingFence m (rg_expected_fence_token g) (rg_expected_fence_version g) 0%Z true)
  then Err EConflict
  else
    let nt := set_completed (set_status_phase_updated (clearChannelMigrationTaskFenceAndProof t)
                               (tr_status h) (tr_phase h) (tr_updated_at_ms h)) completed in
    let nt := if (t_kind t =? KindReplicaReplace) && t_embedded_leader_transfer t
                 && (t_phase t =? PhaseVerifyNewLeader) && (tr_status h =? StatusRunning)
                 && (tr_phase h =? PhaseAddLearner)
              then set_embedded nt false 0 else nt in
    Ok (nt, clearChannelRuntimeMetaFence m).

Definition mutAbort (t : task) (m : runtime_meta) (h : trans) (completed : Z) (last_error : bytes)
  : res (task * runtime_meta) :=
  let g := tr_rguard h in
  if isTerminal t then Err EConflict
  else if negb (requireChannelMigrationAbortTransition t) then Err EConflict
  else
    let nt := set_last_error
                (set_completed (set_status_phase_updated (clearChannelMigrationTaskFenceAndProof t)
                                  (tr_status h) (tr_phase h) (tr_updated_at_ms h)) completed)
                last_error in
    let fenced := negb (is_empty (rm_write_fence_token m)) in
    if fenced && negb (requireActiveChannelMigrationTaskFence t m (rg_expected_fence_version g)) then Err EConflict
    else if fenced && negb (requireMatchingFence m (rg_expected_fence_token g) (rg_expected_fence_version g) 0%Z true)
    then Err EConflict
    else if negb fenced && taskHasFence t then Err EConflict
    else
      let nm := if fenced then clearChannelRuntimeMetaFence m else m in
      let nm := if (t_kind t =? KindReplicaReplace) && canAbortRemoveUnpromotedChannelMigrationLearner t
                   && containsUint64 (rm_replicas nm) (t_target_node t)
                   && negb (containsUint64 (rm_isr nm) (t_target_node t))
                then set_membership nm (removeUint64Member (rm_replicas nm) (t_target_node t)) (rm_isr nm)
                       (wrap64 (rm_channel_epoch nm + 1))
                else nm in
      Ok (nt, nm).

(* ---- the database ------------------------------------------------------------------------ *)

Record chan_key := ChanKey { ck_id : bytes; ck_type : Z }.
Definition chan_key_eqb (a b : chan_key) : bool :=
  bytes_eqb (ck_id a) (ck_id b) && (ck_type a =? ck_type b)%Z.

Record tkey := TKey { tk_chan : chan_key; tk_task_id : bytes }.
Definition tkey_eqb (a b : tkey) : bool :=
  chan_key_eqb (tk_chan a) (tk_chan b) && bytes_eqb (tk_task_id a) (tk_task_id b).

Definition task_chan (t : task) : chan_key := ChanKey (t_channel_id t) (t_channel_type t).
Definition task_key (t : task) : tkey := TKey (task_chan t) (t_task_id t).
Definition tguard_key (g : tguard) : tkey := TKey (ChanKey (tg_channel_id g) (tg_channel_type g)) (tg_task_id g).
Definition rguard_chan (g : rguard) : chan_key := ChanKey (rg_channel_id g) (rg_channel_type g).
Definition meta_chan (m : runtime_meta) : chan_key := ChanKey (rm_channel_id m) (rm_channel_type m).

(* primary-key order of the task table: keycodec strings are length-prefixed
   (2-byte big-endian length, then the bytes), the channel type is an order-preserving int64 *)
Fixpoint bytes_ltb (a b : bytes) : bool :=
  match a, b with
  | [], [] => false
  | [], _ => true
  | _, [] => false
  | x :: a', y :: b' => (x <? y) || ((x =? y) && bytes_ltb a' b')
  end.

Definition keystr_ltb (a b : bytes) : bool :=
  (length a <? length b)%nat || ((length a =? length b)%nat && bytes_ltb a b).

Definition tkey_ltb (a b : tkey) : bool :=
  let ca := tk_chan a in let cb := tk_chan b in
  if keystr_ltb (ck_id ca) (ck_id cb) then true
  else if negb (bytes_eqb (ck_id ca) (ck_id cb)) then false
  else if (ck_type ca <? ck_type cb)%Z then true
  else if negb (ck_type ca =? ck_type cb)%Z then false
  else keystr_ltb (tk_task_id a) (tk_task_id b).

Record db := Db {
  db_tasks : list task;                       (* primary rows, in primary-key order *)
  db_active : list (chan_key * bytes);        (* active index: channel -> task id *)
  db_metas : list (chan_key * runtime_meta) }.

Definition db_empty : db := Db [] [] [].

Fixpoint task_get (l : list task) (k : tkey) : option task :=
  match l with
  | [] => None
  | t :: r => if tkey_eqb (task_key t) k then Some t else task_get r k
  end.

Fixpoint task_del (l : list task) (k : tkey) : list task :=
  match l with
  | [] => []
  | u :: r => if tkey_eqb (task_key u) k then task_del r k else u :: task_del r k
  end.

(* Set(primaryKey, value): the row replaces any row with the same key; rows are kept in key order *)
Fixpoint task_insert (l : list task) (t : task) : list task :=
  match l with
  | [] => [t]
  | u :: r => if tkey_ltb (task_key t) (task_key u) then t :: l else u :: task_insert r t
  end.

Definition task_put (l : list task) (t : task) : list task := task_insert (task_del l (task_key t)) t.

Section Assoc.
  Context {K V : Type} (eqb : K -> K -> bool).
  Fixpoint assoc_get (l : list (K * V)) (k : K) : option V :=
    match l with
    | [] => None
    | (k', v) :: r => if eqb k' k then Some v else assoc_get r k
    end.
  Fixpoint assoc_put (l : list (K * V)) (k : K) (v : V) : list (K * V) :=
    match l with
    | [] => [(k, v)]
    | (k', v') :: r => if eqb k' k then (k', v) :: r else (k', v') :: assoc_put r k v
    end.
  Fixpoint assoc_del (l : list (K * V)) (k : K) : list (K * V) :=
    match l with
    | [] => []
    | (k', v') :: r => if eqb k' k then assoc_del r k else (k', v') :: assoc_del r k
    end.
End Assoc.

Definition active_get (d : db) (c : chan_key) : option bytes := assoc_get chan_key_eqb (db_active d) c.
Definition meta_get (d : db) (c : chan_key) : option runtime_meta := assoc_get chan_key_eqb (db_metas d) c.

Definition db_put_task (d : db) (t : task) : db := Db (task_put (db_tasks d) t) (db_active d) (db_metas d).
Definition db_del_task (d : db) (k : tkey) : db := Db (task_del (db_tasks d) k) (db_active d) (db_metas d).
Definition db_set_active (d : db) (c : chan_key) (id : bytes) : db :=
  Db (db_tasks d) (assoc_put chan_key_eqb (db_active d) c id) (db_metas d).
Definition db_del_active (d : db) (c : chan_key) : db :=
  Db (db_tasks d) (assoc_del chan_key_eqb (db_active d) c) (db_metas d).
Definition db_put_meta (d : db) (c : chan_key) (m : runtime_meta) : db :=
  Db (db_tasks d) (db_active d) (assoc_put chan_key_eqb (db_metas d) c m).

(* ---- one commit: committed DB [d] (reads), pending writes, overlay maps ------------------- *)

Record cstate := CState {
  cs_pend : db;                               (* the engine batch applied to a copy of the DB *)
  cs_otasks : list (tkey * task);             (* batchCommitState.migrationTasks (written entries) *)
  cs_ometas : list (chan_key * runtime_meta)  (* batchCommitState.runtimeMeta (written entries) *) }.

(* batchCommitState.loadChannelMigrationTask / loadRuntimeMeta: overlay first, else the committed DB *)
Definition loadChannelMigrationTask (d : db) (cs : cstate) (k : tkey) : option task :=
  match assoc_get tkey_eqb (cs_otasks cs) k with
  | Some t => Some t
  | None => task_get (db_tasks d) k
  end.

Definition loadRuntimeMeta (d : db) (cs : cstate) (c : chan_key) : option runtime_meta :=
  match assoc_get chan_key_eqb (cs_ometas cs) c with
  | Some m => Some m
  | None => meta_get d c
  end.

(* ensureChannelMigrationActiveAvailable — reads the COMMITTED DB *)
Definition ensureChannelMigrationActiveAvailable (d : db) (t : task) : bool :=
  match active_get d (task_chan t) with
  | None => true
  | Some existingTaskID =>
    if bytes_eqb existingTaskID (t_task_id t) then true
    else match task_get (db_tasks d) (TKey (task_chan t) existingTaskID) with
         | None => true
         | Some existing => negb (isActive existing)
         end
  end.

(* stageUpsertChannelMigrationTask: [existing] comes from the committed DB, writes go to [pend] *)
Definition stageUpsertChannelMigrationTask (d : db) (pend : db) (t : task) : res db :=
  if negb (validateChannelMigrationTask t) then Err EInvalidArgument
  else
    let existing := task_get (db_tasks d) (task_key t) in
    if isActive t then
      if negb (ensureChannelMigrationActiveAvailable d t) then Err EAlreadyExists
      else Ok (db_put_task (db_set_active pend (task_chan t) (t_task_id t)) t)
    else
      match existing with
      | Some e => if isActive e then Ok (db_put_task (db_del_active pend (task_chan t)) t)
                  else Ok (db_put_task pend t)
      | None => Ok (db_put_task pend t)
      end.

Definition cs_write_task (cs : cstate) (pend : db) (t : task) : cstate :=
  CState pend (assoc_put tkey_eqb (cs_otasks cs) (task_key t) t) (cs_ometas cs).

(* the deferred operations a WriteBatch accumulates *)
Inductive op :=
| OpUpsertMeta (m : runtime_meta)
| OpCreate (t : task)
| OpGuardCheck (t : task) (g : rguard)
| OpTask (c : cmd)            (* stageChannelMigrationTask: CClaim / CAdvance *)
| OpTaskMeta (c : cmd)        (* stageChannelMigrationTaskAndMeta: the seven task+meta commands *)
| OpGC (before limit : Z).

(* what the FSM decodes from EncodeUpsertChannelRuntimeMetaCommand(m): the encoder
   normalizes, the wire format has no DirectoryGeneration field *)
Definition upsert_wire (m : runtime_meta) : runtime_meta :=
  set_directory_generation (normalizeChannelRuntimeMeta m) 0.

(* Batch.UpsertChannelRuntimeMeta, commit part *)
Definition opUpsertMeta (d : db) (cs : cstate) (m : runtime_meta) : res cstate :=
  let c := meta_chan m in
  let existing := loadRuntimeMeta d cs c in
  let '(next, result) := resolveMonotonicChannelRuntimeMeta
                           (match existing with Some e => e | None => runtime_meta_zero end)
                           (match existing with Some _ => true | None => false end) m in
  if result =? MonotonicIgnoredStale then Ok cs
  else if result =? MonotonicConflict then Err EConflict
  else Ok (CState (db_put_meta (cs_pend cs) c next) (cs_otasks cs)
                  (assoc_put chan_key_eqb (cs_ometas cs) c next)).

(* WriteBatch.CreateChannelMigrationTask, commit part *)
Definition opCreate (d : db) (cs : cstate) (t : task) : res cstate :=
  match loadChannelMigrationTask d cs (task_key t) with
  | Some existing => if task_eqb existing t then Ok cs else Err EAlreadyExists
  | None =>
    match stageUpsertChannelMigrationTask d (cs_pend cs) t with
    | Err e => Err e
    | Ok pend => Ok (cs_write_task cs pend t)
    end
  end.

(* WriteBatch.CreateChannelMigrationTaskWithRuntimeGuard, the guard op *)
Definition opGuardCheck (d : db) (cs : cstate) (t : task) (g : rguard) : res cstate :=
  match loadChannelMigrationTask d cs (task_key t) with
  | Some existing => if task_eqb existing t then Ok cs else Err EAlreadyExists
  | None =>
    match loadRuntimeMeta d cs (rguard_chan g) with
    | None => Err ENotFound
    | Some m => if rguard_matches g m then Ok cs else Err EConflict
    end
  end.

Definition cmd_tguard (c : cmd) : option tguard :=
  match c with
  | CClaim g _ _ _ _ _ _ => Some g
  | CAdvance g _ _ _ _ _ _ _ _ _ _ _ _ => Some g
  | CSetFence h _ _ | CReset h _ | CCommit h _ _ _ _ | CAddLearner h _ | CPromote h _ _ _
  | CClear h _ | CAbort h _ _ => Some (tr_guard h)
  | _ => None
  end.

Definition cmd_trans (c : cmd) : option trans :=
  match c with
  | CSetFence h _ _ | CReset h _ | CCommit h _ _ _ _ | CAddLearner h _ | CPromote h _ _ _
  | CClear h _ | CAbort h _ _ => Some h
  | _ => None
  end.

Definition mutate_task (c : cmd) (t : task) : res task :=
  match c with
  | CClaim _ status phase owner lease now updated => mutClaim t status phase owner lease now updated
  | CAdvance _ status phase attempt next_run bc bm le updated completed pg pf edl =>
      mutAdvance t status phase attempt next_run bc bm le updated completed pg pf edl
  | _ => Err EOther
  end.

Definition mutate_task_meta (c : cmd) (t : task) (m : runtime_meta) : res (task * runtime_meta) :=
  match c with
  | CSetFence h reason until_ms => mutSetFence t m h reason until_ms
  | CReset h now => mutReset t m h now
  | CCommit h desired next_epoch lease now => mutCommit t m h desired next_epoch lease now
  | CAddLearner h target => mutAddLearner t m h target
  | CPromote h source target now => mutPromote t m h source target now
  | CClear h completed => mutClear t m h completed
  | CAbort h completed le => mutAbort t m h completed le
  | _ => Err EOther
  end.

(* WriteBatch.stageChannelMigrationTask, commit part *)
Definition stageChannelMigrationTask (d : db) (cs : cstate) (c : cmd) : res cstate :=
  match cmd_tguard c with
  | None => Err EOther
  | Some g =>
    match loadChannelMigrationTask d cs (tguard_key g) with
    | None => Err ENotFound
    | Some t =>
      if negb (tguard_matches g t) then Err EConflict
      else match mutate_task c t with
           | Err e => Err e
           | Ok next =>
             match stageUpsertChannelMigrationTask d (cs_pend cs) next with
             | Err e => Err e
             | Ok pend => Ok (cs_write_task cs pend next)
             end
           end
    end
  end.

(* WriteBatch.stageChannelMigrationTaskAndMeta, commit part *)
Definition stageChannelMigrationTaskAndMeta (d : db) (cs : cstate) (c : cmd) : res cstate :=
  match cmd_trans c with
  | None => Err EOther
  | Some h =>
    let g := tr_guard h in
    let rg := tr_rguard h in
    match loadChannelMigrationTask d cs (tguard_key g) with
    | None => Err ENotFound
    | Some t =>
      match loadRuntimeMeta d cs (rguard_chan rg) with
      | None => Err ENotFound
      | Some m =>
        match mutate_task_meta c t m with
        | Err e => Err e
        | Ok (nextTask, nextMeta0) =>
          let nextMeta := bumpRuntimeRoute m (normalizeChannelRuntimeMeta nextMeta0) true in
          if negb (tguard_matches g t) || negb (rguard_matches rg m) then
            if task_eqb t nextTask && channelRuntimeMetaEqual m nextMeta then Ok cs else Err EConflict
          else if isTerminal t && negb (task_eqb t nextTask) then Err EConflict
          else if negb (validateChannelMigrationTask nextTask) then Err EInvalidArgument
          else if negb (validateChannelRuntimeMeta nextMeta) then Err EInvalidArgument
          else
            match stageUpsertChannelMigrationTask d (cs_pend cs) nextTask with
            | Err e => Err e
            | Ok pend =>
              Ok (CState (db_put_meta pend (rguard_chan rg) nextMeta)
                         (assoc_put tkey_eqb (cs_otasks cs) (task_key nextTask) nextTask)
                         (assoc_put chan_key_eqb (cs_ometas cs) (rguard_chan rg) nextMeta))
            end
        end
      end
    end
  end.

(* DeleteTerminalChannelMigrationTasksBefore, commit part: scans the COMMITTED primary
   rows in key order, deletes from the pending batch, does not touch the overlay *)
Fixpoint gc_scan (tasks : list task) (pend : db) (before : Z) (limit deleted : Z) : db :=
  match tasks with
  | [] => pend
  | t :: r =>
    if (limit <=? deleted)%Z then pend
    else if negb (isTerminal t) || (before <=? t_completed_at_ms t)%Z then gc_scan r pend before limit deleted
    else gc_scan r (db_del_task pend (task_key t)) before limit (deleted + 1)%Z
  end.

Definition opGC (d : db) (cs : cstate) (before limit : Z) : res cstate :=
  Ok (CState (gc_scan (db_tasks d) (cs_pend cs) before limit 0%Z) (cs_otasks cs) (cs_ometas cs)).

Definition run_op (d : db) (cs : cstate) (o : op) : res cstate :=
  match o with
  | OpUpsertMeta m => opUpsertMeta d cs m
  | OpCreate t => opCreate d cs t
  | OpGuardCheck t g => opGuardCheck d cs t g
  | OpTask c => stageChannelMigrationTask d cs c
  | OpTaskMeta c => stageChannelMigrationTaskAndMeta d cs c
  | OpGC before limit => opGC d cs before limit
  end.

(* Batch.Commit: the Build loop; the first error aborts the whole commit *)
Fixpoint run_ops (d : db) (cs : cstate) (ops : list op) : res cstate :=
  match ops with
  | [] => Ok cs
  | o :: r => match run_op d cs o with
              | Err e => Err e
              | Ok cs' => run_ops d cs' r
              end
  end.

Definition commit (d : db) (ops : list op) : res db :=
  match run_ops d (CState d [] []) ops with
  | Err e => Err e
  | Ok cs => Ok (cs_pend cs)
  end.

(* ---- staging (command.apply on the WriteBatch) ------------------------------------------- *)

Record wbatch := WBatch {
  wb_ops : list op;                          (* in staging order *)
  wb_creates : list (tkey * task);           (* WriteBatch.migrationCreates *)
  wb_active : list chan_key                  (* Batch.migrationActive *) }.

Definition wb_empty : wbatch := WBatch [] [] [].
Definition wb_add (w : wbatch) (o : op) : wbatch := WBatch (wb_ops w ++ [o]) (wb_creates w) (wb_active w).

Inductive stage_res := SOk | SStale | SErr (e : err).

(* WriteBatch.CreateChannelMigrationTask, staging part; AlreadyExists is a stale result
   for both create commands (isStaleMetaResult) *)
Definition stageCreate (w : wbatch) (t : task) : wbatch * stage_res :=
  if negb (validateChannelMigrationTask t) then (w, SErr EInvalidArgument)
  else
    match assoc_get tkey_eqb (wb_creates w) (task_key t) with
    | Some existing => if task_eqb existing t then (w, SOk) else (w, SStale)
    | None =>
      if isActive t && existsb (chan_key_eqb (task_chan t)) (wb_active w) then (w, SStale)
      else
        let active := if isActive t then wb_active w ++ [task_chan t] else wb_active w in
        (WBatch (wb_ops w ++ [OpCreate t]) (wb_creates w ++ [(task_key t, t)]) active, SOk)
    end.

Definition stage_guarded (ok : bool) (w : wbatch) (o : op) : wbatch * stage_res :=
  if ok then (wb_add w o, SOk) else (w, SErr EInvalidArgument).

Definition stage_cmd (w : wbatch) (c : cmd) : wbatch * stage_res :=
  match c with
  | CUpsertMeta m =>
      let m' := upsert_wire m in
      stage_guarded (validateChannelRuntimeMeta m') w (OpUpsertMeta m')
  | CCreate t => stageCreate w t
  | CCreateGuarded t g =>
      if negb (validateChannelMigrationTaskCreate t g) then (w, SErr EInvalidArgument)
      else stageCreate (wb_add w (OpGuardCheck t g)) t
  | CClaim g _ _ owner lease now _ =>
      stage_guarded (validateChannelMigrationTaskClaim g owner lease now) w (OpTask c)
  | CAdvance _ _ _ _ _ _ _ _ _ _ _ _ _ => (wb_add w (OpTask c), SOk)
  | CSetFence h reason until_ms =>
      stage_guarded (validateChannelMigrationFenceRequest h reason until_ms) w (OpTaskMeta c)
  | CReset h now => stage_guarded (validateChannelMigrationResetFenceRequest h now) w (OpTaskMeta c)
  | CCommit h desired next_epoch lease now =>
      stage_guarded (validateChannelMigrationLeaderTransferRequest h desired next_epoch lease now) w (OpTaskMeta c)
  | CAddLearner h target => stage_guarded (validateChannelMigrationAddLearnerRequest h target) w (OpTaskMeta c)
  | CPromote h source target now =>
      stage_guarded (validateChannelMigrationPromoteLearnerRequest h source target now) w (OpTaskMeta c)
  | CClear h completed => stage_guarded (validateChannelMigrationClearFenceRequest h completed) w (OpTaskMeta c)
  | CAbort h completed _ => stage_guarded (validateChannelMigrationAbortRequest h completed) w (OpTaskMeta c)
  | CGC before limit => stage_guarded (validateChannelMigrationTaskGCRequest before limit) w (OpGC before limit)
  end.

(* the command loop of ApplyBatch: results so far (0 ok, 1 stale_meta), or the error that
   makes ApplyBatch return without committing *)
Fixpoint stage_all (w : wbatch) (cs : list cmd) : res (wbatch * list N) :=
  match cs with
  | [] => Ok (w, [])
  | c :: r =>
    match stage_cmd w c with
    | (_, SErr e) => Err e
    | (w', sr) =>
      match stage_all w' r with
      | Err e => Err e
      | Ok (w'', rs) => Ok (w'', (match sr with SOk => 0 | _ => 1 end) :: rs)
      end
    end
  end.

(* ---- ApplyBatch ------------------------------------------------------------------------------ *)

Inductive bres := BErr (e : err) | BResults (rs : list N).

Inductive core_res := CoreErr (e : err) | CoreStale | CoreOk (d : db) (rs : list N).

Definition apply_core (d : db) (cs : list cmd) : core_res :=
  match stage_all wb_empty cs with
  | Err e => CoreErr e
  | Ok (w, rs) =>
    match commit d (wb_ops w) with
    | Ok d' => CoreOk d' rs
    | Err e => if isStaleMetaCommitError e then CoreStale else CoreErr e
    end
  end.

(* ApplyBatch with exactly one command *)
Definition apply_one (d : db) (c : cmd) : db * res N :=
  match apply_core d [c] with
  | CoreErr e => (d, Err e)
  | CoreStale => (d, Ok 1)
  | CoreOk d' rs => (d', Ok (hd 0 rs))
  end.

(* applyCommandsIndividuallyAfterStaleCommit *)
Fixpoint apply_individually (d : db) (cs : list cmd) : db * res (list N) :=
  match cs with
  | [] => (d, Ok [])
  | c :: r =>
    match apply_one d c with
    | (d', Err e) => (d', Err e)
    | (d', Ok x) =>
      match apply_individually d' r with
      | (d'', Err e) => (d'', Err e)
      | (d'', Ok xs) => (d'', Ok (x :: xs))
      end
    end
  end.

Definition ApplyBatch (d : db) (cs : list cmd) : db * bres :=
  match apply_core d cs with
  | CoreErr e => (d, BErr e)
  | CoreOk d' rs => (d', BResults rs)
  | CoreStale =>
    match cs with
    | [_] => (d, BResults [1])
    | _ => match apply_individually d cs with
           | (d', Err e) => (d', BErr e)
           | (d', Ok rs) => (d', BResults rs)
           end
    end
  end.
