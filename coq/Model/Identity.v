(* Model/Identity.v — durable entry identity of pkg/quorumlog/proposal.go:
   digestProposalEntry (pre-image layout), DeriveProposalEntries,
   SealProposalManifest, VerifyEntry, ProposalManifest.StructurallyValid/ValidFor.
   SHA-256 is the section variable [H]; the domain-separation string and the
   format version come from the regenerated Gen/Consts_C05.v.  Definitions only. *)
From WK Require Import Base.Base Base.Bytes.
From WK Require Import Gen.Consts_C05.
Open Scope N_scope.

(* quorumlog.ProposalManifest *)
Record manifest := Manifest {
  m_version : N; m_epoch : N; m_term : N; m_fence : N; m_cmd : bytes;
  m_base : N; m_last : N; m_prev_term : N; m_prev_index : N;
  m_prev_digest : bytes; m_digest : bytes }.

(* quorumlog.EntryIdentity *)
Record entry := Entry {
  e_version : N; e_epoch : N; e_term : N; e_fence : N; e_index : N;
  e_prev_term : N; e_prev_index : N; e_cmd : bytes; e_prev_digest : bytes; e_digest : bytes }.

(* quorumlog.Record (ServerTimestampMS is an int64) *)
Record record := Rec {
  r_id : N; r_index : N; r_epoch : N; r_setting : N; r_uid : bytes; r_clientno : bytes;
  r_ts : Z; r_sync : bool; r_payload : bytes }.

Definition zero32 : bytes := repeat 0 32.
(* x == (CommandID{}) / (EntryDigest{}) *)
Definition is_zero32 (b : bytes) : bool := bytes_eqb b zero32.

(* uint64(int64) *)
Definition u64_of_i64 (z : Z) : N := Z.to_N (z mod 18446744073709551616).

Definition sync_byte (b : bool) : N := if b then 1 else 0.

(* the byte string digestProposalEntry streams into the hash, in order *)
Definition preimage (e : entry) (r : record) : bytes :=
  entry_domain
  ++ put_u64 (e_epoch e) ++ put_u64 (e_term e) ++ put_u64 (e_fence e)
  ++ put_u64 (e_index e) ++ put_u64 (e_prev_term e) ++ put_u64 (e_prev_index e)
  ++ e_cmd e ++ e_prev_digest e
  ++ put_u64 (r_id r) ++ put_u8 (r_setting r) ++ put_u8 (sync_byte (r_sync r))
  ++ put_u64 (u64_of_i64 (r_ts r))
  ++ put_bytes64 (r_uid r) ++ put_bytes64 (r_clientno r) ++ put_bytes64 (r_payload r).

Definition with_digest (e : entry) (d : bytes) : entry :=
  Entry (e_version e) (e_epoch e) (e_term e) (e_fence e) (e_index e)
        (e_prev_term e) (e_prev_index e) (e_cmd e) (e_prev_digest e) d.

Definition manifest_with_digest (m : manifest) (d : bytes) : manifest :=
  Manifest (m_version m) (m_epoch m) (m_term m) (m_fence m) (m_cmd m) (m_base m) (m_last m)
           (m_prev_term m) (m_prev_index m) (m_prev_digest m) d.

(* the per-record guard of DeriveProposalEntries *)
Definition record_admissible (epoch index : N) (r : record) : bool :=
  negb (r_id r =? 0) && ((r_index r =? 0) || (r_index r =? index))
  && (r_epoch r =? epoch) && (0 <? r_ts r)%Z.

(* ProposalManifest.StructurallyValid *)
Definition structurally_valid (m : manifest) : bool :=
  if negb (m_version m =? ProposalManifestVersion) || (m_epoch m =? 0) || (m_term m =? 0)
     || (m_fence m =? 0) || is_zero32 (m_cmd m) || is_zero32 (m_digest m)
     || (m_last m <=? m_base m) || negb (m_prev_index m =? m_base m)
  then false
  else if m_base m =? 0 then (m_prev_term m =? 0) && is_zero32 (m_prev_digest m)
  else negb (m_prev_term m =? 0) && negb (is_zero32 (m_prev_digest m)).

(* ProposalManifest.ValidFor(expectedBase, recordCount), recordCount an int *)
Definition valid_for (m : manifest) (expected_base : N) (count : Z) : bool :=
  structurally_valid m && (0 <? count)%Z && (Z.to_N count <=? u64max - expected_base)
  && (m_base m =? expected_base) && (m_last m =? wrap64 (expected_base + Z.to_N count)).

Section Identity.
  (* crypto/sha256.Sum256 *)
  Variable H : bytes -> bytes.

  (* digestProposalEntry *)
  Definition digest_proposal_entry (e : entry) (r : record) : bytes := H (preimage e r).

  (* the loop of DeriveProposalEntries: [index] is the index of the first record of [rs] *)
  Fixpoint derive_loop (m : manifest) (index prev_term prev_index : N) (prev_digest : bytes)
           (rs : list record) : option (list entry) :=
    match rs with
    | [] => Some []
    | r :: rest =>
      if negb (record_admissible (m_epoch m) index r) then None
      else
        let e0 := Entry ProposalManifestVersion (m_epoch m) (m_term m) (m_fence m) index
                        prev_term prev_index (m_cmd m) prev_digest zero32 in
        let e := with_digest e0 (digest_proposal_entry e0 r) in
        match derive_loop m (wrap64 (index + 1)) (e_term e) (e_index e) (e_digest e) rest with
        | None => None
        | Some es => Some (e :: es)
        end
    end.

  (* DeriveProposalEntries(manifest, len(rs), i => rs[i]) *)
  Definition derive_proposal_entries (m : manifest) (rs : list record) : option (list entry) :=
    let count := N.of_nat (length rs) in
    if (count =? 0) || (u64max - m_base m <? count)
       || negb (m_version m =? ProposalManifestVersion) || (m_epoch m =? 0) || (m_term m =? 0)
       || (m_fence m =? 0) || is_zero32 (m_cmd m)
       || negb (m_last m =? wrap64 (m_base m + count))
       || negb (m_prev_index m =? m_base m)
    then None
    else if (if m_base m =? 0
             then negb (m_prev_term m =? 0) || negb (is_zero32 (m_prev_digest m))
             else (m_prev_term m =? 0) || is_zero32 (m_prev_digest m))
    then None
    else derive_loop m (wrap64 (m_base m + 1)) (m_prev_term m) (m_prev_index m) (m_prev_digest m) rs.

  (* SealProposalManifest *)
  Definition seal_proposal_manifest (m : manifest) (rs : list record)
    : option (manifest * list entry) :=
    let m0 := manifest_with_digest m zero32 in
    match derive_proposal_entries m0 rs with
    | None => None
    | Some es => Some (manifest_with_digest m0 (e_digest (last es (with_digest
                         (Entry 0 0 0 0 0 0 0 [] [] []) zero32))), es)
    end.

  (* the structural guards of VerifyEntry (everything before the digest comparison) *)
  Definition verify_guards (e : entry) (r : record) : bool :=
    if negb (e_version e =? ProposalManifestVersion) || (e_epoch e =? 0) || (e_term e =? 0)
       || (e_fence e =? 0) || (e_index e =? 0) || is_zero32 (e_cmd e) || is_zero32 (e_digest e)
       || negb (wrap64 (e_prev_index e + 1) =? e_index e)
       || (r_id r =? 0) || (negb (r_index r =? 0) && negb (r_index r =? e_index e))
       || negb (r_epoch r =? e_epoch e) || (r_ts r <=? 0)%Z
    then false
    else if e_prev_index e =? 0
    then negb (negb (e_prev_term e =? 0) || negb (is_zero32 (e_prev_digest e)))
    else negb ((e_prev_term e =? 0) || is_zero32 (e_prev_digest e)).

  (* VerifyEntry *)
  Definition verify_entry (e : entry) (r : record) : bool :=
    verify_guards e r && bytes_eqb (digest_proposal_entry e r) (e_digest e).
End Identity.

(* ---- field domains (the Go types) ------------------------------------------ *)
Definition u64 (x : N) : bool := x <? 18446744073709551616.
Definition len32 (b : bytes) : bool := Nat.eqb (length b) 32.
Definition len_u64 (b : bytes) : bool := N.of_nat (length b) <? 18446744073709551616.
Definition i64 (z : Z) : bool := (-9223372036854775808 <=? z)%Z && (z <? 9223372036854775808)%Z.

Definition entry_in_domain (e : entry) : bool :=
  u64 (e_epoch e) && u64 (e_term e) && u64 (e_fence e) && u64 (e_index e)
  && u64 (e_prev_term e) && u64 (e_prev_index e) && len32 (e_cmd e) && len32 (e_prev_digest e).
Definition record_in_domain (r : record) : bool :=
  u64 (r_id r) && (r_setting r <? 256) && i64 (r_ts r)
  && len_u64 (r_uid r) && len_u64 (r_clientno r) && len_u64 (r_payload r).

(* ---- the semantic content an identity binds ---------------------------------
   index, authority (epoch, term, fence), command, predecessor (term, index,
   digest) of the entry; id, setting, sync-once, timestamp, sender, client
   message number, payload of the record. *)
Definition content_eqb (e : entry) (r : record) (e' : entry) (r' : record) : bool :=
  (e_epoch e =? e_epoch e') && (e_term e =? e_term e') && (e_fence e =? e_fence e')
  && (e_index e =? e_index e') && (e_prev_term e =? e_prev_term e')
  && (e_prev_index e =? e_prev_index e') && bytes_eqb (e_cmd e) (e_cmd e')
  && bytes_eqb (e_prev_digest e) (e_prev_digest e')
  && (r_id r =? r_id r') && (r_setting r =? r_setting r') && Bool.eqb (r_sync r) (r_sync r')
  && (r_ts r =? r_ts r')%Z && bytes_eqb (r_uid r) (r_uid r')
  && bytes_eqb (r_clientno r) (r_clientno r') && bytes_eqb (r_payload r) (r_payload r').

(* ---- decidable equalities for the case files -------------------------------- *)
Definition entry_eqb (a b : entry) : bool :=
  (e_version a =? e_version b) && (e_epoch a =? e_epoch b) && (e_term a =? e_term b)
  && (e_fence a =? e_fence b) && (e_index a =? e_index b) && (e_prev_term a =? e_prev_term b)
  && (e_prev_index a =? e_prev_index b) && bytes_eqb (e_cmd a) (e_cmd b)
  && bytes_eqb (e_prev_digest a) (e_prev_digest b) && bytes_eqb (e_digest a) (e_digest b).
Definition manifest_eqb (a b : manifest) : bool :=
  (m_version a =? m_version b) && (m_epoch a =? m_epoch b) && (m_term a =? m_term b)
  && (m_fence a =? m_fence b) && bytes_eqb (m_cmd a) (m_cmd b) && (m_base a =? m_base b)
  && (m_last a =? m_last b) && (m_prev_term a =? m_prev_term b)
  && (m_prev_index a =? m_prev_index b) && bytes_eqb (m_prev_digest a) (m_prev_digest b)
  && bytes_eqb (m_digest a) (m_digest b).
