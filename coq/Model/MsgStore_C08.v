(* MsgStore_C08.v — property monitor of C08: "a sender's client message number
   maps to at most one message; a message id is stored at most once".

   Cases have the C07 shape.  The monitor replays the plain sequential log of
   C07 (so the store must hold exactly the accepted rows) and, in addition,
   REQUIRES rejection: an append in strict or server-allocated-id mode that the
   implementation reported as successful must not
     - carry the same non-empty (sender, client msg no) pair twice in one batch,
     - carry a pair that the channel's log already stores,
   and must not (every mode, same batch) carry one message id twice nor (strict
   mode) an id that any channel of the node already stores.  Trusted-contiguous
   appends / follower applies perform no durable duplicate check by design
   (DESIGN §7 C08): a pair or id that such an apply stored twice is "tainted"
   and exempt afterwards; in-batch duplicates are rejected in every mode. *)
From WK Require Import Base.Base Model.KV Gen.Consts_C07 Model.MsgStore Model.MsgStore_C07.

Definition rec_pair_dup_in_batch (recs : list rec) : bool :=
  (fix go (l : list rec) (seen : list (bytes * bytes)) : bool :=
     match l with
     | [] => false
     | x :: r =>
       if both_nonempty (i_uid x) (i_cno x)
       then if mem_pair (i_uid x, i_cno x) seen then true else go r ((i_uid x, i_cno x) :: seen)
       else go r seen
     end) recs [].

Definition rec_id_dup_in_batch (recs : list rec) : bool :=
  (fix go (l : list rec) (seen : list N) : bool :=
     match l with
     | [] => false
     | x :: r => if mem_N (i_id x) seen then true else go r (i_id x :: seen)
     end) recs [].

(* must the plain log reject this batch?  (evaluated BEFORE the batch is applied) *)
Definition must_reject (s : aspec) (c mode : N) (recs : list rec) : bool :=
  let l := as_log s c in
  rec_id_dup_in_batch recs
  || rec_pair_dup_in_batch recs
  || (negb (mode =? AppendTrustedContiguous)
      && existsb (fun x => both_nonempty (i_uid x) (i_cno x)
                           && pair_stored l (i_uid x) (i_cno x)
                           && negb (pair_tainted l (i_uid x) (i_cno x))) recs)
  || ((mode =? AppendStrict)
      && existsb (fun x => id_stored s (i_id x) && negb (existsb (N.eqb (i_id x)) (as_tids s))) recs).

Definition accepted (x : out) : bool := match x with XErr _ => false | _ => true end.

(* StoreAppendBatch: the items are judged one after another, an accepted item
   counting as stored for the following ones (one batch, several channels).
   Result: 0 ok, 1 violation, 2 = structural signature of finding C08-K1: a strict
   item was accepted although its message id is carried by an accepted item of
   ANOTHER channel in the same batch, and nothing else is wrong with it (judged
   against the log before the batch, [s0], it would be acceptable). *)
Definition worst (a b : N) : N := if (a =? 1) || (b =? 1) then 1 else N.max a b.

Fixpoint c08_batch_code (s0 s : aspec) (items : list (N * N * list rec)) (rs : list (N * N * N)) : N :=
  match items, rs with
  | (c, m, recs) :: items', (e, base, _) :: rs' =>
    let mode := if m =? 1 then AppendServerAllocatedMessageID else AppendStrict in
    if e =? 0 then
      let here := if must_reject s c mode recs
                  then (if must_reject s0 c mode recs then 1 else 2) else 0 in
      worst here (c08_batch_code s0 (spec_append s c (msgs_from c (base + 1) recs)) items' rs')
    else c08_batch_code s0 s items' rs'
  | _, _ => 0
  end.

Definition c08_step_code (s : aspec) (e : entry) : N :=
  match e with
  | E (OCBatch items) (XBatch rs) _ => c08_batch_code s s items rs
  | E (OAppend c mode _ recs) x _ => if accepted x && must_reject s c mode recs then 1 else 0
  | E (OCApp c mode recs) x _ => if accepted x && must_reject s c mode recs then 1 else 0
  | E (OApply c _ recs _ _) x _ => if accepted x && must_reject s c AppendTrustedContiguous recs then 1 else 0
  | _ => 0
  end.

Fixpoint c08_run (s : aspec) (tr : list entry) : N :=
  match tr with
  | [] => 0
  | e :: rest =>
    match spec_step s e with
    | Some s' => worst (c08_step_code s e) (c08_run s' rest)
    | None => 1
    end
  end.

Definition C08_mismatch : c07_case -> bool := C07_mismatch.
Definition C08_monitor (c : c07_case) : N := c08_run as_init (c_steps c).

(* ---- the concrete negative membership filter (idempotency_filter.go) ------------------------------ *)
(* Two Bloom layers over process-random maphash values.  The two hash functions
   are parameters: nothing the store relies on depends on them (C08 theorems
   hold for arbitrary h1, h2).  A layer is the set of its set bits; None = not
   allocated (nil slice). *)
Section Bloom.
  Variables h1 h2 : bytes * bytes -> N.

  Definition probe_bits (words : N) (k : bytes * bytes) : list N :=
    map (fun i => N.land ((h1 k + N.of_nat i * N.lor (h2 k) 1) mod two64) (words * 64 - 1))
        (seq 0 (N.to_nat idempotencyMembershipHashCount)).

  Record bloom := BF { b_prim : option (list N); b_over : option (list N); b_adds : N }.

  Definition bloom_empty : bloom := BF None None 0.

  (* idempotencyMembershipLayerMayContain *)
  Definition layer_may (l : option (list N)) (words : N) (k : bytes * bytes) : bool :=
    match l with
    | None => false
    | Some bits => forallb (fun b => mem_N b bits) (probe_bits words k)
    end.

  (* idempotencyMembershipLayerAdd (allocating on first use) *)
  Definition layer_add (l : option (list N)) (words : N) (k : bytes * bytes) : option (list N) :=
    Some (probe_bits words k ++ match l with Some bits => bits | None => [] end).

  (* mayContain *)
  Definition bloom_may (f : bloom) (k : bytes * bytes) : bool :=
    layer_may (b_prim f) idempotencyMembershipPrimaryWords k
    || layer_may (b_over f) idempotencyMembershipOverflowWords k.

  (* add *)
  Definition bloom_add (f : bloom) (k : bytes * bytes) : bloom :=
    if bloom_may f k then f
    else if b_adds f <? idempotencyMembershipPrimaryCapacity
         then BF (layer_add (b_prim f) idempotencyMembershipPrimaryWords k) (b_over f) (b_adds f + 1)
         else BF (b_prim f) (layer_add (b_over f) idempotencyMembershipOverflowWords k) (b_adds f).
End Bloom.
