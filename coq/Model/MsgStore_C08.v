(* MsgStore_C08.v — property monitor of C08: "a sender's client message number
   maps to at most one message; a message id is stored at most once".

   Cases have the C07 shape.  The monitor replays the plain sequential log of
   C07 (so the store must hold exactly the accepted rows) and, in addition,
   REQUIRES rejection: an append in strict or server-allocated-id mode that the
   implementation reported as successful must not
     - carry the same non-empty (sender, client msg no) pair twice in one batch,
     - carry a pair that the channel's log already stores,
   and must not (every mode, same batch) carry one message id twice nor (strict
   mode) an id that any channel of the node already stores.  Trusted-contiguous
   appends / follower applies perform no durable duplicate check by design
   (DESIGN §7 C08): a pair or id that such an apply stored twice is "tainted"
   and exempt afterwards; in-batch duplicates are rejected in every mode. *)
From WK Require Import Base.Base Model.KV Gen.Consts_C07 Model.MsgStore Model.MsgStore_C07.

Definition rec_pair_dup_in_batch (recs : list rec) : bool :=
  (fix go (l : list rec) (seen : list (bytes * bytes)) : bool :=
     match l with
     | [] => false
     | x :: r =>
       if both_nonempty (i_uid x) (i_cno x)
       then if mem_pair (i_uid x, i_cno x) seen then true else go r ((i_uid x, i_cno x) :: seen)
       else go r seen
     end) recs [].

Definition rec_id_dup_in_batch (recs : list rec) : bool :=
  (fix go (l : list rec) (seen : list N) : bool :=
     match l with
     | [] => false
     | x :: r => if mem_N (i_id x) seen then true else go r (i_id x :: seen)
     end) recs [].

(* must the plain log reject this batch?  (evaluated BEFORE the batch is applied) *)
Definition must_reject (s : aspec) (c mode : N) (recs : list rec) : bool :=
  let l := as_log s c in
  rec_id_dup_in_batch recs
  || rec_pair_dup_in_batch recs
  || (negb (mode =? AppendTrustedContiguous)
      && existsb (fun x => both_nonempty (i_uid x) (i_cno x)
                           && pair_stored l (i_uid x) (i_cno x)
                           && negb (pair_tainted l (i_uid x) (i_cno x))) recs)
  || ((mode =? AppendStrict)
      && existsb (fun x => id_stored s (i_id x) && negb (existsb (N.eqb (i_id x)) (as_tids s))) recs).

Definition accepted (x : out) : bool := match x with XErr _ => false | _ => true end.

Definition c08_step_ok (s : aspec) (e : entry) : bool :=
  match e with
  | E (OAppend c mode _ recs) x _ => negb (accepted x && must_reject s c mode recs)
  | E (OCApp c mode recs) x _ => negb (accepted x && must_reject s c mode recs)
  | E (OApply c _ recs _ _) x _ => negb (accepted x && must_reject s c AppendTrustedContiguous recs)
  | _ => true
  end.

Fixpoint c08_run (s : aspec) (tr : list entry) : bool :=
  match tr with
  | [] => true
  | e :: rest =>
    c08_step_ok s e
    && match spec_step s e with Some s' => c08_run s' rest | None => false end
  end.

Definition C08_mismatch : c07_case -> bool := C07_mismatch.
Definition C08_monitor (c : c07_case) : N := if c08_run as_init (c_steps c) then 0 else 1.
