(* KV.v — the ordered key-value store shared by the storage models (C07, C08,
   C09; DESIGN §6): point get / put / delete, range delete, write batches, and
   the crash semantics of a store that commits synced batches.

   A store is an association list with at most one binding per key ([put]
   removes the old binding first).  Scans are not primitive: a model filters the
   bindings of a key family and sorts them by the numeric key component it
   iterates on ([sort_by]), which is what Pebble's ordered iteration over the
   byte encoding delivers.  Definitions only; lemmas are in Proof/KV.v. *)
From WK Require Import Base.Base.

Section KV.
  Context {K V : Type}.
  Variable keqb : K -> K -> bool.

  Definition store := list (K * V).

  Fixpoint get (k : K) (s : store) : option V :=
    match s with
    | [] => None
    | (k', v) :: r => if keqb k k' then Some v else get k r
    end.

  Fixpoint del (k : K) (s : store) : store :=
    match s with
    | [] => []
    | (k', v) :: r => if keqb k k' then del k r else (k', v) :: del k r
    end.

  Definition put (k : K) (v : V) (s : store) : store := (k, v) :: del k s.

  Definition del_range (p : K -> bool) (s : store) : store :=
    filter (fun kv => negb (p (fst kv))) s.

  (* one staged write of a Pebble batch; a range is a decidable set of keys *)
  Inductive wop :=
  | Put (k : K) (v : V)
  | Del (k : K)
  | DelRange (p : K -> bool).

  Definition batch := list wop.

  Definition apply_op (s : store) (o : wop) : store :=
    match o with
    | Put k v => put k v s
    | Del k => del k s
    | DelRange p => del_range p s
    end.

  (* Batch.Commit: all staged writes, in staging order, atomically *)
  Definition apply_batch (s : store) (b : batch) : store := fold_left apply_op b s.

  Definition run_batches (s : store) (bs : list batch) : store := fold_left apply_batch bs s.

  (* ---- crash semantics ---------------------------------------------------------
     The store commits the batches [bs] in this order, each with Sync.  The
     first [durable] of them have returned to their callers.  After a stop at any
     moment the store recovers to the state after a prefix of [bs] that contains
     at least the returned ones (Pebble: a synced batch is atomic and durable at
     return; the WAL replays a prefix). *)
  Definition crash_state (s0 : store) (bs : list batch) (k : nat) : store :=
    run_batches s0 (firstn k bs).

  Definition crash_states (s0 : store) (bs : list batch) (durable : nat) (s : store) : Prop :=
    exists k, (durable <= k <= length bs)%nat /\ s = crash_state s0 bs k.
End KV.

Arguments Put {K V}.
Arguments Del {K V}.
Arguments DelRange {K V}.

(* ---- sorting the result of a scan by a numeric key ------------------------------ *)
Section Sort.
  Context {A : Type}.
  Variable f : A -> N.

  Fixpoint insert_by (x : A) (l : list A) : list A :=
    match l with
    | [] => [x]
    | y :: r => if f x <=? f y then x :: l else y :: insert_by x r
    end.

  Fixpoint sort_by (l : list A) : list A :=
    match l with
    | [] => []
    | x :: r => insert_by x (sort_by r)
    end.
End Sort.
