(* Model/JsonRpcBridge.v — the mapping layer of pkg/protocol/jsonrpc:
   ToFrame / FromFrame (codec.go) with the per-type conversions of types.go, and
   determineMessageType + the dispatch of Decode as a decision procedure over an
   abstract Probe.  JSON syntax (encoding/json: lexing, base64 of []byte, UTF-8
   replacement, case-insensitive keys) is OUTSIDE the model: messages are typed
   records; a JSON value captured in a json.RawMessage is abstracted to
   absent / null / string / anything else.

   Strings are byte lists.  Go `int` fields are Z; uintN / intN conversions are
   explicit (to_u8).  Constants (method names, version string, Setting bits,
   LatestVersion, frame type numbers) come from Gen/Consts_C24.v. *)
From WK Require Import Base.Base Gen.Consts_C24.
From Coq Require Export PrimInt63.
Open Scope N_scope.

Definition str := bytes.
Definition is_nil {A} (l : list A) : bool := match l with [] => true | _ => false end.

(* ---- frames (pkg/protocol/frame) ------------------------------------------------------ *)

(* frame.Framer: the five flags the bridge maps, and the fields it never touches *)
Record framer := Framer {
  fr_nopersist : bool; fr_reddot : bool; fr_synconce : bool; fr_dup : bool; fr_end : bool;
  fr_hsv : bool;          (* HasServerVersion *)
  fr_type : N; fr_remlen : N; fr_size : Z }.

Inductive frame :=
| FConnect (fr : framer) (version : N) (clientKey deviceID : str) (deviceFlag : N)
           (clientTimestamp : Z) (uid token : str)
| FSend (fr : framer) (setting : N) (msgKey : str) (expire : N) (clientSeq : N)
        (clientMsgNo streamNo channelID : str) (channelType : N) (topic : str) (payload : bytes)
| FRecvack (fr : framer) (messageID : Z) (messageSeq : N)
| FDisconnect (fr : framer) (reasonCode : N) (reason : str)
| FPing (fr : framer)
| FConnack (fr : framer) (serverVersion : N) (serverKey salt : str) (timeDiff : Z) (reasonCode : N) (nodeId : N)
| FSendack (fr : framer) (messageID : Z) (messageSeq clientSeq : N) (clientMsgNo : str) (reasonCode : N)
| FRecv (fr : framer) (setting : N) (msgKey : str) (expire : N) (messageID : Z) (messageSeq : N)
        (clientMsgNo streamNo : str) (streamId streamFlag : N) (timestamp : Z)
        (channelID : str) (channelType : N) (topic fromUID : str) (payload : bytes)
| FEvent (fr : framer) (id type : str) (timestamp : Z) (data : bytes)
| FPong (fr : framer)
| FOther (ftype : N).       (* SUB, SUBACK, anything FromFrame has no case for *)

(* ---- JSON-RPC messages (types.go) ---------------------------------------------------------- *)

Record header := Header { h_nopersist : bool; h_reddot : bool; h_synconce : bool; h_dup : bool; h_end : bool }.
Record setting_flags := SettingFlags { sf_receipt : bool; sf_signal : bool; sf_stream : bool; sf_topic : bool }.

Record connect_params := ConnectParams {
  cp_header : header; cp_version : Z; cp_clientKey : str; cp_deviceID : str; cp_deviceFlag : Z;
  cp_clientTimestamp : Z; cp_uid : str; cp_token : str }.
Record send_params := SendParams {
  sp_header : header; sp_setting : setting_flags; sp_msgKey : str; sp_expire : N; sp_clientMsgNo : str;
  sp_streamNo : str; sp_channelID : str; sp_channelType : Z; sp_topic : str; sp_payload : bytes }.
Record recvack_params := RecvAckParams { ra_header : header; ra_messageID : str; ra_messageSeq : N }.
Record disconnect_params := DisconnectParams { dp_reasonCode : Z; dp_reason : str }.
Record connect_result := ConnectResult {
  cr_header : option header; cr_serverVersion : Z; cr_serverKey : str; cr_salt : str; cr_timeDiff : Z;
  cr_reasonCode : Z; cr_nodeID : N }.
Record send_result := SendResult { sr_header : option header; sr_messageID : str; sr_messageSeq : N; sr_reasonCode : Z }.
Record recv_params := RecvNotificationParams {
  rn_header : option header; rn_setting : option setting_flags; rn_msgKey : str; rn_expire : N;
  rn_messageID : str; rn_messageSeq : N; rn_clientMsgNo : str; rn_streamNo : str; rn_streamID : str;
  rn_streamFlag : Z; rn_timestamp : Z; rn_channelID : str; rn_channelType : Z; rn_topic : str;
  rn_fromUID : str; rn_payload : bytes }.
Record event_params := EventNotificationParams {
  ev_header : option header; ev_id : str; ev_type : str; ev_timestamp : Z; ev_data : str }.

(* the values ToFrame switches on / FromFrame builds.  [jsonrpc] and [method] are the
   BaseResponse.Jsonrpc / BaseNotification.{Jsonrpc,Method} strings FromFrame writes. *)
Inductive rpc_msg :=
| ConnectRequest (id : str) (p : connect_params)
| SendRequest (id : str) (p : send_params)
| PingRequest (id : str)
| DisconnectRequest (id : str) (p : disconnect_params)
| RecvAckNotification (p : recvack_params)
| SubscribeRequest (id : str)          (* decodable, no case in ToFrame *)
| UnsubscribeRequest (id : str)
| GenericResponse (id : str)
| ConnectResponse (jsonrpc id : str) (r : option connect_result)
| SendResponse (jsonrpc id : str) (r : option send_result)
| PongResponse (jsonrpc id : str)
| RecvNotification (jsonrpc method : str) (p : recv_params)
| EventNotification (jsonrpc method : str) (p : event_params)
| DisconnectNotification (jsonrpc method : str) (p : disconnect_params).

(* ---- integer conversions --------------------------------------------------------------------- *)

Definition to_u8 (z : Z) : N := Z.to_N (z mod 256).        (* uint8(x) for a Go int *)

(* strconv.FormatInt(_, 10) / FormatUint(_, 10) *)
Fixpoint dec_digits (fuel : nat) (n : N) (acc : bytes) : bytes :=
  match fuel with
  | O => acc
  | S f => let acc' := (48 + n mod 10) :: acc in
           if n / 10 =? 0 then acc' else dec_digits f (n / 10) acc'
  end.
Definition format_uint (n : N) : str := dec_digits (S (N.to_nat (N.log2 n))) n [].
Definition format_int (z : Z) : str :=
  match z with
  | Zneg p => 45 :: format_uint (Npos p)
  | _ => format_uint (Z.to_N z)
  end.

Definition max_u64 : N := 18446744073709551615.
Definition cutoff_u64 : N := 1844674407370955162.   (* maxUint64/10 + 1 *)

(* the loop of strconv.ParseUint(s, 10, 64): a syntax error as soon as a non-digit is met,
   maxUint64 + range error as soon as the value overflows (the rest is not looked at) *)
Inductive pu := PuVal (n : N) | PuSyntax | PuRange.
Fixpoint parse_uint_loop (s : str) (n : N) : pu :=
  match s with
  | [] => PuVal n
  | c :: r =>
    if (48 <=? c) && (c <=? 57) then
      if cutoff_u64 <=? n then PuRange
      else let n1 := n * 10 + (c - 48) in
           if max_u64 <? n1 then PuRange else parse_uint_loop r n1
    else PuSyntax
  end.
Definition parse_uint (s : str) : pu := match s with [] => PuSyntax | _ => parse_uint_loop s 0 end.

(* strconv.ParseUint(s, 10, 64) with the error dropped *)
Definition parse_uint64_value (s : str) : N :=
  match parse_uint s with PuVal n => n | PuSyntax => 0 | PuRange => max_u64 end.

(* msgID, _ := strconv.ParseInt(s, 10, 64): syntax error -> 0, out of range -> clamped *)
Definition parse_int64_value (s : str) : Z :=
  match s with
  | [] => 0%Z
  | c :: r =>
    let neg := c =? 45 in
    let body := if (c =? 43) || (c =? 45) then r else s in
    match parse_uint body with
    | PuSyntax => 0%Z
    | PuRange => if neg then (-9223372036854775808)%Z else 9223372036854775807%Z
    | PuVal un =>
      if neg then (if 9223372036854775808 <? un then (-9223372036854775808)%Z else (- Z.of_N un)%Z)
      else (if 9223372036854775808 <=? un then 9223372036854775807%Z else Z.of_N un)
    end
  end.

(* ---- header / setting conversions ---------------------------------------------------------------- *)

Definition framer0 : framer := Framer false false false false false false 0 0 0%Z.

(* headerToFramer *)
Definition headerToFramer (h : header) : framer :=
  Framer (h_nopersist h) (h_reddot h) (h_synconce h) (h_dup h) (h_end h) false 0 0 0%Z.

(* fromProtoHeader: nil when none of the five flags is set *)
Definition fromProtoHeader (f : framer) : option header :=
  if negb (fr_nopersist f) && negb (fr_reddot f) && negb (fr_synconce f) && negb (fr_dup f) && negb (fr_end f)
  then None
  else Some (Header (fr_nopersist f) (fr_reddot f) (fr_synconce f) (fr_dup f) (fr_end f)).

(* SettingFlags.ToProto *)
Definition setting_to_proto (sf : setting_flags) : N :=
  N.lor (N.lor (N.lor (if sf_receipt sf then SettingReceiptEnabled else 0)
                      (if sf_signal sf then SettingSignal else 0))
               (if sf_stream sf then SettingStream else 0))
        (if sf_topic sf then SettingTopic else 0).

Definition bit_set (s v : N) : bool := negb (N.land s v =? 0).

(* fromProtoSetting: nil for Setting 0 *)
Definition fromProtoSetting (s : N) : option setting_flags :=
  if s =? 0 then None
  else Some (SettingFlags (bit_set s SettingReceiptEnabled) (bit_set s SettingSignal)
                          (bit_set s SettingStream) (bit_set s SettingTopic)).

(* ---- ToFrame -------------------------------------------------------------------------------------- *)

(* ConnectParams.ToProto *)
Definition connect_to_proto (p : connect_params) : frame :=
  let version := if (cp_version p =? 0)%Z then LatestVersion else to_u8 (cp_version p) in
  FConnect (headerToFramer (cp_header p)) version (cp_clientKey p) (cp_deviceID p) (to_u8 (cp_deviceFlag p))
           (cp_clientTimestamp p) (cp_uid p) (cp_token p).

(* SendRequest.ToProto (ClientSeq is not part of SendParams: stays 0) *)
Definition send_to_proto (p : send_params) : frame :=
  FSend (headerToFramer (sp_header p)) (setting_to_proto (sp_setting p)) (sp_msgKey p) (sp_expire p) 0
        (sp_clientMsgNo p) (sp_streamNo p) (sp_channelID p) (to_u8 (sp_channelType p)) (sp_topic p) (sp_payload p).

(* RecvAckParams.ToProto *)
Definition recvack_to_proto (p : recvack_params) : frame :=
  FRecvack (headerToFramer (ra_header p)) (parse_int64_value (ra_messageID p)) (ra_messageSeq p).

(* DisconnectParams.ToProto *)
Definition disconnect_to_proto (p : disconnect_params) : frame :=
  FDisconnect framer0 (to_u8 (dp_reasonCode p)) (dp_reason p).

(* ToFrame: None = "unknown packet type" *)
Definition ToFrame (m : rpc_msg) : option (frame * str) :=
  match m with
  | ConnectRequest id p => Some (connect_to_proto p, id)
  | SendRequest id p => Some (send_to_proto p, id)
  | PingRequest id => Some (FPing framer0, id)
  | DisconnectRequest id p => Some (disconnect_to_proto p, id)
  | RecvAckNotification p => Some (recvack_to_proto p, [])
  | _ => None
  end.

(* ---- FromFrame ---------------------------------------------------------------------------------------- *)

Definition FromProtoConnectAck (fr : framer) (serverVersion : N) (serverKey salt : str) (timeDiff : Z)
           (reasonCode nodeId : N) : connect_result :=
  ConnectResult (fromProtoHeader fr) (Z.of_N serverVersion) serverKey salt timeDiff (Z.of_N reasonCode) nodeId.

Definition FromProtoSendAck (fr : framer) (messageID : Z) (messageSeq reasonCode : N) : send_result :=
  SendResult (fromProtoHeader fr) (format_int messageID) messageSeq (Z.of_N reasonCode).

(* FromFrame: None = "unknown frame type" *)
Definition FromFrame (reqId : str) (f : frame) : option rpc_msg :=
  match f with
  | FConnack fr sv sk salt td rc node =>
    Some (ConnectResponse jsonRPCVersion reqId (Some (FromProtoConnectAck fr sv sk salt td rc node)))
  | FSendack fr mid mseq _ _ rc =>
    Some (SendResponse jsonRPCVersion reqId (Some (FromProtoSendAck fr mid mseq rc)))
  | FRecv fr setting msgKey expire mid mseq cmn sno sid sflag ts chid chtype topic from payload =>
    Some (RecvNotification jsonRPCVersion MethodRecv
            (RecvNotificationParams (fromProtoHeader fr) (fromProtoSetting setting) msgKey expire
               (format_int mid) mseq cmn sno (format_uint sid) (Z.of_N sflag) ts chid (Z.of_N chtype) topic from payload))
  | FEvent fr id type ts data =>
    Some (EventNotification jsonRPCVersion MethodEvent (EventNotificationParams (fromProtoHeader fr) id type ts data))
  | FDisconnect _ rc reason =>
    Some (DisconnectNotification jsonRPCVersion MethodDisconnect (DisconnectParams (Z.of_N rc) reason))
  | FPong _ => Some (PongResponse jsonRPCVersion reqId)
  | _ => None
  end.

(* ---- the peer's half of the bridge (not in the Go package): the message a client sends for a
   frame, and the frame a client rebuilds from a server message.  They define "and back". ------ *)

Definition header_of_framer (f : framer) : header :=
  Header (fr_nopersist f) (fr_reddot f) (fr_synconce f) (fr_dup f) (fr_end f).
Definition flags_of_setting (s : N) : setting_flags :=
  SettingFlags (bit_set s SettingReceiptEnabled) (bit_set s SettingSignal) (bit_set s SettingStream) (bit_set s SettingTopic).

Definition msg_of_frame (id : str) (f : frame) : option rpc_msg :=
  match f with
  | FConnect fr v ck did dflag cts uid tok =>
    Some (ConnectRequest id (ConnectParams (header_of_framer fr) (Z.of_N v) ck did (Z.of_N dflag) cts uid tok))
  | FSend fr setting mk expire _ cmn sno chid chtype topic payload =>
    Some (SendRequest id (SendParams (header_of_framer fr) (flags_of_setting setting) mk expire cmn sno chid
                                     (Z.of_N chtype) topic payload))
  | FRecvack fr mid mseq => Some (RecvAckNotification (RecvAckParams (header_of_framer fr) (format_int mid) mseq))
  | FDisconnect _ rc reason => Some (DisconnectRequest id (DisconnectParams (Z.of_N rc) reason))
  | FPing _ => Some (PingRequest id)
  | _ => None
  end.

Definition framer_of_header (h : option header) : framer :=
  match h with
  | None => framer0
  | Some h => headerToFramer h
  end.
Definition setting_of_flags (s : option setting_flags) : N :=
  match s with
  | None => 0
  | Some sf => setting_to_proto sf
  end.

(* (frame, request id carried by the message) *)
Definition frame_of_msg (m : rpc_msg) : option (frame * option str) :=
  match m with
  | ConnectResponse _ id (Some r) =>
    Some (FConnack (framer_of_header (cr_header r)) (to_u8 (cr_serverVersion r)) (cr_serverKey r) (cr_salt r)
                   (cr_timeDiff r) (to_u8 (cr_reasonCode r)) (cr_nodeID r), Some id)
  | SendResponse _ id (Some r) =>
    Some (FSendack (framer_of_header (sr_header r)) (parse_int64_value (sr_messageID r)) (sr_messageSeq r) 0 []
                   (to_u8 (sr_reasonCode r)), Some id)
  | PongResponse _ id => Some (FPong framer0, Some id)
  | RecvNotification _ _ p =>
    Some (FRecv (framer_of_header (rn_header p)) (setting_of_flags (rn_setting p)) (rn_msgKey p) (rn_expire p)
                (parse_int64_value (rn_messageID p)) (rn_messageSeq p) (rn_clientMsgNo p) (rn_streamNo p)
                (parse_uint64_value (rn_streamID p)) (to_u8 (rn_streamFlag p)) (rn_timestamp p) (rn_channelID p)
                (to_u8 (rn_channelType p)) (rn_topic p) (rn_fromUID p) (rn_payload p), None)
  | EventNotification _ _ p =>
    Some (FEvent (framer_of_header (ev_header p)) (ev_id p) (ev_type p) (ev_timestamp p) (ev_data p), None)
  | DisconnectNotification _ _ p => Some (FDisconnect framer0 (to_u8 (dp_reasonCode p)) (dp_reason p), None)
  | _ => None
  end.

(* ---- equivalence of frames on the fields the bridge carries ---------------------------------------- *)

Definition flags_eqb (a b : framer) : bool :=
  Bool.eqb (fr_nopersist a) (fr_nopersist b) && Bool.eqb (fr_reddot a) (fr_reddot b)
  && Bool.eqb (fr_synconce a) (fr_synconce b) && Bool.eqb (fr_dup a) (fr_dup b) && Bool.eqb (fr_end a) (fr_end b).

(* the four Setting bits SettingFlags can express *)
Definition setting_mask : N :=
  N.lor (N.lor (N.lor SettingReceiptEnabled SettingSignal) SettingStream) SettingTopic.

Definition norm_version (v : N) : N := if v =? 0 then LatestVersion else v.

(* not carried: Framer.{HasServerVersion,FrameType,RemainingLength,FrameSize}; CONNECT Version 0 means
   "latest"; SEND ClientSeq and the Setting bits outside the mask; SENDACK ClientSeq / ClientMsgNo;
   DISCONNECT flags; PING / PONG carry nothing *)
Definition frame_equiv (a b : frame) : bool :=
  match a, b with
  | FConnect fa va cka da dfa ta ua toa, FConnect fb vb ckb db dfb tb ub tob =>
    flags_eqb fa fb && (norm_version va =? norm_version vb) && bytes_eqb cka ckb && bytes_eqb da db && (dfa =? dfb)
    && (ta =? tb)%Z && bytes_eqb ua ub && bytes_eqb toa tob
  | FSend fa sa mka ea _ cna sna cha cta tpa pa, FSend fb sb mkb eb _ cnb snb chb ctb tpb pb =>
    flags_eqb fa fb && (N.land sa setting_mask =? N.land sb setting_mask) && bytes_eqb mka mkb && (ea =? eb)
    && bytes_eqb cna cnb && bytes_eqb sna snb && bytes_eqb cha chb && (cta =? ctb) && bytes_eqb tpa tpb && bytes_eqb pa pb
  | FRecvack fa ma sa, FRecvack fb mb sb => flags_eqb fa fb && (ma =? mb)%Z && (sa =? sb)
  | FDisconnect _ ra sa, FDisconnect _ rb sb => (ra =? rb) && bytes_eqb sa sb
  | FPing _, FPing _ => true
  | FConnack fa va ka sa ta ra na, FConnack fb vb kb sb tb rb nb =>
    flags_eqb fa fb && (va =? vb) && bytes_eqb ka kb && bytes_eqb sa sb && (ta =? tb)%Z && (ra =? rb) && (na =? nb)
  | FSendack fa ma sa _ _ ra, FSendack fb mb sb _ _ rb => flags_eqb fa fb && (ma =? mb)%Z && (sa =? sb) && (ra =? rb)
  | FRecv fa sa mka ea ma qa cna sna ia la ta cha cta tpa fua pa, FRecv fb sb mkb eb mb qb cnb snb ib lb tb chb ctb tpb fub pb =>
    flags_eqb fa fb && (N.land sa setting_mask =? N.land sb setting_mask) && bytes_eqb mka mkb && (ea =? eb)
    && (ma =? mb)%Z && (qa =? qb) && bytes_eqb cna cnb && bytes_eqb sna snb && (ia =? ib) && (la =? lb) && (ta =? tb)%Z
    && bytes_eqb cha chb && (cta =? ctb) && bytes_eqb tpa tpb && bytes_eqb fua fub && bytes_eqb pa pb
  | FEvent fa ia ya ta da, FEvent fb ib yb tb db =>
    flags_eqb fa fb && bytes_eqb ia ib && bytes_eqb ya yb && (ta =? tb)%Z && bytes_eqb da db
  | FPong _, FPong _ => true
  | _, _ => false
  end.

(* the request id of a message (ToFrame's second result / what a response carries) *)
Definition msg_id (m : rpc_msg) : option str :=
  match m with
  | ConnectRequest id _ | SendRequest id _ | PingRequest id | DisconnectRequest id _
  | SubscribeRequest id | UnsubscribeRequest id | GenericResponse id
  | ConnectResponse _ id _ | SendResponse _ id _ | PongResponse _ id => Some id
  | _ => None
  end.

(* ---- determineMessageType and the dispatch of Decode ------------------------------------------------- *)

(* a JSON value captured by a json.RawMessage field *)
Inductive raw := RawAbsent | RawNull | RawString (s : str) | RawOther.

(* Probe after decoder.Decode(&probe) succeeded; Method is a Go string ("" when absent or null) *)
Record probe := Probe {
  pr_jsonrpc : raw; pr_id : raw; pr_method : str; pr_params : raw; pr_result : raw; pr_error : raw }.

(* msgTypeRequest / msgTypeResponse / msgTypeNotification (regenerated) *)
Definition msgTypeRequest : N := MsgTypeRequest.
Definition msgTypeResponse : N := MsgTypeResponse.
Definition msgTypeNotification : N := MsgTypeNotification.

(* error classes (errors.Is against the package's sentinel errors) *)
Definition EInvalidVersion : N := 1.
Definition EInvalidStructure : N := 2.
Definition EResponseFormat : N := 3.
Definition ERequestFormat : N := 4.
Definition ENotificationFormat : N := 5.
Definition EUnknownMethod : N := 6.
Definition EMissingParams : N := 7.
Definition EUnmarshalFieldFailed : N := 8.
Definition EOther : N := 9.      (* decodingError(...) without a sentinel, encoding/json errors *)

Definition present (r : raw) : bool := match r with RawAbsent => false | _ => true end.

(* determineMessageType: inl type | inr error class *)
Definition determineMessageType (p : probe) : N + N :=
  let version_check :=
    match pr_jsonrpc p with
    | RawAbsent => None
    | RawNull => Some EInvalidVersion                 (* null unmarshals into "" <> "2.0" *)
    | RawString v => if bytes_eqb v jsonRPCVersion then None else Some EInvalidVersion
    | RawOther => Some EUnmarshalFieldFailed
    end in
  match version_check with
  | Some e => inr e
  | None =>
    (* a RawMessage is never the empty string: idIsPresent = (ID != nil), idIsNull = (ID == nil) *)
    let idIsPresent := present (pr_id p) in
    let methodIsPresent := negb (is_nil (pr_method p)) in
    let resultIsPresent := present (pr_result p) in
    let errorIsPresent := present (pr_error p) in
    let prelimIsNotification := methodIsPresent && negb idIsPresent in
    let prelimIsResponse := idIsPresent && negb methodIsPresent && (resultIsPresent || errorIsPresent) in
    let prelimIsRequest := methodIsPresent && idIsPresent in
    if prelimIsRequest && prelimIsResponse then inr EInvalidStructure
    else if prelimIsResponse && negb resultIsPresent && negb errorIsPresent then inr EResponseFormat
    else if prelimIsResponse && resultIsPresent && errorIsPresent then inr EResponseFormat
    else if prelimIsRequest then inl msgTypeRequest
    else if prelimIsResponse then inl msgTypeResponse
    else if prelimIsNotification then
      (* an unknown notification method leaves err = decodingError("unknown notification method") set *)
      if bytes_eqb (pr_method p) MethodRecv || bytes_eqb (pr_method p) MethodDisconnect
         || bytes_eqb (pr_method p) MethodRecvAck || bytes_eqb (pr_method p) MethodEvent
      then inl msgTypeNotification else inr EOther
    else inr EOther                                              (* "unable to determine message type" *)
  end.

(* message kinds Decode returns *)
Definition KConnectRequest : N := 1.
Definition KSendRequest : N := 2.
Definition KSubscribeRequest : N := 3.
Definition KUnsubscribeRequest : N := 4.
Definition KPingRequest : N := 5.
Definition KDisconnectRequest : N := 6.
Definition KGenericResponse : N := 7.
Definition KRecvNotification : N := 8.
Definition KRecvAckNotification : N := 9.
Definition KDisconnectNotification : N := 10.
Definition KEventNotification : N := 11.

(* what encoding/json answers for the raw fields (outside the model): does probe.Params unmarshal
   into the params type of the method, does probe.Error unmarshal into ErrorObject *)
Record jbits := JBits { params_ok : bool; error_ok : bool }.

Inductive outcome := OErr (e : N) | OMsg (kind : N) (id : option str).

Definition with_params (p : probe) (b : jbits) (kind : N) (id : option str) : outcome :=
  match pr_params p with
  | RawAbsent => OErr EMissingParams
  | _ => if params_ok b then OMsg kind id else OErr EUnmarshalFieldFailed
  end.

(* steps 2 and 3 of Decode *)
Definition decode_dispatch (p : probe) (b : jbits) : outcome :=
  match determineMessageType p with
  | inr e => OErr e
  | inl t =>
    if t =? msgTypeRequest then
      match pr_id p with
      | RawAbsent | RawNull => OErr ERequestFormat
      | RawOther => OErr EUnmarshalFieldFailed
      | RawString id =>
        let m := pr_method p in
        if bytes_eqb m MethodConnect then with_params p b KConnectRequest (Some id)
        else if bytes_eqb m MethodSend then with_params p b KSendRequest (Some id)
        else if bytes_eqb m MethodSubscribe then with_params p b KSubscribeRequest (Some id)
        else if bytes_eqb m MethodUnsubscribe then with_params p b KUnsubscribeRequest (Some id)
        else if bytes_eqb m MethodPing then
          match pr_params p with
          | RawAbsent | RawNull => OMsg KPingRequest (Some id)
          | _ => if params_ok b then OMsg KPingRequest (Some id) else OErr EUnmarshalFieldFailed
          end
        else if bytes_eqb m MethodDisconnect then with_params p b KDisconnectRequest (Some id)
        else OErr EUnknownMethod
      end
    else if t =? msgTypeResponse then
      match pr_id p with
      | RawAbsent | RawNull => OErr EResponseFormat
      | RawOther => OErr EUnmarshalFieldFailed
      | RawString id =>
        if present (pr_error p) && negb (error_ok b) then OErr EUnmarshalFieldFailed
        else OMsg KGenericResponse (Some id)
      end
    else
      let m := pr_method p in
      if bytes_eqb m MethodRecv then with_params p b KRecvNotification None
      else if bytes_eqb m MethodRecvAck then with_params p b KRecvAckNotification None
      else if bytes_eqb m MethodDisconnect then with_params p b KDisconnectNotification None
      else if bytes_eqb m MethodEvent then with_params p b KEventNotification None
      else OErr EUnknownMethod
  end.

(* does ToFrame have a case for a decoded message of this kind; the reply token it returns *)
Definition kind_bridged (kind : N) : bool :=
  (kind =? KConnectRequest) || (kind =? KSendRequest) || (kind =? KPingRequest) || (kind =? KDisconnectRequest)
  || (kind =? KRecvAckNotification).
Definition to_frame_token (o : outcome) : option str :=
  match o with
  | OMsg kind id => if kind_bridged kind then Some (match id with Some i => i | None => [] end) else None
  | OErr _ => None
  end.

(* the probe of the JSON document Encode writes for a message (omitempty: an empty id is left out;
   PongResponse has neither result nor error; a PingRequest built without params has none) *)
Definition raw_of_str (s : str) : raw := match s with [] => RawAbsent | _ => RawString s end.
Definition probe_of_msg (m : rpc_msg) : option probe :=
  match m with
  | ConnectRequest id _ => Some (Probe (RawString jsonRPCVersion) (raw_of_str id) MethodConnect RawOther RawAbsent RawAbsent)
  | SendRequest id _ => Some (Probe (RawString jsonRPCVersion) (raw_of_str id) MethodSend RawOther RawAbsent RawAbsent)
  | PingRequest id => Some (Probe (RawString jsonRPCVersion) (raw_of_str id) MethodPing RawAbsent RawAbsent RawAbsent)
  | DisconnectRequest id _ => Some (Probe (RawString jsonRPCVersion) (raw_of_str id) MethodDisconnect RawOther RawAbsent RawAbsent)
  | RecvAckNotification _ => Some (Probe (RawString jsonRPCVersion) RawAbsent MethodRecvAck RawOther RawAbsent RawAbsent)
  | SubscribeRequest id => Some (Probe (RawString jsonRPCVersion) (raw_of_str id) MethodSubscribe RawOther RawAbsent RawAbsent)
  | UnsubscribeRequest id => Some (Probe (RawString jsonRPCVersion) (raw_of_str id) MethodUnsubscribe RawOther RawAbsent RawAbsent)
  | ConnectResponse v id r => Some (Probe (raw_of_str v) (raw_of_str id) [] RawAbsent
                                          (match r with Some _ => RawOther | None => RawAbsent end) RawAbsent)
  | SendResponse v id r => Some (Probe (raw_of_str v) (raw_of_str id) [] RawAbsent
                                       (match r with Some _ => RawOther | None => RawAbsent end) RawAbsent)
  | PongResponse v id => Some (Probe (raw_of_str v) (raw_of_str id) [] RawAbsent RawAbsent RawAbsent)
  | RecvNotification v m _ | EventNotification v m _ | DisconnectNotification v m _ =>
    Some (Probe (raw_of_str v) RawAbsent m RawOther RawAbsent RawAbsent)
  | GenericResponse _ => None
  end.

(* ---- case-file interface --------------------------------------------------------------------------------- *)

(* byte-string literal of case files: [pk len words], 7 bytes per primitive 63-bit integer, little-endian *)
Definition word_bit (w sh : int) (v : N) : N :=
  if PrimInt63.eqb (PrimInt63.land (PrimInt63.lsr w sh) 1%uint63) 0%uint63 then 0 else v.
Definition word_byte (w sh : int) : N :=
  word_bit w sh 1 + word_bit w (PrimInt63.add sh 1%uint63) 2 + word_bit w (PrimInt63.add sh 2%uint63) 4
  + word_bit w (PrimInt63.add sh 3%uint63) 8 + word_bit w (PrimInt63.add sh 4%uint63) 16
  + word_bit w (PrimInt63.add sh 5%uint63) 32 + word_bit w (PrimInt63.add sh 6%uint63) 64
  + word_bit w (PrimInt63.add sh 7%uint63) 128.
Definition word_bytes (w : int) : bytes :=
  [word_byte w 0%uint63; word_byte w 8%uint63; word_byte w 16%uint63; word_byte w 24%uint63;
   word_byte w 32%uint63; word_byte w 40%uint63; word_byte w 48%uint63].
Definition pk (len : N) (ws : list int) : bytes :=
  firstn (N.to_nat len) (flat_map word_bytes ws).

(* generic field-wise comparison: a value is flattened to a list of atoms *)
Inductive atom := AB (b : bool) | AN (n : N) | AZ (z : Z) | AS (s : bytes) | ATag (n : N).
Definition atom_eqb (x y : atom) : bool :=
  match x, y with
  | AB a, AB b => Bool.eqb a b
  | AN a, AN b => a =? b
  | AZ a, AZ b => (a =? b)%Z
  | AS a, AS b => bytes_eqb a b
  | ATag a, ATag b => a =? b
  | _, _ => false
  end.

Definition atoms_framer (f : framer) : list atom :=
  [AB (fr_nopersist f); AB (fr_reddot f); AB (fr_synconce f); AB (fr_dup f); AB (fr_end f); AB (fr_hsv f);
   AN (fr_type f); AN (fr_remlen f); AZ (fr_size f)].

Definition atoms_frame (f : frame) : list atom :=
  match f with
  | FConnect fr v ck d df t u tok => ATag 1 :: atoms_framer fr ++ [AN v; AS ck; AS d; AN df; AZ t; AS u; AS tok]
  | FSend fr s mk e cs cn sn ch ct tp p =>
    ATag 3 :: atoms_framer fr ++ [AN s; AS mk; AN e; AN cs; AS cn; AS sn; AS ch; AN ct; AS tp; AS p]
  | FRecvack fr m s => ATag 6 :: atoms_framer fr ++ [AZ m; AN s]
  | FDisconnect fr r s => ATag 9 :: atoms_framer fr ++ [AN r; AS s]
  | FPing fr => ATag 7 :: atoms_framer fr
  | FConnack fr v k s t r n => ATag 2 :: atoms_framer fr ++ [AN v; AS k; AS s; AZ t; AN r; AN n]
  | FSendack fr m s cs cn r => ATag 4 :: atoms_framer fr ++ [AZ m; AN s; AN cs; AS cn; AN r]
  | FRecv fr s mk e m q cn sn i l t ch ct tp fu p =>
    ATag 5 :: atoms_framer fr ++ [AN s; AS mk; AN e; AZ m; AN q; AS cn; AS sn; AN i; AN l; AZ t; AS ch; AN ct; AS tp; AS fu; AS p]
  | FEvent fr i y t d => ATag 12 :: atoms_framer fr ++ [AS i; AS y; AZ t; AS d]
  | FPong fr => ATag 8 :: atoms_framer fr
  | FOther t => [ATag 100; AN t]
  end.

Definition atoms_header (h : header) : list atom :=
  [AB (h_nopersist h); AB (h_reddot h); AB (h_synconce h); AB (h_dup h); AB (h_end h)].
Definition atoms_opt {A} (f : A -> list atom) (o : option A) : list atom :=
  match o with None => [ATag 0] | Some a => ATag 1 :: f a end.
Definition atoms_flags (s : setting_flags) : list atom :=
  [AB (sf_receipt s); AB (sf_signal s); AB (sf_stream s); AB (sf_topic s)].
Definition atoms_disconnect (p : disconnect_params) : list atom := [AZ (dp_reasonCode p); AS (dp_reason p)].

Definition atoms_msg (m : rpc_msg) : list atom :=
  match m with
  | ConnectRequest id p =>
    ATag 1 :: AS id :: atoms_header (cp_header p) ++ [AZ (cp_version p); AS (cp_clientKey p); AS (cp_deviceID p);
      AZ (cp_deviceFlag p); AZ (cp_clientTimestamp p); AS (cp_uid p); AS (cp_token p)]
  | SendRequest id p =>
    ATag 2 :: AS id :: atoms_header (sp_header p) ++ atoms_flags (sp_setting p) ++ [AS (sp_msgKey p); AN (sp_expire p);
      AS (sp_clientMsgNo p); AS (sp_streamNo p); AS (sp_channelID p); AZ (sp_channelType p); AS (sp_topic p); AS (sp_payload p)]
  | PingRequest id => [ATag 3; AS id]
  | DisconnectRequest id p => ATag 4 :: AS id :: atoms_disconnect p
  | RecvAckNotification p => ATag 5 :: atoms_header (ra_header p) ++ [AS (ra_messageID p); AN (ra_messageSeq p)]
  | SubscribeRequest id => [ATag 6; AS id]
  | UnsubscribeRequest id => [ATag 7; AS id]
  | GenericResponse id => [ATag 8; AS id]
  | ConnectResponse v id r =>
    ATag 9 :: AS v :: AS id :: atoms_opt (fun r => atoms_opt atoms_header (cr_header r) ++ [AZ (cr_serverVersion r);
      AS (cr_serverKey r); AS (cr_salt r); AZ (cr_timeDiff r); AZ (cr_reasonCode r); AN (cr_nodeID r)]) r
  | SendResponse v id r =>
    ATag 10 :: AS v :: AS id :: atoms_opt (fun r => atoms_opt atoms_header (sr_header r) ++ [AS (sr_messageID r);
      AN (sr_messageSeq r); AZ (sr_reasonCode r)]) r
  | PongResponse v id => [ATag 11; AS v; AS id]
  | RecvNotification v m p =>
    ATag 12 :: AS v :: AS m :: atoms_opt atoms_header (rn_header p) ++ atoms_opt atoms_flags (rn_setting p) ++
      [AS (rn_msgKey p); AN (rn_expire p); AS (rn_messageID p); AN (rn_messageSeq p); AS (rn_clientMsgNo p);
       AS (rn_streamNo p); AS (rn_streamID p); AZ (rn_streamFlag p); AZ (rn_timestamp p); AS (rn_channelID p);
       AZ (rn_channelType p); AS (rn_topic p); AS (rn_fromUID p); AS (rn_payload p)]
  | EventNotification v m p =>
    ATag 13 :: AS v :: AS m :: atoms_opt atoms_header (ev_header p) ++ [AS (ev_id p); AS (ev_type p); AZ (ev_timestamp p); AS (ev_data p)]
  | DisconnectNotification v m p => ATag 14 :: AS v :: AS m :: atoms_disconnect p
  end.

Definition frame_eqb (a b : frame) : bool := list_eqb atom_eqb (atoms_frame a) (atoms_frame b).
Definition msg_eqb (a b : rpc_msg) : bool := list_eqb atom_eqb (atoms_msg a) (atoms_msg b).

Definition outcome_eqb (a b : outcome) : bool :=
  match a, b with
  | OErr x, OErr y => x =? y
  | OMsg k i, OMsg k' i' => (k =? k') && option_eqb bytes_eqb i i'
  | _, _ => false
  end.

Inductive c24_op :=
  (* a frame the client wants to send and its request id; the client's message for it goes through
     ToFrame directly ([wire] = false) or through Encode, Decode, ToFrame; observed: frame and reply token *)
| OpIn (id : str) (f : frame) (wire : bool) (res : option (frame * str))
  (* an arbitrary inbound message value through ToFrame (directly / over the wire) *)
| OpMsg (m : rpc_msg) (wire : bool) (res : option (frame * str))
  (* FromFrame reqId f; [wire_same]: Encode then json.Unmarshal into the same Go type gives the same
     value; [dec]: what the package's own Decode makes of the encoded document *)
| OpOut (id : str) (f : frame) (msg : option rpc_msg) (wire_same : bool) (dec : outcome)
  (* a JSON document whose Probe parsed: abstract probe, encoding/json's verdicts, what
     determineMessageType returned (inl type | inr error class), Decode's outcome,
     [xor]: exactly one of (message, error) is nil, ToFrame's reply token on the decoded message *)
| OpDecode (p : probe) (b : jbits) (dmt : N + N) (out : outcome) (xor : bool) (tok : option str)
  (* a document whose Probe did not parse: Decode returned an error and no message *)
| OpSyntax (err_only : bool).

Record c24_case := C24Case { c24_ops : list c24_op }.

Definition res_eqb (a b : option (frame * str)) : bool :=
  match a, b with
  | None, None => true
  | Some (f, i), Some (g, j) => frame_eqb f g && bytes_eqb i j
  | _, _ => false
  end.

(* the kind Decode returns for the document of an inbound message value *)
Definition kind_of_msg (m : rpc_msg) : N :=
  match m with
  | ConnectRequest _ _ => KConnectRequest
  | SendRequest _ _ => KSendRequest
  | PingRequest _ => KPingRequest
  | DisconnectRequest _ _ => KDisconnectRequest
  | RecvAckNotification _ => KRecvAckNotification
  | SubscribeRequest _ => KSubscribeRequest
  | UnsubscribeRequest _ => KUnsubscribeRequest
  | _ => 0
  end.

(* ToFrame directly, or after Encode + Decode (gateway adapter).  Decode must accept the document
   AND return a message of the same kind: a DisconnectRequest with an empty id is written without
   "id" and read back as a DisconnectNotification, which ToFrame has no case for. *)
Definition model_through (m : rpc_msg) (wire : bool) : option (frame * str) :=
  if wire then
    match probe_of_msg m with
    | Some p => match decode_dispatch p (JBits true true) with
                | OMsg k _ => if k =? kind_of_msg m then ToFrame m else None
                | OErr _ => None
                end
    | None => None
    end
  else ToFrame m.

Definition model_in (id : str) (f : frame) (wire : bool) : option (frame * str) :=
  match msg_of_frame id f with
  | None => None
  | Some m => model_through m wire
  end.

Definition sum_eqb (a b : N + N) : bool :=
  match a, b with
  | inl x, inl y => x =? y
  | inr x, inr y => x =? y
  | _, _ => false
  end.

(* Decode's verdict on what FromFrame + Encode emit *)
Definition model_out_decode (m : option rpc_msg) : outcome :=
  match m with
  | None => OErr 0
  | Some m => match probe_of_msg m with
              | Some p => decode_dispatch p (JBits true true)
              | None => OErr 0
              end
  end.

Definition op_mismatch (o : c24_op) : bool :=
  negb match o with
       | OpIn id f wire res => res_eqb res (model_in id f wire)
       | OpMsg m wire res => res_eqb res (model_through m wire)
       | OpOut id f msg _ dec =>
         option_eqb msg_eqb msg (FromFrame id f) && outcome_eqb dec (model_out_decode (FromFrame id f))
       | OpDecode p b dmt out _ tok =>
         sum_eqb dmt (determineMessageType p)
         && outcome_eqb out (decode_dispatch p b) && option_eqb bytes_eqb tok (to_frame_token (decode_dispatch p b))
       | OpSyntax _ => true
       end.

Definition C24_mismatch (c : c24_case) : bool := existsb op_mismatch (c24_ops c).

(* the model's observations for the inputs of an operation *)
Definition model_op (o : c24_op) : c24_op :=
  match o with
  | OpIn id f wire _ => OpIn id f wire (model_in id f wire)
  | OpMsg m wire _ => OpMsg m wire (model_through m wire)
  | OpOut id f _ _ _ => OpOut id f (FromFrame id f) true (model_out_decode (FromFrame id f))
  | OpDecode p b _ _ _ _ =>
    OpDecode p b (determineMessageType p) (decode_dispatch p b) true (to_frame_token (decode_dispatch p b))
  | OpSyntax _ => OpSyntax true
  end.

(* ---- the property on the implementation's observations ----------------------------------------------- *)

Definition inbound_supported (f : frame) : bool :=
  match f with
  | FConnect _ _ _ _ _ _ _ _ | FSend _ _ _ _ _ _ _ _ _ _ _ | FRecvack _ _ _ | FDisconnect _ _ _ | FPing _ => true
  | _ => false
  end.
Definition outbound_supported (f : frame) : bool :=
  match f with
  | FConnack _ _ _ _ _ _ _ | FSendack _ _ _ _ _ _ | FRecv _ _ _ _ _ _ _ _ _ _ _ _ _ _ _ _ | FEvent _ _ _ _ _
  | FDisconnect _ _ _ | FPong _ => true
  | _ => false
  end.
Definition is_response_frame (f : frame) : bool :=
  match f with
  | FConnack _ _ _ _ _ _ _ | FSendack _ _ _ _ _ _ | FPong _ => true
  | _ => false
  end.
(* frames whose client message is a request (needs a non-empty id to be one): all but RECVACK *)
Definition is_request_frame (f : frame) : bool :=
  match f with FRecvack _ _ _ => false | _ => true end.
(* the reply token ToFrame returns for the client's message of a frame: RECVACK is a notification *)
Definition expected_token (id : str) (f : frame) : str :=
  match f with FRecvack _ _ _ => [] | _ => id end.

Definition mon_op (o : c24_op) : bool :=
  match o with
  | OpIn id f _ res =>
    (* frame -> message -> frame: an equivalent frame and the same request id *)
    if inbound_supported f && (negb (is_nil id) || negb (is_request_frame f)) then
      match res with
      | Some (f', tok) => frame_equiv f f' && bytes_eqb tok (expected_token id f)
      | None => false
      end
    else true
  | OpMsg m _ res =>
    (* whatever the field values, the reply token is the message's id *)
    match res with
    | Some (_, tok) => bytes_eqb tok (match msg_id m with Some i => i | None => [] end)
    | None => true
    end
  | OpOut id f msg wire_same _ =>
    (* frame -> message: the peer rebuilds an equivalent frame; a response carries the request id;
       the JSON encoding loses nothing *)
    if outbound_supported f then
      match msg with
      | Some m =>
        wire_same &&
        match frame_of_msg m with
        | Some (f', oid) =>
          frame_equiv f f' && (if is_response_frame f then option_eqb bytes_eqb oid (Some id) else true)
        | None => false
        end
      | None => false
      end
    else true
  | OpDecode _ _ _ out xor tok =>
    (* never both / neither of (message, error); a decoded request keeps its id through ToFrame *)
    xor && match out, tok with
           | OMsg _ (Some i), Some t => bytes_eqb t i
           | OMsg _ None, Some t => is_nil t
           | _, _ => true
           end
  | OpSyntax err_only => err_only
  end.

Definition C24_monitor (c : c24_case) : N := if forallb mon_op (c24_ops c) then 0 else 1.
