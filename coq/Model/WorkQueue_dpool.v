(* Model/WorkQueue_dpool.v — pkg/workqueue/bounded_pool.go and
   bounded_batch_pool.go as ONE transition system (the batch pool is the pool
   plus admissionMu, batching and the two cancel-on-close flags).

   Atomic steps: closed.Load; one select of acquireSlot; RLock + second
   closed.Load (batch); the admission select (queue send / stop / default);
   every receive, select and Invoke of the dispatcher (dispatch, drainQueue,
   collectBatch, submitToExecutor, retryExecutor, cancelQueued); handler entry
   and return; Close's closed.Store, close(stop), admissionMu critical section,
   cancel(), and its wait.  The ants executor is "Workers slots; Invoke puts the
   batch into a free slot or reports overload (overload may be reported at any
   time)".  Close's context never expires and callers' contexts are never
   cancelled (not modelled).  Task ids are the call stamps. *)
From WK Require Import Base.Base Model.WorkQueue.
Open Scope N_scope.

(* producer inside Submit / SubmitWait *)
Inductive ppc :=
| PIdle
| PCheck (x st : N) (wait : bool)   (* before the first closed.Load *)
| PSlot (x st : N) (wait : bool)    (* acquireSlot's select *)
| PLock (x st : N)                  (* batch only: holds a slot; RLock + closed.Load *)
| PSend (x st : N) (locked : bool). (* the admission select; locked = holds admissionMu.RLock *)

(* the dispatcher goroutine; dr = inside drainQueue *)
Inductive dpc :=
| DIdle (dr : bool)                    (* dispatch: select { <-queue, <-stop };  drainQueue: select { <-queue, default } *)
| DCollect (hand : list N) (dr : bool) (* collectBatch *)
| DSubmit (hand : list N) (dr : bool)  (* submitToExecutor: loop top (shouldCancelAccepted check) *)
| DInvoke (hand : list N) (dr : bool)  (* extendBatchReady, pool.Invoke *)
| DRetry (hand : list N) (dr : bool)   (* retryExecutor's select *)
| DCancelQ                             (* cancelQueued *)
| DExit.                               (* dispatchWG.Done() *)

(* one executor slot *)
Inductive rpc :=
| RIdle
| RGot (l : list N)             (* Invoke accepted the batch; runBatch not yet entered *)
| RRun (l : list N) (rb : N).   (* inside the handler since rb *)

Inductive dch := ChTake | ChStop | ChGo | ChOk (i : nat) | ChOverload | ChTimer | ChCtx.

Record dstate := DSt {
  d_now : N;
  d_closed : bool;        (* p.closed *)
  d_stopped : bool;       (* p.stop is closed *)
  d_ctxdone : bool;       (* p.ctx is cancelled *)
  d_used : N;             (* len(p.slots) *)
  d_queue : list N;       (* p.queue, oldest first *)
  d_pcs : list ppc;
  d_disp : dpc;
  d_wk : list rpc;
  d_close : cpc;
  d_cb : N;               (* stamp of the Close call (0 before) *)
  d_lost : list N;        (* accepted items released without handler or hook (retryExecutor / ctx.Done) *)
  d_subs : list sub;
  d_runs : list runr;
  d_cans : list canr;
  d_clos : list clo }.

Inductive dev :=
| DCall (t : nat) (wait : bool)
| DStep (t : nat) (alt : bool)     (* alt picks the stop case of a select *)
| DDisp (c : dch)
| DWork (i : nat)
| DCloseCall
| DCloseStep.

Section DPool.
Variable cf : cfg.

Definition is_batch : bool := kind_eqb (c_kind cf) KBatch.
Definition ca : bool := is_batch && c_cancel_acc cf.   (* CancelAcceptedOnClose *)
Definition cr : bool := is_batch && c_cancel_run cf.   (* CancelRunningOnClose *)
Definition dcap : N := c_qsize cf.
Definition bmax : nat := N.to_nat (N.max 1 (c_batch cf)).   (* policy MaxItems clipped to QueueSize, at least 1 *)

Definition d_pc (s : dstate) (t : nat) : ppc := nth t (d_pcs s) PIdle.
Definition d_k (s : dstate) (i : nat) : rpc := nth i (d_wk s) RIdle.

Definition hand_of (d : dpc) : list N :=
  match d with
  | DCollect h _ | DSubmit h _ | DInvoke h _ | DRetry h _ => h
  | _ => []
  end.

Definition should_cancel (s : dstate) : bool := ca && d_closed s.

Definition release_n (used : N) (n : nat) : N := used - N.min used (N.of_nat n).
Definition room (s : dstate) : bool := N.of_nat (length (d_queue s)) <? dcap.

Definition d_upd_pcs (s : dstate) (pcs : list ppc) (subs : list sub) : dstate :=
  DSt (d_now s) (d_closed s) (d_stopped s) (d_ctxdone s) (d_used s) (d_queue s) pcs (d_disp s) (d_wk s)
      (d_close s) (d_cb s) (d_lost s) subs (d_runs s) (d_cans s) (d_clos s).

Definition d_set_pc (s : dstate) (t : nat) (p : ppc) : dstate :=
  d_upd_pcs s (set_nth t p PIdle (d_pcs s)) (d_subs s).

Definition d_ret (s : dstate) (t : nat) (x st : N) (r : sres) : dstate :=
  d_upd_pcs s (set_nth t PIdle PIdle (d_pcs s)) (Sub x 0 st (d_now s) r :: d_subs s).

Definition d_uq (s : dstate) (used : N) (q : list N) : dstate :=
  DSt (d_now s) (d_closed s) (d_stopped s) (d_ctxdone s) used q (d_pcs s) (d_disp s) (d_wk s)
      (d_close s) (d_cb s) (d_lost s) (d_subs s) (d_runs s) (d_cans s) (d_clos s).

Definition d_set_disp (s : dstate) (d : dpc) : dstate :=
  DSt (d_now s) (d_closed s) (d_stopped s) (d_ctxdone s) (d_used s) (d_queue s) (d_pcs s) d (d_wk s)
      (d_close s) (d_cb s) (d_lost s) (d_subs s) (d_runs s) (d_cans s) (d_clos s).

Definition d_set_k (s : dstate) (i : nat) (k : rpc) : dstate :=
  DSt (d_now s) (d_closed s) (d_stopped s) (d_ctxdone s) (d_used s) (d_queue s) (d_pcs s) (d_disp s)
      (set_nth i k RIdle (d_wk s)) (d_close s) (d_cb s) (d_lost s) (d_subs s) (d_runs s) (d_cans s) (d_clos s).

(* cancelTasks: release the slots, call the hook for each item *)
Definition d_cancel (s : dstate) (l : list N) (d : dpc) : dstate :=
  DSt (d_now s) (d_closed s) (d_stopped s) (d_ctxdone s) (release_n (d_used s) (length l)) (d_queue s) (d_pcs s) d (d_wk s)
      (d_close s) (d_cb s) (d_lost s) (d_subs s) (d_runs s)
      (map (fun x => Can x (d_now s)) l ++ d_cans s) (d_clos s).

(* releaseSlots without handler or hook *)
Definition d_drop (s : dstate) (l : list N) (d : dpc) : dstate :=
  DSt (d_now s) (d_closed s) (d_stopped s) (d_ctxdone s) (release_n (d_used s) (length l)) (d_queue s) (d_pcs s) d (d_wk s)
      (d_close s) (d_cb s) (l ++ d_lost s) (d_subs s) (d_runs s) (d_cans s) (d_clos s).

Definition any_locked (l : list ppc) : bool :=
  existsb (fun p => match p with PSend _ _ true => true | _ => false end) l.

Definition d_thread_step (s : dstate) (t : nat) (alt : bool) : dstate :=
  match d_pc s t with
  | PIdle => s
  | PCheck x st wait =>
      if d_closed s then d_ret s t x st RClosed else d_set_pc s t (PSlot x st wait)
  | PSlot x st wait =>
      if alt then (if d_stopped s then d_ret s t x st RClosed else s)
      else if d_used s <? dcap
           then d_set_pc (d_uq s (d_used s + 1) (d_queue s)) t (if is_batch then PLock x st else PSend x st false)
           else if d_stopped s then s                       (* only the stop case is ready: taken with alt *)
           else if wait then s                              (* SubmitWait parks *)
           else d_ret s t x st RFull                        (* default *)
  | PLock x st =>
      (* admissionMu.RLock(); if p.closed.Load() { releaseSlots(1); return ErrClosed } *)
      if d_closed s then d_ret (d_uq s (release_n (d_used s) 1) (d_queue s)) t x st RClosed
      else d_set_pc s t (PSend x st true)
  | PSend x st locked =>
      if alt then
        (if d_stopped s then d_ret (d_uq s (release_n (d_used s) 1) (d_queue s)) t x st RClosed else s)
      else if room s then d_ret (d_uq s (d_used s) (d_queue s ++ [x])) t x st ROk
           else if d_stopped s then s
           else d_ret (d_uq s (release_n (d_used s) 1) (d_queue s)) t x st RFull
  end.

Definition d_disp_step (s : dstate) (c : dch) : dstate :=
  match d_disp s with
  | DIdle false =>
      match c with
      | ChTake =>
          match d_queue s with
          | x :: r =>
              let s' := d_uq s (d_used s) r in
              if should_cancel s then d_cancel s' [x] DCancelQ else d_set_disp s' (DCollect [x] false)
          | [] => s
          end
      | ChStop =>
          if d_stopped s then (if ca then d_set_disp s DCancelQ else d_set_disp s (DIdle true)) else s
      | _ => s
      end
  | DIdle true =>
      match d_queue s with
      | x :: r => d_set_disp (d_uq s (d_used s) r) (DCollect [x] true)
      | [] => d_set_disp s DExit
      end
  | DCollect h dr =>
      match c with
      | ChTake =>
          match d_queue s with
          | x :: r => if Nat.ltb (length h) bmax then d_set_disp (d_uq s (d_used s) r) (DCollect (h ++ [x]) dr) else s
          | [] => s
          end
      | ChGo => if should_cancel s then d_cancel s h DCancelQ else d_set_disp s (DSubmit h dr)
      | _ => s
      end
  | DSubmit h dr =>
      if should_cancel s then d_cancel s h DExit     (* cancelTasks(batch); return false — no cancelQueued *)
      else d_set_disp s (DInvoke h dr)
  | DInvoke h dr =>
      match c with
      | ChTake =>
          match d_queue s with
          | x :: r => if Nat.ltb (length h) bmax then d_set_disp (d_uq s (d_used s) r) (DInvoke (h ++ [x]) dr) else s
          | [] => s
          end
      | ChOk i =>
          if Nat.ltb i (length (d_wk s))
          then match d_k s i with
               | RIdle => d_set_k (d_set_disp (d_uq s (release_n (d_used s) (length h)) (d_queue s)) (DIdle dr)) i (RGot h)
               | _ => s
               end
          else s
      | ChOverload => d_set_disp s (DRetry h dr)
      | _ => s
      end
  | DRetry h dr =>
      match c with
      | ChTimer => d_set_disp s (DSubmit h dr)
      | ChStop => if ca && d_stopped s then d_cancel s h DExit else s
      | ChCtx =>
          if d_ctxdone s
          then (if should_cancel s then d_cancel s h DExit else d_drop s h DExit)
          else s
      | _ => s
      end
  | DCancelQ =>
      match d_queue s with
      | x :: r => d_cancel (d_uq s (d_used s) r) [x] DCancelQ
      | [] => d_set_disp s DExit
      end
  | DExit => s
  end.

Fixpoint mk_runs (l : list N) (rb re pos : N) : list runr :=
  match l with
  | [] => []
  | x :: r => Run x 0 rb re pos :: mk_runs r rb re (pos + 1)
  end.

Definition d_work_step (s : dstate) (i : nat) : dstate :=
  if negb (Nat.ltb i (length (d_wk s))) then s else
  match d_k s i with
  | RIdle => s
  | RGot l => d_set_k s i (RRun l (d_now s))
  | RRun l rb =>
      let s' := d_set_k s i RIdle in
      DSt (d_now s') (d_closed s') (d_stopped s') (d_ctxdone s') (d_used s') (d_queue s') (d_pcs s') (d_disp s') (d_wk s')
          (d_close s') (d_cb s') (d_lost s') (d_subs s') (mk_runs l rb (d_now s) 0 ++ d_runs s') (d_cans s') (d_clos s')
  end.

Definition all_idle (l : list rpc) : bool :=
  forallb (fun k => match k with RIdle => true | _ => false end) l.

Definition d_set_close (s : dstate) (closed stopped ctxdone : bool) (c : cpc) (cb : N) (cl : list clo) : dstate :=
  DSt (d_now s) closed stopped ctxdone (d_used s) (d_queue s) (d_pcs s) (d_disp s) (d_wk s)
      c cb (d_lost s) (d_subs s) (d_runs s) (d_cans s) cl.

Definition d_close_step (s : dstate) : dstate :=
  match d_close s with
  | CStart cb =>
      if is_batch
      then (* admissionMu.Lock(); closed.Store(true); close(stop); Unlock() — needs no reader *)
           if any_locked (d_pcs s) then s
           else d_set_close s true true (d_ctxdone s) (CMid cb) (d_cb s) (d_clos s)
      else d_set_close s true (d_stopped s) (d_ctxdone s) (CMid cb) (d_cb s) (d_clos s)   (* closed.Store(true) *)
  | CMid cb =>
      if is_batch
      then d_set_close s (d_closed s) (d_stopped s) (d_ctxdone s || cr) (CWait cb) (d_cb s) (d_clos s)  (* if CancelRunningOnClose { cancel() } *)
      else d_set_close s (d_closed s) true (d_ctxdone s) (CWait cb) (d_cb s) (d_clos s)                  (* close(p.stop) *)
  | CWait cb =>
      match d_disp s with
      | DExit =>
          if all_idle (d_wk s)       (* dispatchWG.Wait(); taskWG.Wait() *)
          then d_set_close s (d_closed s) (d_stopped s) (d_ctxdone s) CDone (d_cb s) (Clo cb (d_now s) true :: d_clos s)
          else s
      | _ => s
      end
  | _ => s
  end.

Definition d_tick (s : dstate) : dstate :=
  DSt (d_now s + 1) (d_closed s) (d_stopped s) (d_ctxdone s) (d_used s) (d_queue s) (d_pcs s) (d_disp s) (d_wk s)
      (d_close s) (d_cb s) (d_lost s) (d_subs s) (d_runs s) (d_cans s) (d_clos s).

Definition d_step (s0 : dstate) (e : dev) : dstate :=
  let s := d_tick s0 in
  match e with
  | DCall t wait =>
      match d_pc s t with
      | PIdle => d_set_pc s t (PCheck (d_now s) (d_now s) (wait && negb is_batch))
      | _ => s
      end
  | DStep t alt => d_thread_step s t alt
  | DDisp c => d_disp_step s c
  | DWork i => d_work_step s i
  | DCloseCall =>
      match d_close s with
      | CIdle => d_set_close s (d_closed s) (d_stopped s) (d_ctxdone s) (CStart (d_now s)) (d_now s) (d_clos s)
      | _ => s
      end
  | DCloseStep => d_close_step s
  end.

Definition d_init : dstate :=
  DSt 0 false false false 0 [] [] (DIdle false) (repeat RIdle (N.to_nat (c_workers cf))) CIdle 0 [] [] [] [] [].

Definition d_run (evs : list dev) : dstate := fold_left d_step evs d_init.

Definition d_hist (s : dstate) : hist := Hist cf (d_subs s) (d_runs s) (d_cans s) (d_clos s) [].

End DPool.
