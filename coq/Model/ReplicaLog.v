(* Model/ReplicaLog.v — the durable replica log behind
   pkg/channel/replication.ReplicaStore (store_adapter.go) for the two store
   back ends used by the harness:

     SMem     pkg/channel/store/memory.go            (MemoryChannelStore)
     SPebble  pkg/db/message/{compat,proposal_manifest,recovery_replace}.go
              through pkg/channel/store/channel_adapter.go

   plus the storage-neutral proposal identity of pkg/quorumlog/proposal.go.
   Definitions only.  One Gallina definition per Go function, same names
   (camelCase kept where it helps to find the Go text).

   Abstractions (stated in notes/C0x.md):
   * SHA-256 is the free (structural) hash: a digest IS the tuple it was
     computed from, so equal digests mean equal pre-images.  Collisions are
     outside the model.
   * byte strings (FromUID, ClientMsgNo, payload) are small numbers, 0 = empty;
     the byte cost of a record is [rec_bytes].
   * Version fields (always 1), Setting (always 0), SizeBytes (= len payload),
     ChannelKey / ChannelID (one channel) are not represented.
   * context cancellation, batch byte limits of the adapter (8 MiB in the
     harness) and the retention boundary (never adopted) are not represented. *)
From WK Require Import Base.Base.
From WK Require Import Gen.Consts_QuorumLog.
Open Scope N_scope.

(* ---- identities ------------------------------------------------------------- *)

(* command ids and message ids: user supplied numbers, or the value derived by
   recoveryBarrierContent from an authority (epoch, term, fence, leader) *)
Inductive tag := TUser (n : N) | TBarrier (e t f l : N).

Definition tag_eqb (a b : tag) : bool :=
  match a, b with
  | TUser x, TUser y => x =? y
  | TBarrier e t f l, TBarrier e' t' f' l' => (e =? e') && (t =? t') && (f =? f') && (l =? l')
  | _, _ => false
  end.
Definition tag_zero : tag := TUser 0.
Definition tag_is_zero (a : tag) : bool := tag_eqb a tag_zero.

(* ch.Record (ID, FromUID, ClientMsgNo, Payload, ServerTimestampMS, SyncOnce, Epoch) *)
Record record := Rec {
  r_id : tag; r_from : N; r_cno : N; r_pay : N; r_ts : N; r_sync : bool; r_epoch : N }.

Definition record_eqb (a b : record) : bool :=
  tag_eqb (r_id a) (r_id b) && (r_from a =? r_from b) && (r_cno a =? r_cno b) &&
  (r_pay a =? r_pay b) && (r_ts a =? r_ts b) && Bool.eqb (r_sync a) (r_sync b) &&
  (r_epoch a =? r_epoch b).

(* 96 + len(FromUID) + len(ClientMsgNo) + len(Payload); the harness uses
   2-byte uids / client numbers and 4-byte payloads, 25 bytes for a barrier *)
Definition rec_bytes (r : record) : N :=
  recordFixedBytes + (if r_from r =? 0 then 0 else 2) + (if r_cno r =? 0 then 0 else 2)
  + (match r_id r with TBarrier _ _ _ _ => 25 | _ => 4 end).
(* the Pebble page reader budgets with the size of the re-encoded compatibility message
   (45-byte header, seven 4-byte length prefixes, the channel id, a 12-byte timestamp trailer,
   the strings and the payload) and reads rows with a budget on the raw payload length *)
Definition rec_pay_len (r : record) : N :=
  match r_id r with TBarrier _ _ _ _ => 25 | _ => 4 end.
Definition rec_size (r : record) : N :=
  pebbleRecordFixedBytes + (if r_from r =? 0 then 0 else 2) + (if r_cno r =? 0 then 0 else 2) + rec_pay_len r.

(* digestProposalEntry: the hashed tuple itself *)
Inductive digest :=
| D0
| DH (e t f idx pt pidx : N) (c : tag) (pd : digest) (r : record).

Fixpoint digest_eqb (a b : digest) : bool :=
  match a, b with
  | D0, D0 => true
  | DH e t f i pt pi c pd r, DH e' t' f' i' pt' pi' c' pd' r' =>
      (i =? i') && (t =? t') && (e =? e') && (f =? f') && (pt =? pt') && (pi =? pi') &&
      tag_eqb c c' && record_eqb r r' && digest_eqb pd pd'
  | _, _ => false
  end.
Definition digest_is_zero (d : digest) : bool := match d with D0 => true | _ => false end.

(* quorumlog.EntryIdentity *)
Record ident := Ident {
  i_e : N; i_t : N; i_f : N; i_idx : N; i_pt : N; i_pidx : N;
  i_cmd : tag; i_pd : digest; i_dg : digest }.
Definition ident_zero : ident := Ident 0 0 0 0 0 0 tag_zero D0 D0.
Definition ident_eqb (a b : ident) : bool :=
  (i_idx a =? i_idx b) && (i_e a =? i_e b) && (i_t a =? i_t b) && (i_f a =? i_f b) &&
  (i_pt a =? i_pt b) && (i_pidx a =? i_pidx b) && tag_eqb (i_cmd a) (i_cmd b) &&
  digest_eqb (i_dg a) (i_dg b) && digest_eqb (i_pd a) (i_pd b).
Definition ident_is_zero (a : ident) : bool := ident_eqb a ident_zero.

(* quorumlog.ProposalManifest *)
Record manifest := Manifest {
  m_e : N; m_t : N; m_f : N; m_cmd : tag; m_base : N; m_last : N;
  m_pt : N; m_pidx : N; m_pd : digest; m_dg : digest }.
Definition manifest_zero : manifest := Manifest 0 0 0 tag_zero 0 0 0 0 D0 D0.
Definition manifest_eqb (a b : manifest) : bool :=
  (m_last a =? m_last b) && (m_base a =? m_base b) && (m_e a =? m_e b) && (m_t a =? m_t b) &&
  (m_f a =? m_f b) && tag_eqb (m_cmd a) (m_cmd b) && (m_pt a =? m_pt b) && (m_pidx a =? m_pidx b) &&
  digest_eqb (m_dg a) (m_dg b) && digest_eqb (m_pd a) (m_pd b).
Definition manifest_is_zero (a : manifest) : bool := manifest_eqb a manifest_zero.
Definition set_m_dg (m : manifest) (d : digest) : manifest :=
  Manifest (m_e m) (m_t m) (m_f m) (m_cmd m) (m_base m) (m_last m) (m_pt m) (m_pidx m) (m_pd m) d.

Definition lenN {A} (l : list A) : N := N.of_nat (length l).

(* ProposalManifest.StructurallyValid *)
Definition StructurallyValid (m : manifest) : bool :=
  if (m_e m =? 0) || (m_t m =? 0) || (m_f m =? 0) || tag_is_zero (m_cmd m) || digest_is_zero (m_dg m)
     || (m_last m <=? m_base m) || negb (m_pidx m =? m_base m)
  then false
  else if m_base m =? 0 then (m_pt m =? 0) && digest_is_zero (m_pd m)
  else negb (m_pt m =? 0) && negb (digest_is_zero (m_pd m)).

(* ProposalManifest.ValidFor *)
Definition ValidFor (m : manifest) (expectedBase : N) (count : N) : bool :=
  StructurallyValid m && (0 <? count) && (m_base m =? expectedBase) && (m_last m =? expectedBase + count).

(* the loop of DeriveProposalEntries *)
Fixpoint derive_loop (m : manifest) (idx pt pidx : N) (pd : digest) (recs : list record)
  : option (list ident) :=
  match recs with
  | [] => Some []
  | r :: rest =>
      if tag_is_zero (r_id r) || negb (r_epoch r =? m_e m) || (r_ts r =? 0) then None
      else
        let d := DH (m_e m) (m_t m) (m_f m) idx pt pidx (m_cmd m) pd r in
        let e := Ident (m_e m) (m_t m) (m_f m) idx pt pidx (m_cmd m) pd d in
        match derive_loop m (idx + 1) (m_t m) idx d rest with
        | Some es => Some (e :: es)
        | None => None
        end
  end.

(* quorumlog.DeriveProposalEntries *)
Definition DeriveProposalEntries (m : manifest) (recs : list record) : option (list ident) :=
  if (lenN recs =? 0) || (m_e m =? 0) || (m_t m =? 0) || (m_f m =? 0) || tag_is_zero (m_cmd m)
     || negb (m_last m =? m_base m + lenN recs) || negb (m_pidx m =? m_base m)
  then None
  else if (if m_base m =? 0 then negb (m_pt m =? 0) || negb (digest_is_zero (m_pd m))
           else (m_pt m =? 0) || digest_is_zero (m_pd m))
  then None
  else derive_loop m (m_base m + 1) (m_pt m) (m_pidx m) (m_pd m) recs.

Definition last_ident (es : list ident) : ident := last es ident_zero.

(* quorumlog.SealProposalManifest *)
Definition SealProposalManifest (m : manifest) (recs : list record) : option (manifest * list ident) :=
  match DeriveProposalEntries (set_m_dg m D0) recs with
  | Some es => Some (set_m_dg m (i_dg (last_ident es)), es)
  | None => None
  end.

(* validEntryIdentity (store_adapter.go) *)
Definition validEntryIdentity (i : ident) : bool :=
  if (i_e i =? 0) || (i_t i =? 0) || (i_f i =? 0) || (i_idx i =? 0) || negb (i_pidx i + 1 =? i_idx i)
     || tag_is_zero (i_cmd i) || digest_is_zero (i_dg i)
  then false
  else if i_pidx i =? 0 then (i_pt i =? 0) && digest_is_zero (i_pd i)
  else negb (i_pt i =? 0) && negb (digest_is_zero (i_pd i)).

(* ---- append outcomes and error classes ------------------------------------------ *)

Inductive outcome := ODurable | OAlready | ONotWritten | OConflict | OUnknown.
Definition outcome_durable (o : outcome) : bool :=
  match o with ODurable | OAlready => true | _ => false end.

(* error classes, as printed by VerifErrClass *)
Definition EOk : N := 0.          Definition EStale : N := 1.
Definition EConflict : N := 2.    Definition EFenced : N := 3.
Definition ENotReady : N := 4.    Definition EBackpressured : N := 5.
Definition EInvalid : N := 6.     Definition EQuorumUnavailable : N := 7.
Definition ERecoveryQuorum : N := 8. Definition EProbeIncomplete : N := 9.
Definition EInjected : N := 10.   Definition EExchange : N := 11.
Definition EOther : N := 99.

(* ---- the replica ------------------------------------------------------------------ *)

Inductive store_kind := SMem | SPebble.

(* rp_log: position k holds entry index k+1 (identity and message row);
   rp_bycmd / rp_bylast: the two proposal indexes (newest binding first);
   rp_hw: the persisted committed watermark (checkpoint HW). *)
Record replica := Replica {
  rp_log : list (ident * record);
  rp_bycmd : list (tag * manifest);
  rp_bylast : list (N * manifest);
  rp_hw : N }.
Definition replica_empty : replica := Replica [] [] [] 0.

Definition rp_leo (rp : replica) : N := lenN (rp_log rp).

(* entry at 1-based index *)
Definition log_at (rp : replica) (idx : N) : option (ident * record) :=
  if idx =? 0 then None else nth_error (rp_log rp) (N.to_nat (idx - 1)).
Definition ent_at (rp : replica) (idx : N) : option ident := option_map fst (log_at rp idx).
Definition row_at (rp : replica) (idx : N) : option record := option_map snd (log_at rp idx).

Fixpoint by_cmd (l : list (tag * manifest)) (c : tag) : option manifest :=
  match l with
  | [] => None
  | (c', m) :: r => if tag_eqb c c' then Some m else by_cmd r c
  end.
Fixpoint by_last (l : list (N * manifest)) (k : N) : option manifest :=
  match l with
  | [] => None
  | (k', m) :: r => if k =? k' then Some m else by_last r k
  end.
(* map assignment: overwrite = drop the old binding, then add *)
Definition set_cmd (l : list (tag * manifest)) (c : tag) (m : manifest) :=
  (c, m) :: filter (fun p => negb (tag_eqb (fst p) c)) l.
Definition set_last (l : list (N * manifest)) (k : N) (m : manifest) :=
  (k, m) :: filter (fun p => negb (fst p =? k)) l.

(* ReplicaState (store.go) *)
Record rstate := RState { rs_leo : N; rs_committed : N; rs_manifest : manifest; rs_tail : ident }.
Definition rstate_zero : rstate := RState 0 0 manifest_zero ident_zero.
Definition rstate_eqb (a b : rstate) : bool :=
  (rs_leo a =? rs_leo b) && (rs_committed a =? rs_committed b) &&
  manifest_eqb (rs_manifest a) (rs_manifest b) && ident_eqb (rs_tail a) (rs_tail b).
Definition rstate_is_zero (a : rstate) : bool := rstate_eqb a rstate_zero.

(* validReplicaState (exchange_server.go) = validateExactState (store_adapter.go) on
   states whose CheckpointHW equals HW *)
Definition validReplicaState (s : rstate) : bool :=
  if rs_leo s =? 0 then (rs_committed s =? 0) && manifest_is_zero (rs_manifest s) && ident_is_zero (rs_tail s)
  else
    let m := rs_manifest s in let t := rs_tail s in
    (rs_committed s <=? rs_leo s) && StructurallyValid m && (m_last m =? rs_leo s) &&
    validEntryIdentity t && (i_idx t =? rs_leo s) && (i_e t =? m_e m) && (i_t t =? m_t m) &&
    (i_f t =? m_f m) && tag_eqb (i_cmd t) (m_cmd m) && digest_eqb (i_dg t) (m_dg m).

(* loadExactStateLocked (memory.go) / loadDurableFrontierLocked (recovery_replace.go),
   followed by validateExactState of the adapter.  Error: ErrLogConflict. *)
Definition loadExactState (k : store_kind) (rp : replica) : option rstate :=
  let leo := rp_leo rp in
  if leo <? rp_hw rp then None
  else if leo =? 0 then Some (RState 0 (rp_hw rp) manifest_zero ident_zero)
  else
    match by_last (rp_bylast rp) leo, ent_at rp leo with
    | Some m, Some e =>
        let paired :=
          match k with
          | SMem => true
          | SPebble => match by_cmd (rp_bycmd rp) (m_cmd m) with
                       | Some m' => manifest_eqb m' m
                       | None => false
                       end
          end in
        if paired && (m_last m =? leo) && digest_eqb (m_dg m) (i_dg e) && (m_t m =? i_t e) &&
           (m_e m =? i_e e) && (m_f m =? i_f e) && tag_eqb (m_cmd m) (i_cmd e)
        then let s := RState leo (rp_hw rp) m e in
             if validReplicaState s then Some s else None
        else None
    | _, _ => None
    end.

(* EntryProbe *)
Record probe := Probe { pb_idx : N; pb_present : bool; pb_ident : ident }.

(* validProbeIndexes *)
Fixpoint nodupN (l : list N) : bool :=
  match l with
  | [] => true
  | x :: r => negb (existsb (N.eqb x) r) && nodupN r
  end.
Definition validProbeIndexes (idx : list N) : bool :=
  forallb (fun i => negb (i =? 0)) idx && nodupN idx.

(* validProbeEntryChain *)
Definition validProbeEntryChain (es : list probe) : bool :=
  forallb (fun e =>
    if negb (pb_present e) || (pb_idx e <=? 1) then true
    else match find (fun p => pb_present p && (pb_idx p =? pb_idx e - 1)) es with
         | Some p =>
             let a := pb_ident e in let b := pb_ident p in
             (i_pidx a =? i_idx b) && (i_pt a =? i_t b) && digest_eqb (i_pd a) (i_dg b)
         | None => true
         end) es.

(* ReplicaStore.Load for one item: the frontier plus position-aligned probes.
   None = the item carries an error (ErrLogConflict). *)
Definition load (k : store_kind) (rp : replica) (indexes : list N) : option (rstate * list probe) :=
  match loadExactState k rp with
  | None => None
  | Some s =>
      let es := map (fun i => match ent_at rp i with
                              | Some e => Probe i true e
                              | None => Probe i false ident_zero
                              end) indexes in
      if forallb (fun p => if pb_present p
                           then (i_idx (pb_ident p) =? pb_idx p) && validEntryIdentity (pb_ident p)
                           else true) es
         && validProbeEntryChain es
      then Some (s, es) else None
  end.

(* ---- exact append (Sync) ------------------------------------------------------------- *)

(* Mutation (store.go) *)
Record mutation := Mutation {
  mu_manifest : manifest; mu_records : list record; mu_committed : N; mu_sa : bool }.

(* validMutation (store_adapter.go) *)
Definition validMutation (mu : mutation) : bool :=
  let m := mu_manifest mu in
  ValidFor m (m_base m) (lenN (mu_records mu)) && (mu_committed mu <=? m_last m) &&
  match SealProposalManifest m (mu_records mu) with
  | Some (_, es) => (lenN es =? lenN (mu_records mu)) && digest_eqb (i_dg (last_ident es)) (m_dg m)
  | None => false
  end.

(* append the rows/identities of one proposal and register it in both indexes *)
Definition put_proposal (rp : replica) (m : manifest) (es : list ident) (recs : list record) : replica :=
  Replica (rp_log rp ++ combine es recs) (set_cmd (rp_bycmd rp) (m_cmd m) m)
          (set_last (rp_bylast rp) (m_last m) m) (rp_hw rp).
Definition set_hw (rp : replica) (hw : N) : replica :=
  Replica (rp_log rp) (rp_bycmd rp) (rp_bylast rp) hw.

Definition entries_persisted (rp : replica) (es : list ident) : bool :=
  forallb (fun e => match ent_at rp (i_idx e) with
                    | Some p => ident_eqb p e
                    | None => false
                    end) es.
Definition entries_absent (rp : replica) (es : list ident) : bool :=
  forallb (fun e => match ent_at rp (i_idx e) with Some _ => false | None => true end) es.

(* MemoryChannelStore.appendLeaderExactLocked: (new replica, outcome, NeedFrom) *)
Definition appendLeaderExactLocked (rp : replica) (m : manifest) (recs : list record)
  : replica * outcome * N :=
  if negb (ValidFor m (m_base m) (lenN recs)) then (rp, ONotWritten, 0)
  else match DeriveProposalEntries m recs with
  | None => (rp, ONotWritten, 0)
  | Some es =>
    if negb (digest_eqb (i_dg (last_ident es)) (m_dg m)) then (rp, OConflict, 0)
    else
    let leo := rp_leo rp in
    if leo <? m_base m then (rp, OConflict, leo + 1)
    else if (0 <? m_base m) &&
            negb (match by_last (rp_bylast rp) (m_base m) with
                  | Some p => (m_t p =? m_pt m) && digest_eqb (m_dg p) (m_pd m)
                  | None => false
                  end)
    then (rp, OConflict, 0)
    else
    match by_cmd (rp_bycmd rp) (m_cmd m), by_last (rp_bylast rp) (m_last m) with
    | None, None =>
        if negb (entries_absent rp es) then (rp, OConflict, 0)
        else if (leo <? m_base m) || ((m_base m <? leo) && (leo <? m_last m)) then (rp, OConflict, 0)
        else if m_last m <=? leo then (rp, OConflict, 0)
        else (put_proposal rp m es recs, ODurable, 0)
    | Some bc, Some bl =>
        if manifest_eqb bc m && manifest_eqb bl m && (m_last m <=? leo) && entries_persisted rp es
        then (rp, OAlready, 0) else (rp, OConflict, 0)
    | _, _ => (rp, OConflict, 0)
    end
  end.

(* message-id and idempotency-key indexes of the Pebble store, read off the rows *)
Fixpoint find_row (p : record -> bool) (l : list (ident * record)) (seq : N) : option N :=
  match l with
  | [] => None
  | (_, r) :: rest =>
      match find_row p rest (seq + 1) with
      | Some s => Some s          (* the newest row wins: index rows are overwritten *)
      | None => if p r then Some seq else None
      end
  end.
Definition msgid_seq (rp : replica) (id : tag) : option N :=
  find_row (fun r => tag_eqb (r_id r) id) (rp_log rp) 1.
Definition idem_seq (rp : replica) (from cno : N) : option N :=
  find_row (fun r => (r_from r =? from) && (r_cno r =? cno)) (rp_log rp) 1.
Definition has_key (r : record) : bool := negb (r_from r =? 0) && negb (r_cno r =? 0).

(* ChannelLog.validateAppendRow over the rows of one proposal (append.go):
   duplicate message id / key inside the batch, strict-mode global message id
   index, idempotency key stored at another sequence.  true = accepted *)
Fixpoint validateRowsForAppend (rp : replica) (strict : bool) (seq : N) (seen : list record)
         (recs : list record) : bool :=
  match recs with
  | [] => true
  | r :: rest =>
      if existsb (fun s => tag_eqb (r_id s) (r_id r)) seen then false
      else if strict && match msgid_seq rp (r_id r) with
                        | Some s => negb (s =? seq)
                        | None => false
                        end then false
      else if negb (has_key r) then validateRowsForAppend rp strict (seq + 1) (r :: seen) rest
      else if existsb (fun s => has_key s && (r_from s =? r_from r) && (r_cno s =? r_cno r)) seen then false
      else match idem_seq rp (r_from r) (r_cno r) with
           | Some s => if s =? seq then validateRowsForAppend rp strict (seq + 1) (r :: seen) rest else false
           | None => validateRowsForAppend rp strict (seq + 1) (r :: seen) rest
           end
  end.

(* loadDurableProposalPairByLast *)
Definition pair_by_last (rp : replica) (k : N) : option (option manifest) :=
  match by_last (rp_bylast rp) k with
  | None => Some None
  | Some bl => match by_cmd (rp_bycmd rp) (m_cmd bl) with
               | Some bc => if manifest_eqb bc bl then Some (Some bl) else None
               | None => None
               end
  end.

(* validateDurableProposalPredecessor *)
Definition validateDurableProposalPredecessor (rp : replica) (m : manifest) : bool :=
  if m_base m =? 0 then true
  else match pair_by_last rp (m_base m) with
       | Some (Some p) =>
           (m_last p =? m_base m) && (m_t p =? m_pt m) && digest_eqb (m_dg p) (m_pd m) &&
           match ent_at rp (m_base m) with
           | Some t => (i_idx t =? m_last p) && (i_e t =? m_e p) && (i_t t =? m_t p) && (i_f t =? m_f p) &&
                       tag_eqb (i_cmd t) (m_cmd p) && digest_eqb (i_dg t) (m_dg p)
           | None => false
           end
       | _ => false
       end.

(* ChannelStore.prepareExactAppendRecordsLocked + commit (compat.go), one item per
   batch: (new replica, outcome, NeedFrom) *)
Definition prepareExactAppendRecordsLocked (rp : replica) (mu : mutation) : replica * outcome * N :=
  let m := mu_manifest mu in let recs := mu_records mu in
  let leo := rp_leo rp in
  if leo <? m_base m then (rp, OConflict, leo + 1)
  else if negb (ValidFor m (m_base m) (lenN recs)) then (rp, ONotWritten, 0)
  else match DeriveProposalEntries m recs with
  | None => (rp, ONotWritten, 0)
  | Some es =>
    if negb (digest_eqb (i_dg (last_ident es)) (m_dg m)) then (rp, OConflict, 0)
    else if negb (validateDurableProposalPredecessor rp m) then (rp, OConflict, 0)
    else
    let sequencedFresh := mu_sa mu && (m_base m =? leo) in
    let bc := by_cmd (rp_bycmd rp) (m_cmd m) in
    let bl := by_last (rp_bylast rp) (m_last m) in
    let commandPresent := if sequencedFresh then false
                          else match bc with Some _ => true | None => false end in
    let index_ok :=
      if sequencedFresh then true
      else match bc, bl with
           | None, None => entries_absent rp es
           | Some c, Some l => manifest_eqb c m && manifest_eqb l m && entries_persisted rp es
           | _, _ => false
           end in
    if negb index_ok then (rp, OConflict, 0)
    else
    let nextLEO := m_base m + lenN recs in
    if nextLEO <? mu_committed mu then (rp, ONotWritten, 0)
    else if negb (mu_committed mu =? 0) && (N.max leo nextLEO <? rp_hw rp) then (rp, OConflict, 0)
    else
    let hw' := N.max (rp_hw rp) (mu_committed mu) in
    if commandPresent then
      if leo <? nextLEO then (rp, OConflict, 0) else (set_hw rp hw', OAlready, 0)
    else if (leo <? m_base m) || ((m_base m <? leo) && (leo <? nextLEO)) then (rp, OConflict, 0)
    else if nextLEO <=? leo then (rp, OConflict, 0)
    else if negb (validateRowsForAppend rp (negb (mu_sa mu)) (m_base m + 1) [] recs) then (rp, OConflict, 0)
    else (set_hw (put_proposal rp m es recs) hw', ODurable, 0)
  end.

(* ReplicaStore.Sync for one mutation (storeAdapter.Sync + normalizeMutationResult) *)
Definition sync (k : store_kind) (rp : replica) (mu : mutation) : replica * outcome * N :=
  if negb (validMutation mu) then (rp, ONotWritten, 0)
  else match k with
  | SMem =>
      let '(rp', o, nf) := appendLeaderExactLocked rp (mu_manifest mu) (mu_records mu) in
      if outcome_durable o
      then (if rp_hw rp' <? mu_committed mu then set_hw rp' (mu_committed mu) else rp', o, nf)
      else (rp', o, nf)
  | SPebble => prepareExactAppendRecordsLocked rp mu
  end.

(* StoreCheckpoint: regressions are ignored *)
Definition storeCheckpoint (rp : replica) (hw : N) : replica :=
  if rp_hw rp <? hw then set_hw rp hw else rp.

(* ---- command lookup ------------------------------------------------------------------ *)

Fixpoint rows_range (rp : replica) (from : N) (count : nat) : option (list (ident * record)) :=
  match count with
  | O => Some []
  | S c => match log_at rp from with
           | Some x => match rows_range rp (from + 1) c with
                       | Some r => Some (x :: r)
                       | None => None
                       end
           | None => None
           end
  end.

(* LookupCommands: LoadExactProposal (memory.go) / LoadDurableProposal (compat.go).
   inl err | inr (Some (manifest, records)) | inr None *)
Definition lookupCommand (k : store_kind) (rp : replica) (c : tag) (maxRecords : N)
  : N + option (manifest * list record) :=
  match by_cmd (rp_bycmd rp) c with
  | None => inr None
  | Some m =>
      let count := m_last m - m_base m in
      if maxRecords <? count then inl EBackpressured
      else match rows_range rp (m_base m + 1) (N.to_nat count) with
           | None => inl EConflict
           | Some rows =>
               let ok := match k with
                         | SMem => true
                         | SPebble => forallb (fun x => tag_eqb (i_cmd (fst x)) c) rows
                         end in
               if ok then inr (Some (m, map (fun x => let r := snd x in
                      Rec (r_id r) (r_from r) (r_cno r) (r_pay r) (r_ts r) (r_sync r) (m_e m)) rows))
               else inl EConflict
           end
  end.

(* ---- recovery pages (Fetch) ---------------------------------------------------------- *)

(* RecoveryProposal *)
Definition rproposal := (manifest * list record)%type.

(* FetchRange, without the channel identity *)
Record fetchreq := FetchReq {
  fq_expected : rstate; fq_from : N; fq_through : N; fq_previous : ident; fq_maxbytes : N }.

(* ReadExactRecoveryPage (memory.go) / ReadDurableRecoveryPage (recovery_replace.go):
   whole proposals starting at From, not beyond Through, within MaxBytes.
   Result: inl err | inr rows *)
Fixpoint read_page (k : store_kind) (rp : replica) (p : manifest) (through maxBytes used : N)
         (acc : list (ident * record)) (fuel : nat) : N + list (ident * record) :=
  match fuel with
  | O => inl EOther
  | S fuel' =>
    if through <? m_last p then (if lenN acc =? 0 then inl EBackpressured else inr acc)
    else if (match k with SPebble => maxBytes <=? used | SMem => false end) then inr acc
    else match rows_range rp (m_base p + 1) (N.to_nat (m_last p - m_base p)) with
    | None => (match k with SMem => inl ENotReady
                       | SPebble => if lenN acc =? 0 then inl EBackpressured else inr acc end)
    | Some rows =>
      if negb (forallb (fun x => (tag_eqb (i_cmd (fst x)) (m_cmd p))) rows) then inl EConflict
      else if (match k with
               | SPebble => (1 <? lenN rows) &&
                            (maxBytes - used <? fold_left (fun a x => a + rec_pay_len (snd x)) rows 0)
               | SMem => false end)
      then (if lenN acc =? 0 then inl EBackpressured else inr acc)
      else
      let cost := match k with SMem => rec_bytes | SPebble => rec_size end in
      (* per-record budget check inside one proposal *)
      let fits := (fix go (rs : list (ident * record)) (pb : N) : option N :=
                     match rs with
                     | [] => Some pb
                     | x :: r => if maxBytes <? pb + cost (snd x) then None else go r (pb + cost (snd x))
                     end) rows 0 in
      match fits with
      | None => inl EBackpressured
      | Some pb =>
        if maxBytes <? used + pb then (if lenN acc =? 0 then inl EBackpressured else inr acc)
        else
        let acc' := acc ++ rows in
        if m_last p =? through then inr acc'
        else match ent_at rp (m_last p + 1) with
             | None => inl EConflict
             | Some nx => match by_cmd (rp_bycmd rp) (i_cmd nx) with
                          | Some np => if m_base np =? m_last p
                                       then read_page k rp np through maxBytes (used + pb) acc' fuel'
                                       else inl EConflict
                          | None => inl EConflict
                          end
             end
      end
    end
  end.

(* group consecutive rows with the same command id into proposals
   (recoveryProposalsFromPage, store_adapter.go).  None = ErrLogConflict *)
Fixpoint take_cmd (c : tag) (e t f : N) (rows : list (ident * record))
  : option (list (ident * record) * list (ident * record)) :=
  match rows with
  | [] => Some ([], [])
  | x :: r =>
      if tag_eqb (i_cmd (fst x)) c then
        if (i_e (fst x) =? e) && (i_t (fst x) =? t) && (i_f (fst x) =? f) then
          match take_cmd c e t f r with
          | Some (g, rest) => Some (x :: g, rest)
          | None => None
          end
        else None
      else Some ([], rows)
  end.

Fixpoint group_proposals (rows : list (ident * record)) (fuel : nat) : option (list rproposal) :=
  match fuel with
  | O => None
  | S fuel' =>
    match rows with
    | [] => Some []
    | x :: r =>
        let i := fst x in
        match take_cmd (i_cmd i) (i_e i) (i_t i) (i_f i) r with
        | None => None
        | Some (g, rest) =>
            let grp := x :: g in
            let li := fst (last grp x) in
            let m := Manifest (i_e i) (i_t i) (i_f i) (i_cmd i) (i_pidx i) (i_idx li)
                              (i_pt i) (i_pidx i) (i_pd i) (i_dg li) in
            let recs := map (fun y => let q := snd y in
                          Rec (r_id q) (r_from q) (r_cno q) (r_pay q) (r_ts q) (r_sync q) (i_e (fst y))) grp in
            match SealProposalManifest m recs with
            | Some (sealed, derived) =>
                if manifest_eqb sealed m && (lenN derived =? lenN recs) && ident_eqb (last_ident derived) li
                then match group_proposals rest fuel' with
                     | Some ps => Some ((m, recs) :: ps)
                     | None => None
                     end
                else None
            | None => None
            end
        end
    end
  end.

(* validRecoveryProposals (exchange_server.go) *)
Fixpoint validRecoveryProposals_loop (ps : list rproposal) (base : N) (previous : ident)
         (maxBytes bytes records : N) : option (N * N) :=
  match ps with
  | [] => Some (base, records)
  | (m, recs) :: rest =>
      if negb (m_base m =? base) || negb (ValidFor m base (lenN recs)) then None
      else match SealProposalManifest m recs with
      | None => None
      | Some (sealed, es) =>
          if negb (manifest_eqb sealed m) || negb (lenN es =? lenN recs)
             || negb (digest_eqb (i_dg (last_ident es)) (m_dg m)) then None
          else if negb (m_pidx m =? i_idx previous) || negb (m_pt m =? i_t previous)
                  || negb (digest_eqb (m_pd m) (i_dg previous)) then None
          else
            let total := fold_left (fun a r => a + rec_bytes r) recs 0 in
            (* every running prefix must stay within MaxBytes; costs are positive, so
               checking the running sum before each record equals this check *)
            if maxBytes <? bytes + total then None
            else validRecoveryProposals_loop rest (m_last m) (last_ident es) maxBytes
                   (bytes + total) (records + lenN recs)
      end
  end.
Definition validRecoveryProposals (from through : N) (previous : ident) (maxBytes : N)
           (ps : list rproposal) : bool :=
  match ps with
  | [] => false
  | _ => match validRecoveryProposals_loop ps (from - 1) previous maxBytes 0 0 with
         | Some (base, records) =>
             (from <=? base) && (base <=? through) && (records =? base - from + 1) &&
             (records <=? maxRecoveryProbeIndexes)
         | None => false
         end
  end.

(* ReplicaStore.Fetch for one range (storeAdapter.Fetch): inl err | inr (state, proposals) *)
Definition fetch (k : store_kind) (rp : replica) (q : fetchreq) : N + (rstate * list rproposal) :=
  let from := fq_from q in let through := fq_through q in
  if (from =? 0) || (through <? from) || (maxRecoveryProbeIndexes <=? through - from) || (fq_maxbytes q =? 0)
     || negb (validReplicaState (fq_expected q)) || (rs_leo (fq_expected q) <? through)
     || (if from =? 1 then negb (ident_is_zero (fq_previous q))
         else negb (validEntryIdentity (fq_previous q)) || negb (i_idx (fq_previous q) =? from - 1))
  then inl EInvalid
  else match loadExactState k rp with
  | None => inl EConflict
  | Some state =>
    if rp_leo rp <? through then inl EConflict
    else match ent_at rp from with
    | None => inl EConflict
    | Some first =>
      match by_cmd (rp_bycmd rp) (i_cmd first) with
      | None => inl EConflict
      | Some fp =>
        if negb (m_base fp + 1 =? from) then inl EConflict
        else match read_page k rp fp through (fq_maxbytes q) 0 [] (S (N.to_nat (through - from + 1))) with
        | inl e => inl e
        | inr rows =>
          if negb (rstate_eqb state (fq_expected q)) then inl EStale
          else
          (* recoveryProposalsFromPage *)
          if (lenN rows =? 0) || (through - from + 1 <? lenN rows) then inl EConflict
          else if negb (forallb (fun x => validEntryIdentity (fst x)) rows) then inl EConflict
          else if fq_maxbytes q <? fold_left (fun a x => a + rec_bytes (snd x)) rows 0 then inl EBackpressured
          else
          let pb := map (fun x => Probe (i_idx (fst x)) true (fst x)) rows in
          if negb (validProbeEntryChain pb) then inl EConflict
          else
          let f0 := fst (hd (ident_zero, Rec tag_zero 0 0 0 0 false 0) rows) in
          let pv := fq_previous q in
          if negb (i_pidx f0 =? i_idx pv) || negb (i_pt f0 =? i_t pv) || negb (digest_eqb (i_pd f0) (i_dg pv))
          then inl EConflict
          else match group_proposals rows (S (length rows)) with
          | None => inl EConflict
          | Some ps =>
            match ps with
            | [] => inl EConflict
            | (m0, _) :: _ =>
              if negb (m_base m0 + 1 =? from) || (through <? m_last (fst (last ps (m0, [])))) then inl EConflict
              else inr (state, ps)
            end
          end
        end
      end
    end
  end.

(* ---- recovery suffix replacement (Replace) -------------------------------------------- *)

Record replacement := Replacement {
  rq_expected : rstate; rq_keep : N; rq_proposals : list rproposal; rq_committed : N }.

(* validateRecoveryReplacement (store_adapter.go): true = admitted *)
Fixpoint replacement_chain (ps : list rproposal) (base : N) : option N :=
  match ps with
  | [] => Some base
  | (m, recs) :: rest =>
      if negb (m_base m =? base) || negb (validMutation (Mutation m recs 0 false)) then None
      else replacement_chain rest (m_last m)
  end.
Definition validateRecoveryReplacement (q : replacement) : bool :=
  let ex := rq_expected q in
  (lenN (rq_proposals q) <=? maxRecoveryProbeIndexes) && (rq_keep q <=? rs_leo ex) &&
  (rs_committed ex <=? rq_keep q) && (rs_committed ex <=? rq_committed q) && validReplicaState ex &&
  match replacement_chain (rq_proposals q) (rq_keep q) with
  | Some base => rq_committed q <=? base
  | None => false
  end.

(* keep the prefix through KeepThrough: rows, identities and both proposal indexes *)
Definition truncate_to (rp : replica) (keep : N) : replica :=
  Replica (firstn (N.to_nat keep) (rp_log rp))
          (filter (fun p => m_last (snd p) <=? keep) (rp_bycmd rp))
          (filter (fun p => fst p <=? keep) (rp_bylast rp)) (rp_hw rp).

(* stageTruncateDurableProposals (proposal_manifest.go): iterate the by-last index,
   delete the by-last and by-command rows of every proposal with LastOffset > to;
   ErrConflict when one straddles the cut; by-command rows without a by-last pair are
   corruption. *)
Definition stageTruncateDurableProposals (rp : replica) (keep : N) : option replica :=
  if negb (forallb (fun p => match by_last (rp_bylast rp) (m_last (snd p)) with
                             | Some l => manifest_eqb l (snd p) && tag_eqb (m_cmd (snd p)) (fst p)
                             | None => false end) (rp_bycmd rp)) then None
  else if negb (forallb (fun p => (m_last (snd p) =? fst p) &&
                                  match by_cmd (rp_bycmd rp) (m_cmd (snd p)) with
                                  | Some c => manifest_eqb c (snd p)
                                  | None => false end) (rp_bylast rp)) then None
  else if existsb (fun p => (keep <? m_last (snd p)) && (m_base (snd p) <? keep)) (rp_bylast rp) then None
  else
    let dead := filter (fun p => keep <? m_last (snd p)) (rp_bylast rp) in
    Some (Replica (firstn (N.to_nat keep) (rp_log rp))
                  (filter (fun p => negb (existsb (fun d => tag_eqb (m_cmd (snd d)) (fst p)) dead)) (rp_bycmd rp))
                  (filter (fun p => fst p <=? keep) (rp_bylast rp)) (rp_hw rp)).

(* MemoryChannelStore.ReplaceRecoverySuffix: inl err | inr (replica, lastOffset) *)
Fixpoint replace_append_mem (rp : replica) (ps : list rproposal) (base : N) : N + (replica * N) :=
  match ps with
  | [] => inr (rp, base)
  | (m, recs) :: rest =>
      if negb (m_base m =? base) then inl EInvalid
      else let '(rp', o, _) := appendLeaderExactLocked rp m recs in
           if outcome_durable o then replace_append_mem rp' rest (m_last m)
           else inl (match o with ONotWritten => EInvalid | _ => EConflict end)
  end.

(* prepareRecoveryReplacementLocked (recovery_replace.go): validates against the
   CURRENT (untruncated) store, stages rows / proposals / identities *)
Fixpoint replace_prepare_pebble (rp : replica) (keep : N) (ps : list rproposal) (base : N) (previous : ident)
         (seenCmd : list tag) (seenLast : list N) (seenRecs : list record)
  : option (list (manifest * list ident * list record) * N) :=
  match ps with
  | [] => Some ([], base)
  | (m, recs) :: rest =>
      if negb (ValidFor m base (lenN recs)) then None
      else if negb (m_pidx m =? i_idx previous) || negb (m_pt m =? i_t previous)
              || negb (digest_eqb (m_pd m) (i_dg previous)) then None
      else if existsb (tag_eqb (m_cmd m)) seenCmd || existsb (N.eqb (m_last m)) seenLast then None
      else if match by_cmd (rp_bycmd rp) (m_cmd m) with
              | Some c => m_last c <=? keep | None => false end then None
      else if match by_last (rp_bylast rp) (m_last m) with
              | Some l => m_last l <=? keep | None => false end then None
      else match DeriveProposalEntries m recs with
      | None => None
      | Some es =>
        if negb (digest_eqb (i_dg (last_ident es)) (m_dg m)) then None
        else
        (* validateRecoveryRows *)
        let rows_ok :=
          (fix go (rs : list record) (seen : list record) : option (list record) :=
             match rs with
             | [] => Some seen
             | r :: rr =>
                 if existsb (fun s => tag_eqb (r_id s) (r_id r)) seen then None
                 else if match msgid_seq rp (r_id r) with Some s => s <=? keep | None => false end then None
                 else if negb (has_key r) then go rr (r :: seen)
                 else if existsb (fun s => has_key s && (r_from s =? r_from r) && (r_cno s =? r_cno r)) seen then None
                 else if match idem_seq rp (r_from r) (r_cno r) with Some s => s <=? keep | None => false end then None
                 else go rr (r :: seen)
             end) recs seenRecs in
        match rows_ok with
        | None => None
        | Some seen' =>
          match replace_prepare_pebble rp keep rest (m_last m) (last_ident es)
                  (m_cmd m :: seenCmd) (m_last m :: seenLast) seen' with
          | Some (staged, final) => Some ((m, es, recs) :: staged, final)
          | None => None
          end
        end
      end
  end.

(* ReplicaStore.Replace for one replacement (storeAdapter.Replace):
   inl err | inr (replica, lastOffset) *)
Definition replace (k : store_kind) (rp : replica) (q : replacement) : N + (replica * N) :=
  if negb (validateRecoveryReplacement q) then inl EInvalid
  else match loadExactState k rp with
  | None => inl EConflict
  | Some current =>
    let keep := rq_keep q in
    if negb (rstate_eqb current (rq_expected q)) || (rp_leo rp <? keep) || (keep <? rp_hw rp)
       || (rq_committed q <? rp_hw rp) then inl EConflict
    else match k with
    | SMem =>
        if (0 <? keep) && negb (match by_last (rp_bylast rp) keep with
                                | Some p => m_last p =? keep | None => false end) then inl EConflict
        else match replace_append_mem (truncate_to rp keep) (rq_proposals q) keep with
             | inl e => inl e
             | inr (rp', base) =>
                 if base <? rq_committed q then inl EInvalid
                 else inr (set_hw rp' (rq_committed q), base)
             end
    | SPebble =>
        if (0 <? keep) && negb (match pair_by_last rp keep with
                                | Some (Some p) => m_last p =? keep | _ => false end) then inl EConflict
        else
        let previous := if 0 <? keep then ent_at rp keep else Some ident_zero in
        match previous with
        | None => inl EConflict
        | Some pv =>
          match replace_prepare_pebble rp keep (rq_proposals q) keep pv [] [] [] with
          | None => inl EConflict
          | Some (staged, final) =>
              if final <? rq_committed q then inl EInvalid
              else match stageTruncateDurableProposals rp keep with
              | None => inl EConflict
              | Some cut =>
                  let rp' := fold_left (fun acc s => let '(m, es, recs) := s in put_proposal acc m es recs) staged cut in
                  inr (set_hw rp' (rq_committed q), final)
              end
          end
        end
    end
  end.
