(* Model/Archive_C38.v — case-file interface of C38: the two instantiations of the abstract
   functions of Model/Archive.v that harness cases use, the case record, [C38_mismatch]
   and [C38_monitor].  Definitions only.

   Archive cases: stored object contents are interned; a body is its index into the
   case's table [tbl], which lists for every distinct body what the libraries answer on it
   (length, SHA-256, Zstandard decode, strict JSON decode + json.Marshal round-trip).
   Codec cases: bodies are concrete byte strings, json.Marshal is the concrete encoder
   of Model/Archive.v, the strict decode of the one input at hand comes with the op. *)
From WK Require Import Base.Base Gen.Consts_C38 Model.Archive.
Open Scope N_scope.

(* ---- the body table --------------------------------------------------------------------- *)
Record body_info := BI {
  bi_len : N; bi_sha : bytes; bi_unz : option (N * bytes);
  bi_arch : option (archive_manifest * bool);    (* decodeStrictJSON result, bytes.Equal(json.Marshal(it), body) *)
  bi_slot : option (slot_manifest * bool);
  bi_marker : option (complete_marker * bool);
  bi_msg : option (msg_manifest * bool);
  bi_repo : option (repo_marker * bool) }.
Definition BRaw l s := BI l s None None None None None None.
Definition BChunk l s ul us := BI l s (Some (ul, us)) None None None None None.
Definition BArch l s m c := BI l s None (Some (m, c)) None None None None.
Definition BSlot l s m c := BI l s None None (Some (m, c)) None None None.
Definition BMarker l s m c := BI l s None None None (Some (m, c)) None None.
Definition BMsg l s m c := BI l s None None None None (Some (m, c)) None.
Definition BRepo l s m c := BI l s None None None None None (Some (m, c)).

Section IdInstance.
  Variable tbl : list body_info.
  Definition info (b : N) : body_info := nth (N.to_nat b) tbl (BRaw 0 []).
  Definition id_blen (b : N) : N := bi_len (info b).
  Definition id_H (b : N) : bytes := bi_sha (info b).
  Definition id_unz (b : N) := bi_unz (info b).
  Definition id_json_archive (b : N) := option_map fst (bi_arch (info b)).
  Definition id_json_slot (b : N) := option_map fst (bi_slot (info b)).
  Definition id_json_marker (b : N) := option_map fst (bi_marker (info b)).
  Definition id_json_msg (b : N) := option_map fst (bi_msg (info b)).
  Definition id_json_repo (b : N) := option_map fst (bi_repo (info b)).
  (* the canonical flag belongs to the decoded value of the same body *)
  Definition id_canon_archive (_ : archive_manifest) (b : N) := match bi_arch (info b) with Some (_, c) => c | None => false end.
  Definition id_canon_slot (_ : slot_manifest) (b : N) := match bi_slot (info b) with Some (_, c) => c | None => false end.
  Definition id_canon_marker (_ : complete_marker) (b : N) := match bi_marker (info b) with Some (_, c) => c | None => false end.
  Definition id_canon_msg (_ : msg_manifest) (b : N) := match bi_msg (info b) with Some (_, c) => c | None => false end.
  Definition id_canon_repo (_ : repo_marker) (b : N) := match bi_repo (info b) with Some (_, c) => c | None => false end.
  (* json.Marshal(m): the body of the table that canonically decodes to m (or an unknown id) *)
  Fixpoint find_body (p : body_info -> bool) (i : N) (l : list body_info) : N :=
    match l with [] => i | x :: r => if p x then i else find_body p (i + 1) r end.
  Definition id_enc_archive (m : archive_manifest) : N :=
    find_body (fun x => match bi_arch x with Some (m', true) => archive_manifest_eqb m m' | _ => false end) 0 tbl.
  Definition id_enc_marker (m : complete_marker) : N :=
    find_body (fun x => match bi_marker x with Some (m', true) => complete_marker_eqb m m' | _ => false end) 0 tbl.
  Definition id_enc_repo (m : repo_marker) : N :=
    find_body (fun x => match bi_repo x with Some (m', true) => repo_marker_eqb m m' | _ => false end) 0 tbl.

  Definition astore := store N.

  Definition a_read := read_stored_object N id_blen.
  Definition a_verify := verify_published_archive N id_blen id_H id_unz id_json_archive id_json_slot id_json_marker
                           id_canon_archive id_canon_slot id_canon_marker.
  Definition a_meta := load_published_archive_metadata N id_blen id_H id_json_archive id_json_marker
                           id_canon_archive id_canon_marker.
  Definition a_slot := load_stored_slot N id_blen id_H id_unz id_json_slot id_canon_slot.
  Definition a_slotref := load_stored_slot_reference N id_blen id_H id_unz id_json_slot id_canon_slot.
  Definition a_msgidx := load_stored_message_chunk_manifest N id_blen id_H id_json_msg id_canon_msg.
  Definition a_ensure := ensure_repository N id_blen id_json_repo id_canon_repo id_enc_repo.
  Definition a_publish := publish_archive N id_blen id_H id_unz id_json_archive id_json_slot id_json_marker id_json_repo
                            id_canon_archive id_canon_slot id_canon_marker id_canon_repo
                            id_enc_archive id_enc_marker id_enc_repo N.eqb.
  Definition a_consistentb := consistentb N id_blen id_H id_unz id_json_archive id_json_slot id_json_marker
                                id_canon_archive id_canon_slot id_canon_marker.
  Definition a_stored_manifest := stored_manifest N id_json_archive id_canon_archive.
  Definition a_load_slot_manifest := load_slot_manifest N id_json_slot id_canon_slot.
  Definition a_load_msg := load_message_chunk_manifest N id_json_msg id_canon_msg.
  Definition a_load_repo := load_repository_marker N id_json_repo id_canon_repo.
  Definition a_chunk_consistentb := chunk_consistentb N id_blen id_H id_unz.
  Definition a_honest := honest_object N id_blen.
End IdInstance.

(* ---- archive histories -------------------------------------------------------------------- *)
Inductive aop :=
| APut (key : bytes) (b : N) (sz : N)                   (* the store now holds body b under key and reports sz *)
| ADel (key : bytes)
| ARead (key : bytes) (maxb : N) (r : res N) (consumed : N)   (* ReadStoredObject; bytes pulled from the reader *)
| AVerify (id : bytes) (r : res N)                      (* VerifyPublishedArchive; Ok = json.Marshal of the returned manifest *)
| AMeta (id : bytes) (r : res N)                        (* LoadPublishedArchiveMetadata *)
| ASlot (id : bytes) (hs : N) (verify : bool) (r : res (slot_ref * N))
| ASlotRef (id : bytes) (expected : slot_ref) (verify : bool) (r : res (slot_ref * N))
| AMsgIdx (id key sha : bytes) (r : res N)
| AEnsure (cluster : bytes) (now : Z) (r : res repo_marker) (puts : list (bytes * N * N))
| APublish (rq : publish_request) (r : res N) (puts : list (bytes * N * N)).

(* ---- codec ops ------------------------------------------------------------------------------ *)
Inductive cop :=
| CLoadArchive (b : bytes) (raw : option archive_manifest) (r : res bool)
| CLoadSlot (b : bytes) (raw : option slot_manifest) (r : res bool)
| CLoadMsg (b : bytes) (raw : option msg_manifest) (r : res bool)
| CLoadRepo (b : bytes) (raw : option repo_marker) (r : res bool)
| CLoadMarker (kb mb : bytes) (rawk : option complete_marker) (rawm : option archive_manifest) (sha : bytes) (r : res bool)
| CNewMarker (mb : bytes) (rawm : option archive_manifest) (sha : bytes) (r : res complete_marker)
| CMarshalArchive (m : archive_manifest) (r : res bytes)
| CMarshalSlot (m : slot_manifest) (r : res bytes)
| CMarshalMsg (m : msg_manifest) (r : res bytes)
| CMarshalMarker (m : complete_marker) (r : res bytes)
| CMarshalRepo (m : repo_marker) (r : res bytes)
| CNewMsg (hs : N) (chunks : list chunk_ref) (r : res msg_manifest)
| CKey (key : bytes) (ok : bool)
| CSlotKey (hs : N) (key : bytes) (ok : bool)
| CIdent (s : bytes) (ok : bool)
| CSha (s : bytes) (ok : bool)
| CDecodeChunk (len : N) (sha : bytes) (unz : option (N * bytes)) (d : chunk_desc) (r : res unit).

Inductive c38_case :=
| CaseCodec (ops : list cop)
| CaseArchive (tbl : list body_info) (ops : list aop).

(* ---- archive: one step ---------------------------------------------------------------------- *)
Definition apply_puts (puts : list (bytes * N * N)) (st : astore) : astore :=
  fold_left (fun s p => match p with (k, b, sz) => put N k b sz s end) puts st.

(* the repository after the op, from inputs and observed writes only *)
Definition astep_store (st : astore) (o : aop) : astore :=
  match o with
  | APut k b sz => put N k b sz st
  | ADel k => del N k st
  | AEnsure _ _ _ puts | APublish _ _ puts => apply_puts puts st
  | _ => st
  end.

Definition res_eqb2 {A B} (eqb : A -> B -> bool) (a : res A) (b : res B) : bool :=
  match a, b with Ok x, Ok y => eqb x y | Err e, Err f => err_eqb e f | _, _ => false end.

Definition opt_eqb {A} (eqb : A -> A -> bool) (a : option A) (b : A) : bool :=
  match a with Some x => eqb x b | None => false end.

(* the model wrote exactly the observed objects, in the observed order: [st'] = the model's
   store after, [st] before; [puts] = the ArchiveStore.Put calls of the implementation *)
Definition entry_of (p : bytes * N * N) : bytes * option (N * N) := (fst (fst p), Some (snd (fst p), snd p)).
Definition entry_eqb (a b : bytes * option (N * N)) : bool :=
  bytes_eqb (fst a) (fst b)
  && option_eqb (fun x y => (fst x =? fst y) && (snd x =? snd y)) (snd a) (snd b).
Definition puts_match (st st' : astore) (puts : list (bytes * N * N)) : bool :=
  list_eqb entry_eqb (firstn (length st' - length st) st') (rev (map entry_of puts)).

Definition read_consumed (tbl : list body_info) (st : astore) (key : bytes) (maxb : N) : N :=
  read_pulled N (id_blen tbl) st key maxb.

Definition astep_mismatch (tbl : list body_info) (st : astore) (o : aop) : bool :=
  negb match o with
  | APut _ _ _ | ADel _ => true
  | ARead key maxb r consumed =>
    res_eqb N.eqb (a_read tbl st key maxb) r && (read_consumed tbl st key maxb =? consumed)
  | AVerify id r =>
    res_eqb2 (fun m k => opt_eqb (fun x y => archive_manifest_eqb y x) (id_json_archive tbl k) m) (a_verify tbl st id) r
  | AMeta id r =>
    res_eqb2 (fun m k => opt_eqb (fun x y => archive_manifest_eqb y x) (id_json_archive tbl k) m) (a_meta tbl st id) r
  | ASlot id hs v r =>
    res_eqb2 (fun a b => slot_ref_eqb (fst a) (fst b)
                        && opt_eqb (fun x y => slot_manifest_eqb y x) (id_json_slot tbl (snd b)) (snd a))
            (a_slot tbl st id hs v) r
  | ASlotRef id e v r =>
    res_eqb2 (fun a b => slot_ref_eqb (fst a) (fst b)
                        && opt_eqb (fun x y => slot_manifest_eqb y x) (id_json_slot tbl (snd b)) (snd a))
            (a_slotref tbl st id e v) r
  | AMsgIdx id key sha r =>
    res_eqb2 (fun m k => opt_eqb (fun x y => msg_manifest_eqb y x) (id_json_msg tbl k) m) (a_msgidx tbl st id key sha) r
  | AEnsure cluster now r puts =>
    let '(st', r') := a_ensure tbl st cluster now in
    res_eqb repo_marker_eqb r' r && puts_match st st' puts
  | APublish rq r puts =>
    let '(st', r') := a_publish tbl st rq in
    res_eqb2 (fun m k => opt_eqb (fun x y => archive_manifest_eqb y x) (id_json_archive tbl k) m) r' r
    && puts_match st st' puts
  end.

(* ---- the property on the implementation's answers ------------------------------------------ *)

(* the object a slot loader accepted really is a canonical valid manifest of that hash slot,
   bound to the returned reference, with (when asked) every chunk matching its descriptor *)
Definition slot_answer_ok (tbl : list body_info) (st : astore) (id : bytes) (hs : N) (key : bytes) (verify : bool)
           (ref : slot_ref) (k : N) : bool :=
  match a_honest tbl st (root_of id ++ key) maxStoredManifestBytes with
  | Some b =>
    match a_load_slot_manifest tbl b, id_json_slot tbl k with
    | Ok sm, Some sm' =>
      slot_manifest_eqb sm sm' && (sm_hash_slot sm =? hs)
      && slot_ref_eqb ref (SR hs key (id_H tbl b) (sm_logical sm) (sm_stored sm) (sm_records sm) (sm_max_id sm))
      && (negb verify || forallb (a_chunk_consistentb tbl st (root_of id)) (sm_chunks sm))
    | _, _ => false
    end
  | None => false
  end.

Definition astep_monitor (tbl : list body_info) (st : astore) (o : aop) : N :=
  match o with
  | ARead key maxb r consumed =>
    (* bounded read; an accepted object is the stored one, honestly sized, within the cap *)
    if negb (consumed <=? maxb + 1) then 1
    else match r with
         | Ok b => match get N st key with
                   | Some (b', sz) => if (b' =? b) && (sz =? id_blen tbl b) && (0 <? sz) && (sz <=? maxb) then 0 else 1
                   | None => 1
                   end
         | Err _ => 0
         end
  | AVerify id r =>
    match r with
    | Ok k => match id_json_archive tbl k with
              | Some m => if a_consistentb tbl st id m then 0 else 1
              | None => 1
              end
    | Err _ => match a_stored_manifest tbl st id with
               | Some m => if a_consistentb tbl st id m then 1 else 0   (* a complete, bound archive was refused *)
               | None => 0
               end
    end
  | ASlot id hs v (Ok (ref, k)) =>
    if (hs <? DefaultHashSlotCount) && slot_answer_ok tbl st id hs (slot_prefix hs ++ sx "/manifest.json") v ref k then 0 else 1
  | ASlotRef id e v (Ok (ref, k)) =>
    if slot_ref_eqb ref e && slot_answer_ok tbl st id (sr_hash_slot e) (sr_key e) v ref k then 0 else 1
  | AMsgIdx id key sha (Ok k) =>
    match a_honest tbl st (root_of id ++ key) MaxSlotManifestBytes with
    | Some b => match a_load_msg tbl b, id_json_msg tbl k with
                | Ok m, Some m' => if msg_manifest_eqb m m' && bytes_eqb (id_H tbl b) sha then 0 else 1
                | _, _ => 1
                end
    | None => 1
    end
  | APublish rq (Ok k) puts =>
    (* a published archive is complete and bound (unless it had been marked corrupt before),
       and publication never overwrites an object *)
    if negb (forallb (fun p => match get N st (fst (fst p)) with None => true | Some _ => false end) puts) then 1
    else match get N st (corrupt_key (pr_id rq)) with
         | Some _ => 0
         | None => match id_json_archive tbl k with
                   | Some m => if a_consistentb tbl (apply_puts puts st) (pr_id rq) m then 0 else 1
                   | None => 1
                   end
         end
  | _ => 0
  end.

Fixpoint arun_mismatch (tbl : list body_info) (st : astore) (ops : list aop) : bool :=
  match ops with
  | [] => false
  | o :: r => astep_mismatch tbl st o || arun_mismatch tbl (astep_store st o) r
  end.
Fixpoint arun_monitor (tbl : list body_info) (st : astore) (ops : list aop) : N :=
  match ops with
  | [] => 0
  | o :: r => match astep_monitor tbl st o with 0 => arun_monitor tbl (astep_store st o) r | c => c end
  end.

(* ---- codec: bodies are bytes ----------------------------------------------------------------- *)
Definition marshal_slot_manifest_bytes (m : slot_manifest) : res bytes :=
  match validate_slot_manifest m with
  | Some e => Err e
  | None => let b := enc_slot_manifest_bytes m in
            if MaxSlotManifestBytes <? blen_bytes b then Err EManifest else Ok b
  end.
Definition marshal_msg_manifest_bytes (m : msg_manifest) : res bytes :=
  match validate_message_chunk_manifest m with
  | Some e => Err e
  | None => let b := enc_msg_manifest_bytes m in
            if MaxSlotManifestBytes <? blen_bytes b then Err EManifest else Ok b
  end.

Definition c_load_archive (raw : option archive_manifest) := load_archive_manifest bytes (fun _ => raw) canon_archive_bytes.
Definition c_load_slot (raw : option slot_manifest) := load_slot_manifest bytes (fun _ => raw) canon_slot_bytes.
Definition c_load_msg (raw : option msg_manifest) := load_message_chunk_manifest bytes (fun _ => raw) canon_msg_bytes.
Definition c_load_repo (raw : option repo_marker) := load_repository_marker bytes (fun _ => raw) canon_repo_bytes.
Definition c_load_marker (rawk : option complete_marker) (rawm : option archive_manifest) (sha : bytes) :=
  load_complete_marker bytes blen_bytes (fun _ => sha) (fun _ => rawm) (fun _ => rawk) canon_archive_bytes canon_marker_bytes.
Definition c_new_marker (rawm : option archive_manifest) (sha : bytes) :=
  new_complete_marker bytes blen_bytes (fun _ => sha) (fun _ => rawm) canon_archive_bytes.

(* a loader's answer against the model's: same error class, or both accept and the
   implementation returned the strictly decoded value *)
Definition load_agree {A} (model : res A) (r : res bool) : bool :=
  match model, r with Ok _, Ok same => same | Err e, Err f => err_eqb e f | _, _ => false end.

Definition is_none {A} (o : option A) : bool := match o with None => true | Some _ => false end.

(* the strictness property of a loader: accepted <-> the bytes are exactly the canonical
   encoding of a manifest that passes validation *)
Definition strict_ok {A} (validate : A -> option err) (canon : A -> bytes -> bool) (raw : option A) (b : bytes)
           (accepted : bool) : bool :=
  Bool.eqb accepted match raw with Some m => is_none (validate m) && canon m b | None => false end.

Definition cstep_mismatch (o : cop) : bool :=
  negb match o with
  | CLoadArchive b raw r => load_agree (c_load_archive raw b) r
  | CLoadSlot b raw r => load_agree (c_load_slot raw b) r
  | CLoadMsg b raw r => load_agree (c_load_msg raw b) r
  | CLoadRepo b raw r => load_agree (c_load_repo raw b) r
  | CLoadMarker kb mb rawk rawm sha r => load_agree (c_load_marker rawk rawm sha kb mb) r
  | CNewMarker mb rawm sha r => res_eqb complete_marker_eqb (c_new_marker rawm sha mb) r
  | CMarshalArchive m r => res_eqb bytes_eqb (marshal_archive_manifest bytes enc_archive_manifest_bytes m) r
  | CMarshalSlot m r => res_eqb bytes_eqb (marshal_slot_manifest_bytes m) r
  | CMarshalMsg m r => res_eqb bytes_eqb (marshal_msg_manifest_bytes m) r
  | CMarshalMarker m r => res_eqb bytes_eqb (marshal_complete_marker bytes enc_complete_marker_bytes m) r
  | CMarshalRepo m r => res_eqb bytes_eqb (marshal_repository_marker bytes enc_repo_marker_bytes m) r
  | CNewMsg hs chunks r => res_eqb msg_manifest_eqb (new_message_chunk_manifest hs chunks) r
  | CKey key ok => Bool.eqb (validate_repository_key key) ok
  | CSlotKey hs key ok => Bool.eqb (validate_slot_manifest_key hs key) ok
  | CIdent s ok => Bool.eqb (validate_backup_identity s) ok
  | CSha s ok => Bool.eqb (validate_sha256 s) ok
  | CDecodeChunk len sha unz d r =>
    res_eqb (fun _ _ => true) (decode_chunk unit (fun _ => len) (fun _ => sha) (fun _ => unz) tt d) r
  end.

Definition cstep_monitor (o : cop) : N :=
  if match o with
  | CLoadArchive b raw r => strict_ok validate_archive_manifest canon_archive_bytes raw b (is_ok r)
  | CLoadSlot b raw r => strict_ok validate_slot_manifest canon_slot_bytes raw b (is_ok r)
  | CLoadMsg b raw r => strict_ok validate_message_chunk_manifest canon_msg_bytes raw b (is_ok r)
  | CLoadRepo b raw r => strict_ok validate_repository_marker canon_repo_bytes raw b (is_ok r)
  | CLoadMarker kb mb rawk rawm sha r =>
    (* accepted <-> canonical valid marker that names the size and digest of a canonical valid manifest *)
    Bool.eqb (is_ok r)
      (match rawk with
       | Some k => is_none (validate_complete_marker k) && canon_marker_bytes k kb
                   && (cm_bytes k =? blen_bytes mb) && bytes_eqb (cm_sha k) sha
                   && match rawm with Some m => is_none (validate_archive_manifest m) && canon_archive_bytes m mb | None => false end
       | None => false
       end)
  | CNewMarker mb rawm sha r =>
    match r with
    | Ok k => complete_marker_eqb k (CM CompleteMarkerFormat CompleteMarkerVersion sha (blen_bytes mb))
              && match rawm with Some m => is_none (validate_archive_manifest m) && canon_archive_bytes m mb | None => false end
    | Err _ => negb match rawm with Some m => is_none (validate_archive_manifest m) && canon_archive_bytes m mb | None => false end
    end
  (* an encoder emits exactly the canonical bytes of a manifest that passes validation *)
  | CMarshalArchive m r => match r with Ok b => is_none (validate_archive_manifest m) && canon_archive_bytes m b
                                      | Err _ => negb (is_none (validate_archive_manifest m)) end
  | CMarshalSlot m r => match r with Ok b => is_none (validate_slot_manifest m) && canon_slot_bytes m b
                                   | Err _ => negb (is_none (validate_slot_manifest m))
                                              || (MaxSlotManifestBytes <? blen_bytes (enc_slot_manifest_bytes m)) end
  | CMarshalMsg m r => match r with Ok b => is_none (validate_message_chunk_manifest m) && canon_msg_bytes m b
                                  | Err _ => negb (is_none (validate_message_chunk_manifest m))
                                             || (MaxSlotManifestBytes <? blen_bytes (enc_msg_manifest_bytes m)) end
  | CMarshalMarker m r => match r with Ok b => is_none (validate_complete_marker m) && canon_marker_bytes m b
                                     | Err _ => negb (is_none (validate_complete_marker m)) end
  | CMarshalRepo m r => match r with Ok b => is_none (validate_repository_marker m) && canon_repo_bytes m b
                                   | Err _ => negb (is_none (validate_repository_marker m)) end
  | CNewMsg hs chunks r =>
    match r with
    | Ok m => is_none (validate_message_chunk_manifest m) && (mm_hash_slot m =? hs)
              && list_eqb chunk_ref_eqb (mm_chunks m) chunks
    | Err _ => true
    end
  | CDecodeChunk len sha unz d r =>
    (* accepted <-> valid descriptor, the stream decodes, sizes and both digests match *)
    Bool.eqb (is_ok r)
      (validate_chunk_descriptor d
       && match unz with
          | Some (ll, lh) => (len =? cd_stored_bytes d) && bytes_eqb sha (cd_stored_sha d)
                             && (ll =? cd_logical_bytes d) && bytes_eqb lh (cd_logical_sha d)
          | None => false
          end)
  | CKey _ _ | CSlotKey _ _ _ | CIdent _ _ | CSha _ _ => true
  end then 0 else 1.

(* well-formedness of an archive case: every body a write mentions is in the table, and a
   body that canonically decodes as a COMPLETE marker is a non-empty object within the cap *)
Definition aop_ids_ok (n : N) (o : aop) : bool :=
  match o with
  | APut _ b _ => b <? n
  | AEnsure _ _ _ puts | APublish _ _ puts => forallb (fun p => snd (fst p) <? n) puts
  | _ => true
  end.
Definition tbl_wf (tbl : list body_info) : bool :=
  forallb (fun x => match bi_marker x with
                    | Some (_, true) => (0 <? bi_len x) && (bi_len x <=? maxStoredManifestBytes)
                    | _ => true
                    end) tbl.
Definition case_wf (tbl : list body_info) (ops : list aop) : bool :=
  tbl_wf tbl && forallb (aop_ids_ok (N.of_nat (length tbl))) ops.

Definition C38_mismatch (c : c38_case) : bool :=
  match c with
  | CaseCodec ops => existsb cstep_mismatch ops
  | CaseArchive tbl ops => negb (case_wf tbl ops) || arun_mismatch tbl [] ops
  end.

Fixpoint first_code {A} (f : A -> N) (l : list A) : N :=
  match l with [] => 0 | x :: r => match f x with 0 => first_code f r | c => c end end.

Definition C38_monitor (c : c38_case) : N :=
  match c with
  | CaseCodec ops => first_code cstep_monitor ops
  | CaseArchive tbl ops => arun_monitor tbl [] ops
  end.
