(* Model/SlotFSM_C39.v — the case record of C39 (hash-slot migration neither loses nor
   duplicates metadata writes), the two-slot system model, the model/implementation
   comparison and the property monitor.

   The system: the source slot state machine (slot 11, owns hash slots 11 and 12) and the
   target slot state machine (slot 21, owns hash slot 21), each the model of
   Model/SlotFSM.v over its own store, and the deltas the source handed to its forwarder.
   Hash slot 12 migrates from the source to the target.  A case is a script of steps
   (harness/cmd/C13_C39/c39.go) with what the real state machines answered.

   [C39_mismatch]: the two-slot model does not reproduce the observations of a script
   whose commands are all modelled (results, applied indexes, forwarded source indexes,
   replayed outbox rows, final tables of both sides).
   [C39_monitor] (observations only; 0 holds, 1 violation):
     - at the switch, when every forwarded delta was delivered at least once (any
       duplication; first deliveries in source order unless the writes commute), the rows
       of hash slot 12 outside the slot-local migration table are the same on both sides;
     - a delivery batch consisting only of deltas delivered before leaves the target's
       rows of hash slot 12 unchanged and is answered ok; every delta answered ok has its
       durable applied-delta record on the target after the batch (also when the batch carried
       other commands and its commit fell back to one command per batch);
     - after an accepted fence and before the switch the source answers every ordinary
       command touching hash slot 12 — by its envelope or, for a multi-hash-slot command, by
       any of its items — with hash_slot_fenced; before the fence never;
     - a slot that does not own hash slot 12 refuses ordinary commands for it (ApplyBatch
       error) and its store is unchanged.
   Definitions only. *)
From WK Require Import Base.Base.
From WK Require Import Gen.Consts_C15 Gen.Consts_C17 Gen.Consts_C13.
From WK Require Import Model.RuntimeMeta Model.ChanMigration Model.SlotFSM Model.SlotFSM_tlv Model.SlotFSM_C13.
Open Scope N_scope.

Definition SRC_SLOT : N := 11.
Definition TGT_SLOT : N := 21.
Definition HS_A : N := 11.
Definition HS_MIG : N := 12.
Definition HS_TGT : N := 21.

Inductive step :=
| SSrc (cmds : list entry) (o : bobs) (forwards : list N)
| STgt (cmds : list entry) (o : bobs)
| SStartDelta
| SSnapshot (ok : bool)
| SDeliver (idxs : list N) (extra : list entry) (o : bobs) (before after : N) (applied : list N)
| SReplay (idxs : list N) (o : bobs) (before after : N) (applied : list N)
| SRestartTgt
| SSwitch (complete : bool) (src_data tgt_data : N).

Record c39_case := C39Case {
  c9_modelled : bool;
  c9_steps : list step;
  c9_src_dump : option dump;
  c9_tgt_dump : option dump }.

(* ---- the two-slot system ------------------------------------------------------------------ *)

Record sys := Sys {
  y_src : store; y_src_cfg : fsm_cfg; y_src_idx : N;
  y_tgt : store; y_tgt_cfg : fsm_cfg; y_tgt_idx : N;
  y_fwd : list forward;                    (* what the source gave its forwarder, in order *)
  y_log : list (N * hcmd) }.               (* source index -> command, for building apply_delta *)

Definition sys0 : sys :=
  Sys store_empty (Cfg SRC_SLOT [HS_A; HS_MIG] HS_A false []) 0
      store_empty (Cfg TGT_SLOT [HS_TGT] HS_TGT false []) 0 [] [].

Definition set_migs (c : fsm_cfg) (m : list (N * (N * N))) : fsm_cfg :=
  Cfg (cfg_slot c) (cfg_owned c) (cfg_legacy c) (cfg_allow_legacy c) m.
Definition set_owned (c : fsm_cfg) (o : list N) : fsm_cfg :=
  Cfg (cfg_slot c) o (match o with h :: _ => h | [] => 0 end) (cfg_allow_legacy c) (cfg_migs c).

Fixpoint log_get (l : list (N * hcmd)) (i : N) : option hcmd :=
  match l with
  | [] => None
  | (j, c) :: r => if j =? i then Some c else log_get r i
  end.
Fixpoint fwd_get (l : list forward) (i : N) : option forward :=
  match l with
  | [] => None
  | f :: r => if fw_index f =? i then Some f else fwd_get r i
  end.

Definition forwards_of (r : @bres fres) : list forward :=
  match r with
  | BRes rs => concat (map snd rs)
  | BErr _ => []
  end.

(* ImportHashSlotSnapshotPreservingMigrationMeta of an export of hash slot [hs]: the data rows
   of the hash slot are replaced; migration rows are taken over only where the target has none *)
Definition import_hs (t s : store) (hs : N) : store :=
  let users := filter (fun u => negb (ur_hs u =? hs)) (st_users t) ++ filter (fun u => ur_hs u =? hs) (st_users s) in
  let users := fold_left user_put users [] in
  let cm := cm_put (st_cm t) hs (cm_get (st_cm s) hs) in
  let states := match state_get (st_states t) hs, state_get (st_states s) hs with
                | None, Some x => state_put (st_states t) x
                | _, _ => st_states t
                end in
  let outbox := fold_left (fun acc x =>
                   if (ob_hs x =? hs) && negb (existsb (fun y => outbox_same y (ob_hs x) (ob_src x) (ob_tgt x) (ob_idx x)) acc)
                   then outbox_put acc x else acc) (st_outbox s) (st_outbox t) in
  let applied := fold_left (fun acc k => if dk_hs k =? hs then dkey_insert acc k else acc) (st_applied s) (st_applied t) in
  Store users cm states outbox applied (st_applied_index t).

(* the apply_delta commands of one delivery batch *)
Fixpoint delta_cmds (y : sys) (i : N) (idxs : list N) : list fcmd :=
  match idxs with
  | [] => []
  | x :: r =>
    let hs := match fwd_get (y_fwd y) x with Some f => fw_hs f | None => HS_MIG end in
    FCmd true hs i (HDelta SRC_SLOT x hs (log_get (y_log y) x)) [] :: delta_cmds y (i + 1) r
  end.

Definition outbox_indexes (s : store) : list N :=
  map ob_idx (filter (fun x => (ob_hs x =? HS_MIG) && (ob_src x =? SRC_SLOT) && (ob_tgt x =? TGT_SLOT)) (st_outbox s)).

Definition nl_eqb (a b : list N) : bool := list_eqb N.eqb a b.

(* the durable applied-delta records of the migrating hash slot for the source slot *)
Definition applied_indexes (s : store) : list N :=
  map dk_idx (filter (fun k => (dk_hs k =? HS_MIG) && (dk_src k =? SRC_SLOT)) (st_applied s)).

(* one step: the new system, or None when the observation is not reproduced *)
Definition sys_step (y : sys) (st : step) : option sys :=
  match st with
  | SSrc cmds o fw =>
      let log := to_fcmds (y_src_idx y + 1) cmds in
      let '(s', r) := fsm_apply_batch (y_src_cfg y) (y_src y) log in
      let f := forwards_of r in
      if out_matches r (bo_out o) && (st_applied_index s' =? bo_applied o) && nl_eqb (map fw_index f) fw
      then Some (Sys s' (y_src_cfg y) (y_src_idx y + N.of_nat (length cmds)) (y_tgt y) (y_tgt_cfg y) (y_tgt_idx y)
                     (y_fwd y ++ f) (y_log y ++ map (fun c => (fc_index c, fc_cmd c)) log))
      else None
  | STgt cmds o =>
      let log := to_fcmds (y_tgt_idx y + 1) cmds in
      let '(t', r) := fsm_apply_batch (y_tgt_cfg y) (y_tgt y) log in
      if out_matches r (bo_out o) && (st_applied_index t' =? bo_applied o)
      then Some (Sys (y_src y) (y_src_cfg y) (y_src_idx y) t' (y_tgt_cfg y) (y_tgt_idx y + N.of_nat (length cmds))
                     (y_fwd y) (y_log y))
      else None
  | SStartDelta =>
      Some (Sys (y_src y) (set_migs (y_src_cfg y) [(HS_MIG, (TGT_SLOT, migrationPhaseDelta))]) (y_src_idx y)
                (y_tgt y) (y_tgt_cfg y) (y_tgt_idx y) (y_fwd y) (y_log y))
  | SSnapshot ok =>
      if ok then Some (Sys (y_src y) (y_src_cfg y) (y_src_idx y) (import_hs (y_tgt y) (y_src y) HS_MIG)
                           (y_tgt_cfg y) (y_tgt_idx y) (y_fwd y) (y_log y))
      else None
  | SDeliver idxs extra o _ _ applied =>
      (* the apply_delta commands, then ordinary commands of the same target batch *)
      let log := delta_cmds y (y_tgt_idx y + 1) idxs ++ to_fcmds (y_tgt_idx y + 1 + N.of_nat (length idxs)) extra in
      let '(t', r) := fsm_apply_batch (y_tgt_cfg y) (y_tgt y) log in
      if out_matches r (bo_out o) && (st_applied_index t' =? bo_applied o) && nl_eqb (applied_indexes t') applied
      then Some (Sys (y_src y) (y_src_cfg y) (y_src_idx y) t' (y_tgt_cfg y)
                     (y_tgt_idx y + N.of_nat (length idxs) + N.of_nat (length extra)) (y_fwd y) (y_log y))
      else None
  | SReplay idxs o _ _ applied =>
      let log := delta_cmds y (y_tgt_idx y + 1) idxs in
      let '(t', r) := fsm_apply_batch (y_tgt_cfg y) (y_tgt y) log in
      if nl_eqb idxs (outbox_indexes (y_src y)) && out_matches r (bo_out o) && (st_applied_index t' =? bo_applied o)
         && nl_eqb (applied_indexes t') applied
      then Some (Sys (y_src y) (y_src_cfg y) (y_src_idx y) t' (y_tgt_cfg y) (y_tgt_idx y + N.of_nat (length idxs))
                     (y_fwd y) (y_log y))
      else None
  | SRestartTgt => Some y
  | SSwitch _ _ _ =>
      Some (Sys (y_src y) (set_migs (set_owned (y_src_cfg y) [HS_A]) []) (y_src_idx y)
                (y_tgt y) (set_owned (y_tgt_cfg y) [HS_TGT; HS_MIG]) (y_tgt_idx y) (y_fwd y) (y_log y))
  end.

Fixpoint sys_run (y : sys) (l : list step) : option sys :=
  match l with
  | [] => Some y
  | st :: r => match sys_step y st with Some y' => sys_run y' r | None => None end
  end.

Definition C39_mismatch (c : c39_case) : bool :=
  c9_modelled c
  && match sys_run sys0 (c9_steps c) with
     | None => true
     | Some y =>
       negb (match c9_src_dump c with Some u => dump_matches (y_src y) u | None => true end
             && match c9_tgt_dump c with Some u => dump_matches (y_tgt y) u | None => true end)
     end.

(* ---- the monitor ------------------------------------------------------------------------------- *)

Definition is_ordinary (e : entry) : bool := negb (isMigrationMaintenanceCommand (e_cmd e)).

(* the command touches the migrating hash slot: by its envelope, or (multi-hash-slot commands,
   e_chan kind 5 lists the item hash slots) by one of its items *)
Definition touches_mig (e : entry) : bool :=
  (e_hs e =? HS_MIG)
  || match e_chan e with
     | Some o => (ch_kind o =? 5) && existsb (fun b => match b with [x] => x =? HS_MIG | _ => false end) (ch_uids o)
     | None => false
     end.

Record mon := Mon {
  m_fenced : bool;            (* a fence for hash slot 12 was accepted by the source *)
  m_switched : bool;
  m_delivered : list N;       (* source indexes delivered to the target in a batch that succeeded *)
  m_src_digest : option N;
  m_tgt_digest : option N }.

Definition mon0 : mon := Mon false false [] None None.

Definition all_ok (o : bobs) : bool :=
  match bo_out o with BOk rs => forallb (fun r => fst r =? R_OK) rs | BFatal _ => false end.

(* the first n results (the apply_delta commands of a delivery batch) are all ok *)
Definition deltas_ok (o : bobs) (n : nat) : bool :=
  match bo_out o with
  | BOk rs => Nat.leb n (length rs) && forallb (fun r => fst r =? R_OK) (firstn n rs)
  | BFatal _ => false
  end.

(* source batch before the switch: fenced-ness of every ordinary command for hash slot 12, in
   order; a fence command answered ok turns the fence on for the commands after it *)
Fixpoint src_fence_walk (fenced : bool) (cmds : list entry) (rs : list (N * N)) : option bool :=
  match cmds, rs with
  | [], [] => Some fenced
  | e :: cr, r :: rr =>
    match e_cmd e with
    | HFence h _ =>
        src_fence_walk (fenced || ((h =? HS_MIG) && (e_hs e =? HS_MIG) && (fst r =? R_OK))) cr rr
    | _ =>
      if is_ordinary e && touches_mig e && e_slot_ok e then
        if Bool.eqb (fst r =? R_FENCED) fenced then src_fence_walk fenced cr rr else None
      else src_fence_walk fenced cr rr
    end
  | _, _ => None
  end.

Definition has_ordinary_12 (cmds : list entry) : bool :=
  existsb (fun e => is_ordinary e && (e_hs e =? HS_MIG)) cmds.

Definition digest_unchanged (prev : option N) (o : bobs) : bool :=
  match prev with Some d => bo_digest o =? d | None => true end.

(* None: violation *)
Definition mon_step (m : mon) (st : step) : option mon :=
  match st with
  | SSrc cmds o _ =>
      if m_switched m then
        (* the source no longer owns hash slot 12 *)
        if has_ordinary_12 cmds then
          match bo_out o with
          | BFatal _ => if digest_unchanged (m_src_digest m) o
                        then Some (Mon (m_fenced m) true (m_delivered m) (Some (bo_digest o)) (m_tgt_digest m)) else None
          | BOk _ => None
          end
        else Some (Mon (m_fenced m) true (m_delivered m) (Some (bo_digest o)) (m_tgt_digest m))
      else
        match bo_out o with
        | BOk rs =>
            match src_fence_walk (m_fenced m) cmds rs with
            | Some f => Some (Mon f false (m_delivered m) (Some (bo_digest o)) (m_tgt_digest m))
            | None => None
            end
        | BFatal _ =>
            if digest_unchanged (m_src_digest m) o
            then Some (Mon (m_fenced m) false (m_delivered m) (Some (bo_digest o)) (m_tgt_digest m)) else None
        end
  | STgt cmds o =>
      if negb (m_switched m) && has_ordinary_12 cmds then
        match bo_out o with
        | BFatal _ => if digest_unchanged (m_tgt_digest m) o
                      then Some (Mon (m_fenced m) (m_switched m) (m_delivered m) (m_src_digest m) (Some (bo_digest o))) else None
        | BOk _ => None
        end
      else Some (Mon (m_fenced m) (m_switched m) (m_delivered m) (m_src_digest m) (Some (bo_digest o)))
  | SDeliver idxs _ o before after applied | SReplay idxs o before after applied =>
      let all_dup := forallb (fun i => memN i (m_delivered m)) idxs in
      let dok := deltas_ok o (length idxs) in
      (* an aborted batch (a rider for a foreign hash slot) answers nothing and changes nothing *)
      let aborted := match bo_out o with BFatal _ => true | BOk _ => false end in
      if all_dup && negb ((dok || aborted) && (before =? after)) then None
      else if aborted && negb (before =? after) then None
      (* a delta answered ok has its durable applied record on the target *)
      else if dok && negb (forallb (fun i => memN i applied) idxs) then None
      else
        let d := if dok then m_delivered m ++ idxs else m_delivered m in
        Some (Mon (m_fenced m) (m_switched m) d (m_src_digest m) (Some (bo_digest o)))
  | SSwitch complete s t =>
      if complete && negb (s =? t) then None
      else Some (Mon (m_fenced m) true (m_delivered m) (m_src_digest m) (m_tgt_digest m))
  | SSnapshot _ => Some (Mon (m_fenced m) (m_switched m) (m_delivered m) (m_src_digest m) None)
  | SStartDelta | SRestartTgt => Some m
  end.

Fixpoint mon_run (m : mon) (l : list step) : bool :=
  match l with
  | [] => true
  | st :: r => match mon_step m st with Some m' => mon_run m' r | None => false end
  end.

Definition C39_monitor (c : c39_case) : N := if mon_run mon0 (c9_steps c) then 0 else 1.
