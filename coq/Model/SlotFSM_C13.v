(* Model/SlotFSM_C13.v — the case record of C13, the model/implementation comparison
   and the property monitor.

   A case is one committed command log, the configuration of the state machine, and what
   the real stateMachine.ApplyBatch showed when the log was applied
     - one command per call (the reference run),
     - under several other partitions of the log into batches (each on a wiped store),
   namely per call: the error class or the per-command results, a 64-bit digest of the
   exported snapshot bytes of all hash slots afterwards and the durable applied index;
   for modelled logs also the modelled tables read back at the end of every run; and the
   outcome of snapshot-at-prefix-k / restore / apply-the-suffix runs.

   [C13_mismatch]: the model (Model/SlotFSM.v, Model/SlotFSM_tlv.v) does not reproduce the
   observations (results, applied index and final tables of every run of a modelled log;
   decodeCommand on every raw / migration payload).
   [C13_monitor]: the property evaluated on the observations alone:
     0 holds; 1 violation;
     known findings, decided by a structural signature of the first batch of a partition
     whose outcome departs from the reference run (signatures are computed from the input
     log and the partition only):
     2 C13-K1  a Claim/Advance whose guard expects a terminal status and whose new status
               is active, together with (before or after) a Create for the same channel
     3 C13-K2  Create of an active task, later a command giving a task of that channel a
               terminal status, later another Create for the channel
     4 C13-K3  a garbage-collect command together with another task-writing command
     5 C13-K4  an outbox cleanup followed by another command for the same hash slot
     6 C13-K5  two non-GC commands that write the same channel-migration task row
     7 C13-K6  a DeleteChannel of channel g followed in the batch by an Add/RemoveSubscribers for g
               naming a uid that was subscribed to g when the DeleteChannel ran (subscribed
               before the batch or added earlier in it), computed from the log alone.
   Definitions only. *)
From WK Require Import Base.Base.
From WK Require Import Gen.Consts_C15 Gen.Consts_C17 Gen.Consts_C13.
From WK Require Import Model.RuntimeMeta Model.ChanMigration Model.SlotFSM Model.SlotFSM_tlv.
Open Scope N_scope.

(* ---- the case ---------------------------------------------------------------------------- *)

(* the channel / subscriber commands are not interpreted by the model; the monitor's signature of
   known finding K6 needs their kind, channel and uids: kind 1 DeleteChannel, 2 AddSubscribers,
   3 RemoveSubscribers, 4 any other write of the channel row (create, upsert, patch) *)
Record chan_op := ChanOp { ch_kind : N; ch_id : bytes; ch_ty : Z; ch_uids : list bytes }.

Record entry := Entry {
  e_slot_ok : bool;
  e_hs : N;
  e_cmd : hcmd;
  e_data : bytes;                          (* the payload, when the case needs it (outbox rows, raw payloads) *)
  e_dec : option (bytes * dec_obs);        (* payload and what the real decodeCommand made of it *)
  e_chan : option chan_op }.               (* channel-row / subscriber commands: what the K6 signature needs *)

Inductive bout := BFatal (cls : N) | BOk (rs : list (N * N)).   (* per command: result class, hash of the result bytes *)

Record bobs := BObs { bo_out : bout; bo_digest : N; bo_applied : N }.

Record cm_obs := CmObs {
  co_hs : N;
  co_tasks : list task;
  co_active : list (chan_key * option bytes);
  co_metas : list (chan_key * option runtime_meta) }.

Record dump := Dump {
  du_users : list urow;
  du_cm : list cm_obs;
  du_states : list hs_state;
  du_outbox : list outbox_row;
  du_applied : list dkey;
  du_applied_index : N }.

(* p_dump = None: the tables read back equal those of the reference run *)
Record part := Part { p_sizes : list N; p_obs : list bobs; p_dump : option dump }.

Record snap_obs := SnapObs {
  so_k : N; so_ok : bool; so_ref : N; so_restored : N; so_ref_final : N; so_final : N }.

Record c13_case := C13Case {
  c_cfg : fsm_cfg;
  c_modelled : bool;
  c_log : list entry;
  c_d0 : N;                      (* digest of the empty store *)
  c_ref : list bobs;             (* one per command, up to and including the first fatal one *)
  c_parts : list part;
  c_snaps : list snap_obs;
  c_dump : option dump }.

(* ---- the log as the model sees it ----------------------------------------------------------- *)

Fixpoint to_fcmds (i : N) (l : list entry) : list fcmd :=
  match l with
  | [] => []
  | e :: r => FCmd (e_slot_ok e) (e_hs e) i (e_cmd e) (e_data e) :: to_fcmds (i + 1) r
  end.

Fixpoint split_sizes {A} (sizes : list N) (l : list A) : list (list A) :=
  match sizes with
  | [] => []
  | s :: r => firstn (N.to_nat s) l :: split_sizes r (skipn (N.to_nat s) l)
  end.

(* ---- model vs implementation ------------------------------------------------------------------- *)

Definition cls_matches (model impl : N) : bool :=
  (model =? impl) || ((model =? R_OK) && (100 <=? impl)).      (* 100+n: garbage-collect result *)

Definition err_matches (model impl : N) : bool := (model =? E_ANY) || (model =? impl).

Definition out_matches (m : @bres fres) (o : bout) : bool :=
  match m, o with
  | BErr e, BFatal c => err_matches e c
  | BRes rs, BOk os => list_eqb N.eqb (map (fun _ => 0) rs) (map (fun _ => 0) os)
                         && forallb (fun xy => cls_matches (fst (fst xy)) (fst (snd xy))) (combine rs os)
  | _, _ => false
  end.

Definition cm_matches (d : db) (o : cm_obs) : bool :=
  list_eqb task_eqb (db_tasks d) (co_tasks o)
  && forallb (fun cv => option_eqb bytes_eqb (active_get d (fst cv)) (snd cv)) (co_active o)
  && forallb (fun cv => option_eqb runtime_meta_eqb (meta_get d (fst cv)) (snd cv)) (co_metas o).

Definition dump_matches (s : store) (u : dump) : bool :=
  list_eqb urow_eqb (st_users s) (du_users u)
  && forallb (fun o => cm_matches (cm_get (st_cm s) (co_hs o)) o) (du_cm u)
  && list_eqb hs_state_eqb (st_states s) (du_states u)
  && list_eqb outbox_eqb (st_outbox s) (du_outbox u)
  && list_eqb dkey_eqb (st_applied s) (du_applied u)
  && (st_applied_index s =? du_applied_index u).

(* run the batches; every outcome and applied index must match; returns the final store *)
Fixpoint run_batches (cfg : fsm_cfg) (s : store) (batches : list (list fcmd)) (obs : list bobs) : option store :=
  match batches, obs with
  | _, [] => Some s
  | [], _ :: _ => None
  | b :: br, o :: orest =>
    let '(s', r) := fsm_apply_batch cfg s b in
    if out_matches r (bo_out o) && (st_applied_index s' =? bo_applied o) then
      match r with
      | BErr _ => match orest with [] => Some s' | _ => None end
      | BRes _ => run_batches cfg s' br orest
      end
    else None
  end.

Definition run_matches (cfg : fsm_cfg) (batches : list (list fcmd)) (obs : list bobs) (d : option dump) : bool :=
  match run_batches cfg store_empty batches obs with
  | None => false
  | Some s => match d with Some u => dump_matches s u | None => true end
  end.

Definition part_dump (c : c13_case) (p : part) : option dump :=
  match p_dump p with Some u => Some u | None => c_dump c end.

(* decodeCommand and the encoders of the four migration commands *)
Definition enc_matches (k : hcmd) (data : bytes) (o : dec_obs) : bool :=
  match k, o with
  | HDelta s i h _, DecDelta s' i' h' orig =>
      (s =? s') && (i =? i') && (h =? h') && bytes_eqb (encodeApplyDelta s i h orig) data
  | HFence h t, DecFence h' t' => (h =? h') && (t =? t') && bytes_eqb (encodeEnterFence h t) data
  | HAck h s t i, DecAck h' s' t' i' =>
      (h =? h') && (s =? s') && (t =? t') && (i =? i') && bytes_eqb (encodeMigrationOutbox false h s t i) data
  | HCleanup h s t i, DecCleanup h' s' t' i' =>
      (h =? h') && (s =? s') && (t =? t') && (i =? i') && bytes_eqb (encodeMigrationOutbox true h s t i) data
  | HOpaque _, _ => true
  | _, _ => false
  end.

Definition dec_matches (e : entry) : bool :=
  match e_dec e with
  | None => true
  | Some (data, o) =>
    (match decodeCommand data with
     | DecUnmodelled => true
     | m => dec_obs_eqb m o
     end)
    && enc_matches (e_cmd e) data o
  end.

Definition C13_mismatch (c : c13_case) : bool :=
  negb (forallb dec_matches (c_log c))
  || (c_modelled c
      && let log := to_fcmds 1 (c_log c) in
         negb (run_matches (c_cfg c) (map (fun x => [x]) log) (c_ref c) (c_dump c)
               && forallb (fun p => run_matches (c_cfg c) (split_sizes (p_sizes p) log) (p_obs p) (part_dump c p))
                          (c_parts c))).

(* ---- the monitor ------------------------------------------------------------------------------------ *)

(* the command a log entry carries to the tables (an apply_delta carries its original) *)
Definition core_cmd (e : entry) : hcmd :=
  match e_cmd e with
  | HDelta _ _ _ (Some c) => c
  | c => c
  end.

Definition cm_of (e : entry) : option cmd := match core_cmd e with HCM c => Some c | _ => None end.

Definition is_create (c : cmd) : bool := match c with CCreate _ | CCreateGuarded _ _ => true | _ => false end.
Definition is_gc (c : cmd) : bool := match c with CGC _ _ => true | _ => false end.
Definition is_claim_advance (c : cmd) : bool :=
  match c with CClaim _ _ _ _ _ _ _ | CAdvance _ _ _ _ _ _ _ _ _ _ _ _ _ => true | _ => false end.

(* the task row a command writes *)
Definition cmd_task_key (c : cmd) : option tkey :=
  match c with
  | CCreate t | CCreateGuarded t _ => Some (task_key t)
  | CUpsertMeta _ | CGC _ _ => None
  | _ => match cmd_tguard c with Some g => Some (tguard_key g) | None => None end
  end.

(* the status the command gives the task *)
Definition cmd_new_status (c : cmd) : option N :=
  match c with
  | CCreate t | CCreateGuarded t _ => Some (t_status t)
  | CClaim _ st _ _ _ _ _ => Some st
  | CAdvance _ st _ _ _ _ _ _ _ _ _ _ _ => Some st
  | CUpsertMeta _ | CGC _ _ => None
  | _ => match cmd_trans c with Some h => Some (tr_status h) | None => None end
  end.

Definition cmd_expected_status (c : cmd) : option N :=
  match cmd_tguard c with Some g => Some (tg_expected_status g) | None => None end.

Definition on_chan (e : entry) (hs : N) (ch : chan_key) : bool :=
  (e_hs e =? hs)
  && match cm_of e with
     | Some c => match cmd_task_key c with Some k => chan_key_eqb (tk_chan k) ch | None => false end
     | None => false
     end.

Definition opt_terminal (s : option N) : bool := match s with Some x => status_terminal x | None => false end.
Definition opt_active (s : option N) : bool := match s with Some x => negb (status_terminal x) | None => false end.

(* some suffix-structured searches over the batch *)
Fixpoint exists_then {A} (p : A -> list A -> bool) (l : list A) : bool :=
  match l with
  | [] => false
  | x :: r => p x r || exists_then p r
  end.

(* K1: a Claim/Advance whose guard expects a terminal status and whose new status is active, and
   (before or after it in the batch) a Create for the same channel: both commands consult the
   committed active index, neither sees the other *)
Definition sig_k1 (batch : list entry) : bool :=
  existsb (fun e =>
    match cm_of e with
    | Some c =>
      is_claim_advance c && opt_terminal (cmd_expected_status c) && opt_active (cmd_new_status c)
      && match cmd_task_key c with
         | Some k => existsb (fun e' => match cm_of e' with
                                         | Some c' => is_create c' && on_chan e' (e_hs e) (tk_chan k)
                                         | None => false end) batch
         | None => false
         end
    | None => false
    end) batch.

(* K2: Create(active) ... terminal status on the channel ... Create on the channel *)
Definition sig_k2 (batch : list entry) : bool :=
  exists_then (fun e rest =>
    match cm_of e with
    | Some c =>
      is_create c && opt_active (cmd_new_status c)
      && match cmd_task_key c with
         | Some k =>
           exists_then (fun e' rest' =>
             on_chan e' (e_hs e) (tk_chan k)
             && match cm_of e' with Some c' => negb (is_create c') && opt_terminal (cmd_new_status c') | None => false end
             && existsb (fun e'' => on_chan e'' (e_hs e) (tk_chan k)
                                   && match cm_of e'' with Some c'' => is_create c'' | None => false end) rest') rest
         | None => false
         end
    | None => false
    end) batch.

Definition writes_task (e : entry) : bool :=
  match cm_of e with Some c => match cmd_task_key c with Some _ => true | None => false end | None => false end.
Definition entry_is_gc (e : entry) : bool := match cm_of e with Some c => is_gc c | None => false end.

(* K3: GC together with another task-writing command *)
Definition sig_k3 (batch : list entry) : bool := existsb entry_is_gc batch && existsb writes_task batch.

(* K4: cleanup for hash slot h, later another command for h *)
Definition sig_k4 (batch : list entry) : bool :=
  exists_then (fun e rest =>
    match e_cmd e with
    | HCleanup _ _ _ _ => existsb (fun e' => e_hs e' =? e_hs e) rest
    | _ => false
    end) batch.

(* K5: two non-GC commands writing the same task row *)
Definition sig_k5 (batch : list entry) : bool :=
  exists_then (fun e rest =>
    match cm_of e with
    | Some c =>
      match cmd_task_key c with
      | Some k => existsb (fun e' => (e_hs e' =? e_hs e)
                                     && match cm_of e' with
                                        | Some c' => match cmd_task_key c' with Some k' => tkey_eqb k k' | None => false end
                                        | None => false end) rest
      | None => false
      end
    | None => false
    end) batch.

(* K6: the subscriber sets as the log alone determines them (every command taken as applied) *)
Definition sub_row := (N * bytes * Z * bytes)%type.        (* hash slot, channel id, channel type, uid *)
Definition sub_of_chan (hs : N) (o : chan_op) (r : sub_row) : bool :=
  let '(h, id, ty, _) := r in (h =? hs) && bytes_eqb id (ch_id o) && (ty =? ch_ty o)%Z.
Definition sub_is (hs : N) (o : chan_op) (uid : bytes) (r : sub_row) : bool :=
  let '(_, _, _, u) := r in sub_of_chan hs o r && bytes_eqb u uid.

Definition subs_step (subs : list sub_row) (e : entry) : list sub_row :=
  match e_chan e with
  | None => subs
  | Some o =>
    if ch_kind o =? 1 then filter (fun r => negb (sub_of_chan (e_hs e) o r)) subs
    else if ch_kind o =? 2 then
      fold_left (fun acc u => if existsb (sub_is (e_hs e) o u) acc then acc else (e_hs e, ch_id o, ch_ty o, u) :: acc)
                (ch_uids o) subs
    else if ch_kind o =? 3 then
      filter (fun r => negb (existsb (fun u => sub_is (e_hs e) o u r) (ch_uids o))) subs
    else subs
  end.

(* [watch]: the rows that were subscribed when a DeleteChannel of their channel ran in this batch *)
Fixpoint k6_scan (subs watch : list sub_row) (batch : list entry) : bool :=
  match batch with
  | [] => false
  | e :: r =>
    match e_chan e with
    | Some o =>
      if ch_kind o =? 1 then
        k6_scan (subs_step subs e) (filter (sub_of_chan (e_hs e) o) subs ++ watch) r
      else if (ch_kind o =? 2) || (ch_kind o =? 3) then
        existsb (fun u => existsb (sub_is (e_hs e) o u) watch) (ch_uids o) || k6_scan (subs_step subs e) watch r
      else k6_scan subs watch r
    | None => k6_scan subs watch r
    end
  end.

Definition sig_k6 (done batch : list entry) : bool := k6_scan (fold_left subs_step done []) [] batch.

(* [done]: the log entries before the batch *)
Definition classify (done batch : list entry) : N :=
  if sig_k1 batch then 2
  else if sig_k2 batch then 3
  else if sig_k3 batch then 4
  else if sig_k4 batch then 5
  else if sig_k5 batch then 6
  else if sig_k6 done batch then 7
  else 1.

(* ---- a partition run against the reference run --------------------------------------------------- *)

(* walking state: how many reference commands are behind us, the digest after them, and the
   index of the last of them whose result is not stale_meta (0: none) *)
Record wst := WSt { w_pos : nat; w_digest : N; w_floor : nat }.

Definition is_fatal (o : bobs) : bool := match bo_out o with BFatal _ => true | BOk _ => false end.

Definition seg_step (st : wst) (o : bobs) : wst :=
  match bo_out o with
  | BOk [(cls, _)] =>
      WSt (S (w_pos st)) (bo_digest o) (if cls =? R_STALE then w_floor st else S (w_pos st))
  | _ => WSt (S (w_pos st)) (bo_digest o) (S (w_pos st))
  end.

(* the per-command results of a segment of the reference run, None if one of them is fatal *)
Fixpoint seg_results (seg : list bobs) : option (list (N * N)) :=
  match seg with
  | [] => Some []
  | o :: r => match bo_out o with
              | BOk [x] => match seg_results r with Some xs => Some (x :: xs) | None => None end
              | _ => None
              end
  end.

(* the reference commands before the first fatal one *)
Fixpoint before_fatal (seg : list bobs) : list bobs :=
  match seg with
  | [] => []
  | o :: r => if is_fatal o then [] else o :: before_fatal r
  end.

Definition res_eqb (a b : N * N) : bool := (fst a =? fst b) && (snd a =? snd b).

(* 0, or the code of the first departing batch.  [ref], [log]: what is left of the reference run
   and of the log.  A batch whose reference commands all succeeded must return exactly their
   results, reach the reference digest, and have a durable applied index between the last
   non-stale command and the batch end (a batch whose commit is stale_meta commits nothing, so
   the watermark may lag over stale_meta commands).  A batch containing the reference run's fatal
   command must fail, and leave either the store of the batch start or (stale fallback: the
   commands are re-applied one by one) the reference store before the failing command; the run
   ends there. *)
Fixpoint walk (st : wst) (done : list entry) (ref : list bobs) (log : list entry) (sizes : list N) (obs : list bobs) : N :=
  match sizes, obs with
  | [], [] => 0
  | [], _ :: _ => 1
  | _ :: _, [] => 1
  | s :: sr, o :: orest =>
    let len := N.to_nat s in
    let seg := firstn len ref in
    let batch := firstn len log in
    match seg_results seg with
    | Some rs' =>
        if Nat.eqb (length seg) len then
          let st' := fold_left seg_step seg st in
          match bo_out o with
          | BOk rs =>
              let a := N.to_nat (bo_applied o) in
              if list_eqb res_eqb rs rs' && (bo_digest o =? w_digest st')
                 && Nat.leb (w_floor st') a && Nat.leb a (w_pos st')
              then walk st' (done ++ batch) (skipn len ref) (skipn len log) sr orest
              else classify done batch
          | BFatal _ => classify done batch
          end
        else classify done batch
    | None =>
        let stf := fold_left seg_step (before_fatal seg) st in
        match bo_out o with
        | BFatal _ =>
            if ((bo_digest o =? w_digest st) || (bo_digest o =? w_digest stf))
               && match orest with [] => true | _ => false end
            then 0 else classify done batch
        | BOk _ => classify done batch
        end
    end
  end.

(* the reference run itself: a fatal command leaves no trace and ends the run; commands for
   hash slots the slot does not own are refused *)
Definition type_byte (e : entry) : N :=
  match e_cmd e with
  | HDelta _ _ _ _ => cmdTypeApplyDelta
  | HFence _ _ => cmdTypeEnterFence
  | HAck _ _ _ _ => cmdTypeAckMigrationOutbox
  | HCleanup _ _ _ _ => cmdTypeCleanupMigrationOutbox
  | HOpaque 0 => match e_data e with v :: t :: _ => if v =? commandVersion then t else 0 | _ => 0 end
  | _ => 0
  end.

Definition must_be_refused (cfg : fsm_cfg) (e : entry) : bool :=
  negb (e_slot_ok e)
  || (let hs := if (e_hs e =? 0) && cfg_allow_legacy cfg then cfg_legacy cfg else e_hs e in
      negb (memN hs (cfg_owned cfg))
      && negb (memN (type_byte e) [cmdTypeApplyDelta; cmdTypeEnterFence; cmdTypeAckMigrationOutbox;
                                   cmdTypeCleanupMigrationOutbox])).

Fixpoint ref_ok (c : c13_case) (j : nat) (log : list entry) (obs : list bobs) (prev_digest prev_applied : N) : bool :=
  match log, obs with
  | _, [] => match log with [] => true | _ => false end
  | [], _ :: _ => false
  | e :: lr, o :: orest =>
    match bo_out o with
    | BFatal _ =>
        (bo_digest o =? prev_digest) && (bo_applied o =? prev_applied)
        && match orest with [] => true | _ => false end
    | BOk rs =>
        negb (must_be_refused (c_cfg c) e)
        && match rs with [_] => true | _ => false end
        && ((bo_applied o =? N.of_nat (S j)) || (bo_applied o =? prev_applied))
        && ref_ok c (S j) lr orest (bo_digest o) (bo_applied o)
    end
  end.

(* a reference run that stops early must have stopped on a fatal command *)
Definition ref_complete (c : c13_case) : bool :=
  Nat.eqb (length (c_ref c)) (length (c_log c))
  || match nth_error (c_ref c) (pred (length (c_ref c))) with Some o => is_fatal o | None => false end.

Definition snap_ok (s : snap_obs) : bool :=
  so_ok s && (so_ref s =? so_restored s) && (so_ref_final s =? so_final s).

Fixpoint max_code (l : list N) : N :=
  match l with
  | [] => 0
  | x :: r => let m := max_code r in
              if (x =? 1) || (m =? 1) then 1 else if x =? 0 then m else if m =? 0 then x else N.min x m
  end.

Definition C13_monitor (c : c13_case) : N :=
  if negb (ref_ok c 0 (c_log c) (c_ref c) (c_d0 c) 0 && ref_complete c) then 1
  else if negb (forallb snap_ok (c_snaps c)) then 1
  else max_code (map (fun p => walk (WSt 0 (c_d0 c) 0) [] (c_ref c) (c_log c) (p_sizes p) (p_obs p)) (c_parts c)).
