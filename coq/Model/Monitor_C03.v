(* Model/Monitor_C03.v — C03 "append receipts are exact, contiguous and
   retry-stable", evaluated on the implementation's observations alone
   (operation inputs, Receipt / error values, every voter's log ids).

   For every successful Commit (Receipt{First,Last,HW} for command c, records rs) on node v:
     shape     the receipt names c and First..Last has exactly |rs| sequences, First >= 1;
     stored    after the step, v's log holds at First..Last entries of command c whose rows
               are exactly rs, in order;
   and, if c was never acknowledged before (fresh):
     new       the range starts right after v's previous log end and ends at the new log end
               (or, when an earlier ambiguous attempt had already stored it, the entries are
               the ones that were there);
     disjoint  First..Last overlaps no range acknowledged for another command;
   if c was acknowledged before with identical content (exact retry):
     same      the same First..Last is returned and no voter's log changed in this step;
   if c was acknowledged before with different content: the commit must not succeed.

   Code 2 (known finding C03-K1, DESIGN §0 F4) is returned only for a failed retry /
   reuse check whose structural signature is
     Pebble store /\ ServerAllocatedMessageIDs /\ c is not in the owner's retained-command
     cache (emulated: FIFO of the last MaxRetainedCommands acknowledged commands, cleared by
     a non-idempotent successful Install and by a restart) /\ no record of the proposal has a
     (FromUID, ClientMsgNo) pair already stored in v's log before the step;
   every other failure is code 1.  After a code-2 step the implementation's newest accepted
   (content, range) of c becomes the reference, so that the aftermath of the known defect is not
   reported as something else. *)
From WK Require Import Base.Base.
From WK Require Export Model.ReplicaLog Model.QuorumLog Model.Cluster.
Open Scope N_scope.

Record c03_ack := C03Ack { k_cmd : tag; k_recs : list record; k_first : N; k_last : N }.
(* per node: installed authority as far as the observations tell, readiness, retained cache *)
Record c03_node := C03Node { kn_cur : option authid; kn_ready : bool; kn_cache : list tag }.
Definition c03_node_init : c03_node := C03Node None false [].
Record c03_state := C03State { ks_acks : list c03_ack; ks_nodes : list (N * c03_node) }.

Fixpoint c03_get (l : list (N * c03_node)) (v : N) : c03_node :=
  match l with
  | [] => c03_node_init
  | (v', s) :: rest => if v =? v' then s else c03_get rest v
  end.
Fixpoint c03_put (l : list (N * c03_node)) (v : N) (s : c03_node) : list (N * c03_node) :=
  match l with
  | [] => [(v, s)]
  | (v', s') :: rest => if v =? v' then (v, s) :: rest else (v', s') :: c03_put rest v s
  end.

Definition recs_eqb : list record -> list record -> bool := list_eqb record_eqb.

Definition find_ack (acks : list c03_ack) (c : tag) : option c03_ack :=
  find (fun k => tag_eqb (k_cmd k) c) acks.
Definition set_ack (acks : list c03_ack) (k : c03_ack) : list c03_ack :=
  k :: filter (fun x => negb (tag_eqb (k_cmd x) (k_cmd k))) acks.

(* remember(): a command already cached keeps its place, otherwise FIFO eviction *)
Definition cache_push (cap : N) (cache : list tag) (c : tag) : list tag :=
  if existsb (tag_eqb c) cache then cache
  else (if lenN cache =? cap then tl cache else cache) ++ [c].

(* stored: the log of [o] holds command c with rows recs at first, first+1, ... *)
Fixpoint stored_at (tab : list ent) (o : robs) (c : tag) (recs : list record) (idx : N) : bool :=
  match recs with
  | [] => true
  | r :: rest =>
      match tab_get tab (obs_id_at o idx) with
      | Some e => (en_idx e =? idx) && tag_eqb (en_cmd e) c && record_eqb (en_rec e) r &&
                  stored_at tab o c rest (idx + 1)
      | None => false
      end
  end.

Fixpoint same_ids_range (a b : robs) (idx : N) (count : nat) : bool :=
  match count with
  | O => true
  | S k => (obs_id_at a idx =? obs_id_at b idx) && negb (obs_id_at a idx =? 0) && same_ids_range a b (idx + 1) k
  end.

(* a (FromUID, ClientMsgNo) pair of the proposal is already stored in the log [o] *)
Definition key_stored (tab : list ent) (o : robs) (recs : list record) : bool :=
  existsb (fun r => has_key r &&
     existsb (fun id => match tab_get tab id with
                        | Some e => (r_from (en_rec e) =? r_from r) && (r_cno (en_rec e) =? r_cno r)
                        | None => false
                        end) (ro_ids o)) recs.

Definition logs_unchanged (vs : list N) (prev full : list (N * robs)) : bool :=
  forallb (fun v => list_eqb N.eqb (ro_ids (get_robs prev v)) (ro_ids (get_robs full v))) vs.

(* the structural signature of C03-K1 *)
Definition c03_k1_signature (cfg : qconfig) (tab : list ent) (nd : c03_node) (before : robs)
           (c : tag) (recs : list record) (sa : bool) : bool :=
  match cf_kind cfg with SPebble => true | SMem => false end && sa &&
  negb (existsb (tag_eqb c) (kn_cache nd)) && negb (key_stored tab before recs).

(* one observed step: new state and the code of this step *)
Definition c03_step (cfg : qconfig) (tab : list ent) (st : c03_state) (prev : list (N * robs))
           (s : qop * qres * list (N * robs)) : c03_state * N :=
  let '(op, res, full) := s in
  match op, res with
  | OCommit node _ cmd recs sa _, RReceipt _ c first last _ =>
      let nd := c03_get (ks_nodes st) node in
      let before := get_robs prev node in
      let after := get_robs full node in
      let shape := tag_eqb c cmd && (1 <=? first) && (first <=? last) && (last - first + 1 =? lenN recs) in
      let stored := stored_at tab after cmd recs first in
      let nodes' := c03_put (ks_nodes st) node
                      (C03Node (kn_cur nd) (kn_ready nd) (cache_push (cf_retained cfg) (kn_cache nd) cmd)) in
      let this := C03Ack cmd recs first last in
      match find_ack (ks_acks st) cmd with
      | None =>
          let fresh :=
            if ro_leo before <? last
            then (first =? ro_leo before + 1) && (ro_leo after =? last)
            else same_ids_range before after first (length recs) in
          let disjoint := forallb (fun k => (last <? k_first k) || (k_last k <? first)) (ks_acks st) in
          (C03State (this :: ks_acks st) nodes',
           if shape && stored && fresh && disjoint then 0 else 1)
      | Some k =>
          let ok := recs_eqb recs (k_recs k) && (first =? k_first k) && (last =? k_last k) && shape &&
                    logs_unchanged (voters_of cfg) prev full in
          if ok then (C03State (ks_acks st) nodes', 0)
          else if c03_k1_signature cfg tab nd before cmd recs sa
          then (C03State (set_ack (ks_acks st) this) nodes', 2)
          else (C03State (ks_acks st) nodes', 1)
      end
  | OInstall node aid _ _ _, RInstalled _ _ _ =>
      let nd := c03_get (ks_nodes st) node in
      let idem := kn_ready nd && match kn_cur nd with Some x => authid_eqb x aid | None => false end in
      (C03State (ks_acks st)
                (c03_put (ks_nodes st) node (C03Node (Some aid) true (if idem then kn_cache nd else []))), 0)
  | OInstall node aid _ _ _, RErr _ =>
      (* a failed install of a higher authority leaves the owner fenced, not ready *)
      let nd := c03_get (ks_nodes st) node in
      let higher := match kn_cur nd with
                    | Some x => match compareAuthorityID aid x with Gt => true | _ => false end
                    | None => true
                    end in
      (C03State (ks_acks st)
                (if higher then c03_put (ks_nodes st) node (C03Node (kn_cur nd) false (kn_cache nd)) else ks_nodes st), 0)
  | ORestart node, _ => (C03State (ks_acks st) (c03_put (ks_nodes st) node c03_node_init), 0)
  | _, _ => (st, 0)
  end.

(* worst code of a run: 1 beats 2 beats 0 *)
Definition worse (a b : N) : N :=
  if (a =? 1) || (b =? 1) then 1 else if (a =? 0) then b else a.

Fixpoint c03_run (cfg : qconfig) (tab : list ent) (st : c03_state) (prev : list (N * robs))
         (steps : list (qop * qres * list (N * robs))) : N :=
  match steps with
  | [] => 0
  | s :: rest =>
      let '(st', code) := c03_step cfg tab st prev s in
      worse code (c03_run cfg tab st' (snd s) rest)
  end.

Definition c03_code (cfg : qconfig) (tab : list ent) (steps : list (qop * qres * list (N * robs))) : N :=
  c03_run cfg tab (C03State [] []) [] steps.

Definition C03_mismatch : qcase -> bool := q_mismatch.
Definition C03_monitor (c : qcase) : N := c03_code (cs_cfg c) (cs_tab c) (expand_steps [] (cs_steps c)).
