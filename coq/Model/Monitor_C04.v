(* Model/Monitor_C04.v — C04 "a deposed or fenced authority cannot acknowledge
   appends", evaluated on the implementation's observations alone.

   Scope: one owner incarnation (one quorumLog between two restarts of a node):
   the fencing state of quorum_log.go is volatile and per owner.  For every node
   the monitor remembers
     hi       the highest authority a successful Install returned on this owner,
     blocked  an Install answered ErrWriteFenced since the last successful Install
              (the channel sits under a fenced authority).
   Violations (code 1):
     * a successful Install returns another authority than the requested one,
       succeeds although the requested authority carries a write fence, or
       succeeds under an authority older than [hi]  (older authority installed again);
     * a Commit returns a receipt while [blocked], or a receipt whose authority is
       not the proposal's expected authority, or is not [hi]
       (append acknowledged under a deposed / never installed authority). *)
From WK Require Import Base.Base.
From WK Require Export Model.ReplicaLog Model.QuorumLog Model.Cluster.
Open Scope N_scope.

Record c04_node := C04Node { cn_hi : option authid; cn_blocked : bool }.
Definition c04_node_init : c04_node := C04Node None false.

Fixpoint c04_get (l : list (N * c04_node)) (v : N) : c04_node :=
  match l with
  | [] => c04_node_init
  | (v', s) :: rest => if v =? v' then s else c04_get rest v
  end.
Fixpoint c04_put (l : list (N * c04_node)) (v : N) (s : c04_node) : list (N * c04_node) :=
  match l with
  | [] => [(v, s)]
  | (v', s') :: rest => if v =? v' then (v, s) :: rest else (v', s') :: c04_put rest v s
  end.

Definition authid_ltb (a b : authid) : bool :=
  match compareAuthorityID a b with Lt => true | _ => false end.

(* one observed step: Some new state, or None = violation *)
Definition c04_step (st : list (N * c04_node)) (op : qop) (res : qres) : option (list (N * c04_node)) :=
  match op with
  | OInstall node aid wf _ _ =>
      let s := c04_get st node in
      match res with
      | RInstalled a' _ _ =>
          if negb (authid_eqb a' aid) || wf ||
             match cn_hi s with Some h => authid_ltb aid h | None => false end
          then None
          else Some (c04_put st node (C04Node (Some aid) false))
      | RErr e => if e =? EFenced then Some (c04_put st node (C04Node (cn_hi s) true)) else Some st
      | _ => Some st
      end
  | OCommit node expected _ _ _ _ =>
      let s := c04_get st node in
      match res with
      | RReceipt a _ _ _ _ =>
          if cn_blocked s || negb (authid_eqb a expected) ||
             negb (match cn_hi s with Some h => authid_eqb a h | None => false end)
          then None else Some st
      | _ => Some st
      end
  | ORestart node => Some (c04_put st node c04_node_init)
  | _ => Some st
  end.

Fixpoint c04_run (st : list (N * c04_node)) (trace : list (qop * qres)) : bool :=
  match trace with
  | [] => true
  | (op, r) :: rest => match c04_step st op r with
                       | Some st' => c04_run st' rest
                       | None => false
                       end
  end.

(* the property on a trace of (operation, result) pairs *)
Definition c04_holds (trace : list (qop * qres)) : bool := c04_run [] trace.

Definition C04_mismatch : qcase -> bool := q_mismatch.
Definition C04_monitor (c : qcase) : N :=
  if c04_holds (map (fun s => (fst s, ob_res (snd s))) (cs_steps c)) then 0 else 1.
