(* Model/Monitor_C04.v — C04 "a deposed or fenced authority cannot acknowledge
   appends", evaluated on the implementation's observations alone.

   Two groups of clauses.  Owner-local (one owner incarnation = one quorumLog between two restarts of
   a node; the fencing state of quorum_log.go is volatile and per owner), and one cluster-wide clause
   further down (known finding C04-K1).  Owner-local: for every node
   the monitor remembers
     hi       the highest authority a successful Install returned on this owner,
     blocked  an Install answered ErrWriteFenced since the last successful Install
              (the channel sits under a fenced authority).
   Violations (code 1):
     * a successful Install returns another authority than the requested one,
       succeeds although the requested authority carries a write fence, or
       succeeds under an authority older than [hi]  (older authority installed again);
     * a Commit returns a receipt while [blocked], or a receipt whose authority is
       not the proposal's expected authority, or is not [hi]
       (append acknowledged under a deposed / never installed authority). *)
From WK Require Import Base.Base.
From WK Require Export Model.ReplicaLog Model.QuorumLog Model.Cluster.
Open Scope N_scope.

Record c04_node := C04Node { cn_hi : option authid; cn_blocked : bool }.
Definition c04_node_init : c04_node := C04Node None false.

Fixpoint c04_get (l : list (N * c04_node)) (v : N) : c04_node :=
  match l with
  | [] => c04_node_init
  | (v', s) :: rest => if v =? v' then s else c04_get rest v
  end.
Fixpoint c04_put (l : list (N * c04_node)) (v : N) (s : c04_node) : list (N * c04_node) :=
  match l with
  | [] => [(v, s)]
  | (v', s') :: rest => if v =? v' then (v, s) :: rest else (v', s') :: c04_put rest v s
  end.

Definition authid_ltb (a b : authid) : bool :=
  match compareAuthorityID a b with Lt => true | _ => false end.

(* one observed step: Some new state, or None = violation *)
Definition c04_step (st : list (N * c04_node)) (op : qop) (res : qres) : option (list (N * c04_node)) :=
  match op with
  | OInstall node aid wf _ _ =>
      let s := c04_get st node in
      match res with
      | RInstalled a' _ _ =>
          if negb (authid_eqb a' aid) || wf ||
             match cn_hi s with Some h => authid_ltb aid h | None => false end
          then None
          else Some (c04_put st node (C04Node (Some aid) false))
      | RErr e => if e =? EFenced then Some (c04_put st node (C04Node (cn_hi s) true)) else Some st
      | _ => Some st
      end
  | OCommit node expected _ _ _ _ =>
      let s := c04_get st node in
      match res with
      | RReceipt a _ _ _ _ =>
          if cn_blocked s || negb (authid_eqb a expected) ||
             negb (match cn_hi s with Some h => authid_eqb a h | None => false end)
          then None else Some st
      | _ => Some st
      end
  | ORestart node => Some (c04_put st node c04_node_init)
  | _ => Some st
  end.

Fixpoint c04_run (st : list (N * c04_node)) (trace : list (qop * qres)) : bool :=
  match trace with
  | [] => true
  | (op, r) :: rest => match c04_step st op r with
                       | Some st' => c04_run st' rest
                       | None => false
                       end
  end.

(* the property on a trace of (operation, result) pairs *)
Definition c04_holds (trace : list (qop * qres)) : bool := c04_run [] trace.

(* ---- the cluster-wide clause (known finding C04-K1) ----------------------------------------------------------

   "Once a channel is installed under a newer authority, appends proposed under the older authority are
   rejected and never acknowledged" read across nodes: a Receipt under authority A returned after a
   SUCCESSFUL Install of a strictly newer authority B on ANOTHER node is a violation.  (The same node is
   the owner-local clause above.)  A Receipt that repeats one this node already issued for the same command
   and range is a replay from the retained-command cache, not a new acknowledgement, and is not judged.
     code 2 (C04-K1)  when, for EVERY such newer install, the installing node's log was EMPTY at install
                      time (Installed.LEO = 0: no barrier is written, the proof of authority is deferred
                      into the first business proposal) and, just before the Receipt, entries of authority B
                      (its barrier or a business proposal) were held by fewer than WriteQuorum voters;
     code 1           otherwise — with a non-empty log the barrier and quorum intersection must exclude it. *)

Record c04_install := C04Install { ci_auth : authid; ci_node : N; ci_empty : bool }.
Record c04_cluster := C04Cluster { cc_installs : list c04_install; cc_issued : list (N * tag * N * N) }.

Definition has_authority (tab : list ent) (o : robs) (b : authid) : bool :=
  existsb (fun id => match tab_get tab id with
                     | Some e => (en_e e =? aid_e b) && (en_t e =? aid_t b) && (en_f e =? aid_f b)
                     | None => false
                     end) (ro_ids o).

Definition authority_on_quorum (cfg : qconfig) (tab : list ent) (full : list (N * robs)) (b : authid) : bool :=
  cf_quorum cfg <=? lenN (filter (fun v => has_authority tab (get_robs full v) b) (voters_of cfg)).

Definition issued_eqb (x y : N * tag * N * N) : bool :=
  let '(v, c, f, l) := x in let '(v', c', f', l') := y in
  (v =? v') && tag_eqb c c' && (f =? f') && (l =? l').

Definition c04_cluster_step (cfg : qconfig) (tab : list ent) (st : c04_cluster) (prev : list (N * robs))
           (s : qop * qres * list (N * robs)) : c04_cluster * N :=
  let '(op, res, full) := s in
  match op, res with
  | OInstall node aid _ _ _, RInstalled _ leo _ =>
      (C04Cluster (C04Install aid node (leo =? 0) :: cc_installs st) (cc_issued st), 0)
  | OCommit node _ _ _ _ _, RReceipt a c first last _ =>
      let this := (node, c, first, last) in
      if existsb (issued_eqb this) (cc_issued st) then (st, 0)
      else
        let newer := filter (fun i => authid_ltb a (ci_auth i) && negb (ci_node i =? node)) (cc_installs st) in
        let code :=
          match newer with
          | [] => 0
          | _ => if forallb (fun i => ci_empty i && negb (authority_on_quorum cfg tab prev (ci_auth i))) newer
                 then 2 else 1
          end in
        (C04Cluster (cc_installs st) (this :: cc_issued st), code)
  | _, _ => (st, 0)
  end.

Definition worse04 (a b : N) : N :=
  if (a =? 1) || (b =? 1) then 1 else if (a =? 0) then b else a.

Fixpoint c04_cluster_run (cfg : qconfig) (tab : list ent) (st : c04_cluster) (prev : list (N * robs))
         (steps : list (qop * qres * list (N * robs))) : N :=
  match steps with
  | [] => 0
  | s :: rest => let '(st', code) := c04_cluster_step cfg tab st prev s in
                 worse04 code (c04_cluster_run cfg tab st' (snd s) rest)
  end.

Definition c04_cluster_code (c : qcase) : N :=
  c04_cluster_run (cs_cfg c) (cs_tab c) (C04Cluster [] []) [] (expand_steps [] (cs_steps c)).

Definition C04_mismatch : qcase -> bool := q_mismatch.
(* owner-local clauses (code 1 when broken), then the cluster-wide clause *)
Definition C04_monitor (c : qcase) : N :=
  if c04_holds (map (fun s => (fst s, ob_res (snd s))) (cs_steps c)) then c04_cluster_code c else 1.
