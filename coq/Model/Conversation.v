(* Model/Conversation.v — internal/usecase/conversation (app.go, unread.go) for one
   user and one channel, composed with the membership mutations of
   pkg/db/meta/table_user_channel_membership.go that the App issues.

   uint64 values are N (every subtraction of the code is guarded, so no
   wrap-around is involved); int64 values (ActivatedAt, UpdatedAt, the clock,
   SetUnreadCommand.Unread) are Z.  One Gallina definition per Go function.
   The channel head is an INPUT of every op (the hydrator is the environment). *)
From WK Require Import Base.Base.
From WK Require Import Gen.Consts_C34.
Open Scope N_scope.

(* metadb.UserChannelMembership (uid/channel identity fixed per case) *)
Record mrow := MRow {
  r_join : N; r_read : N; r_deleted : N;
  r_activated : Z; r_tomb : bool; r_updated : Z }.

(* conversation.HydrationResult; h_msg = LastMessage.MessageSeq when LastMessage != nil *)
Record head := Head {
  h_outcome : N; h_last : N; h_ret : N; h_own : N; h_msg : option N }.

(* conversation.Conversation *)
Record conv := Conv {
  c_join : N; c_active : Z; c_read : N; c_deleted : N; c_updated : Z;
  c_last : option N; c_unread : N }.

(* ---- app.go: pure computations ------------------------------------------------- *)

Definition joinVisibilityFloor (joinSeq : N) : N :=
  if joinSeq =? 0 then 0 else joinSeq - 1.

(* var out uint64; for _, value := range values { if value > out { out = value } } *)
Definition maxMembershipFloor (values : list N) : N :=
  fold_left (fun out value => if out <? value then value else out) values 0.

Definition visibleMessage (row : mrow) (hd : head) : bool :=
  (r_join row <=? h_last hd) && (r_deleted row <? h_last hd).

Definition visibilityFloor (row : mrow) (hd : head) : N :=
  maxMembershipFloor [joinVisibilityFloor (r_join row); r_deleted row; h_ret hd].

Definition conversationFromMembership (row : mrow) (hd : head) : option conv :=
  let visible := visibleMessage row hd in
  if negb visible && (r_activated row <=? 0)%Z then None
  else
    let floor := visibilityFloor row hd in
    let effectiveRead := maxMembershipFloor [floor; r_read row; h_own hd] in
    let unread := if effectiveRead <? h_last hd then h_last hd - effectiveRead else 0 in
    let last := match h_msg hd with
                | Some s => if visible && (floor <? s) then Some s else None
                | None => None
                end in
    Some (Conv (r_join row) (r_activated row) (r_read row) (r_deleted row) (r_updated row)
               last unread).

(* what List / Retry report for the single key of the case *)
Inductive listing := LErr | LNone | LDelete | LUnresolved | LItem (c : conv).

(* the switch on head.Outcome in listMembershipDirectory / Retry *)
Definition classify (row : mrow) (hd : head) : listing :=
  if h_outcome hd =? HydrationDelete then LDelete
  else if h_outcome hd =? HydrationRetryable then LUnresolved
  else if (h_outcome hd =? HydrationOK) || (h_outcome hd =? HydrationNoVisibleMessage)
       then match conversationFromMembership row hd with
            | Some c => LItem c
            | None => LNone
            end
       else LErr.

(* List: the directory page holds the row if it exists; tombstones become deletes *)
Definition List (st : option mrow) (hd : head) : listing :=
  match st with
  | None => LNone
  | Some row => if r_tomb row then LDelete else classify row hd
  end.

(* Retry: a point read; missing or tombstoned rows become deletes *)
Definition Retry (st : option mrow) (hd : head) : listing :=
  match st with
  | None => LDelete
  | Some row => if r_tomb row then LDelete else classify row hd
  end.

(* ---- pkg/db/meta: the three mutations (Batch closures + mutate wrapper) ------- *)

(* error classes: 0 ok, 1 ErrNotFound, 2 ErrRouteNotReady, 3 ErrInvalidArgument, 4 other *)
Definition EOk : N := 0.
Definition ENotFound : N := 1.
Definition ENotReady : N := 2.
Definition EInvalid : N := 3.
Definition EOther : N := 4.

Definition bump_updated (row : mrow) (updatedAt : Z) : Z :=
  if (r_updated row <? updatedAt)%Z then updatedAt else r_updated row.

(* mutateUserChannelMembership: missing -> ErrNotFound, tombstone -> untouched *)
Definition mutate (st : option mrow) (f : mrow -> mrow) : N * option mrow :=
  match st with
  | None => (ENotFound, None)
  | Some row => if r_tomb row then (EOk, Some row) else (EOk, Some (f row))
  end.

Definition AdvanceUserChannelMembershipReadSeq (st : option mrow) (readSeq : N) (updatedAt : Z)
  : N * option mrow :=
  if (updatedAt <? 0)%Z then (EInvalid, st)
  else mutate st (fun row =>
    if r_read row <? readSeq
    then MRow (r_join row) readSeq (r_deleted row) (r_activated row) (r_tomb row) (bump_updated row updatedAt)
    else row).

Definition HideUserChannelMembership (st : option mrow) (deletedToSeq : N) (updatedAt : Z)
  : N * option mrow :=
  if (updatedAt <? 0)%Z then (EInvalid, st)
  else mutate st (fun row =>
    let changed := (r_deleted row <? deletedToSeq) || negb (r_activated row =? 0)%Z in
    MRow (r_join row) (r_read row)
         (if r_deleted row <? deletedToSeq then deletedToSeq else r_deleted row)
         0%Z (r_tomb row)
         (if changed then bump_updated row updatedAt else r_updated row)).

Definition ActivateUserChannelMembership (st : option mrow) (activatedAt updatedAt : Z)
  : N * option mrow :=
  if (activatedAt <=? 0)%Z || (updatedAt <? 0)%Z then (EInvalid, st)
  else mutate st (fun row =>
    if (r_activated row <? activatedAt)%Z
    then MRow (r_join row) (r_read row) (r_deleted row) activatedAt (r_tomb row) (bump_updated row updatedAt)
    else row).

(* ---- unread.go ---------------------------------------------------------------------- *)

(* the store call an op issued, as seen by the store *)
Inductive call := CNone | CAdvance (v : N) (upd : Z) | CHide (v : N) (upd : Z) | CActivate (a upd : Z).

(* membershipMutationHead: error class, or the live row *)
Definition membershipMutationHead (st : option mrow) (hd : head) : N + mrow :=
  match st with
  | None => inl ENotFound
  | Some row =>
      if r_tomb row then inl ENotFound
      else if (h_outcome hd =? HydrationOK) || (h_outcome hd =? HydrationNoVisibleMessage) then inr row
      else if h_outcome hd =? HydrationDelete then inl ENotFound
      else if h_outcome hd =? HydrationRetryable then inl ENotReady
      else inl EOther
  end.

Record result := Result { res_err : N; res_call : call; res_st : option mrow }.

Definition ClearUnread (st : option mrow) (hd : head) (now : Z) : result :=
  match membershipMutationHead st hd with
  | inl e => Result e CNone st
  | inr row =>
      if h_last hd <=? r_read row then Result EOk CNone st
      else let (e, st') := AdvanceUserChannelMembershipReadSeq st (h_last hd) now in
           Result e (CAdvance (h_last hd) now) st'
  end.

(* the read cursor SetUnread asks for *)
Definition setUnreadTarget (row : mrow) (hd : head) (unread : N) : N :=
  let floor := visibilityFloor row hd in
  if unread <? h_last hd then maxMembershipFloor [floor; h_last hd - unread] else floor.

Definition SetUnread (st : option mrow) (hd : head) (now : Z) (unread : Z) : result :=
  if (unread <? 0)%Z then Result EOther CNone st
  else match membershipMutationHead st hd with
       | inl e => Result e CNone st
       | inr row =>
           let target := setUnreadTarget row hd (Z.to_N unread) in
           if target <=? r_read row then Result EOk CNone st
           else let (e, st') := AdvanceUserChannelMembershipReadSeq st target now in
                Result e (CAdvance target now) st'
       end.

Definition DeleteConversation (st : option mrow) (hd : head) (now : Z) : result :=
  match membershipMutationHead st hd with
  | inl e => Result e CNone st
  | inr _ => let (e, st') := HideUserChannelMembership st (h_last hd) now in
             Result e (CHide (h_last hd) now) st'
  end.

Definition ActivateConversation (st : option mrow) (now : Z) : result :=
  let (e, st') := ActivateUserChannelMembership st now now in
  Result e (CActivate now now) st'.

(* ---- histories --------------------------------------------------------------------- *)

Inductive opk := OClear | OSet (n : Z) | ODelete | OActivate | OObserve | OPure (r : mrow).
Record op := Op { o_k : opk; o_now : Z; o_head : head }.

(* what the harness records after an op *)
Record obs := Obs {
  b_err : N; b_call : call; b_row : option mrow; b_list : listing; b_retry : listing }.

Definition pure_listing (r : mrow) (hd : head) : listing :=
  match conversationFromMembership r hd with Some c => LItem c | None => LNone end.

Definition step (st : option mrow) (o : op) : option mrow * obs :=
  let hd := o_head o in
  let finish (r : result) :=
    (res_st r, Obs (res_err r) (res_call r) (res_st r) (List (res_st r) hd) (Retry (res_st r) hd)) in
  match o_k o with
  | OClear => finish (ClearUnread st hd (o_now o))
  | OSet n => finish (SetUnread st hd (o_now o) n)
  | ODelete => finish (DeleteConversation st hd (o_now o))
  | OActivate => finish (ActivateConversation st (o_now o))
  | OObserve => finish (Result EOk CNone st)
  | OPure r => (st, Obs EOk CNone st (pure_listing r hd) (pure_listing r hd))
  end.

Fixpoint run (st : option mrow) (ops : list op) : list obs :=
  match ops with
  | [] => []
  | o :: rest => let (st', b) := step st o in b :: run st' rest
  end.

(* ---- equality of observations --------------------------------------------------------- *)

Definition mrow_eqb (a b : mrow) : bool :=
  (r_join a =? r_join b) && (r_read a =? r_read b) && (r_deleted a =? r_deleted b)
  && (r_activated a =? r_activated b)%Z && Bool.eqb (r_tomb a) (r_tomb b)
  && (r_updated a =? r_updated b)%Z.

Definition conv_eqb (a b : conv) : bool :=
  (c_join a =? c_join b) && (c_active a =? c_active b)%Z && (c_read a =? c_read b)
  && (c_deleted a =? c_deleted b) && (c_updated a =? c_updated b)%Z
  && option_eqb N.eqb (c_last a) (c_last b) && (c_unread a =? c_unread b).

Definition listing_eqb (a b : listing) : bool :=
  match a, b with
  | LErr, LErr | LNone, LNone | LDelete, LDelete | LUnresolved, LUnresolved => true
  | LItem x, LItem y => conv_eqb x y
  | _, _ => false
  end.

Definition call_eqb (a b : call) : bool :=
  match a, b with
  | CNone, CNone => true
  | CAdvance v u, CAdvance v' u' => (v =? v') && (u =? u')%Z
  | CHide v u, CHide v' u' => (v =? v') && (u =? u')%Z
  | CActivate x u, CActivate x' u' => (x =? x')%Z && (u =? u')%Z
  | _, _ => false
  end.

Definition obs_eqb (a b : obs) : bool :=
  (b_err a =? b_err b) && call_eqb (b_call a) (b_call b)
  && option_eqb mrow_eqb (b_row a) (b_row b)
  && listing_eqb (b_list a) (b_list b) && listing_eqb (b_retry a) (b_retry b).

(* ---- case-file interface ------------------------------------------------------------------ *)

Record c34_case := C34Case { k_row : option mrow; k_steps : list (op * obs) }.

Definition C34_mismatch (k : c34_case) : bool :=
  negb (list_eqb obs_eqb (run (k_row k) (map fst (k_steps k))) (map snd (k_steps k))).

(* ---- the property on implementation observations alone --------------------------------------
   Specification vocabulary, written independently of the functions above:
   [N.sub] is truncated subtraction, [N.pred 0 = 0]. *)

(* the user's effective read point *)
Definition spec_floor (row : mrow) (hd : head) : N :=
  N.max (N.pred (r_join row)) (N.max (r_deleted row) (h_ret hd)).
Definition spec_effective_read (row : mrow) (hd : head) : N :=
  N.max (spec_floor row hd) (N.max (r_read row) (h_own hd)).

(* an item reported for [row] under [hd] is exact *)
Definition item_ok (row : mrow) (hd : head) (c : conv) : bool :=
  (* unread = committed seqs in (effective read, last], never "negative" *)
  (c_unread c =? h_last hd - spec_effective_read row hd)
  && (c_unread c <=? h_last hd)
  (* the last message shown is the head's message, at or after the join, after
     the delete boundary and after the retention boundary *)
  && match c_last c with
     | None => true
     | Some s => option_eqb N.eqb (h_msg hd) (Some s)
                 && (r_join row <=? s) && (r_deleted row <? s) && (h_ret hd <? s)
     end
  (* a row with nothing visible is listed only when explicitly activated *)
  && (((r_join row <=? h_last hd) && (r_deleted row <? h_last hd)) || (0 <? r_activated row)%Z)
  (* the cursors reported are the stored ones *)
  && (c_join c =? r_join row) && (c_read c =? r_read row) && (c_deleted c =? r_deleted row)
  && (c_active c =? r_activated row)%Z && (c_updated c =? r_updated row)%Z.

(* a listing of the stored row [st]: items only for live rows and usable heads *)
Definition listing_ok (st : option mrow) (hd : head) (l : listing) : bool :=
  match l with
  | LItem c => match st with
               | Some row => negb (r_tomb row) && item_ok row hd c
               | None => false
               end
  | _ => true
  end.

Definition unread_of (l : listing) : option N :=
  match l with LItem c => Some (c_unread c) | _ => None end.

(* what an accepted command guarantees for the listing taken right after it
   under the same head *)
Definition post_ok (k : opk) (err : N) (l : listing) : bool :=
  if negb (err =? 0) then true
  else match k, l with
       | OClear, LItem c => c_unread c =? 0
       | OSet n, LItem c => (Z.of_N (c_unread c) <=? n)%Z
       | ODelete, LItem c => (c_unread c =? 0) && match c_last c with None => true | Some _ => false end
       | _, _ => true
       end.

(* cursors never move backwards, the join point is never changed, rows are
   neither created nor removed by these commands *)
Definition transition_ok (before after : option mrow) : bool :=
  match before, after with
  | None, None => true
  | Some b, Some a => (r_read b <=? r_read a) && (r_deleted b <=? r_deleted a)
                      && (r_join a =? r_join b) && Bool.eqb (r_tomb a) (r_tomb b)
  | _, _ => false
  end.

Definition step_ok (before : option mrow) (o : op) (b : obs) : bool :=
  match o_k o with
  | OPure r =>
      transition_ok before (b_row b)
      && listing_ok (Some (MRow (r_join r) (r_read r) (r_deleted r) (r_activated r) false (r_updated r)))
                    (o_head o) (b_list b)
  | k =>
      transition_ok before (b_row b)
      && listing_ok (b_row b) (o_head o) (b_list b)
      && listing_ok (b_row b) (o_head o) (b_retry b)
      && post_ok k (b_err b) (b_list b) && post_ok k (b_err b) (b_retry b)
  end.

Fixpoint steps_ok (before : option mrow) (steps : list (op * obs)) : bool :=
  match steps with
  | [] => true
  | (o, b) :: rest => step_ok before o b && steps_ok (b_row b) rest
  end.

Definition C34_monitor (k : c34_case) : N :=
  if steps_ok (k_row k) (k_steps k) then 0 else 1.
