(* Model/ClusterCodec_C27.v — the C27 case record, the correspondence test
   [C27_mismatch] (model vs implementation) and the property monitor
   [C27_monitor] (implementation observations only). *)
From WK Require Import Base.Base Base.Bytes Gen.Consts_C27.
From WK Require Export Model.ClusterCodecBase Model.ClusterCodec_Replication.
Open Scope N_scope.

(* long byte strings arrive in chunks: (hxc "6869..." (hxc "..." [])) *)
Definition hxc (s : string) (rest : bytes) : bytes := hx s ++ rest.

(* what the harness hands over per codec: the generated value ([v], value mode
   only) and what the implementation's Decode returned on the case's bytes
   ([res]; None = an error was returned) *)
Inductive c27_payload :=
| PReplBatch (vbits : list bool) (v : option exchange_batch) (res : option exchange_batch)
| PReplResult (v : option exchange_batch_result) (res : option exchange_batch_result).

Record c27_case := C27Case {
  c_mode : N;              (* 0 value (bytes = Encode v), 1 strict prefix of an encoding,
                              2 mutated encoding, 3 arbitrary bytes *)
  c_data : bytes;          (* the bytes handed to Decode *)
  c_enc_ok : bool;         (* mode 0: Encode returned no error *)
  c_payload : c27_payload;
  c_res_same : bool;       (* mode 0: Decode returned a value reflect.DeepEqual to the generated
                              one; the payload's [res] is then left out (None) *)
  c_trunc_ok : list N;     (* mode 0: lengths of the strict prefixes Decode accepted *)
  c_alloc : N;             (* bytes allocated by Decode (c_data) *)
  c_alloc_trunc : N        (* mode 0: largest allocation among the prefix decodes *)
}.

(* request.Valid() by position, from the bits the harness observed *)
Definition valid_of (bits : list bool) : nat -> exchange_item -> bool :=
  fun i _ => nth i bits false.

Definition res_eqb {A} (f : fmt A) : option A -> option A -> bool := option_eqb (veqb f).
Definition is_none {A} (o : option A) : bool := match o with None => true | Some _ => false end.

(* ---- correspondence: the model's Encode / Decode against the implementation's --------- *)

Definition mismatch_codec {A} (f : fmt A) (encode_m : A -> option bytes) (decode_m : bytes -> option A)
           (c : c27_case) (v res : option A) : bool :=
  match c_mode c, v with
  | 0, Some x =>
    if c_enc_ok c
    then negb (option_eqb bytes_eqb (encode_m x) (Some (c_data c)))
         || negb (res_eqb f (decode_m (c_data c)) res)
    else negb (is_none (encode_m x))
  | 0, None => true                         (* value mode without a value: malformed case *)
  | _, _ => negb (res_eqb f (decode_m (c_data c)) res)
  end.

(* what Decode returned: the payload's [res], or the generated value when the harness left it out *)
Definition eff_res {A} (c : c27_case) (v res : option A) : option A :=
  if c_res_same c then v else res.

Definition C27_mismatch (c : c27_case) : bool :=
  match c_payload c with
  | PReplBatch bits v res =>
    let valid := valid_of bits in
    mismatch_codec (exchangeBatch valid) (EncodeExchangeBatch valid) (DecodeExchangeBatch valid) c v (eff_res c v res)
  | PReplResult v res =>
    mismatch_codec exchangeBatchResult EncodeExchangeBatchResult DecodeExchangeBatchResult c v (eff_res c v res)
  end.

(* ---- the property on the implementation's observations ------------------------------------
   For a self-delimiting codec [f] with encoder domain [wf f]:
   (round trip)   mode 0, Encode accepted v and v is in the declared bounds:
                  Decode (Encode v) = v;
   (truncation)   mode 0: no strict prefix was accepted; mode 1: Decode returned an error;
   (allocation)   every mode: the bytes allocated by Decode stay under the ceiling
                  base + per_byte * |input| that the declared bounds permit. *)

Definition alloc_under (base per_byte : N) (c : c27_case) : bool :=
  (c_alloc c <=? base + per_byte * blen (c_data c))
  && (c_alloc_trunc c <=? base + per_byte * blen (c_data c)).

Definition monitor_codec {A} (f : fmt A) (in_bounds : A -> bool) (base per_byte : N)
           (c : c27_case) (v res : option A) : N :=
  if negb (alloc_under base per_byte c) then 1
  else match c_mode c with
       | 0 =>
         match v with
         | Some x =>
           if c_enc_ok c then
             if in_bounds x && negb (res_eqb f res (Some x)) then 1
             else if negb (match c_trunc_ok c with [] => true | _ => false end) then 1
             else 0
           else 0
         | None => 1
         end
       | 1 => if is_none res then 0 else 1
       | _ => 0
       end.

(* frames above MaxExchangeBatchBytes are outside the declared bounds *)
Definition in_frame {A} (f : fmt A) (x : A) : bool :=
  wf f x && (blen (encode f x) <=? MaxExchangeBatchBytes).

Definition C27_monitor (c : c27_case) : N :=
  match c_payload c with
  | PReplBatch bits v res =>
    let f := exchangeBatch (valid_of bits) in
    monitor_codec f (in_frame f) ReplAllocBase ReplAllocPerByte c v (eff_res c v res)
  | PReplResult v res =>
    monitor_codec exchangeBatchResult (in_frame exchangeBatchResult) ReplAllocBase ReplAllocPerByte c v (eff_res c v res)
  end.
