(* Model/ClusterCodec_C27.v — the C27 case record, the correspondence test
   [C27_mismatch] (model vs implementation) and the property monitor
   [C27_monitor] (implementation observations only). *)
From WK Require Import Base.Base Base.Bytes Gen.Consts_C27.
From WK Require Export Model.ClusterCodecBase Model.ClusterCodec_Replication Model.ClusterCodec_Propose
  Model.ClusterCodec_Channels Model.ClusterCodec_SlotFSM.
Open Scope N_scope.

(* long byte strings arrive in chunks: (hxc "6869..." (hxc "..." [])) *)
Definition hxc (s : string) (rest : bytes) : bytes := hx s ++ rest.
(* ... and runs of zero bytes by length: (hz 96 rest) *)
Definition hz (n : N) (rest : bytes) : bytes := repeat 0 (N.to_nat n) ++ rest.

(* what the harness hands over per codec: the generated value ([v], value mode
   only) and what the implementation's Decode returned on the case's bytes
   ([res]; None = an error was returned) *)
Inductive c27_payload :=
| PReplBatch (vbits : list bool) (v : option exchange_batch) (res : option exchange_batch)
| PReplResult (v : option exchange_batch_result) (res : option exchange_batch_result)
| PProposePayload (v : option (N * bytes)) (res : option (N * bytes))
| PForward (v : option forward_request) (res : option forward_request)
| PNetHeader (want_version want_kind : N) (v : option bytes) (res : option bytes)
(* pkg/cluster/channels: (frame version, body) *)
| PChPull (v res : option (N * pull_request))
| PChPullBatch (v res : option (N * list pull_request))
| PChAck (v res : option (N * ack_request))
| PChPullHint (v res : option (N * pull_hint_request))
| PChPullHintBatch (v res : option (N * list pull_hint_request))
| PChNotify (v res : option (N * notify_request))
| PChAppend (v res : option (N * append_request))
| PChAppendBatch (v res : option (N * append_batch_request))
| PChLastVisible (v res : option (N * last_visible_request))
| PChConversationHeads (v res : option (N * conversation_heads_request))
| PChCommittedReads (v res : option (N * option (list committed_read_request)))
| PChPullResponse (v res : option (N * pull_response))
| PChAppendResponse (v res : option (N * append_result))
| PChLastVisibleResponse (v res : option (N * last_visible_response))
(* pkg/slot/fsm: a modelled command; the encoding of an unmodelled command type *)
| PFsm (v res : option fsm_command)
| PFsmOther (res : option fsm_command)
(* codecs without a model: the harness compared Decode (Encode v) with v itself *)
| POpaque (id : N) (dec_ok rt_same : bool).

Record c27_case := C27Case {
  c_mode : N;              (* 0 value (bytes = Encode v), 1 strict prefix of an encoding,
                              2 mutated encoding, 3 arbitrary bytes *)
  c_data : bytes;          (* the bytes handed to Decode *)
  c_enc_ok : bool;         (* mode 0: Encode returned no error *)
  c_payload : c27_payload;
  c_res_same : bool;       (* mode 0: Decode returned a value reflect.DeepEqual to the generated
                              one; the payload's [res] is then left out (None) *)
  c_trunc_ok : list N;     (* mode 0: lengths of the strict prefixes Decode accepted *)
  c_alloc : N;             (* bytes allocated by Decode (c_data) *)
  c_alloc_trunc : N;       (* mode 0: largest allocation among the prefix decodes *)
  c_alloc_inflate : N      (* mode 0: count-inflation sweep — a uvarint of 10^6 / 2^62 written over each
                              position of the encoding in turn; largest per-decode allocation (average
                              over groups of 8 decodes) *)
}.

(* request.Valid() by position, from the bits the harness observed *)
Definition valid_of (bits : list bool) : nat -> exchange_item -> bool :=
  fun i _ => nth i bits false.

Definition res_eqb {A} (f : fmt A) : option A -> option A -> bool := option_eqb (veqb f).
Definition pair_eqb (a b : N * bytes) : bool := (fst a =? fst b) && bytes_eqb (snd a) (snd b).
Definition is_none {A} (o : option A) : bool := match o with None => true | Some _ => false end.

(* ---- correspondence: the model's Encode / Decode against the implementation's --------- *)

Definition mismatch_eq {A} (eqb : A -> A -> bool) (encode_m : A -> option bytes) (decode_m : bytes -> option A)
           (c : c27_case) (v res : option A) : bool :=
  match c_mode c, v with
  | 0, Some x =>
    if c_enc_ok c
    then negb (option_eqb bytes_eqb (encode_m x) (Some (c_data c)))
         || negb (option_eqb eqb (decode_m (c_data c)) res)
    else negb (is_none (encode_m x))
  | 0, None => true                         (* value mode without a value: malformed case *)
  | _, _ => negb (option_eqb eqb (decode_m (c_data c)) res)
  end.
Definition mismatch_codec {A} (f : fmt A) := mismatch_eq (veqb f).

(* what Decode returned: the payload's [res], or the generated value when the harness left it out *)
Definition eff_res {A} (c : c27_case) (v res : option A) : option A :=
  if c_res_same c then v else res.

(* the model knows the decoder TABLE for every command type but the field decoders of
   four: where it answers [CmdOther t] the implementation may also find the fields invalid *)
Definition fsm_agree (m impl : option fsm_command) : bool :=
  match m with
  | Some (CmdOther t) =>
    match impl with None => true | Some (CmdOther t') => t =? t' | Some _ => false end
  | _ => option_eqb command_eqb m impl
  end.

Definition mismatch_frame {A} (f : fmt (N * A)) := mismatch_codec f (encode_frame f) (decode_frame f).

Definition C27_mismatch (c : c27_case) : bool :=
  match c_payload c with
  | PReplBatch bits v res =>
    let valid := valid_of bits in
    mismatch_codec (exchangeBatch valid) (EncodeExchangeBatch valid) (DecodeExchangeBatch valid) c v (eff_res c v res)
  | PReplResult v res =>
    mismatch_codec exchangeBatchResult EncodeExchangeBatchResult DecodeExchangeBatchResult c v (eff_res c v res)
  | PProposePayload v res =>
    mismatch_eq pair_eqb (fun x => Some (EncodePayload (fst x) (snd x))) DecodePayload c v (eff_res c v res)
  | PForward v res =>
    mismatch_eq forward_eqb EncodeForwardRequest DecodeForwardRequest c v (eff_res c v res)
  | PNetHeader wv wk v res =>
    mismatch_eq bytes_eqb (fun x => Some (PutHeader [] wv wk ++ x)) (fun d => CheckHeader d wv wk) c v (eff_res c v res)
  | PChPull v res => mismatch_frame f_pull c v (eff_res c v res)
  | PChPullBatch v res => mismatch_frame f_pull_batch c v (eff_res c v res)
  | PChAck v res => mismatch_frame f_ack c v (eff_res c v res)
  | PChPullHint v res => mismatch_frame f_pull_hint c v (eff_res c v res)
  | PChPullHintBatch v res => mismatch_frame f_pull_hint_batch c v (eff_res c v res)
  | PChNotify v res => mismatch_frame f_notify c v (eff_res c v res)
  | PChAppend v res => mismatch_frame f_append c v (eff_res c v res)
  | PChAppendBatch v res => mismatch_frame f_append_batch c v (eff_res c v res)
  | PChLastVisible v res => mismatch_frame f_last_visible c v (eff_res c v res)
  | PChConversationHeads v res => mismatch_frame f_conversation_heads c v (eff_res c v res)
  | PChCommittedReads v res => mismatch_frame f_committed_reads c v (eff_res c v res)
  | PChPullResponse v res => mismatch_frame f_pull_response c v (eff_res c v res)
  | PChAppendResponse v res => mismatch_frame f_append_response c v (eff_res c v res)
  | PChLastVisibleResponse v res => mismatch_frame f_last_visible_response c v (eff_res c v res)
  | PFsm v res =>
    match c_mode c, v with
    | 0, Some x => negb (option_eqb bytes_eqb (encodeCommand x) (Some (c_data c)))
                   || negb (fsm_agree (decodeCommand (c_data c)) (eff_res c v res))
    | 0, None => true
    | _, _ => negb (fsm_agree (decodeCommand (c_data c)) res)
    end
  | PFsmOther res => negb (fsm_agree (decodeCommand (c_data c)) res)
  | POpaque _ _ _ => false
  end.

(* ---- the property on the implementation's observations ------------------------------------
   For a self-delimiting codec [f] with encoder domain [wf f]:
   (round trip)   mode 0, Encode accepted v and v is in the declared bounds:
                  Decode (Encode v) = v;
   (truncation)   mode 0: no strict prefix was accepted; mode 1: Decode returned an error;
   (allocation)   every mode: the bytes allocated by Decode stay under the ceiling
                  base + per_byte * |input| that the declared bounds permit — also when a
                  huge count is written over any position of an encoding (inflation sweep);
   (bounds)       every mode: whatever Decode returned is within the declared bounds. *)

Definition alloc_under (base per_byte : N) (c : c27_case) : bool :=
  (c_alloc c <=? base + per_byte * blen (c_data c))
  && (c_alloc_trunc c <=? base + per_byte * blen (c_data c))
  && (c_alloc_inflate c <=? base + per_byte * (blen (c_data c) + 10)).

(* [hdr]: how many leading bytes the codec can miss.  A self-delimiting codec
   (a length or a trailing-bytes check covers the whole input) has hdr = None:
   EVERY strict prefix must be rejected.  An envelope that hands "the rest of
   the input" on (propose payload, net header) has hdr = Some h: prefixes
   shorter than h must be rejected, longer ones are valid envelopes of a
   shorter rest and cannot be told from truncations by any decoder. *)
Definition prefix_must_fail (hdr : option N) (k : N) : bool :=
  match hdr with None => true | Some h => k <? h end.

(* [res_ok]: the declared bounds of the codec, asked of whatever Decode returned on
   any input (a decoder that lets a 257-element slice through allocated beyond them) *)
Definition monitor_eq {A} (eqb : A -> A -> bool) (in_bounds res_ok : A -> bool) (hdr : option N)
           (base per_byte : N) (c : c27_case) (v res : option A) : N :=
  if negb (alloc_under base per_byte c) then 1
  else if negb (match res with Some y => res_ok y | None => true end) then 1
  else match c_mode c with
       | 0 =>
         match v with
         | Some x =>
           if c_enc_ok c then
             if in_bounds x && negb (option_eqb eqb res (Some x)) then 1
             else if existsb (prefix_must_fail hdr) (c_trunc_ok c) then 1
             else 0
           else 0
         | None => 1
         end
       | 1 => if prefix_must_fail hdr (blen (c_data c)) && negb (is_none res) then 1 else 0
       | _ => 0
       end.
Definition monitor_codec {A} (f : fmt A) (in_bounds : A -> bool) := monitor_eq (veqb f) in_bounds (wf f) None.
Definition any {A} (x : A) : bool := true.

(* ---- channels codec: struct fields the wire does not carry ------------------------------------
   KNOWN FINDING C27-K1 (code 2): Message.SyncOnce, Record.SyncOnce and
   Meta.RouteGeneration are not written by appendMessage / appendRecord /
   appendMeta, so a value with one of them set does not come back.  The
   signature is exact: the value is outside the codec's domain ONLY because
   of those fields (it is in the domain once they are zeroed, [clear]) and
   Decode returned the value with exactly those fields zeroed. *)
Definition clear_message (m : cmessage) : cmessage :=
  CMessage (cm_id m) (cm_seq m) (cm_channel_id m) (cm_channel_type m) (cm_setting m) (cm_from_uid m)
           (cm_client_msg_no m) (cm_ts m) (cm_trace_id m) (cm_channel_key m) false (cm_payload m).
Definition clear_record (r : crecord) : crecord :=
  CRecord (cr_id r) (cr_index r) (cr_epoch r) (cr_setting r) (cr_from_uid r) (cr_client_msg_no r)
          (cr_ts r) false (cr_payload r) (cr_size r).
Definition clear_meta (m : cmeta) : cmeta :=
  CMeta (me_key m) (me_id m) (me_epoch m) (me_leader_epoch m) 0 (me_leader m) (me_replicas m) (me_isr m)
        (me_min_isr m) (me_lease_until m) (me_retention_through_seq m) (me_fence_token m) (me_fence_version m)
        (me_fence_reason m) (me_fence_until m) (me_status m).
Definition omap {A B} (f : A -> B) (o : option A) : option B :=
  match o with Some x => Some (f x) | None => None end.
Definition clear_append (q : append_request) : append_request :=
  AppendRequest (ap_id q) (clear_message (ap_message q)) (ap_commit_mode q)
                (ap_expected_channel_epoch q) (ap_expected_leader_epoch q).
Definition clear_append_batch (q : append_batch_request) : append_batch_request :=
  AppendBatchRequest (ab_id q) (omap (map clear_message) (ab_messages q)) (ab_trace_id q) (ab_channel_key q)
                     (ab_attempt q) (ab_commit_mode q) (ab_expected_channel_epoch q) (ab_expected_leader_epoch q)
                     (ab_omit_result_payload q) (ab_server_allocated q).
Definition clear_pull_response (p : pull_response) : pull_response :=
  PullResponse (ps_key p) (ps_epoch p) (ps_leader_epoch p) (ps_leader_hw p) (ps_leader_leo p)
               (ps_activity_version p) (ps_next_pull_after p) (ps_control p) (omap clear_meta (ps_meta p))
               (omap (map clear_record) (ps_records p)).
Definition clear_append_result (q : append_result) : append_result :=
  AppendResult (ar_id q) (ar_seq q) (clear_message (ar_message q)).
Definition clear_last_visible_response (q : last_visible_response) : last_visible_response :=
  LastVisibleResponse (omap clear_message (lr_message q)) (lr_last_committed_seq q)
                      (lr_retention_through_seq q) (lr_current_user_last_send_seq q).
Definition on_body {A} (f : A -> A) (vx : N * A) : N * A := (fst vx, f (snd vx)).

Definition no_prefix_accepted (c : c27_case) : bool :=
  match c_trunc_ok c with [] => true | _ => false end.

Definition monitor_lossy {A} (f : fmt A) (clear : A -> A) (base per_byte : N)
           (c : c27_case) (v res : option A) : N :=
  if negb (alloc_under base per_byte c) then 1
  else match c_mode c with
       | 0 =>
         match v with
         | Some x =>
           if c_enc_ok c then
             if wf f x then
               (if res_eqb f res (Some x) && no_prefix_accepted c then 0 else 1)
             else if wf f (clear x) then
               (if res_eqb f res (Some (clear x)) then 2 else 1)
             else if no_prefix_accepted c then 0 else 1
           else 0
         | None => 1
         end
       | 1 => if is_none res then 0 else 1
       | _ => 0
       end.
Definition monitor_frame {A} (f : fmt (N * A)) (clear : A -> A) :=
  monitor_lossy f (on_body clear) ChannelsAllocBase ChannelsAllocPerByte.
Definition same {A} (x : A) : A := x.

(* TLV frames: a prefix that ends at a field boundary is a frame again (absent
   fields keep their zero value); any other prefix must be rejected *)
Definition prefix_ok_tlv (data : bytes) (k : N) : bool := tlv_complete (firstn (N.to_nat k) data).

Definition monitor_fsm (c : c27_case) (v res : option fsm_command) (need_value : bool) : N :=
  if negb (alloc_under FsmAllocBase FsmAllocPerByte c) then 1
  else match c_mode c with
       | 0 =>
         if negb (forallb (prefix_ok_tlv (c_data c)) (c_trunc_ok c)) then 1
         else if need_value then
           match v with
           | Some x => if command_wf x && negb (option_eqb command_eqb res (Some x)) then 1 else 0
           | None => 1
           end
         else if is_none res then 1 else 0          (* what the real encoder wrote must decode *)
       | 1 => if negb (tlv_complete (c_data c)) && negb (is_none res) then 1 else 0
       | _ => 0
       end.

(* an unmodelled codec: the harness's own comparison, truncations and allocation *)
Definition monitor_opaque (c : c27_case) (id : N) (dec_ok rt_same : bool) : N :=
  if negb (if id <? 100 then alloc_under ChannelsAllocBase ChannelsAllocPerByte c
           else alloc_under JsonAllocBase JsonAllocPerByte c) then 1
  else match c_mode c with
       | 0 => if c_enc_ok c then (if rt_same && no_prefix_accepted c then 0 else 1) else 0
       | 1 => if dec_ok then 1 else 0
       | _ => 0
       end.

(* frames above MaxExchangeBatchBytes are outside the declared bounds *)
Definition in_frame {A} (f : fmt A) (x : A) : bool :=
  wf f x && (blen (encode f x) <=? MaxExchangeBatchBytes).

Definition C27_monitor (c : c27_case) : N :=
  match c_payload c with
  | PReplBatch bits v res =>
    let f := exchangeBatch (valid_of bits) in
    monitor_codec f (in_frame f) ReplAllocBase ReplAllocPerByte c v (eff_res c v res)
  | PReplResult v res =>
    monitor_codec exchangeBatchResult (in_frame exchangeBatchResult) ReplAllocBase ReplAllocPerByte c v (eff_res c v res)
  | PProposePayload v res =>
    monitor_eq pair_eqb (fun x => (fst x <? 65536) && all_bytes (snd x)) any (Some 3)
               EnvelopeAllocBase EnvelopeAllocPerByte c v (eff_res c v res)
  | PForward v res =>
    monitor_eq forward_eqb forward_wf any None EnvelopeAllocBase EnvelopeAllocPerByte c v (eff_res c v res)
  | PNetHeader wv wk v res =>
    monitor_eq bytes_eqb (fun x => (wv <? 256) && (wk <? 256) && all_bytes x) any (Some 2)
               EnvelopeAllocBase EnvelopeAllocPerByte c v (eff_res c v res)
  | PChPull v res => monitor_frame f_pull same c v (eff_res c v res)
  | PChPullBatch v res => monitor_frame f_pull_batch same c v (eff_res c v res)
  | PChAck v res => monitor_frame f_ack same c v (eff_res c v res)
  | PChPullHint v res => monitor_frame f_pull_hint same c v (eff_res c v res)
  | PChPullHintBatch v res => monitor_frame f_pull_hint_batch same c v (eff_res c v res)
  | PChNotify v res => monitor_frame f_notify same c v (eff_res c v res)
  | PChAppend v res => monitor_frame f_append clear_append c v (eff_res c v res)
  | PChAppendBatch v res => monitor_frame f_append_batch clear_append_batch c v (eff_res c v res)
  | PChLastVisible v res => monitor_frame f_last_visible same c v (eff_res c v res)
  | PChConversationHeads v res => monitor_frame f_conversation_heads same c v (eff_res c v res)
  | PChCommittedReads v res => monitor_frame f_committed_reads same c v (eff_res c v res)
  | PChPullResponse v res => monitor_frame f_pull_response clear_pull_response c v (eff_res c v res)
  | PChAppendResponse v res => monitor_frame f_append_response clear_append_result c v (eff_res c v res)
  | PChLastVisibleResponse v res => monitor_frame f_last_visible_response clear_last_visible_response c v (eff_res c v res)
  | PFsm v res => monitor_fsm c v (eff_res c v res) true
  | PFsmOther res => monitor_fsm c None res false
  | POpaque id dec_ok rt_same => monitor_opaque c id dec_ok rt_same
  end.
