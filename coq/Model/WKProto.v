(* Model/WKProto.v — the WKProto client codec (pkg/protocol/codec, pkg/protocol/frame)
   and the gateway's WKProto adapter (pkg/gateway/protocol/wkproto/adapter.go).

   One definition per Go function, same name; every version gate, error branch,
   panic and quirk of the code is transcribed.  Conventions:
   - a Go string / []byte is [bytes] (list N); int64 / int32 fields carry their
     two's-complement bit pattern as an N (uint64 / uint32) — the Go conversions
     int64<->uint64 are bijections and the codec only moves the eight bytes;
   - the Encoder is a value of [wr]: bytes written so far, or the error return,
     or the panic of WriteString/WriteBinary on an over-long string;
   - the Decoder is the list of bytes not yet read ([d.p[d.offset:]]); every
     reader returns [Some (value, rest)] or [None] (= the Go error return);
   - limits, enum values, version thresholds and field widths come from
     Gen/Consts_C22.v (regenerated from the compiled code on every check).
   Definitions only; proofs are in Proof/WKProto*.v. *)
From WK Require Import Base.Base Base.Bytes.
From WK Require Import Gen.Consts_C22.
Open Scope N_scope.

Definition blen (b : bytes) : N := N.of_nat (length b).

(* [rpt k pat] = pat repeated k times; used by generated case files for long
   periodic byte strings (Coq string literals are slow and shallow) *)
Definition rpt (k : N) (pat : bytes) : bytes :=
  N.iter k (fun acc => pat ++ acc) [].

(* ---- frames (pkg/protocol/frame) ---------------------------------------- *)

(* Framer flag bits: NoPersist RedDot SyncOnce DUP HasServerVersion *)
Record flags := Flags {
  f_nopersist : bool; f_reddot : bool; f_synconce : bool; f_dup : bool; f_hsv : bool }.

(* constructor arguments: flags, then the numeric fields, then the string fields
   (the order the harness prints them in; see harness/export/wkproto_frames_verif.go) *)
Inductive frame :=
| FConnect (fl : flags) (version deviceFlag clientTimestamp : N) (clientKey deviceID uid token : bytes)
| FConnack (fl : flags) (serverVersion timeDiff reasonCode nodeId : N) (serverKey salt : bytes)
| FSend (fl : flags) (setting expire clientSeq channelType : N)
        (msgKey clientMsgNo streamNo channelID topic payload : bytes)
| FSendack (fl : flags) (messageID messageSeq clientSeq reasonCode : N) (clientMsgNo : bytes)
| FRecv (fl : flags) (setting expire messageID messageSeq streamId streamFlag timestamp channelType clientSeq : N)
        (msgKey clientMsgNo streamNo channelID topic fromUID payload : bytes)
| FRecvack (fl : flags) (messageID messageSeq : N)
| FPing (fl : flags)
| FPong (fl : flags)
| FDisconnect (fl : flags) (reasonCode : N) (reason : bytes)
| FSub (fl : flags) (setting channelType action : N) (subNo channelID param : bytes)
| FSuback (fl : flags) (channelType action reasonCode : N) (subNo channelID : bytes)
| FEvent (fl : flags) (timestamp : N) (id type data : bytes).

(* the packet's own GetFrameType method (it shadows Framer.FrameType) *)
Definition frame_type (f : frame) : N :=
  match f with
  | FConnect _ _ _ _ _ _ _ _ => CONNECT
  | FConnack _ _ _ _ _ _ _ => CONNACK
  | FSend _ _ _ _ _ _ _ _ _ _ _ => SEND
  | FSendack _ _ _ _ _ _ => SENDACK
  | FRecv _ _ _ _ _ _ _ _ _ _ _ _ _ _ _ _ _ => RECV
  | FRecvack _ _ _ => RECVACK
  | FPing _ => PING
  | FPong _ => PONG
  | FDisconnect _ _ _ => DISCONNECT
  | FSub _ _ _ _ _ _ _ => SUB
  | FSuback _ _ _ _ _ _ => SUBACK
  | FEvent _ _ _ _ _ => EVENT
  end.

Definition frame_flags (f : frame) : flags :=
  match f with
  | FConnect fl _ _ _ _ _ _ _ | FConnack fl _ _ _ _ _ _ | FSend fl _ _ _ _ _ _ _ _ _ _
  | FSendack fl _ _ _ _ _ | FRecv fl _ _ _ _ _ _ _ _ _ _ _ _ _ _ _ _ | FRecvack fl _ _
  | FPing fl | FPong fl | FDisconnect fl _ _ | FSub fl _ _ _ _ _ _ | FSuback fl _ _ _ _ _
  | FEvent fl _ _ _ _ => fl
  end.

(* Setting.IsSet *)
Definition IsSet (s v : N) : bool := negb (N.land s v =? 0).

(* the stream fields are on the wire for versions 2..4 when the stream bit is set *)
Definition has_stream (version setting : N) : bool :=
  (version <? 5) && (2 <=? version) && IsSet setting SettingStream.

(* ---- Encoder (encoder.go) ------------------------------------------------ *)

Inductive wr := W (bs : bytes) | WErr | WPanic.

(* sequential composition: the first failure wins *)
Definition wseq (a b : wr) : wr :=
  match a with
  | W x => match b with W y => W (x ++ y) | e => e end
  | e => e
  end.
Infix "+>" := wseq (at level 60, right associativity).

Definition WriteUint8 (x : N) : wr := W (put_u8 x).
Definition WriteInt16 (x : N) : wr := W (put_u16 x).
Definition WriteUint32 (x : N) : wr := W (put_u32 x).
Definition WriteUint64 (x : N) : wr := W (put_u64 x).   (* also WriteInt64 on the bit pattern *)
Definition WriteBytes (b : bytes) : wr := W b.

(* WriteString / WriteBinary: u16 length, then the bytes; panics above math.MaxInt16 *)
Definition WriteString (s : bytes) : wr :=
  if blen s =? 0 then WriteInt16 0
  else if MaxInt16 <? blen s then WPanic
  else WriteInt16 (blen s) +> W s.

(* message_seq.go *)
Definition encodeMessageSeq (version value : N) : wr :=
  if version <=? LegacyMessageSeqVersion
  then (if u32max <? value then WErr else WriteUint32 value)
  else WriteUint64 value.

Definition messageSeqSize (version : N) : N :=
  if version <=? LegacyMessageSeqVersion then MessageSeqLegacyByteSize else MessageSeqU64ByteSize.

(* ---- per-type body encoders and size precomputation ------------------------ *)

Definition encodeConnect (version deviceFlag clientTimestamp : N) (clientKey deviceID uid token : bytes) : wr :=
  WriteUint8 version +> WriteUint8 deviceFlag +> WriteString deviceID +> WriteString uid +>
  WriteString token +> WriteUint64 clientTimestamp +> WriteString clientKey.

Definition encodeConnectSize (clientKey deviceID uid token : bytes) : N :=
  VersionByteSize + DeviceFlagByteSize + (blen deviceID + StringFixLenByteSize)
  + (blen uid + StringFixLenByteSize) + (blen token + StringFixLenByteSize)
  + ClientTimestampByteSize + (blen clientKey + StringFixLenByteSize).

Definition encodeConnack (hsv : bool) (version serverVersion timeDiff reasonCode nodeId : N) (serverKey salt : bytes) : wr :=
  (if hsv then WriteUint8 serverVersion else W []) +> WriteUint64 timeDiff +> WriteUint8 reasonCode +>
  WriteString serverKey +> WriteString salt +> (if 4 <=? version then WriteUint64 nodeId else W []).

Definition encodeConnackSize (hsv : bool) (version : N) (serverKey salt : bytes) : N :=
  (if hsv then VersionByteSize else 0) + TimeDiffByteSize + ReasonCodeByteSize
  + (blen serverKey + StringFixLenByteSize) + (blen salt + StringFixLenByteSize)
  + (if 4 <=? version then NodeIdByteSize else 0).

Definition encodeSend (version setting expire clientSeq channelType : N)
           (msgKey clientMsgNo streamNo channelID topic payload : bytes) : wr :=
  WriteUint8 setting +> WriteUint32 (wrap32 clientSeq) +> WriteString clientMsgNo +>
  (if has_stream version setting then WriteString streamNo else W []) +>
  WriteString channelID +> WriteUint8 channelType +>
  (if 3 <=? version then WriteUint32 expire else W []) +>
  WriteString msgKey +>
  (if IsSet setting SettingTopic then WriteString topic else W []) +>
  WriteBytes payload.

Definition encodeSendSize (version setting : N) (msgKey clientMsgNo streamNo channelID topic payload : bytes) : N :=
  SettingByteSize + ClientSeqByteSize + (blen clientMsgNo + StringFixLenByteSize)
  + (if has_stream version setting then blen streamNo + StringFixLenByteSize else 0)
  + (blen channelID + StringFixLenByteSize) + ChannelTypeByteSize
  + (if 3 <=? version then ExpireByteSize else 0)
  + (blen msgKey + StringFixLenByteSize)
  + (if IsSet setting SettingTopic then blen topic + StringFixLenByteSize else 0)
  + blen payload.

Definition encodeSendack (version messageID messageSeq clientSeq reasonCode : N) (clientMsgNo : bytes) : wr :=
  WriteUint64 messageID +> WriteUint32 (wrap32 clientSeq) +> encodeMessageSeq version messageSeq +>
  WriteUint8 reasonCode +> (if blen clientMsgNo =? 0 then W [] else WriteString clientMsgNo).

Definition encodeSendackSize (version : N) (clientMsgNo : bytes) : N :=
  MessageIDByteSize + ClientSeqByteSize + messageSeqSize version + ReasonCodeByteSize
  + (if blen clientMsgNo =? 0 then 0 else blen clientMsgNo + StringFixLenByteSize).

Definition encodeRecv (version setting expire messageID messageSeq streamId streamFlag timestamp channelType : N)
           (msgKey clientMsgNo streamNo channelID topic fromUID payload : bytes) : wr :=
  WriteUint8 setting +> WriteString msgKey +> WriteString fromUID +> WriteString channelID +>
  WriteUint8 channelType +>
  (if 3 <=? version then WriteUint32 expire else W []) +>
  WriteString clientMsgNo +>
  (if has_stream version setting
   then WriteUint8 streamFlag +> WriteString streamNo +> WriteUint64 streamId else W []) +>
  WriteUint64 messageID +> encodeMessageSeq version messageSeq +> WriteUint32 timestamp +>
  (if IsSet setting SettingTopic then WriteString topic else W []) +>
  WriteBytes payload.

Definition encodeRecvSize (version setting : N) (msgKey clientMsgNo streamNo channelID topic fromUID payload : bytes) : N :=
  SettingByteSize + (blen msgKey + StringFixLenByteSize) + (blen fromUID + StringFixLenByteSize)
  + (blen channelID + StringFixLenByteSize) + ChannelTypeByteSize
  + (if 3 <=? version then ExpireByteSize else 0)
  + (blen clientMsgNo + StringFixLenByteSize)
  + (if has_stream version setting
     then StreamFlagByteSize + (blen streamNo + StringFixLenByteSize) + StreamIdByteSize else 0)
  + MessageIDByteSize + messageSeqSize version + TimestampByteSize
  + (if IsSet setting SettingTopic then blen topic + StringFixLenByteSize else 0)
  + blen payload.

Definition encodeRecvack (version messageID messageSeq : N) : wr :=
  WriteUint64 messageID +> encodeMessageSeq version messageSeq.
Definition encodeRecvackSize (version : N) : N := MessageIDByteSize + messageSeqSize version.

Definition encodeDisConnect (reasonCode : N) (reason : bytes) : wr :=
  WriteUint8 reasonCode +> WriteString reason.
Definition encodeDisConnectSize (reason : bytes) : N :=
  ReasonCodeByteSize + blen reason + StringFixLenByteSize.

Definition encodeSub (setting channelType action : N) (subNo channelID param : bytes) : wr :=
  WriteUint8 setting +> WriteString subNo +> WriteString channelID +> WriteUint8 channelType +>
  WriteUint8 action +> WriteString param.
Definition encodeSubSize (subNo channelID param : bytes) : N :=
  SettingByteSize + (blen subNo + StringFixLenByteSize) + (blen channelID + StringFixLenByteSize)
  + ChannelTypeByteSize + ActionByteSize + (blen param + StringFixLenByteSize).

Definition encodeSuback (channelType action reasonCode : N) (subNo channelID : bytes) : wr :=
  WriteString subNo +> WriteString channelID +> WriteUint8 channelType +> WriteUint8 action +>
  WriteUint8 reasonCode.
Definition encodeSubackSize (subNo channelID : bytes) : N :=
  (blen subNo + StringFixLenByteSize) + (blen channelID + StringFixLenByteSize)
  + ChannelTypeByteSize + ActionByteSize + ReasonCodeByteSize.

Definition encodeEvent (timestamp : N) (id type data : bytes) : wr :=
  WriteString id +> WriteString type +> WriteUint64 timestamp +> WriteBytes data.
Definition encodeEventSize (id type data : bytes) : N :=
  (blen id + StringFixLenByteSize) + (blen type + StringFixLenByteSize) + BigTimestampByteSize + blen data.

(* the switch of encodeFrameWithWriter: body bytes; PING/PONG have no body *)
Definition encodeBody (f : frame) (v : N) : wr :=
  match f with
  | FConnect _ ver dfl ts ck did uid tok => encodeConnect ver dfl ts ck did uid tok
  | FConnack fl sv td rc nid sk salt => encodeConnack (f_hsv fl) v sv td rc nid sk salt
  | FSend _ st ex cs ct mk cmn sn cid tp pl => encodeSend v st ex cs ct mk cmn sn cid tp pl
  | FSendack _ mid ms cs rc cmn => encodeSendack v mid ms cs rc cmn
  | FRecv _ st ex mid ms sid sfl ts ct _ mk cmn sn cid tp fu pl =>
      encodeRecv v st ex mid ms sid sfl ts ct mk cmn sn cid tp fu pl
  | FRecvack _ mid ms => encodeRecvack v mid ms
  | FPing _ | FPong _ => W []
  | FDisconnect _ rc rs => encodeDisConnect rc rs
  | FSub _ st ct ac sn cid pm => encodeSub st ct ac sn cid pm
  | FSuback _ ct ac rc sn cid => encodeSuback ct ac rc sn cid
  | FEvent _ ts id ty dt => encodeEvent ts id ty dt
  end.

(* encodedFrameBodySize: (size, ok) *)
Definition encodedFrameBodySize (f : frame) (v : N) : N * bool :=
  match f with
  | FConnect _ _ _ _ ck did uid tok => (encodeConnectSize ck did uid tok, true)
  | FConnack fl _ _ _ _ sk salt => (encodeConnackSize (f_hsv fl) v sk salt, true)
  | FSend _ st _ _ _ mk cmn sn cid tp pl =>
      if PayloadMaxSize <? blen pl then (0, false) else (encodeSendSize v st mk cmn sn cid tp pl, true)
  | FSendack _ _ _ _ _ cmn => (encodeSendackSize v cmn, true)
  | FRecv _ st _ _ _ _ _ _ _ _ mk cmn sn cid tp fu pl => (encodeRecvSize v st mk cmn sn cid tp fu pl, true)
  | FRecvack _ _ _ => (encodeRecvackSize v, true)
  | FPing _ | FPong _ => (0, false)
  | FDisconnect _ _ rs => (encodeDisConnectSize rs, true)
  | FSub _ _ _ _ sn cid pm => (encodeSubSize sn cid pm, true)
  | FSuback _ _ _ _ sn cid => (encodeSubackSize sn cid, true)
  | FEvent _ _ id ty dt => (encodeEventSize id ty dt, true)
  end.

(* ---- fixed header, remaining-length varint (common.go, protocol.go) -------- *)

Definition encodeBool (b : bool) : N := if b then 1 else 0.

Definition fix_header (ft : N) (fl : flags) : N :=
  let typeAndFlags :=
    if ft =? CONNACK then encodeBool (f_hsv fl)
    else encodeBool (f_dup fl) * 8 + encodeBool (f_synconce fl) * 4
         + encodeBool (f_reddot fl) * 2 + encodeBool (f_nopersist fl) in
  (ft * 16 + typeAndFlags) mod 256.
Definition ToFixHeaderUint8 (f : frame) : N := fix_header (frame_type f) (frame_flags f).

(* FramerFromUint8: (FrameType, flags) *)
Definition FramerFromUint8 (v : N) : N * flags :=
  let ft := v / 16 in
  (ft, Flags (N.odd v) (N.odd (v / 2)) (N.odd (v / 4)) (N.odd (v / 8))
             ((ft =? CONNACK) && N.odd v)).

(* encodeVariable2 on a uint32: at most five base-128 digits; nothing for 0 *)
Fixpoint encodeVariable_aux (fuel : nat) (size : N) : bytes :=
  match fuel with
  | O => []
  | S k =>
    if size =? 0 then []
    else let digit := size mod 128 in
         let size' := size / 128 in
         (if 0 <? size' then digit + 128 else digit) :: encodeVariable_aux k size'
  end.
Definition encodeVariable2 (size : N) : bytes := encodeVariable_aux 5 size.
Definition encodedVariableSize (size : N) : N := blen (encodeVariable2 size).

(* decodeLength: the loop runs while multiplier < 27, i.e. at most four digits;
   after four continuation bytes it falls out with offset = 4 and reports a
   length-of-length of 5 without having read a fifth byte. *)
Definition cont_bit (digit : N) : bool := (digit / 128) mod 2 =? 1.
Fixpoint decodeLength_aux (k : nat) (data : bytes) (mult off acc : N) : option (N * N) :=
  match k with
  | O => Some (acc, off + 1)
  | S k' =>
    match data with
    | [] => None                                   (* errDecodeLength *)
    | digit :: r =>
      let acc' := acc + (digit mod 128) * 2 ^ mult in     (* rLength |= uint32(digit&127) << multiplier *)
      if negb (cont_bit digit) then Some (acc', off + 1)     (* (digit & 128) == 0 *)
      else decodeLength_aux k' r (mult + 7) (off + 1) acc'
    end
  end.
Definition decodeLength (data : bytes) : option (N * N) := decodeLength_aux 4 data 0 0 0.

(* ---- EncodeFrame / encodedFrameSize ---------------------------------------- *)

Inductive enc_result := EncOk (bs : bytes) | EncErr | EncPanic.

Definition is_pingpong (f : frame) : bool := (frame_type f =? PING) || (frame_type f =? PONG).

Definition EncodeFrame (f : frame) (v : N) : enc_result :=
  let w :=
    if is_pingpong f then W [(frame_type f * 16) mod 256]
    else
      (* SEND: the payload limit is checked before anything is written *)
      (match f with
       | FSend _ _ _ _ _ _ _ _ _ _ pl => if PayloadMaxSize <? blen pl then WErr else W []
       | _ => W []
       end) +>
      W [ToFixHeaderUint8 f] +>
      W (encodeVariable2 (wrap32 (fst (encodedFrameBodySize f v)))) +>
      encodeBody f v in
  match w with W bs => EncOk bs | WErr => EncErr | WPanic => EncPanic end.

Definition encodedFrameSize (f : frame) (v : N) : N :=
  if is_pingpong f then 1
  else let '(bodySize, ok) := encodedFrameBodySize f v in
       if ok then 1 + encodedVariableSize (wrap32 bodySize) + bodySize else 0.

(* ---- Decoder (decoder.go) --------------------------------------------------- *)

Notation "'do' ( x , r ) <- e ; k" :=
  (match e with Some (x, r) => k | None => None end)
  (at level 200, x name, r name, e at level 100, k at level 200).

Definition int16_max : N := 32767.

Definition dUint8 (d : bytes) : option (N * bytes) :=
  match d with b :: r => Some (b, r) | [] => None end.
Definition dInt16 (d : bytes) : option (N * bytes) := get_be 2 d.    (* the uint16 bit pattern *)
Definition dUint32 (d : bytes) : option (N * bytes) := get_be 4 d.
Definition dUint64 (d : bytes) : option (N * bytes) := get_be 8 d.
(* Binary: int16 size, negative sizes are errors *)
Definition dBinary (d : bytes) : option (bytes * bytes) :=
  do (size, r) <- dInt16 d;
  if int16_max <? size then None else take (N.to_nat size) r.
Definition dString := dBinary.
Definition dBinaryAll (d : bytes) : option (bytes * bytes) := Some (d, []).

Definition decodeMessageSeq (d : bytes) (version : N) : option (N * bytes) :=
  if version <=? LegacyMessageSeqVersion then dUint32 d else dUint64 d.

Definition decodeConnect (fl : flags) (data : bytes) (v : N) : option frame :=
  do (version, d) <- dUint8 data;
  do (deviceFlag, d) <- dUint8 d;
  do (deviceID, d) <- dString d;
  do (uid, d) <- dString d;
  do (token, d) <- dString d;
  do (clientTimestamp, d) <- dUint64 d;
  do (clientKey, d) <- dString d;
  Some (FConnect fl version deviceFlag clientTimestamp clientKey deviceID uid token).

Definition decodeConnack (fl : flags) (data : bytes) (v : N) : option frame :=
  do (serverVersion, d) <- (if f_hsv fl then dUint8 data else Some (0, data));
  do (timeDiff, d) <- dUint64 d;
  do (reasonCode, d) <- dUint8 d;
  do (serverKey, d) <- dString d;
  do (salt, d) <- dString d;
  do (nodeId, d) <- (if 4 <=? v then dUint64 d else Some (0, d));
  Some (FConnack fl serverVersion timeDiff reasonCode nodeId serverKey salt).

Definition decodeSend (fl : flags) (data : bytes) (v : N) : option frame :=
  do (setting, d) <- dUint8 data;
  do (clientSeq, d) <- dUint32 d;
  do (clientMsgNo, d) <- dString d;
  do (streamNo, d) <- (if has_stream v setting then dString d else Some ([], d));
  do (channelID, d) <- dString d;
  do (channelType, d) <- dUint8 d;
  do (expire, d) <- (if 3 <=? v then dUint32 d else Some (0, d));
  do (msgKey, d) <- dString d;
  do (topic, d) <- (if IsSet setting SettingTopic then dString d else Some ([], d));
  do (payload, d) <- dBinaryAll d;
  Some (FSend fl setting expire clientSeq channelType msgKey clientMsgNo streamNo channelID topic payload).

(* sendack.go: (clientMsgNo, messageSeq, reasonCode) *)
Definition decodeSendackBodyCoreFirst (data : bytes) (v : N) : option (bytes * N * N) :=
  do (messageSeq, d) <- decodeMessageSeq data v;
  do (reasonCode, d) <- dUint8 d;
  do (clientMsgNo, d) <- (if 0 <? blen d then dString d else Some ([], d));
  if blen d =? 0 then Some (clientMsgNo, messageSeq, reasonCode) else None.

Definition decodeSendackBodyClientMsgNoFirst (data : bytes) (v : N) : option (bytes * N * N) :=
  do (clientMsgNo, d) <- dString data;
  do (messageSeq, d) <- decodeMessageSeq d v;
  do (reasonCode, d) <- dUint8 d;
  if blen d =? 0 then Some (clientMsgNo, messageSeq, reasonCode) else None.

Definition decodeSendackBody (data : bytes) (v : N) : option (bytes * N * N) :=
  match decodeSendackBodyCoreFirst data v with
  | Some r => Some r
  | None => decodeSendackBodyClientMsgNoFirst data v
  end.

Definition decodeSendack (fl : flags) (data : bytes) (v : N) : option frame :=
  do (messageID, d) <- dUint64 data;
  do (clientSeq, d) <- dUint32 d;
  do (body, d) <- dBinaryAll d;
  match decodeSendackBody body v with
  | Some (clientMsgNo, messageSeq, reasonCode) =>
      Some (FSendack fl messageID messageSeq clientSeq reasonCode clientMsgNo)
  | None => None
  end.

Definition decodeRecv (fl : flags) (data : bytes) (v : N) : option frame :=
  do (setting, d) <- dUint8 data;
  do (msgKey, d) <- dString d;
  do (fromUID, d) <- dString d;
  do (channelID, d) <- dString d;
  do (channelType, d) <- dUint8 d;
  do (expire, d) <- (if 3 <=? v then dUint32 d else Some (0, d));
  do (clientMsgNo, d) <- dString d;
  do (streamFlag, d) <- (if has_stream v setting then dUint8 d else Some (0, d));
  do (streamNo, d) <- (if has_stream v setting then dString d else Some ([], d));
  do (streamId, d) <- (if has_stream v setting then dUint64 d else Some (0, d));
  do (messageID, d) <- dUint64 d;
  do (messageSeq, d) <- decodeMessageSeq d v;
  do (timestamp, d) <- dUint32 d;
  do (topic, d) <- (if IsSet setting SettingTopic then dString d else Some ([], d));
  do (payload, d) <- dBinaryAll d;
  Some (FRecv fl setting expire messageID messageSeq streamId streamFlag timestamp channelType 0
              msgKey clientMsgNo streamNo channelID topic fromUID payload).

Definition decodeRecvack (fl : flags) (data : bytes) (v : N) : option frame :=
  do (messageID, d) <- dUint64 data;
  do (messageSeq, d) <- decodeMessageSeq d v;
  Some (FRecvack fl messageID messageSeq).

Definition decodeDisConnect (fl : flags) (data : bytes) (v : N) : option frame :=
  do (reasonCode, d) <- dUint8 data;
  do (reason, d) <- dString d;
  Some (FDisconnect fl reasonCode reason).

Definition decodeSub (fl : flags) (data : bytes) (v : N) : option frame :=
  do (setting, d) <- dUint8 data;
  do (subNo, d) <- dString d;
  do (channelID, d) <- dString d;
  do (channelType, d) <- dUint8 d;
  do (action, d) <- dUint8 d;
  do (param, d) <- dString d;
  Some (FSub fl setting channelType action subNo channelID param).

Definition decodeSuback (fl : flags) (data : bytes) (v : N) : option frame :=
  do (subNo, d) <- dString data;
  do (channelID, d) <- dString d;
  do (channelType, d) <- dUint8 d;
  do (action, d) <- dUint8 d;
  do (reasonCode, d) <- dUint8 d;
  Some (FSuback fl channelType action reasonCode subNo channelID).

Definition decodeEvent (fl : flags) (data : bytes) (v : N) : option frame :=
  do (id, d) <- dString data;
  do (type, d) <- dString d;
  do (timestamp, d) <- dUint64 d;
  do (dt, d) <- dBinaryAll d;
  Some (FEvent fl timestamp id type dt).

(* packetDecodeMap *)
Definition packetDecodeMap (ft : N) : option (flags -> bytes -> N -> option frame) :=
  if ft =? CONNECT then Some decodeConnect
  else if ft =? CONNACK then Some decodeConnack
  else if ft =? SEND then Some decodeSend
  else if ft =? SENDACK then Some decodeSendack
  else if ft =? RECV then Some decodeRecv
  else if ft =? RECVACK then Some decodeRecvack
  else if ft =? DISCONNECT then Some decodeDisConnect
  else if ft =? SUB then Some decodeSub
  else if ft =? SUBACK then Some decodeSuback
  else if ft =? EVENT then Some decodeEvent
  else None.

(* ---- DecodeFrame (protocol.go) ---------------------------------------------- *)

(* the bookkeeping fields of the decoded Framer *)
Record meta := Meta { m_type : N; m_remlen : N; m_fsize : N; m_end : bool }.

Inductive dec_result :=
| DFrame (f : frame) (m : meta) (n : N)   (* frame, consumed *)
| DNeed                                   (* (nil, 0, nil): wait for more data *)
| DErr                                    (* (nil, 0, err) *)
| DPanic.                                 (* index out of range on empty input *)

Definition DecodeFrame (data : bytes) (version : N) : dec_result :=
  match data with
  | [] => DPanic                                    (* decodeFramer reads data[0] *)
  | b :: rest =>
    let '(ft, fl) := FramerFromUint8 b in
    let fsize := blen data in
    (* decodeFramer: errDecodeLength gives the zero Framer (type UNKNOWN) *)
    let framer :=
      if (ft =? PING) || (ft =? PONG) then Some (0, 0) else decodeLength rest in
    match framer with
    | None => DNeed
    | Some (rl, rll) =>
      if ft =? UNKNOWN then DNeed
      else if ft =? PING then DFrame (FPing fl) (Meta ft rl fsize false) 1
      else if ft =? PONG then DFrame (FPong fl) (Meta ft rl fsize false) 1
      else if MaxRemaingLength <? rl then DErr
      else
        let msgLen := rl + 1 + rll in
        if fsize <? msgLen then DNeed
        else
          let body := firstn (N.to_nat rl) (skipn (N.to_nat (1 + rll)) data) in
          match packetDecodeMap ft with
          | None => DErr
          | Some dec =>
            match dec fl body version with
            | None => DErr
            | Some f => DFrame f (Meta ft rl fsize false) (1 + rll + rl)
            end
          end
    end
  end.

(* ---- the gateway adapter (pkg/gateway/protocol/wkproto/adapter.go) ---------- *)

(* sessionVersion(sess, false): unset or 0 means LatestVersion *)
Definition sessionVersion_inbound (sv : option N) : N :=
  match sv with
  | Some v => if v =? 0 then LatestVersion else v
  | None => LatestVersion
  end.

Inductive adapter_result :=
| AOk (fs : list (frame * meta)) (consumed : N)
| AErr
| APanic.

(* the loop [for consumed < len(in)] on the unread suffix in[consumed:] *)
Fixpoint adapter_loop (fuel : nat) (rest : bytes) (v : N) : adapter_result :=
  match fuel with
  | O => AOk [] 0
  | S k =>
    match rest with
    | [] => AOk [] 0
    | _ =>
      match DecodeFrame rest v with
      | DErr => AErr
      | DPanic => APanic
      | DNeed => AOk [] 0
      | DFrame f m n =>
        if n =? 0 then AOk [] 0
        else match adapter_loop k (skipn (N.to_nat n) rest) v with
             | AOk fs c => AOk ((f, m) :: fs) (n + c)
             | e => e
             end
      end
    end
  end.

(* Adapter.Decode for a session without encryption (decryption of SEND payloads
   is not modelled; detachSendPayload is the identity on values) *)
Definition Adapter_Decode (sv : option N) (inp : bytes) : adapter_result :=
  adapter_loop (length inp) inp (sessionVersion_inbound sv).

(* ---- gateway buffering (pkg/gateway/core/server.go onData) ------------------ *)

Record gw_state := GW { gw_inbound : bytes; gw_closed : bool; gw_panicked : bool }.
Definition gw_init : gw_state := GW [] false false.

Inductive dif_result := DifClosed | DifPanic | DifNotOk | DifOk (fs : list (frame * meta)) (consumed : N).

(* decodeInboundFrames *)
Definition decodeInboundFrames (sv : option N) (data : bytes) : dif_result :=
  match Adapter_Decode sv data with
  | AErr => DifClosed
  | APanic => DifPanic
  | AOk fs consumed =>
    if blen data <? consumed then DifClosed
    else if (consumed =? 0) then (match fs with [] => DifNotOk | _ => DifClosed end)
    else DifOk fs consumed
  end.

(* the [for !state.isClosed()] loop; dispatch of frames never closes the state here *)
Fixpoint onData_loop (fuel : nat) (sv : option N) (inbound : bytes) (acc : list (list (frame * meta)))
  : gw_state * list (list (frame * meta)) :=
  match fuel with
  | O => (GW inbound false false, rev acc)
  | S k =>
    match decodeInboundFrames sv inbound with
    | DifClosed => (GW inbound true false, rev acc)
    | DifPanic => (GW inbound true true, rev acc)
    | DifNotOk => (GW inbound false false, rev acc)
    | DifOk fs consumed => onData_loop k sv (skipn (N.to_nat consumed) inbound) (fs :: acc)
    end
  end.

Definition over_limit (limit : N) (n : N) : bool := (0 <? limit) && (limit <? n).

(* onData: returns the new state and the batches handed to dispatchInboundFrames *)
Definition onData (limit : N) (sv : option N) (st : gw_state) (data : bytes)
  : gw_state * list (list (frame * meta)) :=
  if gw_closed st then (st, [])
  else
    match gw_inbound st with
    | [] =>
      if over_limit limit (blen data) then (GW [] true false, [])
      else
        match decodeInboundFrames sv data with
        | DifClosed => (GW [] true false, [])
        | DifPanic => (GW [] true true, [])
        | DifNotOk => (GW data false false, [])
        | DifOk fs consumed =>
          if consumed =? blen data then (GW [] false false, [fs])
          else
            let inbound := skipn (N.to_nat consumed) data in
            if over_limit limit (blen inbound) then (GW inbound true false, [fs])
            else onData_loop (S (length inbound)) sv inbound [fs]
        end
    | _ =>
      let inbound := gw_inbound st ++ data in
      if over_limit limit (blen inbound) then (GW inbound true false, [])
      else onData_loop (S (length inbound)) sv inbound []
    end.

(* a whole connection: the chunks in order *)
Fixpoint feed (limit : N) (sv : option N) (st : gw_state) (chunks : list bytes)
  : gw_state * list (list (frame * meta)) :=
  match chunks with
  | [] => (st, [])
  | c :: cs =>
    let '(st1, b1) := onData limit sv st c in
    let '(st2, b2) := feed limit sv st1 cs in
    (st2, b1 ++ b2)
  end.

(* ---- protocol limits and what the wire carries (specification side) --------- *)

Definition str_ok (s : bytes) : bool := blen s <=? MaxInt16.
Definition u8 (x : N) : bool := x <? 256.
Definition u32 (x : N) : bool := x <=? u32max.
Definition u64 (x : N) : bool := x <=? u64max.
Definition seq_ok (v x : N) : bool := if v <=? LegacyMessageSeqVersion then u32 x else u64 x.

(* the Go field types, the string limit of WriteString, PayloadMaxSize for SEND,
   ClientSeq < 2^32 where it travels as a uint32, MessageSeq representable at
   the version, and the body no longer than MaxRemaingLength *)
Definition fields_ok (v : N) (f : frame) : bool :=
  match f with
  | FConnect _ ver dfl ts ck did uid tok =>
      u8 ver && u8 dfl && u64 ts && str_ok ck && str_ok did && str_ok uid && str_ok tok
  | FConnack _ sv td rc nid sk salt =>
      u8 sv && u64 td && u8 rc && u64 nid && str_ok sk && str_ok salt
  | FSend _ st ex cs ct mk cmn sn cid tp pl =>
      u8 st && u32 ex && u32 cs && u8 ct && str_ok mk && str_ok cmn && str_ok sn && str_ok cid
      && str_ok tp && (blen pl <=? PayloadMaxSize)
  | FSendack _ mid ms cs rc cmn =>
      u64 mid && seq_ok v ms && u32 cs && u8 rc && str_ok cmn
  | FRecv _ st ex mid ms sid sfl ts ct cs mk cmn sn cid tp fu pl =>
      u8 st && u32 ex && u64 mid && seq_ok v ms && u64 sid && u8 sfl && u32 ts && u8 ct && u64 cs
      && str_ok mk && str_ok cmn && str_ok sn && str_ok cid && str_ok tp && str_ok fu
  | FRecvack _ mid ms => u64 mid && seq_ok v ms
  | FPing _ | FPong _ => true
  | FDisconnect _ rc rs => u8 rc && str_ok rs
  | FSub _ st ct ac sn cid pm => u8 st && u8 ct && u8 ac && str_ok sn && str_ok cid && str_ok pm
  | FSuback _ ct ac rc sn cid => u8 ct && u8 ac && u8 rc && str_ok sn && str_ok cid
  | FEvent _ ts id ty dt => u64 ts && str_ok id && str_ok ty
  end.

Definition within_limits (v : N) (f : frame) : bool :=
  fields_ok v f && (fst (encodedFrameBodySize f v) <=? MaxRemaingLength).

(* flags that survive the fixed header of the frame type *)
Definition normalize_flags (ft : N) (fl : flags) : flags :=
  if ft =? CONNACK then Flags (f_hsv fl) false false false (f_hsv fl)
  else if (ft =? PING) || (ft =? PONG) then Flags false false false false false
  else Flags (f_nopersist fl) (f_reddot fl) (f_synconce fl) (f_dup fl) false.

(* the frame the peer sees: fields the version does not carry are zero *)
Definition normalize (v : N) (f : frame) : frame :=
  let nf := normalize_flags (frame_type f) in
  match f with
  | FConnect fl ver dfl ts ck did uid tok => FConnect (nf fl) ver dfl ts ck did uid tok
  | FConnack fl sv td rc nid sk salt =>
      FConnack (nf fl) (if f_hsv fl then sv else 0) td rc (if 4 <=? v then nid else 0) sk salt
  | FSend fl st ex cs ct mk cmn sn cid tp pl =>
      FSend (nf fl) st (if 3 <=? v then ex else 0) cs ct mk cmn
            (if has_stream v st then sn else []) cid (if IsSet st SettingTopic then tp else []) pl
  | FSendack fl mid ms cs rc cmn => FSendack (nf fl) mid ms cs rc cmn
  | FRecv fl st ex mid ms sid sfl ts ct cs mk cmn sn cid tp fu pl =>
      FRecv (nf fl) st (if 3 <=? v then ex else 0) mid ms
            (if has_stream v st then sid else 0) (if has_stream v st then sfl else 0) ts ct 0
            mk cmn (if has_stream v st then sn else []) cid (if IsSet st SettingTopic then tp else []) fu pl
  | FRecvack fl mid ms => FRecvack (nf fl) mid ms
  | FPing fl => FPing (nf fl)
  | FPong fl => FPong (nf fl)
  | FDisconnect fl rc rs => FDisconnect (nf fl) rc rs
  | FSub fl st ct ac sn cid pm => FSub (nf fl) st ct ac sn cid pm
  | FSuback fl ct ac rc sn cid => FSuback (nf fl) ct ac rc sn cid
  | FEvent fl ts id ty dt => FEvent (nf fl) ts id ty dt
  end.

(* ---- decidable equalities ---------------------------------------------------- *)

Definition flags_eqb (a b : flags) : bool :=
  Bool.eqb (f_nopersist a) (f_nopersist b) && Bool.eqb (f_reddot a) (f_reddot b)
  && Bool.eqb (f_synconce a) (f_synconce b) && Bool.eqb (f_dup a) (f_dup b)
  && Bool.eqb (f_hsv a) (f_hsv b).

Definition frame_eqb (a b : frame) : bool :=
  match a, b with
  | FConnect fl n1 n2 n3 s1 s2 s3 s4, FConnect fl' m1 m2 m3 t1 t2 t3 t4 =>
      flags_eqb fl fl' && (n1 =? m1) && (n2 =? m2) && (n3 =? m3)
      && bytes_eqb s1 t1 && bytes_eqb s2 t2 && bytes_eqb s3 t3 && bytes_eqb s4 t4
  | FConnack fl n1 n2 n3 n4 s1 s2, FConnack fl' m1 m2 m3 m4 t1 t2 =>
      flags_eqb fl fl' && (n1 =? m1) && (n2 =? m2) && (n3 =? m3) && (n4 =? m4)
      && bytes_eqb s1 t1 && bytes_eqb s2 t2
  | FSend fl n1 n2 n3 n4 s1 s2 s3 s4 s5 s6, FSend fl' m1 m2 m3 m4 t1 t2 t3 t4 t5 t6 =>
      flags_eqb fl fl' && (n1 =? m1) && (n2 =? m2) && (n3 =? m3) && (n4 =? m4)
      && bytes_eqb s1 t1 && bytes_eqb s2 t2 && bytes_eqb s3 t3 && bytes_eqb s4 t4
      && bytes_eqb s5 t5 && bytes_eqb s6 t6
  | FSendack fl n1 n2 n3 n4 s1, FSendack fl' m1 m2 m3 m4 t1 =>
      flags_eqb fl fl' && (n1 =? m1) && (n2 =? m2) && (n3 =? m3) && (n4 =? m4) && bytes_eqb s1 t1
  | FRecv fl n1 n2 n3 n4 n5 n6 n7 n8 n9 s1 s2 s3 s4 s5 s6 s7,
    FRecv fl' m1 m2 m3 m4 m5 m6 m7 m8 m9 t1 t2 t3 t4 t5 t6 t7 =>
      flags_eqb fl fl' && (n1 =? m1) && (n2 =? m2) && (n3 =? m3) && (n4 =? m4) && (n5 =? m5)
      && (n6 =? m6) && (n7 =? m7) && (n8 =? m8) && (n9 =? m9)
      && bytes_eqb s1 t1 && bytes_eqb s2 t2 && bytes_eqb s3 t3 && bytes_eqb s4 t4
      && bytes_eqb s5 t5 && bytes_eqb s6 t6 && bytes_eqb s7 t7
  | FRecvack fl n1 n2, FRecvack fl' m1 m2 => flags_eqb fl fl' && (n1 =? m1) && (n2 =? m2)
  | FPing fl, FPing fl' => flags_eqb fl fl'
  | FPong fl, FPong fl' => flags_eqb fl fl'
  | FDisconnect fl n1 s1, FDisconnect fl' m1 t1 => flags_eqb fl fl' && (n1 =? m1) && bytes_eqb s1 t1
  | FSub fl n1 n2 n3 s1 s2 s3, FSub fl' m1 m2 m3 t1 t2 t3 =>
      flags_eqb fl fl' && (n1 =? m1) && (n2 =? m2) && (n3 =? m3)
      && bytes_eqb s1 t1 && bytes_eqb s2 t2 && bytes_eqb s3 t3
  | FSuback fl n1 n2 n3 s1 s2, FSuback fl' m1 m2 m3 t1 t2 =>
      flags_eqb fl fl' && (n1 =? m1) && (n2 =? m2) && (n3 =? m3) && bytes_eqb s1 t1 && bytes_eqb s2 t2
  | FEvent fl n1 s1 s2 s3, FEvent fl' m1 t1 t2 t3 =>
      flags_eqb fl fl' && (n1 =? m1) && bytes_eqb s1 t1 && bytes_eqb s2 t2 && bytes_eqb s3 t3
  | _, _ => false
  end.

Definition meta_eqb (a b : meta) : bool :=
  (m_type a =? m_type b) && (m_remlen a =? m_remlen b) && (m_fsize a =? m_fsize b)
  && Bool.eqb (m_end a) (m_end b).

Definition enc_result_eqb (a b : enc_result) : bool :=
  match a, b with
  | EncOk x, EncOk y => bytes_eqb x y
  | EncErr, EncErr | EncPanic, EncPanic => true
  | _, _ => false
  end.

Definition dec_result_eqb (a b : dec_result) : bool :=
  match a, b with
  | DFrame f m n, DFrame f' m' n' => frame_eqb f f' && meta_eqb m m' && (n =? n')
  | DNeed, DNeed | DErr, DErr | DPanic, DPanic => true
  | _, _ => false
  end.

Definition fm_eqb (a b : frame * meta) : bool := frame_eqb (fst a) (fst b) && meta_eqb (snd a) (snd b).

Definition adapter_result_eqb (a b : adapter_result) : bool :=
  match a, b with
  | AOk fs c, AOk fs' c' => list_eqb fm_eqb fs fs' && (c =? c')
  | AErr, AErr | APanic, APanic => true
  | _, _ => false
  end.

(* ---- C22 case-file interface --------------------------------------------------
   one case = version, frame, tail and what the implementation returned:
   encodedFrameSize, EncodeFrame, DecodeFrame (encoded ++ tail) (None when the
   encoder failed), and whether the encoder left its argument unchanged. *)
Record c22_case := C22Case {
  c22_v : N; c22_f : frame; c22_tail : bytes;
  c22_size : N; c22_enc : enc_result; c22_dec : option dec_result; c22_unchanged : bool }.

Definition C22_mismatch (c : c22_case) : bool :=
  negb ((encodedFrameSize (c22_f c) (c22_v c) =? c22_size c)
        && enc_result_eqb (EncodeFrame (c22_f c) (c22_v c)) (c22_enc c)
        && match c22_enc c, c22_dec c with
           | EncOk bs, Some d => dec_result_eqb (DecodeFrame (bs ++ c22_tail c) (c22_v c)) d
           | EncOk _, None => false
           | _, None => true
           | _, Some _ => false
           end).

(* The property on the implementation's observations alone: for a frame within
   the protocol limits the encoder succeeds, the decoder returns the frame
   (fields the version does not carry zeroed: [normalize]) with the frame type
   in its Framer, consumes exactly the encoded length whatever follows, the
   precomputed size is the number of bytes produced, and the argument is not
   modified. *)
Definition C22_monitor (c : c22_case) : N :=
  if within_limits (c22_v c) (c22_f c) then
    match c22_enc c, c22_dec c with
    | EncOk bs, Some (DFrame f' m n) =>
        if frame_eqb f' (normalize (c22_v c) (c22_f c))
           && (n =? blen bs) && (c22_size c =? blen bs)
           && (m_type m =? frame_type (c22_f c)) && c22_unchanged c
        then 0 else 1
    | _, _ => 1
    end
  else 0.
