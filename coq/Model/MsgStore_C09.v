(* MsgStore_C09.v — case record, correspondence check and property monitor of C09:
   "storage mutations are crash-atomic".

   A case is a history (C07 shape, no dumps) run on a crash-simulating file
   system, plus the recovered states of the crash clones taken during the run.
   A recovered state comes with labels (lo, hi, pct): when the clone was taken
   [lo] ops of the history had returned and at most [hi] had started ([pct] = share
   of unsynced data that survived).  Identical recovered states are grouped.

   Correspondence: the recovered physical keys equal the model's store after j
   ops for some lo <= j <= hi, for every label.
   Monitor (implementation alone): for every label there is a j in [lo, hi] such
   that the recovered rows, log ends (LEO read through the API after recovery),
   checkpoints and epoch points of all channels are exactly those of the plain
   sequential logs (C07 specification) after j ops -- each mutation entirely
   present or entirely absent, every returned mutation present -- and the
   recovered keys satisfy the index invariant [kv_inv]. *)
From WK Require Import Base.Base Model.KV Gen.Consts_C07 Model.MsgStore Model.MsgStore_C07.

Inductive crash := Cr (labels : list (N * N * N)) (leos : list N) (kv : list kvent).

Record c09_case := C09Case { c9_hist : c07_case; c9_crashes : list crash }.

(* ---- model side: the store after every prefix of the history --------------------------- *)

Fixpoint run_kvs (st : xstate) (ops : list op) : list kvs :=
  st_kv _ st ::
  match ops with
  | [] => []
  | o :: rest => let '(st1, _, _) := step_dump xfilter [] x_may x_add true st o in run_kvs st1 rest
  end.

Fixpoint nth_or {A} (d : A) (n : nat) (l : list A) : A :=
  match n, l with
  | O, x :: _ => x
  | S n', _ :: r => nth_or d n' r
  | _, [] => d
  end.

(* is there a j in [lo, hi] with p j ? *)
Fixpoint exists_between (p : nat -> bool) (lo : nat) (len : nat) : bool :=
  match len with
  | O => p lo
  | S len' => p lo || exists_between p (S lo) len'
  end.

Definition label_ok (p : nat -> bool) (l : N * N * N) : bool :=
  let '(lo, hi, _) := l in
  (lo <=? hi) && exists_between p (N.to_nat lo) (N.to_nat (hi - lo)).

Definition crash_agrees (kvss : list kvs) (c : crash) : bool :=
  match c with
  | Cr labels _ kv =>
    forallb (label_ok (fun j => (j <? length kvss)%nat && kv_agree kv (nth_or [] j kvss))) labels
  end.

Definition C09_mismatch (c : c09_case) : bool :=
  let h := c9_hist c in
  let ops := map entry_op (c_steps h) in
  C07_mismatch h
  || negb (forallb (crash_agrees (run_kvs xinit ops)) (c9_crashes c)).

(* ---- monitor ------------------------------------------------------------------------------ *)

(* the plain logs after every prefix; None once the history itself is not a sequential-log run *)
Fixpoint spec_states (s : aspec) (tr : list entry) : option (list aspec) :=
  match tr with
  | [] => Some [s]
  | e :: rest =>
    match spec_step s e with
    | None => None
    | Some s' => match spec_states s' rest with Some l => Some (s :: l) | None => None end
    end
  end.

Definition ent_rows (kv : list kvent) (c : N) : list msg :=
  sort_by m_seq
    (flat_map (fun e => match e with
                        | KRow c' q i c2 cno uid h pl ts _ => if c' =? c then [M q i c2 cno uid h pl ts] else []
                        | _ => []
                        end) kv).

Definition ent_ck (kv : list kvent) (c : N) : option (N * N * N) :=
  match flat_map (fun e => match e with KCkpt c' a b d => if c' =? c then [(a, b, d)] else [] | _ => [] end) kv with
  | x :: _ => Some x
  | [] => None
  end.

Definition ent_ret (kv : list kvent) (c : N) : option (N * N * N) :=
  match flat_map (fun e => match e with KRet c' a b d => if c' =? c then [(a, b, d)] else [] | _ => [] end) kv with
  | x :: _ => Some x
  | [] => None
  end.

Definition ent_hist (kv : list kvent) (c : N) : list (N * N) :=
  sort_pairs (flat_map (fun e => match e with KHist c' o ep => if c' =? c then [(o, ep)] else [] | _ => [] end) kv).

(* the recovered store shows exactly the plain logs [s] *)
Definition recovered_is (kv : list kvent) (leos : list N) (s : aspec) : bool :=
  forallb (fun c =>
             let l := as_log s c in
             msgs_eqb (ent_rows kv c) (amsgs l)
             && (nth_or 0 (N.to_nat c) leos =? al_leo l)
             && option_eqb triple_eqb (ent_ck kv c) (al_ck l)
             && list_eqb npair_eqb (ent_hist kv c) (al_hist l)) all_chans.

Definition has_row (kv : list kvent) (p : N -> N -> N -> bytes -> bytes -> N -> N -> bool) : bool :=
  existsb (fun e => match e with
                    | KRow c q i _ cno uid h _ _ fl => p c q i cno uid h fl
                    | _ => false
                    end) kv.

(* index invariant of a recovered store: every index entry points at a stored
   row with those fields (nothing dangles), every stored row has its index
   entries (ids / pairs tainted by a trusted duplicate excepted), the retention
   state is well formed, no row at or below the physical retention boundary, the
   log end is the last row or the retained maximum, and nothing undecodable *)
Definition kv_inv (kv : list kvent) (leos : list N) (taint : aspec) : bool :=
  forallb (fun e =>
    match e with
    | KBad _ | KOther _ => false
    | KGid i c2 q => has_row kv (fun c q' i' _ _ _ _ => (c =? c2) && (q' =? q) && (i' =? i))
    | KCidx c cno q v =>
      (v =? q) && has_row kv (fun c' q' _ cno' uid' _ _ => (c' =? c) && (q' =? q) && bytes_eqb cno' cno && is_nil uid')
    | KIdem c cno uid q i h =>
      has_row kv (fun c' q' i' cno' uid' h' _ => (c' =? c) && (q' =? q) && (i' =? i) && (h' =? h)
                                                 && bytes_eqb cno' cno && bytes_eqb uid' uid)
    | KSseq c uid q i =>
      has_row kv (fun c' q' i' _ uid' _ fl => (c' =? c) && (q' =? q) && (i' =? i) && bytes_eqb uid' uid
                                               && (N.land fl syncOnceFlag =? 0))
    | KRow c q i c2 cno uid h pl _ fl =>
      (c2 =? c) && negb (i =? 0) && (h =? hashPayload pl) && (1 <=? q)
      && (existsb (N.eqb i) (as_tids taint)
          || existsb (fun e' => match e' with KGid i' c' q' => (i' =? i) && (c' =? c) && (q' =? q) | _ => false end) kv)
      && (negb (negb (is_nil cno) && is_nil uid)
          || existsb (fun e' => match e' with KCidx c' cno' q' _ => (c' =? c) && (q' =? q) && bytes_eqb cno' cno | _ => false end) kv)
      && (negb (both_nonempty uid cno) || pair_tainted (as_log taint c) uid cno
          || existsb (fun e' => match e' with
                                | KIdem c' cno' uid' q' _ _ => (c' =? c) && (q' =? q) && bytes_eqb cno' cno && bytes_eqb uid' uid
                                | _ => false end) kv)
      && (negb (negb (is_nil uid) && (N.land fl syncOnceFlag =? 0))
          || existsb (fun e' => match e' with KSseq c' uid' q' _ => (c' =? c) && (q' =? q) && bytes_eqb uid' uid | _ => false end) kv)
      && existsb (fun e' => match e' with KCat c' _ => c' =? c | _ => false end) kv
      && match ent_ret kv c with Some (_, p, _) => p <? q | None => true end
    | KRet c l p r => (p <=? l) && (l <=? r) && negb (l =? 0)
    | KCkpt _ _ lso hw => lso <=? hw
    | KCat c c2 => c =? c2
    | KHist _ _ ep => negb (ep =? 0)
    end) kv
  && forallb (fun c =>
       let last := match rev (ent_rows kv c) with m :: _ => m_seq m | [] => 0 end in
       let rmax := match ent_ret kv c with Some (_, _, r) => r | None => 0 end in
       nth_or 0 (N.to_nat c) leos =? N.max last rmax) all_chans.

Definition crash_ok (states : list aspec) (c : crash) : bool :=
  match c with
  | Cr labels leos kv =>
    forallb (label_ok (fun j => (j <? length states)%nat && recovered_is kv leos (nth_or as_init j states))) labels
    && kv_inv kv leos (nth_or as_init (pred (length states)) states)
  end.

Definition C09_monitor (c : c09_case) : N :=
  match spec_states as_init (c_steps (c9_hist c)) with
  | None => 1
  | Some states => if forallb (crash_ok states) (c9_crashes c) then 0 else 1
  end.
