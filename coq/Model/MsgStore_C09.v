(* MsgStore_C09.v — case record, correspondence check and property monitor of C09:
   "storage mutations are crash-atomic".

   A case is a history (C07 shape, no dumps) run on a crash-simulating file
   system, plus the recovered states of the crash clones taken during the run.
   A recovered state comes with labels (lo, hi, pct): when the clone was taken
   [lo] ops of the history had returned and at most [hi] had started ([pct] = share
   of unsynced data that survived).  Identical recovered states are grouped.

   Correspondence: the recovered physical keys equal the model's store after j
   ops for some lo <= j <= hi, for every label.
   Monitor (implementation alone): for every label there is a j in [lo, hi] such
   that the recovered rows, log ends (LEO read through the API after recovery),
   checkpoints and epoch points of all channels are exactly those of the plain
   sequential logs (C07 specification) after j ops -- each mutation entirely
   present or entirely absent, every returned mutation present -- and the
   recovered keys satisfy the index invariant [kv_inv]. *)
From WK Require Import Base.Base Model.KV Gen.Consts_C07 Model.MsgStore Model.MsgStore_C07.

Inductive crash := Cr (labels : list (N * N * N)) (leos : list N) (kv : list kvent).

Record c09_case := C09Case { c9_hist : c07_case; c9_crashes : list crash }.

(* ---- model side: the store after every prefix of the history --------------------------- *)

Fixpoint run_kvs (st : xstate) (ops : list op) : list kvs :=
  st_kv _ st ::
  match ops with
  | [] => []
  | o :: rest => let '(st1, _, _) := step_dump xfilter [] x_may x_add true st o in run_kvs st1 rest
  end.

Fixpoint nth_or {A} (d : A) (n : nat) (l : list A) : A :=
  match n, l with
  | O, x :: _ => x
  | S n', _ :: r => nth_or d n' r
  | _, [] => d
  end.

(* is there a j in [lo, hi] with p j ? *)
Fixpoint exists_between (p : nat -> bool) (lo : nat) (len : nat) : bool :=
  match len with
  | O => p lo
  | S len' => p lo || exists_between p (S lo) len'
  end.

Definition label_ok (p : nat -> bool) (l : N * N * N) : bool :=
  let '(lo, hi, _) := l in
  (lo <=? hi) && exists_between p (N.to_nat lo) (N.to_nat (hi - lo)).

(* ... or the stop fell INSIDE op number j (0-based: j ops had returned, op j had
   started, lo <= j < hi) and [q j] accepts the recovered state as a state between
   two of the batches of that op (paged ops only) *)
Definition label_ok2 (p q : nat -> bool) (l : N * N * N) : bool :=
  let '(lo, hi, _) := l in
  label_ok p l || ((lo <? hi) && exists_between q (N.to_nat lo) (N.to_nat (hi - lo - 1))).

(* the stores strictly between the batches one op committed (st -> st1) *)
Definition op_mids (st st1 : xstate) : list kvs :=
  let bs := skipn (length (st_log _ st)) (st_log _ st1) in
  map (fun k => run_batches key_eqb (st_kv _ st) (firstn k bs)) (seq 1 (length bs - 1)).

Fixpoint run_mids (st : xstate) (ops : list op) : list (list kvs) :=
  match ops with
  | [] => []
  | o :: rest => let '(st1, _, _) := step_dump xfilter [] x_may x_add true st o in
                 op_mids st st1 :: run_mids st1 rest
  end.

Definition crash_agrees (kvss : list kvs) (midss : list (list kvs)) (c : crash) : bool :=
  match c with
  | Cr labels _ kv =>
    forallb (label_ok2 (fun j => (j <? length kvss)%nat && kv_agree kv (nth_or [] j kvss))
                       (fun j => existsb (kv_agree kv) (nth_or [] j midss))) labels
  end.

Definition C09_mismatch (c : c09_case) : bool :=
  let h := c9_hist c in
  let ops := map entry_op (c_steps h) in
  C07_mismatch h
  || negb (forallb (crash_agrees (run_kvs xinit ops) (run_mids xinit ops)) (c9_crashes c)).

(* ---- monitor ------------------------------------------------------------------------------ *)

(* the plain logs after every prefix; None once the history itself is not a sequential-log run *)
Fixpoint spec_states (s : aspec) (tr : list entry) : option (list aspec) :=
  match tr with
  | [] => Some [s]
  | e :: rest =>
    match spec_step s e with
    | None => None
    | Some s' => match spec_states s' rest with Some l => Some (s :: l) | None => None end
    end
  end.

(* the recovered physical keys as a store (None: an undecodable or foreign key) *)
Fixpoint kvs_of_ents (l : list kvent) : option kvs :=
  match l with
  | [] => Some []
  | e :: r => match kv_of_ent e, kvs_of_ents r with
              | Some kv, Some rest => Some (kv :: rest)
              | _, _ => None
              end
  end.

(* the recovered store shows exactly the plain logs [s]: rows, log end (read
   through the API after recovery), checkpoint and epoch points of every channel *)
Definition recovered_is (kv : kvs) (leos : list N) (s : aspec) : bool :=
  forallb (fun c =>
             let l := as_log s c in
             msgs_eqb (map messageFromRow (rows_of kv c)) (amsgs l)
             && (nth_or 0 (N.to_nat c) leos =? al_leo l)
             && option_eqb triple_eqb (loadCheckpoint kv c) (al_ck l)
             && list_eqb npair_eqb (loadHistory kv c) (al_hist l)) all_chans.

Definition has_key (kv : kvs) (k : key) : bool := match kget k kv with Some _ => true | None => false end.

(* index invariant of one binding of a recovered store: every index entry points
   at a stored row with those fields (nothing dangles); every stored row is well
   formed, lies above the physical retention boundary and has its index entries
   (ids / pairs tainted by a trusted duplicate excepted); the retention state is
   well formed *)
Definition chk_entry (kv : kvs) (taint : aspec) (b : key * value) : bool :=
  match b with
  | (KyGid i, VGid c q) =>
    match kget (KyRow c q) kv with Some (VRow r) => r_id r =? i | _ => false end
  | (KyCidx c n q, _) =>
    match kget (KyRow c q) kv with
    | Some (VRow r) => bytes_eqb (r_cno r) n && is_nil (r_uid r) && negb (is_nil n)
    | _ => false
    end
  | (KyIdem c n u, VIdem q i h) =>
    match kget (KyRow c q) kv with
    | Some (VRow r) => bytes_eqb (r_cno r) n && bytes_eqb (r_uid r) u && (r_id r =? i) && (r_hash r =? h)
                       && negb (is_nil n) && negb (is_nil u)
    | _ => false
    end
  | (KySseq c u q, _) =>
    match kget (KyRow c q) kv with
    | Some (VRow r) => bytes_eqb (r_uid r) u && negb (is_nil u) && (N.land (r_flags r) syncOnceFlag =? 0)
    | _ => false
    end
  | (KyRow c q, VRow r) =>
    (r_seq r =? q) && (r_ch r =? c) && negb (r_id r =? 0) && (r_hash r =? hashPayload (r_payload r)) && (1 <=? q)
    && mem_N c all_chans
    && (mem_N (r_id r) (as_tids taint)
        || match kget (KyGid (r_id r)) kv with Some (VGid c' q') => (c' =? c) && (q' =? q) | _ => false end)
    && (negb (negb (is_nil (r_cno r)) && is_nil (r_uid r)) || has_key kv (KyCidx c (r_cno r) q))
    && (negb (both_nonempty (r_uid r) (r_cno r)) || pair_tainted (as_log taint c) (r_uid r) (r_cno r)
        || match kget (KyIdem c (r_cno r) (r_uid r)) kv with
           | Some (VIdem q' i' h') => (q' =? q) && (i' =? r_id r) && (h' =? r_hash r)
           | _ => false
           end)
    && (negb (negb (is_nil (r_uid r)) && (N.land (r_flags r) syncOnceFlag =? 0)) || has_key kv (KySseq c (r_uid r) q))
    && match loadRetentionState kv c with Some (_, p, _) => p <? q | None => true end
  | (KyRet _, VTriple l p r) => (p <=? l) && (l <=? r) && negb (l =? 0)
  | _ => true
  end.

(* ... of the whole store, plus: the recovered log end is the last row or the retained maximum *)
Definition kv_inv (kv : kvs) (leos : list N) (taint : aspec) : bool :=
  forallb (chk_entry kv taint) kv
  && forallb (fun c => nth_or 0 (N.to_nat c) leos =? recoverLEO kv c) all_chans.

(* A stop INSIDE the paged DiscardForRestore of channel [c] (plain logs before the
   call: [s]): every other channel is exactly as before; of channel [c] a SUFFIX of
   the rows is left (whole pages are gone from the front), checkpoint and epoch
   points are still there; and the index invariant holds on the recovered keys --
   every message of the channel is there with its global-id / client-msg-no /
   idempotency / sender index entries, or not at all. *)
Fixpoint msgs_suffix (l full : list msg) : bool :=
  msgs_eqb l full || match full with [] => false | _ :: r => msgs_suffix l r end.

Definition mid_ok (kv : kvs) (leos : list N) (s : aspec) (c : N) : bool :=
  forallb (fun c' =>
             let l := as_log s c' in
             (if c' =? c then msgs_suffix (map messageFromRow (rows_of kv c')) (amsgs l)
              else msgs_eqb (map messageFromRow (rows_of kv c')) (amsgs l)
                   && (nth_or 0 (N.to_nat c') leos =? al_leo l))
             && option_eqb triple_eqb (loadCheckpoint kv c') (al_ck l)
             && list_eqb npair_eqb (loadHistory kv c') (al_hist l)) all_chans
  && kv_inv kv leos s.

Definition nth_entry (j : nat) (tr : list entry) : option entry := nth_error tr j.

Definition crash_ok (states : list aspec) (tr : list entry) (c : crash) : bool :=
  match c with
  | Cr labels leos ents =>
    match kvs_of_ents ents with
    | None => false
    | Some kv =>
      forallb (label_ok2 (fun j => (j <? length states)%nat && recovered_is kv leos (nth_or as_init j states)
                                   && kv_inv kv leos (nth_or as_init j states))
                         (fun j => match nth_entry j tr with
                                   | Some (E (ODiscard c) _ _) =>
                                     (j <? length states)%nat && mid_ok kv leos (nth_or as_init j states) c
                                   | _ => false
                                   end)) labels
    end
  end.

Definition C09_monitor (c : c09_case) : N :=
  match spec_states as_init (c_steps (c9_hist c)) with
  | None => 1
  | Some states => if forallb (crash_ok states (c_steps (c9_hist c))) (c9_crashes c) then 0 else 1
  end.
